(* History-level model behind C01 (a successful incremental build equals a clean build) and C02
   (convergence), for the fragment "AB" of the manifest language, on top of the validated scan
   model (ScanDefs.v).  ONLY definitions (conventions); theorems are in HistProofs.v.

   Fragment AB ([frag_AB]): explicit / implicit / order-only inputs, one or more outputs, phony
   statements, restat, generator; NO depfile / deps / dyndep / validations.

   Semantic state ([hstate]): the disk (mtime and abstract content per node), a logical clock (every
   write takes the fresh tick clock+1, like the in-memory disk of the engine harness), the build log
   (command hash, recorded mtime per output), the current command hashes of the manifest, and two
   GHOST fields the algorithm never reads: the input snapshot of the last run per output
   (Appendix D.4's last_writer) and the list of commands executed so far.

   Commands are a Section variable
        cmd : edge -> N (command hash) -> list (node * option content) -> node -> content
   : the content written to an output is a deterministic function of the statement, its command
   line and of what the non-order-only inputs contain when the command starts (None = no such
   file).  This is the assumption of the property ("commands are deterministic functions of the
   files they read"), together with "a command reads nothing but its declared non-order-only
   inputs" (wf_reads of DESIGN 8 C01; the fragment has no discovered dependencies).

   Build ([build]): one successful, SEQUENTIAL invocation.  [ScanDefs.scan] decides on the world
   derived from the state (mtimes from the disk, the build log, no deps log, no depfiles); the
   statements with want = kWantToStart are then taken in the edge order of the graph, which
   [topo_ordered] requires to be topological.  Restat pruning (Plan::CleanNode +
   RecomputeOutputsDirty) is modelled by re-evaluating a wanted statement when its turn comes:
   [dirty_now] runs ScanDefs' own dirty test on the CURRENT world, and the statement is skipped
   when its outputs come out clean (see README_hist.md for why this is CleanNode's effect on the
   set of commands run).  A command run ([run_edge]) is what StartEdge + the command +
   FinishCommand do: lock tick, output writes (restat: write-if-changed), then one log entry per
   output with ninja's record_mtime rule, taken verbatim from CrashDefs.record_mtime. *)
(* CrashDefs is imported FIRST and only used qualified (CrashDefs.record_mtime, ...): several of its
   names (deps_kind, newer, load_deps, ...) are also names of ScanDefs, which must win. *)
From NinjaV Require Import Engine.CrashDefs.
From NinjaV Require Import Base.Bytes Engine.ScanDefs Engine.ScanSpec.
Local Open Scope Z_scope.

Definition content := N.

(* ------------------------------------------------------------------ the fragment (checkable) *)
Definition edges_all (g : graph) (f : edge -> bool) : bool := forallb f (seq 0 (g_nedges g)).

Definition deps_none (k : deps_kind) : bool := match k with DepsNone => true | _ => false end.
Definition is_nil {A : Type} (l : list A) : bool := match l with [] => true | _ => false end.

(* no depfile/deps, no validations, every input is a node of the manifest *)
Definition frag_AB (g : graph) : bool :=
  edges_all g (fun e =>
    let ei := g_edge g e in
    deps_none (ei_deps ei) && is_nil (ei_vals ei)
    && forallb (fun i => negb (g_byloader g i)) (ei_ins ei)).

(* the edge order is topological for inputs of EVERY kind *)
Definition topo_ordered (g : graph) : bool :=
  edges_all g (fun e =>
    forallb (fun i => match g_producer g i with Some e' => Nat.ltb e' e | None => true end)
            (ei_ins (g_edge g e))).

(* the documented always-dirty case: a phony statement without inputs (its output is never a file
   in this model, see [step_ok]) *)
Definition no_inputless_phony (g : graph) : bool :=
  edges_all g (fun e => negb (ei_phony (g_edge g e) && is_nil (ei_ins (g_edge g e)))).

(* ------------------------------------------------------------------ the semantic state *)
Definition snapshot := list (node * option content).

Record hstate := mkH {
  h_disk : node -> option (Z * content);     (* mtime (> 0), content *)
  h_clock : Z;
  h_blog : node -> option (N * Z);           (* .ninja_log: command hash, recorded mtime *)
  h_hash : edge -> N;                        (* the manifest's current command hashes *)
  h_ghost : node -> option snapshot;         (* GHOST: what the last run of the producer read *)
  h_trace : list edge                        (* GHOST: commands executed, most recent first *)
}.

Definition set_hash (ei : edge_info) (h : N) : edge_info :=
  mkEdge (ei_ins ei) (ei_nimp ei) (ei_noo ei) (ei_outs ei) (ei_vals ei)
         (ei_phony ei) (ei_restat ei) (ei_generator ei) (ei_deps ei) h.

(* the manifest as it is now: the structure of [g] with the current command hashes *)
Definition graph_of (g : graph) (st : hstate) : graph :=
  mkGraph (g_nedges g) (fun e => set_hash (g_edge g e) (h_hash st e)) (g_producer g) (g_byloader g).

Definition mtime_of (st : hstate) (n : node) : Z :=
  match h_disk st n with Some (m, _) => m | None => 0 end.
Definition content_of (st : hstate) (n : node) : option content :=
  match h_disk st n with Some (_, c) => Some c | None => None end.

(* what ninja sees: DiskInterface::Stat, BuildLog::LookupByOutput; no deps log, no depfiles *)
Definition world_of (st : hstate) : world :=
  mkWorld (mtime_of st) (h_blog st) (fun _ => None) (fun _ => DfMissing).

Definition init_hstate (g : graph) : hstate :=
  mkH (fun _ => None) 0 (fun _ => None) (fun e => ei_hash (g_edge g e)) (fun _ => None) [].

Definition upd {A : Type} (f : node -> A) (n : node) (v : A) : node -> A :=
  fun n' => if Nat.eqb n' n then v else f n'.

(* a file is written: fresh tick *)
Definition write_file (st : hstate) (n : node) (c : content) : hstate :=
  let t := h_clock st + 1 in
  mkH (upd (h_disk st) n (Some (t, c))) t (h_blog st) (h_hash st) (h_ghost st) (h_trace st).

Definition delete_file (st : hstate) (n : node) : hstate :=
  mkH (upd (h_disk st) n None) (h_clock st) (h_blog st) (h_hash st) (h_ghost st) (h_trace st).

Definition set_cmd (st : hstate) (e : edge) (h : N) : hstate :=
  mkH (h_disk st) (h_clock st) (h_blog st) (fun e' => if Nat.eqb e' e then h else h_hash st e')
      (h_ghost st) (h_trace st).

(* the lock file of StartEdge: a fresh tick, no node *)
Definition tick (st : hstate) : hstate :=
  mkH (h_disk st) (h_clock st + 1) (h_blog st) (h_hash st) (h_ghost st) (h_trace st).

(* ------------------------------------------------------------------ history steps *)
Inductive hstep :=
| Edit (n : node) (c : content)      (* a source file is written *)
| Delete (n : node)                  (* any file is removed *)
| SetCmd (e : edge) (h : N)          (* the command line of a statement changes *)
| Build (targets : list node).
Arguments Edit n%nat_scope c%N_scope.
Arguments Delete n%nat_scope.
Arguments SetCmd e%nat_scope h%N_scope.

Section Model.
Variable cmd : edge -> N -> snapshot -> node -> content.
Variable g : graph.

(* ------------------------------------------------------------------ one successful command *)
(* what the command reads: its non-order-only manifest inputs ([ScanSpec.nonoo_ins]) *)
Definition reads (st : hstate) (e : edge) : snapshot :=
  map (fun i => (i, content_of st i)) (nonoo_ins g e).

Definition same_content (f : option (Z * content)) (c : content) : bool :=
  match f with Some (_, c') => N.eqb c' c | None => false end.

(* one output write; a restat command leaves a file alone that already has the content *)
Definition write_out (restat : bool) (f : node -> content) (st : hstate) (o : node) : hstate :=
  if restat && same_content (h_disk st o) (f o) then st else write_file st o (f o).

Definition write_outs (restat : bool) (f : node -> content) (outs : list node) (st : hstate) : hstate :=
  fold_left (write_out restat f) outs st.

(* the view CrashDefs has of an output: file and log entry *)
Definition orec_of (st : hstate) (o : node) : CrashDefs.orec := CrashDefs.mkO (h_disk st o) (h_blog st o).

Definition crash_cfg (ei : edge_info) (h : N) : CrashDefs.cfg :=
  CrashDefs.mkCfg h (ei_restat ei) (ei_generator ei) CrashDefs.DNone false.

(* BuildLog::RecordCommand: one entry per output, all with the same hash and mtime *)
Definition record (st : hstate) (e : edge) (outs : list node) (h : N) (m : Z) (S : snapshot) : hstate :=
  mkH (h_disk st) (h_clock st)
      (fun n => if mem_node n outs then Some (h, m) else h_blog st n)
      (h_hash st)
      (fun n => if mem_node n outs then Some S else h_ghost st n)
      (e :: h_trace st).

(* the command proper and FinishCommand: the output writes starting from [st1], then the log
   entries.  [sc] is the state the scan's Node::mtime() of the outputs refers to (nothing but this
   command writes them), [S] what the command read, [t0] the lock tick (command_start_time_). *)
Definition finish_run (sc st1 : hstate) (e : edge) (h : N) (S : snapshot) (t0 : Z) : hstate :=
  let ei := g_edge g e in
  let st2 := write_outs (ei_restat ei) (cmd e h S) (ei_outs ei) st1 in
  let m := CrashDefs.record_mtime (crash_cfg ei h) t0
             (map (orec_of sc) (ei_outs ei)) (map (orec_of st2) (ei_outs ei)) in
  record st2 e (ei_outs ei) h m S.

(* StartEdge (lock tick), the command reads its inputs, writes its outputs, FinishCommand *)
Definition run_edge (st : hstate) (e : edge) : hstate :=
  finish_run st (tick st) e (h_hash st e) (reads st e) (h_clock (tick st)).

(* the same with a source edit landing while the command runs: after the command has read its
   inputs, before it writes its outputs (the exception clause of C01) *)
Definition run_edge_racy (st : hstate) (e : edge) (n : node) (c : content) : hstate :=
  finish_run st (write_file (tick st) n c) e (h_hash st e) (reads st e) (h_clock (tick st)).

(* ------------------------------------------------------------------ one invocation of ninja *)
(* ScanDefs' dirty test for the outputs of [e] on the world as it is now *)
Definition dirty_now (st : hstate) (e : edge) : bool :=
  let outs := ei_outs (g_edge g e) in
  match scan (graph_of g st) (world_of st) outs with
  | ScanOk s _ => existsb (fun o => ns_dirty (st_node s o)) outs
  | _ => true
  end.

Definition want_start (p : plan) (e : edge) : bool :=
  match p_want p e with Some WantToStart => true | _ => false end.

Definition build_step (p : plan) (st : hstate) (e : edge) : hstate :=
  if want_start p e && negb (ei_phony (g_edge g e)) && dirty_now st e then run_edge st e else st.

Definition build_upto (p : plan) (k : nat) (st : hstate) : hstate :=
  fold_left (build_step p) (seq 0 k) st.

(* None: ninja refuses (missing source, cycle): nothing is run *)
Definition build (st : hstate) (targets : list node) : option hstate :=
  match scan (graph_of g st) (world_of st) targets with
  | ScanOk _ p => Some (build_upto p (g_nedges g) st)
  | _ => None
  end.

(* ------------------------------------------------------------------ histories *)
Definition is_source (n : node) : bool :=
  match g_producer g n with None => true | Some _ => false end.

(* sources are the nodes without a build statement; edits touch sources only *)
Definition step_ok (s : hstep) : bool :=
  match s with Edit n _ => is_source n | _ => true end.
Definition hist_ok (h : list hstep) : bool := forallb step_ok h.

Definition apply_step (st : hstate) (s : hstep) : hstate :=
  match s with
  | Edit n c => write_file st n c
  | Delete n => delete_file st n
  | SetCmd e h => set_cmd st e h
  | Build targets => match build st targets with Some st' => st' | None => st end
  end.

Definition run_hist (st : hstate) (h : list hstep) : hstate := fold_left apply_step h st.

(* ------------------------------------------------------------------ the reference: a clean build *)
(* contents after building everything from scratch, along the edge order: [cb hs src k] is right
   for the sources and the outputs of the statements below [k] *)
Fixpoint cb (hs : edge -> N) (src : node -> option content) (k : nat) : node -> option content :=
  match k with
  | O => fun n => match g_producer g n with None => src n | Some _ => None end
  | S k' =>
    let prev := cb hs src k' in
    fun n =>
      match g_producer g n with
      | Some e =>
        if Nat.eqb e k'
        then if ei_phony (g_edge g k') then None
             else Some (cmd k' (hs k') (map (fun i => (i, prev i)) (nonoo_ins g k')) n)
        else prev n
      | None => prev n
      end
  end.

Definition clean_build (hs : edge -> N) (src : node -> option content) : node -> option content :=
  cb hs src (g_nedges g).

Definition sources_of (st : hstate) : node -> option content :=
  fun n => match g_producer g n with None => content_of st n | Some _ => None end.

Definition clean_of (st : hstate) : node -> option content :=
  clean_build (h_hash st) (sources_of st).

(* ------------------------------------------------------------------ the invariant *)
(* the snapshot [S] is still a faithful picture for a log entry with mtime [m]: what was produced
   by a phony statement was no file, and every input that is on disk now and not newer than [m]
   has the content it had in [S] *)
Definition snap_fresh (st : hstate) (m : Z) (S : snapshot) : Prop :=
  forall i ci, In (i, ci) S ->
    (forall e', g_producer g i = Some e' -> ei_phony (g_edge g e') = true -> ci = None) /\
    (forall mi c, h_disk st i = Some (mi, c) -> mi <= m -> ci = Some c).

(* Appendix D.4, adapted: for every output on disk of a real statement that has a log entry
   (h, m), the ghost snapshot is the input snapshot of the run the log entry describes *)
Definition LogSound (st : hstate) : Prop :=
  forall e o h m mo c,
    ei_phony (g_edge g e) = false -> In o (ei_outs (g_edge g e)) ->
    h_blog st o = Some (h, m) -> h_disk st o = Some (mo, c) ->
    exists S, h_ghost st o = Some S /\ map fst S = nonoo_ins g e /\
              c = cmd e h S o /\ snap_fresh st m S.

(* the bookkeeping facts that go with it *)
Definition StateOk (st : hstate) : Prop :=
  0 <= h_clock st /\
  (forall n m c, h_disk st n = Some (m, c) -> 0 < m <= h_clock st) /\
  (forall n h m, h_blog st n = Some (h, m) -> m <= h_clock st) /\
  (forall n e, g_producer g n = Some e -> ei_phony (g_edge g e) = true -> h_disk st n = None) /\
  (forall n e, g_producer g n = Some e -> ei_phony (g_edge g e) = false ->
               h_disk st n <> None -> h_blog st n <> None).

Definition Good (st : hstate) : Prop := StateOk st /\ LogSound st.

(* nodes the targets need, through inputs of every kind *)
Definition reach (targets : list node) : node -> Prop := reach_via g (manifest_ins g) targets.

End Model.

(* ================================================================== a concrete project *)
(* nodes: 0 a.src   1 b.src   2 gen.h   3 x.o   4 app   5 all
     e0  build gen.h : halve a.src          restat = 1
     e1  build x.o   : cc b.src | gen.h
     e2  build app   : link x.o || gen.h
     e3  build all   : phony app                                                         *)
Module Ex.
Definition e0 := mkEdge [0%nat] 0 0 [2%nat] [] false true false DepsNone 100.
Definition e1 := mkEdge [1%nat; 2%nat] 1 0 [3%nat] [] false false false DepsNone 101.
Definition e2 := mkEdge [3%nat; 2%nat] 0 1 [4%nat] [] false false false DepsNone 102.
Definition e3 := mkEdge [4%nat] 0 0 [5%nat] [] true false false DepsNone 0.
Definition dummy := mkEdge [] 0 0 [] [] false false false DepsNone 0.

Definition g : graph :=
  mkGraph 4
    (fun e => match e with 0%nat => e0 | 1%nat => e1 | 2%nat => e2 | 3%nat => e3 | _ => dummy end)
    (fun n => match n with 2%nat => Some 0%nat | 3%nat => Some 1%nat | 4%nat => Some 2%nat
                         | 5%nat => Some 3%nat | _ => None end)
    (fun _ => false).

Local Open Scope N_scope.
Definition sum_snap (S : snapshot) : N :=
  fold_right (fun x acc => match snd x with Some c => c + acc | None => acc end) 0 S.
(* gen.h = a.src / 2 (so some edits of a.src leave it unchanged); everything else depends on the
   statement, its command line, the output and all it reads *)
Definition cmd (e : edge) (h : N) (S : snapshot) (o : node) : content :=
  match e with
  | 0%nat => sum_snap S / 2
  | _ => 1 + h + 3 * sum_snap S + N.of_nat o
  end.
Local Close Scope N_scope.

Definition st0 := init_hstate g.

(* the five steps: two sources appear, build, an edit that does not change gen.h, build *)
Definition hist5 : list hstep :=
  [Edit 0 10; Edit 1 20; Build [5%nat]; Edit 0 11; Build [5%nat]].

(* a longer one with every kind of step *)
Definition hist9 : list hstep :=
  hist5 ++ [Edit 0 14; SetCmd 2 202; Delete 3; Build [5%nat]].

Definition contents (st : hstate) : list (option content) :=
  map (content_of st) [0; 1; 2; 3; 4; 5]%nat.
Definition cleans (st : hstate) : list (option content) :=
  map (clean_of cmd g st) [0; 1; 2; 3; 4; 5]%nat.

Example frag_ok : frag_AB g && topo_ordered g && no_inputless_phony g = true.
Proof. vm_compute. reflexivity. Qed.

(* first build runs e0 e1 e2 (trace is most recent first); the second runs e0 only: gen.h keeps
   content and mtime, e1 and e2 are pruned *)
Example trace5 : h_trace (run_hist cmd g st0 hist5) = [0; 2; 1; 0]%nat.
Proof. vm_compute. reflexivity. Qed.
Example contents5 :
  contents (run_hist cmd g st0 hist5) = cleans (run_hist cmd g st0 hist5).
Proof. vm_compute. reflexivity. Qed.

(* gen.h changes (14 / 2 = 7), the link line changes, x.o is deleted: everything runs again *)
Example trace9 : h_trace (run_hist cmd g st0 hist9) = [2; 1; 0; 0; 2; 1; 0]%nat.
Proof. vm_compute. reflexivity. Qed.
Example contents9 :
  contents (run_hist cmd g st0 hist9) = cleans (run_hist cmd g st0 hist9).
Proof. vm_compute. reflexivity. Qed.

(* convergence: a further build runs nothing and the scan wants nothing *)
Example converged9 :
  let st := run_hist cmd g st0 hist9 in
  h_trace (apply_step cmd g st (Build [5%nat])) = h_trace st /\
  match scan (graph_of g st) (world_of st) [5%nat] with
  | ScanOk _ p => forallb (fun e => negb (want_start p e)) (seq 0 4) = true
  | _ => False
  end.
Proof. vm_compute. split; reflexivity. Qed.
(* why [hist_ok] restricts edits to sources: an output overwritten by hand is newer than its
   inputs, ninja keeps it, and it is not what a clean build makes *)
Definition hist_tamper : list hstep := hist5 ++ [Edit 3 99; Build [5%nat]].
Example tamper_output_stale :
  let st := run_hist cmd g st0 hist_tamper in
  hist_ok g hist_tamper = false /\ content_of st 3%nat <> clean_of cmd g st 3%nat.
Proof. vm_compute. split; [reflexivity|discriminate]. Qed.
End Ex.

(* ================================================================== the documented always-dirty case *)
(*   e0  build always : phony          (no inputs; the file never exists)
     e1  build out    : cc always                                                         *)
Module ExAlways.
Definition e0 := mkEdge [] 0 0 [0%nat] [] true false false DepsNone 0.
Definition e1 := mkEdge [0%nat] 0 0 [1%nat] [] false false false DepsNone 5.
Definition g : graph :=
  mkGraph 2 (fun e => match e with 0%nat => e0 | 1%nat => e1 | _ => Ex.dummy end)
    (fun n => match n with 0%nat => Some 0%nat | 1%nat => Some 1%nat | _ => None end)
    (fun _ => false).
Definition st1 := apply_step Ex.cmd g (init_hstate g) (Build [1%nat]).

Example frag_ok : frag_AB g && topo_ordered g = true /\ no_inputless_phony g = false.
Proof. vm_compute. split; reflexivity. Qed.

(* after a successful build the scan still wants e1, and a second build runs it again *)
Example always_dirty :
  h_trace st1 = [1%nat] /\
  match scan (graph_of g st1) (world_of st1) [1%nat] with
  | ScanOk _ p => p_want p 1%nat = Some WantToStart
  | _ => False
  end /\
  h_trace (apply_step Ex.cmd g st1 (Build [1%nat])) = [1; 1]%nat.
Proof. vm_compute. repeat split; reflexivity. Qed.
End ExAlways.

(* ================================================================== an edit while the command runs *)
(* one statement  build out : <rule> src ; src is rewritten after the command has read it and
   before it writes out.  Plain rule: the log entry carries the START tick, the next run sees src
   newer and re-runs.  generator / restat rule (output changed): the entry carries the OUTPUT's
   time, which is later than the edit: the next run is satisfied with a stale out. *)
Module ExRace.
Definition mk (restat generator : bool) : graph :=
  mkGraph 1 (fun e => match e with
                      | 0%nat => mkEdge [0%nat] 0 0 [1%nat] [] false restat generator DepsNone 7
                      | _ => Ex.dummy end)
    (fun n => match n with 1%nat => Some 0%nat | _ => None end)
    (fun _ => false).

(* src = 5; the command runs reading 5 while src becomes 6; then ninja is run again *)
Definition after_race (g : graph) : hstate :=
  run_edge_racy Ex.cmd g (write_file (init_hstate g) 0%nat 5%N) 0%nat 0%nat 6%N.
Definition next (g : graph) : hstate := apply_step Ex.cmd g (after_race g) (Build [1%nat]).

Example plain_rule_recovers :
  let g := mk false false in
  h_trace (next g) = [0; 0]%nat /\ content_of (next g) 1%nat = clean_of Ex.cmd g (next g) 1%nat.
Proof. vm_compute. split; reflexivity. Qed.

Example generator_rule_stale :
  let g := mk false true in
  h_trace (next g) = [0%nat] /\ content_of (next g) 1%nat <> clean_of Ex.cmd g (next g) 1%nat.
Proof. vm_compute. split; [reflexivity|discriminate]. Qed.

Example restat_rule_stale :
  let g := mk true false in
  h_trace (next g) = [0%nat] /\ content_of (next g) 1%nat <> clean_of Ex.cmd g (next g) 1%nat.
Proof. vm_compute. split; [reflexivity|discriminate]. Qed.
End ExRace.
