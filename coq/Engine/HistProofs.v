(* Proofs about the history-level model (HistDefs.v).  No axioms.
   Part S: what an accepted scan of a fragment-AB graph means for the plan: outputs_ready_ and the
           want map (kWantToStart <-> needed and must_dirty), built on ScanProofs' invariants.
   Part H: the semantic side: StateOk/LogSound are kept by every history step; a statement the
           scan judges clean has the contents of a clean build; C01; C02. *)
From NinjaV Require Import Base.Bytes Engine.ScanDefs Engine.ScanSpec Engine.ScanProofs Engine.HistDefs.
From NinjaV Require Engine.CrashDefs.
Local Open Scope nat_scope.

(* ================================================================== generic *)
Lemma edges_all_spec g f e : edges_all g f = true -> e < g_nedges g -> f e = true.
Proof.
  unfold edges_all. intros H He. rewrite forallb_forall in H. apply H. apply in_seq. lia.
Qed.

Lemma is_nil_true {A : Type} (l : list A) : is_nil l = true <-> l = [].
Proof. destruct l; cbn [is_nil]; split; congruence. Qed.

Lemma opt_node_eqb_refl m : opt_node_eqb m m = true.
Proof. destruct m as [x|]; cbn [opt_node_eqb]; [apply Nat.eqb_refl|reflexivity]. Qed.

Lemma splice_nil ins noo : splice ins noo [] = ins.
Proof. unfold splice. cbn [app]. apply firstn_skipn. Qed.

(* ================================================================== Part S: scan and plan *)
Section ScanFacts.
Variable g : graph.
Variable w : world.
Hypothesis Hwf : wf_spec g.
Hypothesis Hwg : wf_graph g.
Hypothesis Hfrag : frag_AB g = true.

Notation mark_of s e := (es_mark (st_edge s e)).
Notation ins_of s e := (es_ins (st_edge s e)).
Notation rnd := (recompute_node_dirty g w).
Notation nd s n := (st_node s n).
Notation ready s e := (es_ready (st_edge s e)).

Lemma frag_edge e : e < g_nedges g ->
  ei_deps (g_edge g e) = DepsNone /\ ei_vals (g_edge g e) = [] /\
  forall i, In i (ei_ins (g_edge g e)) -> g_byloader g i = false.
Proof.
  intros He. pose proof (edges_all_spec g _ e Hfrag He) as H. cbn beta zeta in H.
  apply andb_true_iff in H. destruct H as [H H3]. apply andb_true_iff in H. destruct H as [H1 H2].
  split; [destruct (ei_deps (g_edge g e)); cbn in H1; congruence|].
  split; [apply is_nil_true; exact H2|].
  intros i Hi. rewrite forallb_forall in H3. specialize (H3 i Hi). apply negb_true_iff in H3. exact H3.
Qed.

Lemma out_prod e o : In o (ei_outs (g_edge g e)) -> g_producer g o = Some e.
Proof. apply (proj1 Hwf). Qed.
Lemma prod_out n e : g_producer g n = Some e -> In n (ei_outs (g_edge g e)).
Proof. apply (proj1 (proj2 Hwf)). Qed.

(* ---- the frame of RecomputeNodeDirty without deps *)
Lemma after_inputs_AB visit e rm rd s3 vs3 :
  ei_deps (g_edge g e) = DepsNone ->
  after_inputs g w visit e false rm rd s3 vs3 =
  let '(s4, mri, dirty) := eval_inputs g e (ins_of s3 e) 0 s3 None false in
  let '(dirty1, s5) := if dirty then (true, s4) else outputs_dirty_all g w e (edge_outs g e) mri s4 in
  SOk (finish_edge g (if dirty1 then s5 else splice_deps g s5 e []) e dirty1, vs3).
Proof.
  intros Hd. unfold after_inputs.
  destruct (eval_inputs g e (ins_of s3 e) 0 s3 None false) as [[s4 mri] dirty].
  destruct (if dirty then (true, s4) else outputs_dirty_all g w e (edge_outs g e) mri s4) as [dirty1 s5].
  destruct dirty1.
  - unfold load_deps_try. rewrite Hd. reflexivity.
  - unfold load_deps. rewrite Hd. cbn [visit_all eval_inputs]. rewrite opt_node_eqb_refl. reflexivity.
Qed.

Lemma eval_inputs_ready e : forall l idx s mri d s' mri' d',
  eval_inputs g e l idx s mri d = (s', mri', d') ->
  ready s' e = true ->
  ready s e = true /\ forall i ie, In i l -> g_producer g i = Some ie -> ready s ie = true.
Proof.
  induction l as [|i l IH]; intros idx s mri d s' mri' d' H Hr; cbn [eval_inputs] in H.
  - inversion H; subst. split; [exact Hr|]. intros i ie [].
  - set (s1 := match g_producer g i with
               | Some ie => if es_ready (st_edge s ie) then s else set_ready s e false
               | None => s end) in *.
    assert (Hs1 : ready s1 e = true /\ forall j je, In j l -> g_producer g j = Some je -> ready s1 je = true).
    { destruct (is_order_only _ _ _); [eapply IH; eassumption|].
      destruct (ns_dirty (st_node s1 i)); eapply IH; eassumption. }
    destruct Hs1 as [R1 R2].
    assert (E : s1 = s /\ forall ie, g_producer g i = Some ie -> ready s ie = true).
    { subst s1. destruct (g_producer g i) as [ie|]; [|split; [reflexivity|discriminate]].
      destruct (es_ready (st_edge s ie)) eqn:Hie.
      - split; [reflexivity|]. intros ie' Hie'. inversion Hie'; subst. exact Hie.
      - exfalso. unfold set_ready in R1. rewrite upd_edge_same in R1. cbn [es_ready] in R1. discriminate. }
    destruct E as [E1 E2]. rewrite E1 in R1, R2. split; [exact R1|].
    intros j je [<-|Hj] Hp; [apply E2; exact Hp|apply (R2 j je Hj Hp)].
Qed.

Lemma finish_edge_ready e s d :
  ready (finish_edge g s e d) e =
  if d && negb (ei_phony (g_edge g e) && is_nil (ins_of s e)) then false else ready s e.
Proof.
  unfold finish_edge, set_mark. rewrite upd_edge_same. cbn [es_ready].
  destruct d; cbn [andb].
  - rewrite (st_edge_mark_outputs_dirty (edge_outs g e) s).
    change (match ins_of s e with [] => true | _ :: _ => false end) with (is_nil (ins_of s e)).
    destruct (negb (ei_phony (g_edge g e) && is_nil (ins_of s e))).
    + unfold set_ready. rewrite upd_edge_same. reflexivity.
    + rewrite (st_edge_mark_outputs_dirty (edge_outs g e) s). reflexivity.
  - reflexivity.
Qed.

(* nodes outside the outputs are untouched by the output checks, dirty flags by none of them *)
Lemma oda_nodes e mri : forall outs s d s',
  outputs_dirty_all g w e outs mri s = (d, s') ->
  (forall n, ~ In n outs -> nd s' n = nd s n) /\
  (forall n, ns_dirty (nd s' n) = ns_dirty (nd s n)).
Proof.
  induction outs as [|o outs IH]; intros s d s' H; cbn [outputs_dirty_all] in H.
  - inversion H; subst. split; reflexivity.
  - destruct (ei_phony (g_edge g e)).
    + destruct (phony_output_dirty g e o mri s) as [d1 s1] eqn:H1.
      destruct (phony_output_dirty_props g e o mri s d1 s1 H1) as [_ [O1 [D1 _]]].
      assert (DX : forall n, ns_dirty (nd s1 n) = ns_dirty (nd s n)).
      { intros n. destruct (Nat.eq_dec n o) as [->|Hne]; [exact D1|rewrite (O1 n Hne); reflexivity]. }
      destruct d1.
      * inversion H; subst. split; [|exact DX].
        intros n Hn. apply O1. intros ->. apply Hn. left; reflexivity.
      * destruct (IH s1 d s' H) as [A B]. split.
        -- intros n Hn. rewrite A by (intros Hi; apply Hn; right; exact Hi).
           apply O1. intros ->. apply Hn. left; reflexivity.
        -- intros n. rewrite B. apply DX.
    + destruct (output_dirty_first g w e o (mri_mtime s mri) s).
      * inversion H; subst. split; reflexivity.
      * destruct (IH s d s' H) as [A B]. split.
        -- intros n Hn. apply A. intros Hi; apply Hn; right; exact Hi.
        -- exact B.
Qed.

(* ---- the invariant about outputs_ready_ *)
Definition RIat (s : sstate) (e : edge) : Prop :=
  ins_of s e = ei_ins (g_edge g e) /\
  (forall i, In i (ei_ins (g_edge g e)) -> node_final g s i) /\
  (forall i e', In i (ei_ins (g_edge g e)) -> g_producer g i = Some e' ->
                ready s e' = false -> ready s e = false) /\
  (forall o, In o (ei_outs (g_edge g e)) -> ns_dirty (nd s o) = true ->
             (ei_phony (g_edge g e) = true /\ ei_ins (g_edge g e) = []) \/ ready s e = false).

Definition RI (s : sstate) : Prop := forall e, mark_of s e = VisitDone -> RIat s e.

Lemma RI_keep a b e :
  RI a -> mark_of a e = VisitDone ->
  (forall e', mark_of a e' = VisitDone -> st_edge b e' = st_edge a e') ->
  (forall n, node_final g a n -> node_final g b n /\ nd b n = nd a n) ->
  RIat b e.
Proof.
  intros HR He H1 H2. destruct (HR e He) as [A [B [C D]]].
  split; [rewrite (H1 e He); exact A|]. split; [intros i Hi; apply (H2 i (B i Hi))|]. split.
  - intros i e' Hi Hp Hr. pose proof (B i Hi) as Hf. unfold node_final in Hf. rewrite Hp in Hf.
    rewrite (H1 e' Hf) in Hr. rewrite (H1 e He). apply (C i e' Hi Hp Hr).
  - intros o Ho Hd. assert (Hf : node_final g a o) by (unfold node_final; rewrite (out_prod e o Ho); exact He).
    rewrite (proj2 (H2 o Hf)) in Hd. rewrite (H1 e He). apply (D o Ho Hd).
Qed.

Lemma RI_vrel a b e : RI a -> vrel g a b -> mark_of a e = VisitDone -> RIat b e.
Proof.
  intros HR V He. apply (RI_keep a b e HR He).
  - intros e' He'. apply (ext_marked a b e' (proj1 V)). rewrite He'. discriminate.
  - intros n Hn. apply (final_vrel g a b n V Hn).
Qed.

Lemma RI_lstep e a b e' :
  RI a -> lstep g e a b -> mark_of a e <> VisitDone -> e' <> e -> mark_of b e' = VisitDone -> RIat b e'.
Proof.
  intros HR [L1 L2] Ma Hne Hb.
  assert (Ha : mark_of a e' = VisitDone) by (rewrite <- (L1 e' Hne); exact Hb).
  apply (RI_keep a b e' HR Ha).
  - intros e2 H2. apply L1. intros ->. contradiction.
  - intros n Hn.
    assert (Hno : ~ In n (edge_outs g e)).
    { intros Hin. unfold node_final in Hn. rewrite (out_prod e n Hin) in Hn. contradiction. }
    split; [|apply L2; exact Hno].
    unfold node_final in *. destruct (g_producer g n) as [e2|].
    + rewrite L1; [exact Hn|]. intros ->. contradiction.
    + rewrite (L2 n Hno). exact Hn.
Qed.

Lemma rnd_RI : forall f stack n s vs s' vs',
  rnd f stack n (s, vs) = SOk (s', vs') -> SInv g w s -> RI s -> RI s'.
Proof.
  induction f as [|f IH]; intros stack n s vs s' vs' H HS HR; [discriminate|].
  destruct (rnd_spec g w Hwf _ _ _ _ _ _ _ H HS) as [HS' [V' F']].
  destruct (g_producer g n) as [e|] eqn:Hp.
  2:{ cbn [recompute_node_dirty] in H. rewrite Hp in H.
      assert (E : st_edge s' = st_edge s).
      { destruct (n_known (st_node s n)); inversion H; subst; [reflexivity|].
        cbn [set_dirty upd_node st_edge]. apply st_edge_stat_if_necessary. }
      intros e He. apply (RI_vrel s s' e HR V'). rewrite <- E. exact He. }
  destruct (mark_of s e) eqn:Hm.
  2:{ cbn [recompute_node_dirty] in H. rewrite Hp, Hm in H. discriminate. }
  2:{ cbn [recompute_node_dirty] in H. rewrite Hp, Hm in H. inversion H; subst. exact HR. }
  pose proof (Hwg n e Hp) as He. destruct (frag_edge e He) as [Hdeps [Hvals _]].
  rewrite (rnd_none_unfold g w f stack n e s vs Hp Hm) in H.
  destruct HS as [S1 [S2 [S3 S4]]]. destruct (S3 e Hm) as [Hdl Hins]. rewrite Hdl in H.
  destruct (s2_props g w e s) as [A2 [M2 I2]].
  set (s2 := stat_outputs w (enter_edge s e) (edge_outs g e)) in *.
  assert (LS2 : lstep g e s s2).
  { split; [exact A2|]. intros n' Hn'. subst s2. rewrite stat_outputs_other by exact Hn'. reflexivity. }
  assert (HS2 : SInv g w s2).
  { apply (SInv_lstep g w Hwf e s s2 (conj S1 (conj S2 (conj S3 S4))) LS2); [rewrite Hm; discriminate|exact M2]. }
  assert (HR2 : RI s2).
  { intros e' He'. assert (Hne : e' <> e) by (intros ->; congruence).
    apply (RI_lstep e s s2 e' HR LS2); [rewrite Hm; discriminate|exact Hne|exact He']. }
  assert (T2 : forall o, In o (edge_outs g e) -> statted w s2 o).
  { intros o Ho. subst s2. apply stat_outputs_statted; [exact Ho|].
    intros o' Ho'. left. change (nd (enter_edge s e) o') with (nd s o').
    apply (S2 o' e (out_prod e o' Ho') Hm). }
  set (visit := rnd f (stack ++ [n])) in *.
  destruct (visit_all visit (ins_of s2 e) (s2, vs ++ ei_vals (g_edge g e))) as [[s3 vs3]|c|e'|] eqn:V1;
    try discriminate.
  (* the visits of the inputs keep SInv and RI *)
  destruct (visit_all_rel (fun a : sv => SInv g w (fst a) /\ RI (fst a))
                          (fun a b : sv => vrel g (fst a) (fst b))
                          (fun (i : node) (a : sv) => node_final g (fst a) i) visit
                          (fun a => vrel_refl g (fst a))
                          (fun a b c => vrel_trans g (fst a) (fst b) (fst c))
                          (fun i a0 a1 HRel HQ => proj1 (final_vrel g (fst a0) (fst a1) i HRel HQ))
                          (ins_of s2 e))
    with (a := (s2, vs ++ ei_vals (g_edge g e))) (a' := (s3, vs3)) as [[HS3 HR3] [V23 F3]];
    [|split; assumption|exact V1|].
  { intros i [sa va] [sb vb] _ [HSa HRa] Hv. cbn [fst] in *.
    destruct (rnd_spec g w Hwf _ _ _ _ _ _ _ Hv HSa) as [HSb [Vab Fb]].
    split; [split; [exact HSb|apply (IH _ _ _ _ _ _ Hv HSa HRa)]|]. split; assumption. }
  cbn [fst] in HS3, HR3, V23, F3.
  assert (E23 : st_edge s3 e = st_edge s2 e) by (apply (ext_marked s2 s3 e (proj1 V23)); rewrite M2; discriminate).
  assert (M3 : mark_of s3 e = VisitInStack) by (rewrite E23; exact M2).
  assert (I3 : ins_of s3 e = ei_ins (g_edge g e)) by (rewrite E23, I2; exact Hins).
  rewrite I2, Hins in F3.
  rewrite (after_inputs_AB visit e _ _ s3 vs3 Hdeps) in H. rewrite I3 in H.
  destruct (eval_inputs g e (ei_ins (g_edge g e)) 0 s3 None false) as [[s4 mri] dirty] eqn:Hev.
  destruct (if dirty then (true, s4) else outputs_dirty_all g w e (edge_outs g e) mri s4) as [dirty1 s5] eqn:Hod.
  inversion H; subst s' vs'. clear H.
  pose proof (local_eval_inputs g e _ _ _ _ _ _ _ _ Hev) as L34.
  pose proof (st_node_eval_inputs g e _ _ _ _ _ _ _ _ Hev) as N34.
  assert (E45 : st_edge s5 = st_edge s4).
  { destruct dirty; [inversion Hod; subst; reflexivity|].
    pose proof (st_edge_outputs_dirty_all g w e mri (edge_outs g e) s4) as Hx. rewrite Hod in Hx. exact Hx. }
  assert (N45 : (forall x, ~ In x (edge_outs g e) -> nd s5 x = nd s4 x) /\
                (forall x, ns_dirty (nd s5 x) = ns_dirty (nd s4 x))).
  { destruct dirty; [inversion Hod; subst; split; reflexivity|]. apply (oda_nodes e mri _ _ _ _ Hod). }
  set (sX := if dirty1 then s5 else splice_deps g s5 e []) in *.
  assert (EX : (forall e', e' <> e -> st_edge sX e' = st_edge s5 e') /\ mark_of sX e = mark_of s5 e /\
               ins_of sX e = ins_of s5 e /\ ready sX e = ready s5 e /\ st_node sX = st_node s5).
  { subst sX. destruct dirty1; [repeat split; reflexivity|].
    unfold splice_deps, set_ins. split; [intros e' Hne; apply upd_edge_other; exact Hne|].
    rewrite upd_edge_same. cbn [es_mark es_ins es_ready]. rewrite splice_nil.
    repeat split; reflexivity. }
  destruct EX as [X1 [X2 [X3 [X4 X5]]]].
  destruct (finish_edge_props g e sX dirty1) as [A9 [M9 I9]].
  destruct (st_node_finish_edge g e sX dirty1) as [_ [N9 [N9f N9t]]].
  set (s9 := finish_edge g sX e dirty1) in *.
  assert (L39 : lstep g e s3 s9).
  { split.
    - intros e' Hne. rewrite (A9 e' Hne), (X1 e' Hne), E45. apply (proj1 L34 e' Hne).
    - intros x Hx. rewrite (N9 x Hx), X5, (proj1 N45 x Hx), N34. reflexivity. }
  assert (I9' : ins_of s9 e = ei_ins (g_edge g e)).
  { rewrite I9, X3, E45, (proj2 (proj2 L34)). exact I3. }
  intros e' He'. destruct (Nat.eq_dec e' e) as [->|Hne].
  2:{ apply (RI_lstep e s3 s9 e' HR3 L39); [rewrite M3; discriminate|exact Hne|exact He']. }
  assert (F9 : forall i, In i (ei_ins (g_edge g e)) -> node_final g s9 i).
  { intros i Hi. pose proof (F3 i Hi) as Hf. unfold node_final in *.
    destruct (g_producer g i) as [ie|] eqn:Hpi.
    - assert (Hne : ie <> e) by (intros ->; congruence). rewrite (proj1 L39 ie Hne). exact Hf.
    - assert (Hno : ~ In i (edge_outs g e)) by (intros Hin; rewrite (out_prod e i Hin) in Hpi; discriminate).
      rewrite (proj2 L39 i Hno). exact Hf. }
  split; [exact I9'|]. split; [exact F9|]. split.
  - intros i ie Hi Hpi Hr. destruct (ready s9 e) eqn:Hr9; [exfalso|reflexivity].
    pose proof (F3 i Hi) as Hf. unfold node_final in Hf. rewrite Hpi in Hf.
    assert (Hne : ie <> e) by (intros ->; congruence).
    rewrite (proj1 L39 ie Hne) in Hr.
    unfold s9 in Hr9. rewrite finish_edge_ready in Hr9.
    destruct (dirty1 && negb (ei_phony (g_edge g e) && is_nil (ins_of sX e))); [discriminate|].
    rewrite X4, E45 in Hr9.
    destruct (eval_inputs_ready e _ _ _ _ _ _ _ _ Hev Hr9) as [_ Hall].
    rewrite (Hall i ie Hi Hpi) in Hr. discriminate.
  - intros o Ho Hd. destruct dirty1.
    + unfold s9. rewrite finish_edge_ready. cbn [andb]. rewrite X3, E45, (proj2 (proj2 L34)), I3.
      destruct (ei_phony (g_edge g e)); cbn [andb negb]; [|right; reflexivity].
      destruct (is_nil (ei_ins (g_edge g e))) eqn:Hnil; cbn [negb]; [|right; reflexivity].
      left. split; [reflexivity|apply is_nil_true; exact Hnil].
    + exfalso. rewrite (N9f eq_refl o), X5, (proj2 N45 o), N34 in Hd.
      assert (Hs : settled g s2 o) by (unfold settled; rewrite (out_prod e o Ho), M2; discriminate).
      rewrite (proj2 V23 o Hs) in Hd. destruct (T2 o Ho) as [_ [_ Hdf]]. congruence.
Qed.

(* no validations: the list of validation nodes stays as it is *)
Lemma rnd_vs : forall f stack n s vs s' vs',
  rnd f stack n (s, vs) = SOk (s', vs') -> vs' = vs.
Proof.
  induction f as [|f IH]; intros stack n s vs s' vs' H; [discriminate|].
  destruct (g_producer g n) as [e|] eqn:Hp.
  2:{ cbn [recompute_node_dirty] in H. rewrite Hp in H.
      destruct (n_known (st_node s n)); inversion H; reflexivity. }
  destruct (mark_of s e) eqn:Hm.
  2:{ cbn [recompute_node_dirty] in H. rewrite Hp, Hm in H. discriminate. }
  2:{ cbn [recompute_node_dirty] in H. rewrite Hp, Hm in H. inversion H; reflexivity. }
  destruct (frag_edge e (Hwg n e Hp)) as [_ [Hvals _]].
  destruct (rnd_none_ok g w f stack n e s vs Hp Hm s' vs' H)
    as [s3 [vs3 [s5 [new_ins [s6 [s7 [s8 [d [V1 [_ [_ [V2 _]]]]]]]]]]]].
  rewrite Hvals, app_nil_r in V1.
  assert (Hall : forall l a a', visit_all (rnd f (stack ++ [n])) l a = SOk a' -> snd a' = snd a).
  { intros l a a' V.
    destruct (visit_all_rel (fun _ : sv => True) (fun a b : sv => snd b = snd a) (fun _ _ => True)
                            (rnd f (stack ++ [n])) (fun a => eq_refl)
                            (fun a b c H1 H2 => eq_trans H2 H1) (fun _ _ _ _ _ => I) l)
      with (a := a) (a' := a') as [_ [HR _]]; [|exact I|exact V|exact HR].
    intros i [sa va] [sb vb] _ _ Hv. split; [exact I|]. split; [|exact I]. cbn [snd].
    apply (IH _ _ _ _ _ _ Hv). }
  pose proof (Hall _ _ _ V1) as E1. pose proof (Hall _ _ _ V2) as E2. cbn [snd] in E1, E2. congruence.
Qed.

Lemma loop_all : forall qf queue s found s' vs',
  recompute_dirty_loop g w qf queue s found = SOk (s', vs') -> SInv g w s -> RI s ->
  SInv g w s' /\ RI s' /\ vrel g s s' /\ (forall n, In n queue -> node_final g s' n) /\ vs' = found.
Proof.
  induction qf as [|qf IH]; intros queue s found s' vs' H HS HR; destruct queue as [|n queue];
    cbn [recompute_dirty_loop] in H; try discriminate.
  - inversion H; subst. split; [exact HS|]. split; [exact HR|]. split; [apply vrel_refl|]. split; [intros n []|reflexivity].
  - inversion H; subst. split; [exact HS|]. split; [exact HR|]. split; [apply vrel_refl|]. split; [intros n []|reflexivity].
  - destruct (rnd (scan_fuel g) [] n (s, [])) as [[s1 newv]|c|e|] eqn:Hv; try discriminate.
    destruct (rnd_spec g w Hwf _ _ _ _ _ _ _ Hv HS) as [HS1 [V1 F1]].
    pose proof (rnd_RI _ _ _ _ _ _ _ Hv HS HR) as HR1.
    pose proof (rnd_vs _ _ _ _ _ _ _ Hv) as Hnv. subst newv. rewrite !app_nil_r in H.
    destruct (IH _ _ _ _ _ H HS1 HR1) as [HS' [HR' [V' [F' Hvs]]]].
    split; [exact HS'|]. split; [exact HR'|]. split; [apply (vrel_trans g s s1 s' V1 V')|].
    split; [|exact Hvs].
    intros m [<-|Hm]; [apply (proj1 (final_vrel g s1 s' n V' F1))|apply F'; exact Hm].
Qed.

(* ---- Plan::AddSubTarget *)
Section Plan.
Variable T : list node.

Definition neededE (e : edge) : Prop := exists n, reach g T n /\ g_producer g n = Some e.
Definition wantd (p : plan) (e : edge) : Prop := p_want p e <> None.

(* what Plan::AddSubTarget leaves behind for node [n] *)
Definition post (s : sstate) (n : node) (p : plan) : Prop :=
  match g_producer g n with
  | Some e => ready s e = false ->
              wantd p e /\ (ns_dirty (nd s n) = true -> p_want p e = Some WantToStart)
  | None => ns_dirty (nd s n) && negb (g_byloader g n) = false
  end.

Definition closed_at (s : sstate) (p : plan) (e : edge) : Prop :=
  forall i, In i (ei_ins (g_edge g e)) -> post s i p.

Definition PI (s : sstate) (X : edge -> Prop) (p : plan) : Prop :=
  (forall e, p_want p e <> Some WantToFinish) /\
  (forall e, wantd p e -> mark_of s e = VisitDone /\ neededE e /\ ready s e = false) /\
  (forall e, p_want p e = Some WantToStart ->
             exists n, g_producer g n = Some e /\ ns_dirty (nd s n) = true) /\
  (forall e, wantd p e -> ~ X e -> closed_at s p e).

Definition ple (p p' : plan) : Prop :=
  forall e, (wantd p e -> wantd p' e) /\
            (p_want p e = Some WantToStart -> p_want p' e = Some WantToStart).

Lemma ple_refl p : ple p p.
Proof. intros e. split; auto. Qed.
Lemma ple_trans a b c : ple a b -> ple b c -> ple a c.
Proof. intros H K e. destruct (H e) as [H1 H2]. destruct (K e) as [K1 K2]. split; auto. Qed.

Lemma post_mono s n p p' : ple p p' -> post s n p -> post s n p'.
Proof.
  intros Hl. unfold post. destruct (g_producer g n) as [e|]; [|auto].
  intros H Hr. destruct (H Hr) as [A B]. destruct (Hl e) as [L1 L2]. split; [apply L1; exact A|].
  intros Hd. apply L2. apply B. exact Hd.
Qed.

Lemma ast_loop_PI (s : sstate) (X : edge -> Prop) (visit : node -> plan -> ast_res) :
  (forall i q b err q', visit i q = Some (b, err, q') -> (b = true \/ err = None) ->
     reach g T i -> node_final g s i -> PI s X q -> PI s X q' /\ ple q q' /\ post s i q') ->
  forall ins q b err q',
    ast_loop visit ins q = Some (b, err, q') -> (b = true \/ err = None) ->
    (forall i, In i ins -> reach g T i /\ node_final g s i) -> PI s X q ->
    PI s X q' /\ ple q q' /\ forall i, In i ins -> post s i q'.
Proof.
  intros Hvisit. induction ins as [|i ins IH]; intros q b err q' H Hok Hins HP; cbn [ast_loop] in H.
  - inversion H; subst. split; [exact HP|]. split; [apply ple_refl|intros i []].
  - destruct (visit i q) as [[[bi erri] qi]|] eqn:Hv; [|discriminate].
    destruct (Hins i (or_introl eq_refl)) as [Ri Fi].
    assert (Hcont : ast_loop visit ins qi = Some (b, err, q') /\ (bi = true \/ erri = None)).
    { destruct bi; [split; [exact H|left; reflexivity]|].
      destruct erri as [er|]; [|split; [exact H|right; reflexivity]].
      inversion H; subst. destruct Hok; discriminate. }
    destruct Hcont as [H' Hoki].
    destruct (Hvisit i q bi erri qi Hv Hoki Ri Fi HP) as [HPi [Li Pi]].
    destruct (IH qi b err q' H' Hok (fun j Hj => Hins j (or_intror Hj)) HPi) as [HP' [L' P']].
    split; [exact HP'|]. split; [apply (ple_trans q qi q' Li L')|].
    intros j [<-|Hj]; [apply (post_mono s i qi q' L' Pi)|apply P'; exact Hj].
Qed.

Lemma ast_PI (s : sstate) : RI s -> forall f X dep n p b err p',
  add_sub_target g f s dep n p = Some (b, err, p') -> (b = true \/ err = None) ->
  reach g T n -> node_final g s n -> PI s X p ->
  PI s X p' /\ ple p p' /\ post s n p'.
Proof.
  intros HR. induction f as [|f IH]; intros X dep n p b err p' H Hok Rn Fn HP; [discriminate|].
  cbn [add_sub_target] in H. unfold post.
  destruct (g_producer g n) as [e|] eqn:Hp.
  2:{ destruct (ns_dirty (st_node s n) && negb (g_byloader g n)) eqn:Hd; inversion H; subst.
      - destruct Hok; discriminate.
      - split; [exact HP|]. split; [apply ple_refl|reflexivity]. }
  destruct (es_ready (st_edge s e)) eqn:Hr.
  { inversion H; subst. split; [exact HP|]. split; [apply ple_refl|discriminate]. }
  unfold node_final in Fn. rewrite Hp in Fn.
  destruct HP as [P0 [P1 [P2 P3]]].
  set (w0 := match p_want p e with None => WantNothing | Some v => v end) in *.
  set (v2 := if ns_dirty (st_node s n) && match w0 with WantNothing => true | _ => false end
             then WantToStart else w0).
  set (p2 := if ns_dirty (st_node s n) && match w0 with WantNothing => true | _ => false end
             then edge_wanted g (set_want (set_want p e w0) e WantToStart) e else set_want p e w0) in *.
  assert (W2 : forall e', p_want p2 e' = if Nat.eqb e' e then Some v2 else p_want p e').
  { intros e'. subst p2 v2.
    destruct (ns_dirty (st_node s n) && match w0 with WantNothing => true | _ => false end);
      cbn [edge_wanted set_want p_want]; destruct (Nat.eqb e' e); reflexivity. }
  assert (Hw0 : w0 <> WantToFinish).
  { subst w0. destruct (p_want p e) as [v|] eqn:Wp; [|discriminate]. intros ->. apply (P0 e Wp). }
  assert (Hv2 : v2 <> WantToFinish /\ (w0 = WantToStart -> v2 = WantToStart) /\
                (ns_dirty (st_node s n) = true -> v2 = WantToStart) /\
                (v2 = WantToStart -> ns_dirty (st_node s n) = true \/ p_want p e = Some WantToStart)).
  { subst v2. destruct (ns_dirty (st_node s n)); cbn [andb].
    - destruct w0 eqn:Ew; [| |contradiction].
      + repeat split; try discriminate; try reflexivity. intros _; left; reflexivity.
      + repeat split; try discriminate; try reflexivity. intros _; left; reflexivity.
    - split; [exact Hw0|]. split; [auto|]. split; [discriminate|].
      intros Hw. right. subst w0. destruct (p_want p e); [congruence|discriminate]. }
  destruct Hv2 as [V2a [V2b [V2c V2d]]].
  assert (L2 : ple p p2).
  { intros e'. unfold wantd. rewrite W2. destruct (Nat.eqb_spec e' e) as [->|Hne]; [|split; auto].
    split; [intros _; discriminate|]. intros Wp. f_equal. apply V2b. subst w0. rewrite Wp. reflexivity. }
  assert (HP2 : forall X' : edge -> Prop, (forall e', X e' -> X' e') -> (wantd p e -> ~ X e -> ~ X' e) ->
                           (p_want p e = None -> X' e) -> PI s X' p2).
  { intros X' HX1 HX2 HX3. split; [|split; [|split]].
    - intros e'. rewrite W2. destruct (Nat.eqb e' e); [congruence|apply P0].
    - intros e'. unfold wantd. rewrite W2. destruct (Nat.eqb_spec e' e) as [->|Hne]; [|apply P1].
      intros _. split; [exact Fn|]. split; [exists n; split; assumption|exact Hr].
    - intros e'. rewrite W2. destruct (Nat.eqb_spec e' e) as [->|Hne]; [|apply P2].
      intros Hw. inversion Hw as [Hw']. destruct (V2d Hw') as [Hd|Hd]; [exists n; split; assumption|apply P2; exact Hd].
    - intros e' Hw HnX. intros i Hi. apply (post_mono s i p p2 L2).
      destruct (Nat.eq_dec e' e) as [Heq|Hne].
      + subst e'. destruct (p_want p e) eqn:Wp.
        * apply (P3 e); [unfold wantd; rewrite Wp; discriminate| |exact Hi].
          intros HXe. apply HnX. apply HX1. exact HXe.
        * exfalso. apply HnX. apply HX3. reflexivity.
      + unfold wantd in Hw. rewrite W2 in Hw. apply Nat.eqb_neq in Hne. rewrite Hne in Hw.
        apply (P3 e' Hw); [|exact Hi]. intros HXe. apply HnX. apply HX1. exact HXe. }
  assert (Hpost2 : forall q, ple p2 q ->
            wantd q e /\ (ns_dirty (st_node s n) = true -> p_want q e = Some WantToStart)).
  { intros q Lq. destruct (Lq e) as [Lq1 Lq2]. split.
    - apply Lq1. unfold wantd. rewrite W2, Nat.eqb_refl. discriminate.
    - intros Hd. apply Lq2. rewrite W2, Nat.eqb_refl. f_equal. apply V2c. exact Hd. }
  destruct (p_want p e) as [v|] eqn:Wp; cbn [negb] in H.
  - (* already in the map *)
    inversion H; subst b err p'.
    split; [apply (HP2 X); [auto|auto|discriminate]|]. split; [exact L2|].
    intros _. apply Hpost2. apply ple_refl.
  - (* inserted: the inputs are walked *)
    destruct (HR e Fn) as [Iins [Ifin _]].
    set (X' := fun x => X x \/ x = e).
    assert (HP2' : PI s X' p2).
    { apply HP2; [intros e' Hx; left; exact Hx| |intros _; right; reflexivity].
      intros Hw. exfalso. apply Hw. exact Wp. }
    rewrite Iins in H.
    destruct (ast_loop_PI s X' (add_sub_target g f s (Some n))
                (fun i q b0 err0 q' Hv Hok0 Ri Fi HPq => IH X' (Some n) i q b0 err0 q' Hv Hok0 Ri Fi HPq)
                (ei_ins (g_edge g e)) p2 b err p' H Hok) as [HP' [L' Pins]]; [|exact HP2'|].
    { intros i Hi. split; [|apply Ifin; exact Hi].
      apply (reach_step g (manifest_ins g) T n i Rn). exists e. split; [exact Hp|exact Hi]. }
    destruct HP' as [Q0 [Q1 [Q2 Q3]]].
    split; [|split; [apply (ple_trans p p2 p' L2 L')|intros _; apply Hpost2; exact L']].
    split; [exact Q0|]. split; [exact Q1|]. split; [exact Q2|].
    intros e' Hw HnX. destruct (Nat.eq_dec e' e) as [->|Hne]; [exact Pins|].
    apply (Q3 e' Hw). intros [Hx|Hx]; [apply HnX; exact Hx|contradiction].
Qed.

(* PI and post are stable when the scan goes on *)
Lemma PI_vrel a b X p : RI a -> vrel g a b -> PI a X p -> PI b X p.
Proof.
  intros HR V [P0 [P1 [P2 P3]]].
  assert (E : forall e, mark_of a e = VisitDone -> st_edge b e = st_edge a e).
  { intros e He. apply (ext_marked a b e (proj1 V)). rewrite He. discriminate. }
  assert (Hpost : forall i p0, node_final g a i -> post a i p0 -> post b i p0).
  { intros i p0 Fi. destruct (final_vrel g a b i V Fi) as [_ Ei]. unfold post.
    unfold node_final in Fi. destruct (g_producer g i) as [ie|]; [|rewrite Ei; auto].
    rewrite (E ie Fi), Ei. auto. }
  split; [exact P0|]. split; [|split].
  - intros e Hw. destruct (P1 e Hw) as [A [B C]]. rewrite (E e A). repeat split; assumption.
  - intros e Hw. destruct (P2 e Hw) as [n [Hp Hd]]. exists n. split; [exact Hp|].
    assert (Fn : node_final g a n).
    { unfold node_final. rewrite Hp. apply (P1 e). unfold wantd. rewrite Hw. discriminate. }
    rewrite (proj2 (final_vrel g a b n V Fn)). exact Hd.
  - intros e Hw HnX i Hi. destruct (P1 e Hw) as [A _]. destruct (HR e A) as [_ [Ifin _]].
    apply (Hpost i p (Ifin i Hi)). apply (P3 e Hw HnX i Hi).
Qed.

Lemma post_vrel a b n p : vrel g a b -> node_final g a n -> post a n p -> post b n p.
Proof.
  intros V Fn. destruct (final_vrel g a b n V Fn) as [_ En]. unfold post.
  unfold node_final in Fn. destruct (g_producer g n) as [e|]; [|rewrite En; auto].
  rewrite (ext_marked a b e (proj1 V)) by (rewrite Fn; discriminate). rewrite En. auto.
Qed.

Definition noX : edge -> Prop := fun _ => False.

Lemma add_targets_GI : forall rest s p s' p' (Dn : node -> Prop),
  incl rest T ->
  add_targets g w s p rest = ScanOk s' p' ->
  SInv g w s -> RI s -> PI s noX p ->
  (forall t, Dn t -> node_final g s t /\ post s t p) ->
  SInv g w s' /\ RI s' /\ PI s' noX p' /\
  (forall t, Dn t \/ In t rest -> node_final g s' t /\ post s' t p').
Proof.
  induction rest as [|t rest IH]; intros s p s' p' Dn Hinc H HS HR HP HD; cbn [add_targets] in H.
  - inversion H; subst. split; [exact HS|]. split; [exact HR|]. split; [exact HP|].
    intros t [Ht|[]]. apply HD; exact Ht.
  - destruct (builder_add_target g w s p t) as [c|m d|e| |s1 p1] eqn:Hb; try discriminate.
    assert (Step : SInv g w s1 /\ RI s1 /\ vrel g s s1 /\ node_final g s1 t /\
                   PI s1 noX p1 /\ ple p p1 /\ post s1 t p1).
    { unfold builder_add_target in Hb.
      destruct (recompute_dirty g w s t) as [[s1' vn]|c|e|] eqn:Hrd; try discriminate.
      unfold recompute_dirty in Hrd.
      destruct (loop_all _ _ _ _ _ _ Hrd HS HR) as [HS1 [HR1 [V1 [F1 Hvn]]]]. subst vn.
      specialize (F1 t (or_introl eq_refl)).
      pose proof (PI_vrel s s1' noX p HR V1 HP) as HP1.
      assert (Rt : reach g T t) by (apply reach_target; apply Hinc; left; reflexivity).
      destruct (match g_producer g t with Some e => negb (es_ready (st_edge s1' e)) | None => true end) eqn:Hneed.
      - unfold plan_add_target in Hb.
        destruct (add_sub_target g (plan_fuel g) s1' None t p) as [[[b err] pa]|] eqn:Ha; [|discriminate].
        assert (Hres : (b = true \/ err = None) /\ s1 = s1' /\ p1 = pa).
        { destruct b; [cbn [add_validation_targets] in Hb; inversion Hb; subst; split; [left; reflexivity|split; reflexivity]|].
          destruct err as [[m d]|]; [discriminate|]. inversion Hb; subst. split; [right; reflexivity|split; reflexivity]. }
        destruct Hres as [Hok [-> ->]].
        destruct (ast_PI s1' HR1 _ _ _ _ _ _ _ _ Ha Hok Rt F1 HP1) as [HPa [La Pa]].
        split; [exact HS1|]. split; [exact HR1|]. split; [exact V1|]. split; [exact F1|].
        split; [exact HPa|]. split; [exact La|exact Pa].
      - cbn [add_validation_targets] in Hb. inversion Hb; subst s1' p1.
        split; [exact HS1|]. split; [exact HR1|]. split; [exact V1|]. split; [exact F1|].
        split; [exact HP1|]. split; [apply ple_refl|].
        unfold post. destruct (g_producer g t) as [e|]; [|discriminate].
        apply negb_false_iff in Hneed. intros Hr. congruence. }
    destruct Step as [HS1 [HR1 [V1 [F1 [HP1 [L1 Pt]]]]]].
    destruct (IH s1 p1 s' p' (fun x => Dn x \/ x = t) (fun x Hx => Hinc x (or_intror Hx)) H HS1 HR1 HP1)
      as [HS' [HR' [HP' HD']]].
    { intros x [Hx|Hx]; [|subst x; split; assumption].
      destruct (HD x Hx) as [Fx Px]. split; [apply (proj1 (final_vrel g s s1 x V1 Fx))|].
      apply (post_mono s1 x p p1 L1). apply (post_vrel s s1 x p V1 Fx Px). }
    split; [exact HS'|]. split; [exact HR'|]. split; [exact HP'|].
    intros x [Hx|[<-|Hx]]; apply HD'; [left; left; exact Hx|left; right; reflexivity|right; exact Hx].
Qed.

Lemma RI_init : RI (init_state g).
Proof. intros e He. cbn in He. discriminate. Qed.

Lemma PI_init : PI (init_state g) noX init_plan.
Proof.
  split; [intros e; cbn; discriminate|]. split; [intros e Hw; exfalso; apply Hw; reflexivity|].
  split; [intros e Hw; cbn in Hw; discriminate|intros e Hw; exfalso; apply Hw; reflexivity].
Qed.

Lemma must_dirty_same_prod n n' e :
  g_producer g n = Some e -> g_producer g n' = Some e -> must_dirty g w n -> must_dirty g w n'.
Proof.
  intros Hp Hp' H.
  inversion H as [x Hn Hz|x e0 i Hn Hi Hd|x e0 o' Hn Hph Hin Hv Ho Hz|x e0 o' Hn Hph Ho Hr|x e0 Hn Hl]; subst;
    rewrite Hp in Hn; inversion Hn; subst e0.
  - apply (md_input g w n' e i Hp' Hi Hd).
  - apply (md_phony g w n' e o' Hp' Hph Hin Hv Ho Hz).
  - apply (md_self g w n' e o' Hp' Hph Ho Hr).
  - apply (md_deps g w n' e Hp' Hl).
Qed.

(* ---- the two facts the history proofs need *)
Section Accepted.
Variables (s : sstate) (p : plan).
Hypothesis Hscan : scan g w T = ScanOk s p.

Lemma accepted_facts :
  SInv g w s /\ RI s /\ PI s noX p /\ forall t, In t T -> node_final g s t /\ post s t p.
Proof.
  destruct (add_targets_GI T (init_state g) init_plan s p (fun _ => False) (incl_refl T) Hscan
              (SInv_init g w) RI_init PI_init) as [A [B [C D]]]; [intros t []|].
  split; [exact A|]. split; [exact B|]. split; [exact C|]. intros t Ht. apply D. right; exact Ht.
Qed.

Lemma reach_final n : reach g T n ->
  node_final g s n /\
  forall e, g_producer g n = Some e -> ready s e = false ->
            wantd p e /\ (ns_dirty (nd s n) = true -> p_want p e = Some WantToStart).
Proof.
  destruct accepted_facts as [HS [HR [[P0 [P1 [P2 P3]]] HT]]].
  intros Hn. induction Hn as [t Ht|x y Hx IHx [ex [Hex Hin]]].
  - destruct (HT t Ht) as [Ft Pt]. split; [exact Ft|]. intros e He. unfold post in Pt. rewrite He in Pt. exact Pt.
  - destruct IHx as [Fx Px]. unfold node_final in Fx. rewrite Hex in Fx.
    destruct (HR ex Fx) as [_ [Ifin [Irdy _]]]. split; [apply Ifin; exact Hin|].
    intros ey Hey Hr. pose proof (Irdy y ey Hin Hey Hr) as Hrx.
    destruct (Px ex Hex Hrx) as [Hw _].
    pose proof (P3 ex Hw (fun F => F) y Hin) as Py. unfold post in Py. rewrite Hey in Py. apply Py. exact Hr.
Qed.

(* kWantToStart only for statements the targets need, with outputs that must be remade *)
Theorem scan_want_sound e :
  p_want p e = Some WantToStart ->
  neededE e /\ exists o, In o (ei_outs (g_edge g e)) /\ must_dirty g w o.
Proof.
  destruct accepted_facts as [[S1 _] [HR [[P0 [P1 [P2 P3]]] HT]]].
  intros Hw. assert (Hwd : wantd p e) by (unfold wantd; rewrite Hw; discriminate).
  destruct (P1 e Hwd) as [Hd [Hn _]]. split; [exact Hn|].
  destruct (P2 e Hw) as [n [Hp Hdirty]]. exists n. split; [apply prod_out; exact Hp|].
  assert (Fn : node_final g s n) by (unfold node_final; rewrite Hp; exact Hd).
  apply (proj1 (S1 n Fn)). exact Hdirty.
Qed.

(* every needed statement whose outputs must be remade is kWantToStart (the input-less phony
   excepted, which never enters the plan), and none of its inputs is a missing source *)
Theorem scan_want_complete e :
  neededE e -> (exists o, In o (ei_outs (g_edge g e)) /\ must_dirty g w o) ->
  ~ (ei_phony (g_edge g e) = true /\ ei_ins (g_edge g e) = []) ->
  p_want p e = Some WantToStart /\
  forall i, In i (ei_ins (g_edge g e)) -> g_producer g i = None -> w_mtime w i <> 0%Z.
Proof.
  intros [n [Rn Hp]] [o [Ho Hmd]] Hnp.
  destruct accepted_facts as [[S1 _] [HR [[P0 [P1 [P2 P3]]] HT]]].
  destruct (reach_final n Rn) as [Fn Pn].
  assert (Hd : mark_of s e = VisitDone) by (unfold node_final in Fn; rewrite Hp in Fn; exact Fn).
  assert (Hdn : ns_dirty (nd s n) = true).
  { apply (proj1 (S1 n Fn)). apply (must_dirty_same_prod o n e (out_prod e o Ho) Hp Hmd). }
  destruct (HR e Hd) as [_ [Ifin [_ Idirty]]].
  destruct (Idirty n (prod_out n e Hp) Hdn) as [Hph|Hr]; [contradiction|].
  destruct (Pn e Hp Hr) as [Hw Hts]. split; [apply Hts; exact Hdn|].
  intros i Hi Hpi Hz. pose proof (P3 e Hw (fun F => F) i Hi) as Pi. unfold post in Pi. rewrite Hpi in Pi.
  destruct (frag_edge e (Hwg n e Hp)) as [_ [_ Hbl]]. rewrite (Hbl i Hi) in Pi. cbn [negb] in Pi.
  rewrite andb_true_r in Pi.
  assert (Hdi : ns_dirty (nd s i) = true).
  { apply (proj1 (S1 i (Ifin i Hi))). apply md_leaf; assumption. }
  congruence.
Qed.

(* every node the targets need has been looked at: its flag is the specified one *)
Theorem scan_reach_ok n : reach g T n -> node_ok g w s n.
Proof.
  destruct accepted_facts as [[S1 _] _]. intros Rn. apply S1. apply (reach_final n Rn).
Qed.

End Accepted.
End Plan.
End ScanFacts.

(* ================================================================== Part H: histories *)
Local Open Scope Z_scope.

(* ---- CrashDefs.record_mtime: all that matters here are its bounds *)
Lemma restat_loop_bounds restat : forall scan after rm cl rm' cl',
  CrashDefs.restat_loop restat scan after rm cl = (rm', cl') ->
  rm <= rm' /\ (rm' = rm \/ exists a, In a after /\ rm' = CrashDefs.stat a).
Proof.
  induction scan as [|sc scan IH]; intros after rm cl rm' cl' H; cbn [CrashDefs.restat_loop] in H.
  - inversion H; subst. split; [lia|left; reflexivity].
  - destruct after as [|a after]; [inversion H; subst; split; [lia|left; reflexivity]|].
    destruct (IH _ _ _ _ _ H) as [A B].
    destruct (Z.gtb_spec (CrashDefs.stat a) rm) as [Hgt|Hle].
    + split; [lia|]. destruct B as [->|[a' [Ha' ->]]].
      * right. exists a. split; [left; reflexivity|reflexivity].
      * right. exists a'. split; [right; exact Ha'|reflexivity].
    + split; [exact A|]. destruct B as [->|[a' [Ha' ->]]]; [left; reflexivity|].
      right. exists a'. split; [right; exact Ha'|reflexivity].
Qed.

Lemma record_mtime_bounds c t0 scan after :
  let m := CrashDefs.record_mtime c t0 scan after in
  t0 <= m /\ (m = t0 \/ exists a, In a after /\ m = CrashDefs.stat a).
Proof.
  cbn zeta. unfold CrashDefs.record_mtime.
  destruct (Z.eqb t0 0 || CrashDefs.c_restat c || CrashDefs.c_generator c)%bool; [|split; [lia|left; reflexivity]].
  destruct (CrashDefs.restat_loop (CrashDefs.c_restat c) scan after t0 false) as [rm cl] eqn:Hl.
  destruct (restat_loop_bounds _ _ _ _ _ _ _ Hl) as [A B].
  destruct cl; [split; [lia|left; reflexivity]|]. split; [exact A|exact B].
Qed.

Section Hist.
Variable cmd : edge -> N -> snapshot -> node -> content.
Variable g : graph.
Hypothesis Hwf : wf_spec g.
Hypothesis Hwg : wf_graph g.
Hypothesis Hfrag : frag_AB g = true.
Hypothesis Htopo : topo_ordered g = true.
(* the output of a generator rule does not depend on its own command line (C03's clause:
   ninja does not re-run it when the command line changes) *)
Hypothesis Hgen : forall e h h' S o,
  ei_generator (g_edge g e) = true -> cmd e h S o = cmd e h' S o.

Notation G st := (graph_of g st).
Notation W st := (world_of st).
Notation outs e := (ei_outs (g_edge g e)).
Notation phony e := (ei_phony (g_edge g e)).

Lemma Gwf st : wf_spec (G st).
Proof. exact Hwf. Qed.
Lemma Gwg st : wf_graph (G st).
Proof. exact Hwg. Qed.
Lemma Gfrag st : frag_AB (G st) = true.
Proof. exact Hfrag. Qed.

Lemma G_hash_eq st st' : h_hash st' = h_hash st -> G st' = G st.
Proof. intros H. unfold graph_of. rewrite H. reflexivity. Qed.

Lemma o_prod e o : In o (outs e) -> g_producer g o = Some e.
Proof. apply (proj1 Hwf). Qed.
Lemma p_out n e : g_producer g n = Some e -> In n (outs e).
Proof. apply (proj1 (proj2 Hwf)). Qed.

(* below k: a source or an output of a statement before [k] *)
Definition below (k : nat) (n : node) : Prop :=
  match g_producer g n with Some e => (e < k)%nat | None => True end.

Lemma below_mono k k' n : (k <= k')%nat -> below k n -> below k' n.
Proof. unfold below. destruct (g_producer g n); [lia|auto]. Qed.

Lemma in_below e i : (e < g_nedges g)%nat -> In i (ei_ins (g_edge g e)) -> below e i.
Proof.
  intros He Hi. pose proof (edges_all_spec g _ e Htopo He) as H. cbn beta in H.
  rewrite forallb_forall in H. specialize (H i Hi). unfold below.
  destruct (g_producer g i) as [e'|]; [apply Nat.ltb_lt; exact H|exact I].
Qed.

Lemma nonoo_in e i : In i (nonoo_ins g e) -> In i (ei_ins (g_edge g e)).
Proof. apply (nonoo_incl g e). Qed.

Lemma not_out_of_below k e n : below k n -> (k <= e)%nat -> ~ In n (outs e).
Proof. unfold below. intros Hb Hk Hin. rewrite (o_prod e n Hin) in Hb. lia. Qed.

Lemma edge_frag e : (e < g_nedges g)%nat -> ei_deps (g_edge g e) = DepsNone.
Proof. intros He. apply (frag_edge g Hfrag e He). Qed.

(* ---- elementary state changes *)
Lemma upd_same {A : Type} (f : node -> A) n v : upd f n v n = v.
Proof. unfold upd. rewrite Nat.eqb_refl. reflexivity. Qed.
Lemma upd_other {A : Type} (f : node -> A) n v n' : n' <> n -> upd f n v n' = f n'.
Proof. intros H. unfold upd. destruct (Nat.eqb_spec n' n); [contradiction|reflexivity]. Qed.

Lemma mem_node_In n l : mem_node n l = true <-> In n l.
Proof.
  unfold mem_node. rewrite existsb_exists. split.
  - intros [x [Hx He]]. apply Nat.eqb_eq in He. subst. exact Hx.
  - intros H. exists n. split; [exact H|apply Nat.eqb_refl].
Qed.

Lemma mem_node_false n l : ~ In n l -> mem_node n l = false.
Proof. intros H. destruct (mem_node n l) eqn:E; [|reflexivity]. apply mem_node_In in E. contradiction. Qed.

(* ---- the output writes of one command *)
Lemma write_outs_spec restat f : forall os st,
  let st' := write_outs restat f os st in
  h_blog st' = h_blog st /\ h_hash st' = h_hash st /\ h_ghost st' = h_ghost st /\
  h_trace st' = h_trace st /\ h_clock st <= h_clock st' /\
  (forall n, ~ In n os -> h_disk st' n = h_disk st n) /\
  (forall n, h_disk st' n = h_disk st n \/
             exists m, h_disk st' n = Some (m, f n) /\ h_clock st < m <= h_clock st' /\ In n os) /\
  (forall o, In o os -> exists m, h_disk st' o = Some (m, f o)) /\
  (restat = false -> forall o, In o os ->
     exists m, h_disk st' o = Some (m, f o) /\ h_clock st < m <= h_clock st').
Proof.
  induction os as [|o os IH]; intros st; cbn zeta.
  - cbn [write_outs fold_left]. repeat split; try reflexivity; try lia.
    + intros n. left; reflexivity.
    + intros o [].
    + intros _ o [].
  - change (write_outs restat f (o :: os) st) with (write_outs restat f os (write_out restat f st o)).
    set (st1 := write_out restat f st o).
    destruct (IH st1) as [B [Hh [Gh [Tr [C [D [E [F K]]]]]]]]. cbn zeta in *.
    set (st' := write_outs restat f os st1) in *.
    assert (H1 : h_blog st1 = h_blog st /\ h_hash st1 = h_hash st /\ h_ghost st1 = h_ghost st /\
                 h_trace st1 = h_trace st /\ h_clock st <= h_clock st1 /\
                 (forall n, n <> o -> h_disk st1 n = h_disk st n) /\
                 (exists m, h_disk st1 o = Some (m, f o)) /\
                 (h_disk st1 o = h_disk st o \/
                  (h_disk st1 o = Some (h_clock st + 1, f o) /\ h_clock st1 = h_clock st + 1)) /\
                 (restat = false -> h_disk st1 o = Some (h_clock st + 1, f o) /\ h_clock st1 = h_clock st + 1)).
    { subst st1. unfold write_out.
      destruct (restat && same_content (h_disk st o) (f o))%bool eqn:Hc.
      - apply andb_true_iff in Hc. destruct Hc as [Hr Hc]. unfold same_content in Hc.
        assert (Hex : exists m, h_disk st o = Some (m, f o)).
        { destruct (h_disk st o) as [[m c']|]; [|discriminate]. apply N.eqb_eq in Hc. subst c'.
          exists m. reflexivity. }
        split; [reflexivity|]. split; [reflexivity|]. split; [reflexivity|]. split; [reflexivity|].
        split; [lia|]. split; [reflexivity|]. split; [exact Hex|]. split; [left; reflexivity|].
        intros Hf. rewrite Hf in Hr. discriminate.
      - unfold write_file. cbn [h_blog h_hash h_ghost h_trace h_clock h_disk].
        split; [reflexivity|]. split; [reflexivity|]. split; [reflexivity|]. split; [reflexivity|].
        split; [lia|]. split; [intros n Hn; apply upd_other; exact Hn|].
        split; [exists (h_clock st + 1); apply upd_same|].
        split; [right; split; [apply upd_same|reflexivity]|].
        intros _. split; [apply upd_same|reflexivity]. }
    destruct H1 as [B1 [Hh1 [Gh1 [Tr1 [C1 [D1 [F1 [E1 K1]]]]]]]].
    split; [congruence|]. split; [congruence|]. split; [congruence|]. split; [congruence|].
    split; [lia|]. split; [|split; [|split]].
    + intros n Hn. rewrite D by (intros Hi; apply Hn; right; exact Hi).
      apply D1. intros ->. apply Hn. left; reflexivity.
    + intros n. destruct (E n) as [En|[m [Em [Hm Hin]]]].
      * destruct (Nat.eq_dec n o) as [->|Hne]; [|left; rewrite En; apply D1; exact Hne].
        destruct E1 as [E1|[E1 Ec]]; [left; congruence|].
        right. exists (h_clock st + 1). split; [congruence|]. split; [lia|left; reflexivity].
      * right. exists m. split; [exact Em|]. split; [lia|right; exact Hin].
    + intros x [<-|Hx]; [|apply F; exact Hx].
      destruct (in_dec Nat.eq_dec o os) as [Hin|Hnin]; [apply F; exact Hin|].
      rewrite (D o Hnin). exact F1.
    + intros Hr x Hx. destruct (K1 Hr) as [Ko Kc].
      destruct (in_dec Nat.eq_dec x os) as [Hin|Hnin].
      * destruct (K Hr x Hin) as [m [Em Hm]]. exists m. split; [exact Em|lia].
      * destruct Hx as [<-|Hx]; [|contradiction].
        exists (h_clock st + 1). rewrite (D o Hnin). split; [exact Ko|lia].
Qed.

(* ---- what one command run does *)
Definition fresh_or_same (st st' : hstate) (t0 : Z) (f : node -> content) (os : list node) : Prop :=
  forall n, h_disk st' n = h_disk st n \/
            exists m, h_disk st' n = Some (m, f n) /\ t0 < m <= h_clock st' /\ In n os.

Lemma run_edge_spec st e :
  0 <= h_clock st -> (forall n m c, h_disk st n = Some (m, c) -> 0 < m <= h_clock st) ->
  let st' := run_edge cmd g st e in
  let h := h_hash st e in
  let S := reads g st e in
  let t0 := h_clock st + 1 in
  h_hash st' = h_hash st /\
  t0 <= h_clock st' /\
  (forall n, ~ In n (outs e) ->
     h_disk st' n = h_disk st n /\ h_blog st' n = h_blog st n /\ h_ghost st' n = h_ghost st n) /\
  fresh_or_same st st' t0 (cmd e h S) (outs e) /\
  (forall n m c, h_disk st' n = Some (m, c) -> 0 < m <= h_clock st') /\
  (exists m, t0 <= m <= h_clock st' /\
     forall o, In o (outs e) ->
       h_blog st' o = Some (h, m) /\ h_ghost st' o = Some S /\
       exists mo, h_disk st' o = Some (mo, cmd e h S o)) /\
  (ei_restat (g_edge g e) = false -> forall o, In o (outs e) ->
     exists mo, h_disk st' o = Some (mo, cmd e h S o) /\ t0 < mo).
Proof.
  intros Hc Hd. cbn zeta. unfold run_edge.
  set (h := h_hash st e). set (S := reads g st e). set (st1 := tick st).
  destruct (write_outs_spec (ei_restat (g_edge g e)) (cmd e h S) (outs e) st1)
    as [B [Hh [Gh [Tr [C [D [E [F K]]]]]]]]. cbn zeta in *.
  set (st2 := write_outs (ei_restat (g_edge g e)) (cmd e h S) (outs e) st1) in *.
  set (m := CrashDefs.record_mtime (crash_cfg (g_edge g e) h) (h_clock st1)
              (map (orec_of st) (outs e)) (map (orec_of st2) (outs e))).
  change (h_clock st1) with (h_clock st + 1) in *. change (h_disk st1) with (h_disk st) in *.
  assert (Hd2 : forall n m0 c, h_disk st2 n = Some (m0, c) -> 0 < m0 <= h_clock st2).
  { intros n m0 c Hn. destruct (E n) as [En|[m1 [Em [Hm _]]]].
    - rewrite En in Hn. specialize (Hd n m0 c Hn). lia.
    - rewrite Em in Hn. inversion Hn; subst. lia. }
  cbn [record h_hash h_clock h_disk h_blog h_ghost].
  split; [exact Hh|]. split; [exact C|]. split; [|split; [|split; [|split]]].
  - intros n Hn. rewrite (mem_node_false n _ Hn). split; [apply D; exact Hn|]. split; [rewrite B|rewrite Gh]; reflexivity.
  - intros n. destruct (E n) as [En|[m1 [Em [Hm Hin]]]]; [left; exact En|].
    right. exists m1. split; [exact Em|]. split; [exact Hm|exact Hin].
  - exact Hd2.
  - exists m. split.
    + destruct (record_mtime_bounds (crash_cfg (g_edge g e) h) (h_clock st + 1)
                  (map (orec_of st) (outs e)) (map (orec_of st2) (outs e))) as [A1 A2].
      fold m in A1, A2. split; [exact A1|].
      destruct A2 as [->|[a [Ha ->]]]; [exact C|].
      apply in_map_iff in Ha. destruct Ha as [o [<- Ho]]. unfold orec_of, CrashDefs.stat. cbn [CrashDefs.o_file].
      destruct (h_disk st2 o) as [[mo c]|] eqn:Hdo; [|lia]. destruct (Hd2 o mo c Hdo). lia.
    + intros o Ho. rewrite (proj2 (mem_node_In o _) Ho). split; [reflexivity|]. split; [reflexivity|].
      apply F; exact Ho.
  - intros Hr o Ho. destruct (K Hr o Ho) as [mo [Em Hm]]. exists mo. split; [exact Em|lia].
Qed.

End Hist.
