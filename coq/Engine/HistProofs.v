(* Proofs about the history-level model (HistDefs.v).  No axioms.
   Part S: what an accepted scan of a fragment-AB graph means for the plan: outputs_ready_ ([RI]),
           the want map ([PI]; kWantToStart <-> needed and must_dirty: [scan_want_sound],
           [scan_want_complete]) and acceptance when nothing is dirty ([scan_accepts]); built on
           ScanProofs' invariants SInv / vrel.
   Part H: the semantic side: StateOk/LogSound are kept by every history step ([logsound_*],
           [good_hist]); a statement the scan judges clean has the contents of a clean build
           ([scan_clean_correct]); the loop invariants of one build ([build_inv1], [build_inv_c01],
           [build_inv_c02]); C01 ([C01_build_equals_clean], [C01_history]); C02 ([C02_converges],
           [C02_second_build_idle], [C02_history]); the clause about edits while a command runs
           ([good_run_racy], [C01_racy_plain_recovers]; refuted without "neither restat nor
           generator": [C01_racy_generator_refuted], [C01_racy_restat_refuted]). *)
From NinjaV Require Import Engine.CrashDefs.
From NinjaV Require Import Base.Bytes Engine.ScanDefs Engine.ScanSpec Engine.ScanProofs Engine.HistDefs.
Local Open Scope nat_scope.

(* ================================================================== generic *)
Lemma edges_all_spec g f e : edges_all g f = true -> e < g_nedges g -> f e = true.
Proof.
  unfold edges_all. intros H He. rewrite forallb_forall in H. apply H. apply in_seq. lia.
Qed.

Lemma is_nil_true {A : Type} (l : list A) : is_nil l = true <-> l = [].
Proof. destruct l; cbn [is_nil]; split; congruence. Qed.

Lemma opt_node_eqb_refl m : opt_node_eqb m m = true.
Proof. destruct m as [x|]; cbn [opt_node_eqb]; [apply Nat.eqb_refl|reflexivity]. Qed.

Lemma splice_nil ins noo : splice ins noo [] = ins.
Proof. unfold splice. cbn [app]. apply firstn_skipn. Qed.

(* ================================================================== Part S: scan and plan *)
Section ScanFacts.
Variable g : graph.
Variable w : world.
Hypothesis Hwf : wf_spec g.
Hypothesis Hwg : wf_graph g.
Hypothesis Hfrag : frag_AB g = true.

Notation mark_of s e := (es_mark (st_edge s e)).
Notation ins_of s e := (es_ins (st_edge s e)).
Notation rnd := (recompute_node_dirty g w).
Notation nd s n := (st_node s n).
Notation ready s e := (es_ready (st_edge s e)).

Lemma frag_edge e : e < g_nedges g ->
  ei_deps (g_edge g e) = DepsNone /\ ei_vals (g_edge g e) = [] /\
  forall i, In i (ei_ins (g_edge g e)) -> g_byloader g i = false.
Proof.
  intros He. pose proof (edges_all_spec g _ e Hfrag He) as H. cbn beta zeta in H.
  apply andb_true_iff in H. destruct H as [H H3]. apply andb_true_iff in H. destruct H as [H1 H2].
  split; [destruct (ei_deps (g_edge g e)); cbn in H1; congruence|].
  split; [apply is_nil_true; exact H2|].
  intros i Hi. rewrite forallb_forall in H3. specialize (H3 i Hi). apply negb_true_iff in H3. exact H3.
Qed.

Lemma out_prod e o : In o (ei_outs (g_edge g e)) -> g_producer g o = Some e.
Proof. apply (proj1 Hwf). Qed.
Lemma prod_out n e : g_producer g n = Some e -> In n (ei_outs (g_edge g e)).
Proof. apply (proj1 (proj2 Hwf)). Qed.

(* ---- the frame of RecomputeNodeDirty without deps *)
Lemma after_inputs_AB visit e rm rd s3 vs3 :
  ei_deps (g_edge g e) = DepsNone ->
  after_inputs g w visit e false rm rd s3 vs3 =
  let '(s4, mri, dirty) := eval_inputs g e (ins_of s3 e) 0 s3 None false in
  let '(dirty1, s5) := if dirty then (true, s4) else outputs_dirty_all g w e (edge_outs g e) mri s4 in
  SOk (finish_edge g (if dirty1 then s5 else splice_deps g s5 e []) e dirty1, vs3).
Proof.
  intros Hd. unfold after_inputs.
  destruct (eval_inputs g e (ins_of s3 e) 0 s3 None false) as [[s4 mri] dirty].
  destruct (if dirty then (true, s4) else outputs_dirty_all g w e (edge_outs g e) mri s4) as [dirty1 s5].
  destruct dirty1.
  - unfold load_deps_try. rewrite Hd. reflexivity.
  - unfold load_deps. rewrite Hd. cbn [visit_all eval_inputs]. rewrite opt_node_eqb_refl. reflexivity.
Qed.

Lemma eval_inputs_ready e : forall l idx s mri d s' mri' d',
  eval_inputs g e l idx s mri d = (s', mri', d') ->
  ready s' e = true ->
  ready s e = true /\ forall i ie, In i l -> g_producer g i = Some ie -> ready s ie = true.
Proof.
  induction l as [|i l IH]; intros idx s mri d s' mri' d' H Hr; cbn [eval_inputs] in H.
  - inversion H; subst. split; [exact Hr|]. intros i ie [].
  - set (s1 := match g_producer g i with
               | Some ie => if es_ready (st_edge s ie) then s else set_ready s e false
               | None => s end) in *.
    assert (Hs1 : ready s1 e = true /\ forall j je, In j l -> g_producer g j = Some je -> ready s1 je = true).
    { destruct (is_order_only _ _ _); [eapply IH; eassumption|].
      destruct (ns_dirty (st_node s1 i)); eapply IH; eassumption. }
    destruct Hs1 as [R1 R2].
    assert (E : s1 = s /\ forall ie, g_producer g i = Some ie -> ready s ie = true).
    { subst s1. destruct (g_producer g i) as [ie|]; [|split; [reflexivity|discriminate]].
      destruct (es_ready (st_edge s ie)) eqn:Hie.
      - split; [reflexivity|]. intros ie' Hie'. inversion Hie'; subst. exact Hie.
      - exfalso. unfold set_ready in R1. rewrite upd_edge_same in R1. cbn [es_ready] in R1. discriminate. }
    destruct E as [E1 E2]. rewrite E1 in R1, R2. split; [exact R1|].
    intros j je [<-|Hj] Hp; [apply E2; exact Hp|apply (R2 j je Hj Hp)].
Qed.

Lemma eval_inputs_unready e : forall l idx s mri d s' mri' d',
  eval_inputs g e l idx s mri d = (s', mri', d') ->
  ready s' e = false ->
  ready s e = false \/ exists i ie, In i l /\ g_producer g i = Some ie /\ ready s ie = false.
Proof.
  induction l as [|i l IH]; intros idx s mri d s' mri' d' H Hr; cbn [eval_inputs] in H.
  - inversion H; subst. left; exact Hr.
  - set (s1 := match g_producer g i with
               | Some ie => if es_ready (st_edge s ie) then s else set_ready s e false
               | None => s end) in *.
    assert (Hs1 : ready s1 e = false \/ exists j je, In j l /\ g_producer g j = Some je /\ ready s1 je = false).
    { destruct (is_order_only _ _ _); [eapply IH; eassumption|].
      destruct (ns_dirty (st_node s1 i)); eapply IH; eassumption. }
    assert (E : s1 = s \/ exists ie, g_producer g i = Some ie /\ ready s ie = false).
    { subst s1. destruct (g_producer g i) as [ie|]; [|left; reflexivity].
      destruct (es_ready (st_edge s ie)) eqn:Hie; [left; reflexivity|].
      right. exists ie. split; [reflexivity|exact Hie]. }
    destruct E as [E|[ie [Hp Hie]]].
    + rewrite E in Hs1. destruct Hs1 as [Hs1|[j [je [Hj [Hpj Hrj]]]]]; [left; exact Hs1|].
      right. exists j, je. split; [right; exact Hj|]. split; assumption.
    + right. exists i, ie. split; [left; reflexivity|]. split; assumption.
Qed.

Lemma finish_edge_ready e s d :
  ready (finish_edge g s e d) e =
  if d && negb (ei_phony (g_edge g e) && is_nil (ins_of s e)) then false else ready s e.
Proof.
  unfold finish_edge, set_mark. rewrite upd_edge_same. cbn [es_ready].
  destruct d; cbn [andb].
  - rewrite (st_edge_mark_outputs_dirty (edge_outs g e) s).
    change (match ins_of s e with [] => true | _ :: _ => false end) with (is_nil (ins_of s e)).
    destruct (negb (ei_phony (g_edge g e) && is_nil (ins_of s e))).
    + unfold set_ready. rewrite upd_edge_same. reflexivity.
    + rewrite (st_edge_mark_outputs_dirty (edge_outs g e) s). reflexivity.
  - reflexivity.
Qed.

(* nodes outside the outputs are untouched by the output checks, dirty flags by none of them *)
Lemma oda_nodes e mri : forall outs s d s',
  outputs_dirty_all g w e outs mri s = (d, s') ->
  (forall n, ~ In n outs -> nd s' n = nd s n) /\
  (forall n, ns_dirty (nd s' n) = ns_dirty (nd s n)).
Proof.
  induction outs as [|o outs IH]; intros s d s' H; cbn [outputs_dirty_all] in H.
  - inversion H; subst. split; reflexivity.
  - destruct (ei_phony (g_edge g e)).
    + destruct (phony_output_dirty g e o mri s) as [d1 s1] eqn:H1.
      destruct (phony_output_dirty_props g e o mri s d1 s1 H1) as [_ [O1 [D1 _]]].
      assert (DX : forall n, ns_dirty (nd s1 n) = ns_dirty (nd s n)).
      { intros n. destruct (Nat.eq_dec n o) as [->|Hne]; [exact D1|rewrite (O1 n Hne); reflexivity]. }
      destruct d1.
      * inversion H; subst. split; [|exact DX].
        intros n Hn. apply O1. intros ->. apply Hn. left; reflexivity.
      * destruct (IH s1 d s' H) as [A B]. split.
        -- intros n Hn. rewrite A by (intros Hi; apply Hn; right; exact Hi).
           apply O1. intros ->. apply Hn. left; reflexivity.
        -- intros n. rewrite B. apply DX.
    + destruct (output_dirty_first g w e o (mri_mtime s mri) s).
      * inversion H; subst. split; reflexivity.
      * destruct (IH s d s' H) as [A B]. split.
        -- intros n Hn. apply A. intros Hi; apply Hn; right; exact Hi.
        -- exact B.
Qed.

(* ---- the invariant about outputs_ready_ *)
Definition RIat (s : sstate) (e : edge) : Prop :=
  ins_of s e = ei_ins (g_edge g e) /\
  (forall i, In i (ei_ins (g_edge g e)) -> node_final g s i) /\
  (forall i e', In i (ei_ins (g_edge g e)) -> g_producer g i = Some e' ->
                ready s e' = false -> ready s e = false) /\
  (forall o, In o (ei_outs (g_edge g e)) -> ns_dirty (nd s o) = true ->
             (ei_phony (g_edge g e) = true /\ ei_ins (g_edge g e) = []) \/ ready s e = false) /\
  (ready s e = false ->
   (exists o, In o (ei_outs (g_edge g e)) /\ ns_dirty (nd s o) = true) \/
   (exists i e', In i (ei_ins (g_edge g e)) /\ g_producer g i = Some e' /\ ready s e' = false)).

Definition RI (s : sstate) : Prop := forall e, mark_of s e = VisitDone -> RIat s e.

Lemma RI_keep a b e :
  RI a -> mark_of a e = VisitDone ->
  (forall e', mark_of a e' = VisitDone -> st_edge b e' = st_edge a e') ->
  (forall n, node_final g a n -> node_final g b n /\ nd b n = nd a n) ->
  RIat b e.
Proof.
  intros HR He H1 H2. destruct (HR e He) as [A [B [C [D E]]]].
  assert (Hfo : forall o, In o (ei_outs (g_edge g e)) -> node_final g a o).
  { intros o Ho. unfold node_final. rewrite (out_prod e o Ho). exact He. }
  assert (Hfi : forall i e', In i (ei_ins (g_edge g e)) -> g_producer g i = Some e' -> st_edge b e' = st_edge a e').
  { intros i e' Hi Hp. pose proof (B i Hi) as Hf. unfold node_final in Hf. rewrite Hp in Hf. apply (H1 e' Hf). }
  split; [rewrite (H1 e He); exact A|]. split; [intros i Hi; apply (H2 i (B i Hi))|]. split; [|split].
  - intros i e' Hi Hp Hr. rewrite (Hfi i e' Hi Hp) in Hr. rewrite (H1 e He). apply (C i e' Hi Hp Hr).
  - intros o Ho Hd. rewrite (proj2 (H2 o (Hfo o Ho))) in Hd. rewrite (H1 e He). apply (D o Ho Hd).
  - rewrite (H1 e He). intros Hr. destruct (E Hr) as [[o [Ho Hd]]|[i [e' [Hi [Hp Hr']]]]].
    + left. exists o. split; [exact Ho|]. rewrite (proj2 (H2 o (Hfo o Ho))). exact Hd.
    + right. exists i, e'. split; [exact Hi|]. split; [exact Hp|]. rewrite (Hfi i e' Hi Hp). exact Hr'.
Qed.

Lemma RI_vrel a b e : RI a -> vrel g a b -> mark_of a e = VisitDone -> RIat b e.
Proof.
  intros HR V He. apply (RI_keep a b e HR He).
  - intros e' He'. apply (ext_marked a b e' (proj1 V)). rewrite He'. discriminate.
  - intros n Hn. apply (final_vrel g a b n V Hn).
Qed.

Lemma RI_lstep e a b e' :
  RI a -> lstep g e a b -> mark_of a e <> VisitDone -> e' <> e -> mark_of b e' = VisitDone -> RIat b e'.
Proof.
  intros HR [L1 L2] Ma Hne Hb.
  assert (Ha : mark_of a e' = VisitDone) by (rewrite <- (L1 e' Hne); exact Hb).
  apply (RI_keep a b e' HR Ha).
  - intros e2 H2. apply L1. intros ->. contradiction.
  - intros n Hn.
    assert (Hno : ~ In n (edge_outs g e)).
    { intros Hin. unfold node_final in Hn. rewrite (out_prod e n Hin) in Hn. contradiction. }
    split; [|apply L2; exact Hno].
    unfold node_final in *. destruct (g_producer g n) as [e2|].
    + rewrite L1; [exact Hn|]. intros ->. contradiction.
    + rewrite (L2 n Hno). exact Hn.
Qed.

Lemma rnd_RI : forall f stack n s vs s' vs',
  rnd f stack n (s, vs) = SOk (s', vs') -> SInv g w s -> RI s -> RI s'.
Proof.
  induction f as [|f IH]; intros stack n s vs s' vs' H HS HR; [discriminate|].
  destruct (rnd_spec g w Hwf _ _ _ _ _ _ _ H HS) as [HS' [V' F']].
  destruct (g_producer g n) as [e|] eqn:Hp.
  2:{ cbn [recompute_node_dirty] in H. rewrite Hp in H.
      assert (E : st_edge s' = st_edge s).
      { destruct (n_known (st_node s n)); inversion H; subst; [reflexivity|].
        cbn [set_dirty upd_node st_edge]. apply st_edge_stat_if_necessary. }
      intros e He. apply (RI_vrel s s' e HR V'). rewrite <- E. exact He. }
  destruct (mark_of s e) eqn:Hm.
  2:{ cbn [recompute_node_dirty] in H. rewrite Hp, Hm in H. discriminate. }
  2:{ cbn [recompute_node_dirty] in H. rewrite Hp, Hm in H. inversion H; subst. exact HR. }
  pose proof (Hwg n e Hp) as He. destruct (frag_edge e He) as [Hdeps [Hvals _]].
  rewrite (rnd_none_unfold g w f stack n e s vs Hp Hm) in H.
  destruct HS as [S1 [S2 [S3 S4]]]. destruct (S3 e Hm) as [Hdl Hins]. rewrite Hdl in H.
  destruct (s2_props g w e s) as [A2 [M2 I2]].
  set (s2 := stat_outputs w (enter_edge s e) (edge_outs g e)) in *.
  assert (LS2 : lstep g e s s2).
  { split; [exact A2|]. intros n' Hn'. subst s2. rewrite stat_outputs_other by exact Hn'. reflexivity. }
  assert (HS2 : SInv g w s2).
  { apply (SInv_lstep g w Hwf e s s2 (conj S1 (conj S2 (conj S3 S4))) LS2); [rewrite Hm; discriminate|exact M2]. }
  assert (HR2 : RI s2).
  { intros e' He'. assert (Hne : e' <> e) by (intros ->; congruence).
    apply (RI_lstep e s s2 e' HR LS2); [rewrite Hm; discriminate|exact Hne|exact He']. }
  assert (T2 : forall o, In o (edge_outs g e) -> statted w s2 o).
  { intros o Ho. subst s2. apply stat_outputs_statted; [exact Ho|].
    intros o' Ho'. left. change (nd (enter_edge s e) o') with (nd s o').
    apply (S2 o' e (out_prod e o' Ho') Hm). }
  set (visit := rnd f (stack ++ [n])) in *.
  destruct (visit_all visit (ins_of s2 e) (s2, vs ++ ei_vals (g_edge g e))) as [[s3 vs3]|c|e'|] eqn:V1;
    try discriminate.
  (* the visits of the inputs keep SInv and RI *)
  destruct (visit_all_rel (fun a : sv => SInv g w (fst a) /\ RI (fst a))
                          (fun a b : sv => vrel g (fst a) (fst b))
                          (fun (i : node) (a : sv) => node_final g (fst a) i) visit
                          (fun a => vrel_refl g (fst a))
                          (fun a b c => vrel_trans g (fst a) (fst b) (fst c))
                          (fun i a0 a1 HRel HQ => proj1 (final_vrel g (fst a0) (fst a1) i HRel HQ))
                          (ins_of s2 e))
    with (a := (s2, vs ++ ei_vals (g_edge g e))) (a' := (s3, vs3)) as [[HS3 HR3] [V23 F3]];
    [|split; assumption|exact V1|].
  { intros i [sa va] [sb vb] _ [HSa HRa] Hv. cbn [fst] in *.
    destruct (rnd_spec g w Hwf _ _ _ _ _ _ _ Hv HSa) as [HSb [Vab Fb]].
    split; [split; [exact HSb|apply (IH _ _ _ _ _ _ Hv HSa HRa)]|]. split; assumption. }
  cbn [fst] in HS3, HR3, V23, F3.
  assert (E23 : st_edge s3 e = st_edge s2 e) by (apply (ext_marked s2 s3 e (proj1 V23)); rewrite M2; discriminate).
  assert (M3 : mark_of s3 e = VisitInStack) by (rewrite E23; exact M2).
  assert (I3 : ins_of s3 e = ei_ins (g_edge g e)) by (rewrite E23, I2; exact Hins).
  rewrite I2, Hins in F3.
  rewrite (after_inputs_AB visit e _ _ s3 vs3 Hdeps) in H. rewrite I3 in H.
  destruct (eval_inputs g e (ei_ins (g_edge g e)) 0 s3 None false) as [[s4 mri] dirty] eqn:Hev.
  destruct (if dirty then (true, s4) else outputs_dirty_all g w e (edge_outs g e) mri s4) as [dirty1 s5] eqn:Hod.
  inversion H; subst s' vs'. clear H.
  pose proof (local_eval_inputs g e _ _ _ _ _ _ _ _ Hev) as L34.
  pose proof (st_node_eval_inputs g e _ _ _ _ _ _ _ _ Hev) as N34.
  assert (E45 : st_edge s5 = st_edge s4).
  { destruct dirty; [inversion Hod; subst; reflexivity|].
    pose proof (st_edge_outputs_dirty_all g w e mri (edge_outs g e) s4) as Hx. rewrite Hod in Hx. exact Hx. }
  assert (N45 : (forall x, ~ In x (edge_outs g e) -> nd s5 x = nd s4 x) /\
                (forall x, ns_dirty (nd s5 x) = ns_dirty (nd s4 x))).
  { destruct dirty; [inversion Hod; subst; split; reflexivity|]. apply (oda_nodes e mri _ _ _ _ Hod). }
  set (sX := if dirty1 then s5 else splice_deps g s5 e []) in *.
  assert (EX : (forall e', e' <> e -> st_edge sX e' = st_edge s5 e') /\ mark_of sX e = mark_of s5 e /\
               ins_of sX e = ins_of s5 e /\ ready sX e = ready s5 e /\ st_node sX = st_node s5).
  { subst sX. destruct dirty1; [repeat split; reflexivity|].
    unfold splice_deps, set_ins. split; [intros e' Hne; apply upd_edge_other; exact Hne|].
    rewrite upd_edge_same. cbn [es_mark es_ins es_ready]. rewrite splice_nil.
    repeat split; reflexivity. }
  destruct EX as [X1 [X2 [X3 [X4 X5]]]].
  destruct (finish_edge_props g e sX dirty1) as [A9 [M9 I9]].
  destruct (st_node_finish_edge g e sX dirty1) as [_ [N9 [N9f N9t]]].
  set (s9 := finish_edge g sX e dirty1) in *.
  assert (L39 : lstep g e s3 s9).
  { split.
    - intros e' Hne. rewrite (A9 e' Hne), (X1 e' Hne), E45. apply (proj1 L34 e' Hne).
    - intros x Hx. rewrite (N9 x Hx), X5, (proj1 N45 x Hx), N34. reflexivity. }
  assert (I9' : ins_of s9 e = ei_ins (g_edge g e)).
  { rewrite I9, X3, E45, (proj2 (proj2 L34)). exact I3. }
  intros e' He'. destruct (Nat.eq_dec e' e) as [->|Hne].
  2:{ apply (RI_lstep e s3 s9 e' HR3 L39); [rewrite M3; discriminate|exact Hne|exact He']. }
  assert (F9 : forall i, In i (ei_ins (g_edge g e)) -> node_final g s9 i).
  { intros i Hi. pose proof (F3 i Hi) as Hf. unfold node_final in *.
    destruct (g_producer g i) as [ie|] eqn:Hpi.
    - assert (Hne : ie <> e) by (intros ->; congruence). rewrite (proj1 L39 ie Hne). exact Hf.
    - assert (Hno : ~ In i (edge_outs g e)) by (intros Hin; rewrite (out_prod e i Hin) in Hpi; discriminate).
      rewrite (proj2 L39 i Hno). exact Hf. }
  split; [exact I9'|]. split; [exact F9|]. split; [|split].
  - intros i ie Hi Hpi Hr. destruct (ready s9 e) eqn:Hr9; [exfalso|reflexivity].
    pose proof (F3 i Hi) as Hf. unfold node_final in Hf. rewrite Hpi in Hf.
    assert (Hne : ie <> e) by (intros ->; congruence).
    rewrite (proj1 L39 ie Hne) in Hr.
    unfold s9 in Hr9. rewrite finish_edge_ready in Hr9.
    destruct (dirty1 && negb (ei_phony (g_edge g e) && is_nil (ins_of sX e))); [discriminate|].
    rewrite X4, E45 in Hr9.
    destruct (eval_inputs_ready e _ _ _ _ _ _ _ _ Hev Hr9) as [_ Hall].
    rewrite (Hall i ie Hi Hpi) in Hr. discriminate.
  - intros o Ho Hd. destruct dirty1.
    + unfold s9. rewrite finish_edge_ready. cbn [andb]. rewrite X3, E45, (proj2 (proj2 L34)), I3.
      destruct (ei_phony (g_edge g e)); cbn [andb negb]; [|right; reflexivity].
      destruct (is_nil (ei_ins (g_edge g e))) eqn:Hnil; cbn [negb]; [|right; reflexivity].
      left. split; [reflexivity|apply is_nil_true; exact Hnil].
    + exfalso. rewrite (N9f eq_refl o), X5, (proj2 N45 o), N34 in Hd.
      assert (Hs : settled g s2 o) by (unfold settled; rewrite (out_prod e o Ho), M2; discriminate).
      rewrite (proj2 V23 o Hs) in Hd. destruct (T2 o Ho) as [_ [_ Hdf]]. congruence.
  - intros Hr9. unfold s9 in Hr9. rewrite finish_edge_ready in Hr9.
    destruct (dirty1 && negb (ei_phony (g_edge g e) && is_nil (ins_of sX e)))%bool eqn:Hcond.
    + left. exists n. split; [apply prod_out; exact Hp|].
      apply andb_true_iff in Hcond. destruct Hcond as [Hd1 _]. apply (N9t Hd1 n). apply prod_out; exact Hp.
    + right. rewrite X4, E45 in Hr9.
      destruct (eval_inputs_unready e _ _ _ _ _ _ _ _ Hev Hr9) as [Hr3|[i [ie [Hi [Hpi Hri]]]]].
      * exfalso. rewrite E23 in Hr3. unfold s2 in Hr3. rewrite st_edge_stat_outputs in Hr3.
        unfold enter_edge in Hr3. rewrite upd_edge_same in Hr3. cbn [es_ready] in Hr3. discriminate.
      * exists i, ie. split; [exact Hi|]. split; [exact Hpi|].
        pose proof (F3 i Hi) as Hf. unfold node_final in Hf. rewrite Hpi in Hf.
        assert (Hne : ie <> e) by (intros ->; congruence).
        rewrite (proj1 L39 ie Hne). exact Hri.
Qed.

(* no validations: the list of validation nodes stays as it is *)
Lemma rnd_vs : forall f stack n s vs s' vs',
  rnd f stack n (s, vs) = SOk (s', vs') -> vs' = vs.
Proof.
  induction f as [|f IH]; intros stack n s vs s' vs' H; [discriminate|].
  destruct (g_producer g n) as [e|] eqn:Hp.
  2:{ cbn [recompute_node_dirty] in H. rewrite Hp in H.
      destruct (n_known (st_node s n)); inversion H; reflexivity. }
  destruct (mark_of s e) eqn:Hm.
  2:{ cbn [recompute_node_dirty] in H. rewrite Hp, Hm in H. discriminate. }
  2:{ cbn [recompute_node_dirty] in H. rewrite Hp, Hm in H. inversion H; reflexivity. }
  destruct (frag_edge e (Hwg n e Hp)) as [_ [Hvals _]].
  destruct (rnd_none_ok g w f stack n e s vs Hp Hm s' vs' H)
    as [s3 [vs3 [s5 [new_ins [s6 [s7 [s8 [d [V1 [_ [_ [V2 _]]]]]]]]]]]].
  rewrite Hvals, app_nil_r in V1.
  assert (Hall : forall l a a', visit_all (rnd f (stack ++ [n])) l a = SOk a' -> snd a' = snd a).
  { intros l a a' V.
    destruct (visit_all_rel (fun _ : sv => True) (fun a b : sv => snd b = snd a) (fun _ _ => True)
                            (rnd f (stack ++ [n])) (fun a => eq_refl)
                            (fun a b c H1 H2 => eq_trans H2 H1) (fun _ _ _ _ _ => I) l)
      with (a := a) (a' := a') as [_ [HR _]]; [|exact I|exact V|exact HR].
    intros i [sa va] [sb vb] _ _ Hv. split; [exact I|]. split; [|exact I]. cbn [snd].
    apply (IH _ _ _ _ _ _ Hv). }
  pose proof (Hall _ _ _ V1) as E1. pose proof (Hall _ _ _ V2) as E2. cbn [snd] in E1, E2. congruence.
Qed.

Lemma loop_all : forall qf queue s found s' vs',
  recompute_dirty_loop g w qf queue s found = SOk (s', vs') -> SInv g w s -> RI s ->
  SInv g w s' /\ RI s' /\ vrel g s s' /\ (forall n, In n queue -> node_final g s' n) /\ vs' = found.
Proof.
  induction qf as [|qf IH]; intros queue s found s' vs' H HS HR; destruct queue as [|n queue];
    cbn [recompute_dirty_loop] in H; try discriminate.
  - inversion H; subst. split; [exact HS|]. split; [exact HR|]. split; [apply vrel_refl|]. split; [intros n []|reflexivity].
  - inversion H; subst. split; [exact HS|]. split; [exact HR|]. split; [apply vrel_refl|]. split; [intros n []|reflexivity].
  - destruct (rnd (scan_fuel g) [] n (s, [])) as [[s1 newv]|c|e|] eqn:Hv; try discriminate.
    destruct (rnd_spec g w Hwf _ _ _ _ _ _ _ Hv HS) as [HS1 [V1 F1]].
    pose proof (rnd_RI _ _ _ _ _ _ _ Hv HS HR) as HR1.
    pose proof (rnd_vs _ _ _ _ _ _ _ Hv) as Hnv. subst newv. rewrite !app_nil_r in H.
    destruct (IH _ _ _ _ _ H HS1 HR1) as [HS' [HR' [V' [F' Hvs]]]].
    split; [exact HS'|]. split; [exact HR'|]. split; [apply (vrel_trans g s s1 s' V1 V')|].
    split; [|exact Hvs].
    intros m [<-|Hm]; [apply (proj1 (final_vrel g s1 s' n V' F1))|apply F'; exact Hm].
Qed.

(* no depfile, no deps log: the scan never stops with a load error *)
Lemma rnd_no_loaderr : forall f stack n s vs e',
  rnd f stack n (s, vs) = SLoadErr e' -> SInv g w s -> False.
Proof.
  induction f as [|f IH]; intros stack n s vs e' H HS; [discriminate|].
  destruct (g_producer g n) as [e|] eqn:Hp.
  2:{ cbn [recompute_node_dirty] in H. rewrite Hp in H. destruct (n_known (st_node s n)); discriminate. }
  destruct (mark_of s e) eqn:Hm.
  2:{ cbn [recompute_node_dirty] in H. rewrite Hp, Hm in H. discriminate. }
  2:{ cbn [recompute_node_dirty] in H. rewrite Hp, Hm in H. discriminate. }
  destruct (frag_edge e (Hwg n e Hp)) as [Hdeps _].
  rewrite (rnd_none_unfold g w f stack n e s vs Hp Hm) in H.
  destruct HS as [S1 [S2 [S3 S4]]]. destruct (S3 e Hm) as [Hdl Hins]. rewrite Hdl in H.
  destruct (s2_props g w e s) as [A2 [M2 I2]].
  set (s2 := stat_outputs w (enter_edge s e) (edge_outs g e)) in *.
  assert (LS2 : lstep g e s s2).
  { split; [exact A2|]. intros n' Hn'. subst s2. rewrite stat_outputs_other by exact Hn'. reflexivity. }
  assert (HS2 : SInv g w s2).
  { apply (SInv_lstep g w Hwf e s s2 (conj S1 (conj S2 (conj S3 S4))) LS2); [rewrite Hm; discriminate|exact M2]. }
  destruct (visit_all (rnd f (stack ++ [n])) (ins_of s2 e) (s2, vs ++ ei_vals (g_edge g e)))
    as [[s3 vs3]|c|e1|] eqn:V1; try discriminate.
  - rewrite (after_inputs_AB _ e _ _ s3 vs3 Hdeps) in H.
    destruct (eval_inputs g e (ins_of s3 e) 0 s3 None false) as [[s4 mri] dirty].
    destruct (if dirty then (true, s4) else outputs_dirty_all g w e (edge_outs g e) mri s4) as [d1 s5].
    discriminate.
  - destruct (visit_all_err (fun a : sv => SInv g w (fst a)) (rnd f (stack ++ [n])) (ins_of s2 e)
                            (s2, vs ++ ei_vals (g_edge g e)) (SLoadErr e1))
      as [i [[sa va] [_ [Pa Hv]]]]; [|exact HS2|exact V1|exact I|].
    + intros i [sa va] [sb vb] _ Pa Hv. cbn [fst] in *. apply (rnd_spec g w Hwf _ _ _ _ _ _ _ Hv Pa).
    + cbn [fst] in Pa. apply (IH _ _ _ _ _ Hv Pa).
Qed.

Lemma loop_no_loaderr : forall qf queue s found e,
  recompute_dirty_loop g w qf queue s found = SLoadErr e -> SInv g w s -> False.
Proof.
  induction qf as [|qf IH]; intros queue s found e H HS; destruct queue as [|n queue];
    cbn [recompute_dirty_loop] in H; try discriminate.
  destruct (rnd (scan_fuel g) [] n (s, [])) as [[s1 newv]|c|e1|] eqn:Hv; try discriminate.
  - apply (IH _ _ _ _ H). apply (rnd_spec g w Hwf _ _ _ _ _ _ _ Hv HS).
  - apply (rnd_no_loaderr _ _ _ _ _ _ Hv HS).
Qed.

(* ---- Plan::AddSubTarget *)
Section Plan.
Variable T : list node.

Definition neededE (e : edge) : Prop := exists n, reach g T n /\ g_producer g n = Some e.
Definition wantd (p : plan) (e : edge) : Prop := p_want p e <> None.

(* what Plan::AddSubTarget leaves behind for node [n] *)
Definition post (s : sstate) (n : node) (p : plan) : Prop :=
  match g_producer g n with
  | Some e => ready s e = false ->
              wantd p e /\ (ns_dirty (nd s n) = true -> p_want p e = Some WantToStart)
  | None => ns_dirty (nd s n) && negb (g_byloader g n) = false
  end.

Definition closed_at (s : sstate) (p : plan) (e : edge) : Prop :=
  forall i, In i (ei_ins (g_edge g e)) -> post s i p.

Definition PI (s : sstate) (X : edge -> Prop) (p : plan) : Prop :=
  (forall e, p_want p e <> Some WantToFinish) /\
  (forall e, wantd p e -> mark_of s e = VisitDone /\ neededE e /\ ready s e = false) /\
  (forall e, p_want p e = Some WantToStart ->
             exists n, g_producer g n = Some e /\ ns_dirty (nd s n) = true) /\
  (forall e, wantd p e -> ~ X e -> closed_at s p e).

Definition ple (p p' : plan) : Prop :=
  forall e, (wantd p e -> wantd p' e) /\
            (p_want p e = Some WantToStart -> p_want p' e = Some WantToStart).

Lemma ple_refl p : ple p p.
Proof. intros e. split; auto. Qed.
Lemma ple_trans a b c : ple a b -> ple b c -> ple a c.
Proof. intros H K e. destruct (H e) as [H1 H2]. destruct (K e) as [K1 K2]. split; auto. Qed.

Lemma post_mono s n p p' : ple p p' -> post s n p -> post s n p'.
Proof.
  intros Hl. unfold post. destruct (g_producer g n) as [e|]; [|auto].
  intros H Hr. destruct (H Hr) as [A B]. destruct (Hl e) as [L1 L2]. split; [apply L1; exact A|].
  intros Hd. apply L2. apply B. exact Hd.
Qed.

Lemma ast_loop_PI (s : sstate) (X : edge -> Prop) (visit : node -> plan -> ast_res) :
  (forall i q b err q', visit i q = Some (b, err, q') -> (b = true \/ err = None) ->
     reach g T i -> node_final g s i -> PI s X q -> PI s X q' /\ ple q q' /\ post s i q') ->
  forall ins q b err q',
    ast_loop visit ins q = Some (b, err, q') -> (b = true \/ err = None) ->
    (forall i, In i ins -> reach g T i /\ node_final g s i) -> PI s X q ->
    PI s X q' /\ ple q q' /\ forall i, In i ins -> post s i q'.
Proof.
  intros Hvisit. induction ins as [|i ins IH]; intros q b err q' H Hok Hins HP; cbn [ast_loop] in H.
  - inversion H; subst. split; [exact HP|]. split; [apply ple_refl|intros i []].
  - destruct (visit i q) as [[[bi erri] qi]|] eqn:Hv; [|discriminate].
    destruct (Hins i (or_introl eq_refl)) as [Ri Fi].
    assert (Hcont : ast_loop visit ins qi = Some (b, err, q') /\ (bi = true \/ erri = None)).
    { destruct bi; [split; [exact H|left; reflexivity]|].
      destruct erri as [er|]; [|split; [exact H|right; reflexivity]].
      inversion H; subst. destruct Hok; discriminate. }
    destruct Hcont as [H' Hoki].
    destruct (Hvisit i q bi erri qi Hv Hoki Ri Fi HP) as [HPi [Li Pi]].
    destruct (IH qi b err q' H' Hok (fun j Hj => Hins j (or_intror Hj)) HPi) as [HP' [L' P']].
    split; [exact HP'|]. split; [apply (ple_trans q qi q' Li L')|].
    intros j [<-|Hj]; [apply (post_mono s i qi q' L' Pi)|apply P'; exact Hj].
Qed.

Lemma ast_PI (s : sstate) : RI s -> forall f X dep n p b err p',
  add_sub_target g f s dep n p = Some (b, err, p') -> (b = true \/ err = None) ->
  reach g T n -> node_final g s n -> PI s X p ->
  PI s X p' /\ ple p p' /\ post s n p'.
Proof.
  intros HR. induction f as [|f IH]; intros X dep n p b err p' H Hok Rn Fn HP; [discriminate|].
  cbn [add_sub_target] in H. unfold post.
  destruct (g_producer g n) as [e|] eqn:Hp.
  2:{ destruct (ns_dirty (st_node s n) && negb (g_byloader g n)) eqn:Hd; inversion H; subst.
      - destruct Hok; discriminate.
      - split; [exact HP|]. split; [apply ple_refl|reflexivity]. }
  destruct (es_ready (st_edge s e)) eqn:Hr.
  { inversion H; subst. split; [exact HP|]. split; [apply ple_refl|discriminate]. }
  unfold node_final in Fn. rewrite Hp in Fn.
  destruct HP as [P0 [P1 [P2 P3]]].
  set (w0 := match p_want p e with None => WantNothing | Some v => v end) in *.
  set (v2 := if ns_dirty (st_node s n) && match w0 with WantNothing => true | _ => false end
             then WantToStart else w0).
  set (p2 := if ns_dirty (st_node s n) && match w0 with WantNothing => true | _ => false end
             then edge_wanted g (set_want (set_want p e w0) e WantToStart) e else set_want p e w0) in *.
  assert (W2 : forall e', p_want p2 e' = if Nat.eqb e' e then Some v2 else p_want p e').
  { intros e'. subst p2 v2.
    destruct (ns_dirty (st_node s n) && match w0 with WantNothing => true | _ => false end);
      cbn [edge_wanted set_want p_want]; destruct (Nat.eqb e' e); reflexivity. }
  assert (Hw0 : w0 <> WantToFinish).
  { subst w0. destruct (p_want p e) as [v|] eqn:Wp; [|discriminate]. intros ->. apply (P0 e Wp). }
  assert (Hv2 : v2 <> WantToFinish /\ (w0 = WantToStart -> v2 = WantToStart) /\
                (ns_dirty (st_node s n) = true -> v2 = WantToStart) /\
                (v2 = WantToStart -> ns_dirty (st_node s n) = true \/ p_want p e = Some WantToStart)).
  { subst v2. destruct (ns_dirty (st_node s n)); cbn [andb].
    - destruct w0 eqn:Ew; [| |contradiction].
      + repeat split; try discriminate; try reflexivity. intros _; left; reflexivity.
      + repeat split; try discriminate; try reflexivity. intros _; left; reflexivity.
    - split; [exact Hw0|]. split; [auto|]. split; [discriminate|].
      intros Hw. right. subst w0. destruct (p_want p e); [congruence|discriminate]. }
  destruct Hv2 as [V2a [V2b [V2c V2d]]].
  assert (L2 : ple p p2).
  { intros e'. unfold wantd. rewrite W2. destruct (Nat.eqb_spec e' e) as [->|Hne]; [|split; auto].
    split; [intros _; discriminate|]. intros Wp. f_equal. apply V2b. subst w0. rewrite Wp. reflexivity. }
  assert (HP2 : forall X' : edge -> Prop, (forall e', X e' -> X' e') -> (wantd p e -> ~ X e -> ~ X' e) ->
                           (p_want p e = None -> X' e) -> PI s X' p2).
  { intros X' HX1 HX2 HX3. split; [|split; [|split]].
    - intros e'. rewrite W2. destruct (Nat.eqb e' e); [congruence|apply P0].
    - intros e'. unfold wantd. rewrite W2. destruct (Nat.eqb_spec e' e) as [->|Hne]; [|apply P1].
      intros _. split; [exact Fn|]. split; [exists n; split; assumption|exact Hr].
    - intros e'. rewrite W2. destruct (Nat.eqb_spec e' e) as [->|Hne]; [|apply P2].
      intros Hw. inversion Hw as [Hw']. destruct (V2d Hw') as [Hd|Hd]; [exists n; split; assumption|apply P2; exact Hd].
    - intros e' Hw HnX. intros i Hi. apply (post_mono s i p p2 L2).
      destruct (Nat.eq_dec e' e) as [Heq|Hne].
      + subst e'. destruct (p_want p e) eqn:Wp.
        * apply (P3 e); [unfold wantd; rewrite Wp; discriminate| |exact Hi].
          intros HXe. apply HnX. apply HX1. exact HXe.
        * exfalso. apply HnX. apply HX3. reflexivity.
      + unfold wantd in Hw. rewrite W2 in Hw. apply Nat.eqb_neq in Hne. rewrite Hne in Hw.
        apply (P3 e' Hw); [|exact Hi]. intros HXe. apply HnX. apply HX1. exact HXe. }
  assert (Hpost2 : forall q, ple p2 q ->
            wantd q e /\ (ns_dirty (st_node s n) = true -> p_want q e = Some WantToStart)).
  { intros q Lq. destruct (Lq e) as [Lq1 Lq2]. split.
    - apply Lq1. unfold wantd. rewrite W2, Nat.eqb_refl. discriminate.
    - intros Hd. apply Lq2. rewrite W2, Nat.eqb_refl. f_equal. apply V2c. exact Hd. }
  destruct (p_want p e) as [v|] eqn:Wp; cbn [negb] in H.
  - (* already in the map *)
    inversion H; subst b err p'.
    split; [apply (HP2 X); [auto|auto|discriminate]|]. split; [exact L2|].
    intros _. apply Hpost2. apply ple_refl.
  - (* inserted: the inputs are walked *)
    destruct (HR e Fn) as [Iins [Ifin _]].
    set (X' := fun x => X x \/ x = e).
    assert (HP2' : PI s X' p2).
    { apply HP2; [intros e' Hx; left; exact Hx| |intros _; right; reflexivity].
      intros Hw. exfalso. apply Hw. exact Wp. }
    rewrite Iins in H.
    destruct (ast_loop_PI s X' (add_sub_target g f s (Some n))
                (fun i q b0 err0 q' Hv Hok0 Ri Fi HPq => IH X' (Some n) i q b0 err0 q' Hv Hok0 Ri Fi HPq)
                (ei_ins (g_edge g e)) p2 b err p' H Hok) as [HP' [L' Pins]]; [|exact HP2'|].
    { intros i Hi. split; [|apply Ifin; exact Hi].
      apply (reach_step g (manifest_ins g) T n i Rn). exists e. split; [exact Hp|exact Hi]. }
    destruct HP' as [Q0 [Q1 [Q2 Q3]]].
    split; [|split; [apply (ple_trans p p2 p' L2 L')|intros _; apply Hpost2; exact L']].
    split; [exact Q0|]. split; [exact Q1|]. split; [exact Q2|].
    intros e' Hw HnX. destruct (Nat.eq_dec e' e) as [->|Hne]; [exact Pins|].
    apply (Q3 e' Hw). intros [Hx|Hx]; [apply HnX; exact Hx|contradiction].
Qed.

(* PI and post are stable when the scan goes on *)
Lemma PI_vrel a b X p : RI a -> vrel g a b -> PI a X p -> PI b X p.
Proof.
  intros HR V [P0 [P1 [P2 P3]]].
  assert (E : forall e, mark_of a e = VisitDone -> st_edge b e = st_edge a e).
  { intros e He. apply (ext_marked a b e (proj1 V)). rewrite He. discriminate. }
  assert (Hpost : forall i p0, node_final g a i -> post a i p0 -> post b i p0).
  { intros i p0 Fi. destruct (final_vrel g a b i V Fi) as [_ Ei]. unfold post.
    unfold node_final in Fi. destruct (g_producer g i) as [ie|]; [|rewrite Ei; auto].
    rewrite (E ie Fi), Ei. auto. }
  split; [exact P0|]. split; [|split].
  - intros e Hw. destruct (P1 e Hw) as [A [B C]]. rewrite (E e A). repeat split; assumption.
  - intros e Hw. destruct (P2 e Hw) as [n [Hp Hd]]. exists n. split; [exact Hp|].
    assert (Fn : node_final g a n).
    { unfold node_final. rewrite Hp. apply (P1 e). unfold wantd. rewrite Hw. discriminate. }
    rewrite (proj2 (final_vrel g a b n V Fn)). exact Hd.
  - intros e Hw HnX i Hi. destruct (P1 e Hw) as [A _]. destruct (HR e A) as [_ [Ifin _]].
    apply (Hpost i p (Ifin i Hi)). apply (P3 e Hw HnX i Hi).
Qed.

Lemma post_vrel a b n p : vrel g a b -> node_final g a n -> post a n p -> post b n p.
Proof.
  intros V Fn. destruct (final_vrel g a b n V Fn) as [_ En]. unfold post.
  unfold node_final in Fn. destruct (g_producer g n) as [e|]; [|rewrite En; auto].
  rewrite (ext_marked a b e (proj1 V)) by (rewrite Fn; discriminate). rewrite En. auto.
Qed.

Definition noX : edge -> Prop := fun _ => False.

Lemma bat_GI s p t s1 p1 :
  In t T -> builder_add_target g w s p t = ScanOk s1 p1 ->
  SInv g w s -> RI s -> PI s noX p ->
  SInv g w s1 /\ RI s1 /\ vrel g s s1 /\ node_final g s1 t /\
  PI s1 noX p1 /\ ple p p1 /\ post s1 t p1.
Proof.
  intros Ht Hb HS HR HP. unfold builder_add_target in Hb.
  destruct (recompute_dirty g w s t) as [[s1' vn]|c|e|] eqn:Hrd; try discriminate.
  unfold recompute_dirty in Hrd.
  destruct (loop_all _ _ _ _ _ _ Hrd HS HR) as [HS1 [HR1 [V1 [F1 Hvn]]]]. subst vn.
  specialize (F1 t (or_introl eq_refl)).
  pose proof (PI_vrel s s1' noX p HR V1 HP) as HP1.
  assert (Rt : reach g T t) by (apply reach_target; exact Ht).
  destruct (match g_producer g t with Some e => negb (es_ready (st_edge s1' e)) | None => true end) eqn:Hneed.
  - unfold plan_add_target in Hb.
    destruct (add_sub_target g (plan_fuel g) s1' None t p) as [[[b err] pa]|] eqn:Ha; [|discriminate].
    assert (Hres : (b = true \/ err = None) /\ s1 = s1' /\ p1 = pa).
    { destruct b; [cbn [add_validation_targets] in Hb; inversion Hb; subst; split; [left; reflexivity|split; reflexivity]|].
      destruct err as [[m d]|]; [discriminate|]. inversion Hb; subst. split; [right; reflexivity|split; reflexivity]. }
    destruct Hres as [Hok [-> ->]].
    destruct (ast_PI s1' HR1 _ _ _ _ _ _ _ _ Ha Hok Rt F1 HP1) as [HPa [La Pa]].
    split; [exact HS1|]. split; [exact HR1|]. split; [exact V1|]. split; [exact F1|].
    split; [exact HPa|]. split; [exact La|exact Pa].
  - cbn [add_validation_targets] in Hb. inversion Hb; subst s1' p1.
    split; [exact HS1|]. split; [exact HR1|]. split; [exact V1|]. split; [exact F1|].
    split; [exact HP1|]. split; [apply ple_refl|].
    unfold post. destruct (g_producer g t) as [e|]; [|discriminate].
    apply negb_false_iff in Hneed. intros Hr. congruence.
Qed.

Lemma add_targets_GI : forall rest s p s' p' (Dn : node -> Prop),
  incl rest T ->
  add_targets g w s p rest = ScanOk s' p' ->
  SInv g w s -> RI s -> PI s noX p ->
  (forall t, Dn t -> node_final g s t /\ post s t p) ->
  SInv g w s' /\ RI s' /\ PI s' noX p' /\
  (forall t, Dn t \/ In t rest -> node_final g s' t /\ post s' t p').
Proof.
  induction rest as [|t rest IH]; intros s p s' p' Dn Hinc H HS HR HP HD; cbn [add_targets] in H.
  - inversion H; subst. split; [exact HS|]. split; [exact HR|]. split; [exact HP|].
    intros t [Ht|[]]. apply HD; exact Ht.
  - destruct (builder_add_target g w s p t) as [c|m d|e| |s1 p1] eqn:Hb; try discriminate.
    destruct (bat_GI s p t s1 p1 (Hinc t (or_introl eq_refl)) Hb HS HR HP)
      as [HS1 [HR1 [V1 [F1 [HP1 [L1 Pt]]]]]].
    destruct (IH s1 p1 s' p' (fun x => Dn x \/ x = t) (fun x Hx => Hinc x (or_intror Hx)) H HS1 HR1 HP1)
      as [HS' [HR' [HP' HD']]].
    { intros x [Hx|Hx]; [|subst x; split; assumption].
      destruct (HD x Hx) as [Fx Px]. split; [apply (proj1 (final_vrel g s s1 x V1 Fx))|].
      apply (post_mono s1 x p p1 L1). apply (post_vrel s s1 x p V1 Fx Px). }
    split; [exact HS'|]. split; [exact HR'|]. split; [exact HP'|].
    intros x [Hx|[<-|Hx]]; apply HD'; [left; left; exact Hx|left; right; reflexivity|right; exact Hx].
Qed.

Lemma RI_init : RI (init_state g).
Proof. intros e He. cbn in He. discriminate. Qed.

Lemma PI_init : PI (init_state g) noX init_plan.
Proof.
  split; [intros e; cbn; discriminate|]. split; [intros e Hw; exfalso; apply Hw; reflexivity|].
  split; [intros e Hw; cbn in Hw; discriminate|intros e Hw; exfalso; apply Hw; reflexivity].
Qed.

Lemma must_dirty_same_prod n n' e :
  g_producer g n = Some e -> g_producer g n' = Some e -> must_dirty g w n -> must_dirty g w n'.
Proof.
  intros Hp Hp' H.
  inversion H as [x Hn Hz|x e0 i Hn Hi Hd|x e0 o' Hn Hph Hin Hv Ho Hz|x e0 o' Hn Hph Ho Hr|x e0 Hn Hl]; subst;
    rewrite Hp in Hn; inversion Hn; subst e0.
  - apply (md_input g w n' e i Hp' Hi Hd).
  - apply (md_phony g w n' e o' Hp' Hph Hin Hv Ho Hz).
  - apply (md_self g w n' e o' Hp' Hph Ho Hr).
  - apply (md_deps g w n' e Hp' Hl).
Qed.

(* ---- the two facts the history proofs need *)
Section Accepted.
Variables (s : sstate) (p : plan).
Hypothesis Hscan : scan g w T = ScanOk s p.

Lemma accepted_facts :
  SInv g w s /\ RI s /\ PI s noX p /\ forall t, In t T -> node_final g s t /\ post s t p.
Proof.
  destruct (add_targets_GI T (init_state g) init_plan s p (fun _ => False) (incl_refl T) Hscan
              (SInv_init g w) RI_init PI_init) as [A [B [C D]]]; [intros t []|].
  split; [exact A|]. split; [exact B|]. split; [exact C|]. intros t Ht. apply D. right; exact Ht.
Qed.

Lemma reach_final n : reach g T n ->
  node_final g s n /\
  forall e, g_producer g n = Some e -> ready s e = false ->
            wantd p e /\ (ns_dirty (nd s n) = true -> p_want p e = Some WantToStart).
Proof.
  destruct accepted_facts as [HS [HR [[P0 [P1 [P2 P3]]] HT]]].
  intros Hn. induction Hn as [t Ht|x y Hx IHx [ex [Hex Hin]]].
  - destruct (HT t Ht) as [Ft Pt]. split; [exact Ft|]. intros e He. unfold post in Pt. rewrite He in Pt. exact Pt.
  - destruct IHx as [Fx Px]. unfold node_final in Fx. rewrite Hex in Fx.
    destruct (HR ex Fx) as [_ [Ifin [Irdy _]]]. split; [apply Ifin; exact Hin|].
    intros ey Hey Hr. pose proof (Irdy y ey Hin Hey Hr) as Hrx.
    destruct (Px ex Hex Hrx) as [Hw _].
    pose proof (P3 ex Hw (fun F => F) y Hin) as Py. unfold post in Py. rewrite Hey in Py. apply Py. exact Hr.
Qed.

(* kWantToStart only for statements the targets need, with outputs that must be remade *)
Theorem scan_want_sound e :
  p_want p e = Some WantToStart ->
  neededE e /\ exists o, In o (ei_outs (g_edge g e)) /\ must_dirty g w o.
Proof.
  destruct accepted_facts as [[S1 _] [HR [[P0 [P1 [P2 P3]]] HT]]].
  intros Hw. assert (Hwd : wantd p e) by (unfold wantd; rewrite Hw; discriminate).
  destruct (P1 e Hwd) as [Hd [Hn _]]. split; [exact Hn|].
  destruct (P2 e Hw) as [n [Hp Hdirty]]. exists n. split; [apply prod_out; exact Hp|].
  assert (Fn : node_final g s n) by (unfold node_final; rewrite Hp; exact Hd).
  apply (proj1 (S1 n Fn)). exact Hdirty.
Qed.

(* every needed statement whose outputs must be remade is kWantToStart (the input-less phony
   excepted, which never enters the plan), and none of its inputs is a missing source *)
Theorem scan_want_complete e :
  neededE e -> (exists o, In o (ei_outs (g_edge g e)) /\ must_dirty g w o) ->
  ~ (ei_phony (g_edge g e) = true /\ ei_ins (g_edge g e) = []) ->
  p_want p e = Some WantToStart /\
  forall i, In i (ei_ins (g_edge g e)) -> g_producer g i = None -> w_mtime w i <> 0%Z.
Proof.
  intros [n [Rn Hp]] [o [Ho Hmd]] Hnp.
  destruct accepted_facts as [[S1 _] [HR [[P0 [P1 [P2 P3]]] HT]]].
  destruct (reach_final n Rn) as [Fn Pn].
  assert (Hd : mark_of s e = VisitDone) by (unfold node_final in Fn; rewrite Hp in Fn; exact Fn).
  assert (Hdn : ns_dirty (nd s n) = true).
  { apply (proj1 (S1 n Fn)). apply (must_dirty_same_prod o n e (out_prod e o Ho) Hp Hmd). }
  destruct (HR e Hd) as [_ [Ifin [_ [Idirty _]]]].
  destruct (Idirty n (prod_out n e Hp) Hdn) as [Hph|Hr]; [contradiction|].
  destruct (Pn e Hp Hr) as [Hw Hts]. split; [apply Hts; exact Hdn|].
  intros i Hi Hpi Hz. pose proof (P3 e Hw (fun F => F) i Hi) as Pi. unfold post in Pi. rewrite Hpi in Pi.
  destruct (frag_edge e (Hwg n e Hp)) as [_ [_ Hbl]]. rewrite (Hbl i Hi) in Pi. cbn [negb] in Pi.
  rewrite andb_true_r in Pi.
  assert (Hdi : ns_dirty (nd s i) = true).
  { apply (proj1 (S1 i (Ifin i Hi))). apply md_leaf; assumption. }
  congruence.
Qed.

(* every node the targets need has been looked at: its flag is the specified one *)
Theorem scan_reach_ok n : reach g T n -> node_ok g w s n.
Proof.
  destruct accepted_facts as [[S1 _] _]. intros Rn. apply S1. apply (reach_final n Rn).
Qed.

End Accepted.

(* a source that is itself a target was accepted: it exists (or is not a manifest node) *)
Lemma scan_leaf_targets s p : scan g w T = ScanOk s p ->
  forall t, In t T -> g_producer g t = None -> w_mtime w t <> 0%Z \/ g_byloader g t = true.
Proof.
  intros Hs t Ht Hp. destruct (accepted_facts s p Hs) as [[S1 _] [_ [_ HT]]].
  destruct (HT t Ht) as [Ft Pt]. unfold post in Pt. rewrite Hp in Pt.
  destruct (Z.eq_dec (w_mtime w t) 0) as [Hz|Hnz]; [|left; exact Hnz]. right.
  assert (Hd : ns_dirty (nd s t) = true) by (apply (proj1 (S1 t Ft)); apply md_leaf; assumption).
  rewrite Hd in Pt. cbn [andb] in Pt. apply negb_false_iff in Pt. exact Pt.
Qed.

(* ---- acceptance: when nothing the targets need must be remade, the scan is accepted *)
Lemma topo_acyclic : topo_ordered g = true -> acyclic g w.
Proof.
  intros Ht c Hc. set (ins' := fun e => if Nat.ltb e (g_nedges g) then pot_ins g w e else []).
  assert (Hrk : ranked_via g ins' (fun e => e)).
  { intros e i e' Hi Hp. unfold ins' in Hi. destruct (Nat.ltb_spec e (g_nedges g)) as [He|He]; [|destruct Hi].
    unfold pot_ins, recorded_deps in Hi. rewrite (proj1 (frag_edge e He)), app_nil_r in Hi.
    pose proof (edges_all_spec g _ e Ht He) as H. cbn beta in H. rewrite forallb_forall in H.
    specialize (H i Hi). rewrite Hp in H. apply Nat.ltb_lt. exact H. }
  apply (ranked_acyclic g ins' _ Hrk c). destruct Hc as [Hw [Hlen Hhd]]. split; [|split; assumption].
  clear Hlen Hhd. induction Hw as [x|x y l Hs Hw IH]; [apply walk_one|].
  apply walk_cons; [|exact IH]. destruct Hs as [e [He Hin]]. exists e. split; [exact He|].
  unfold ins'. rewrite (proj2 (Nat.ltb_lt _ _) (Hwg x e He)). exact Hin.
Qed.

Section Accepts.
Hypothesis Htopo : topo_ordered g = true.
Hypothesis Hleaf : forall t, In t T -> g_producer g t = None -> w_mtime w t <> 0%Z \/ g_byloader g t = true.
Hypothesis Hclean : forall e, neededE e -> forall o, In o (ei_outs (g_edge g e)) -> ~ must_dirty g w o.

Lemma all_ready s : SInv g w s -> RI s ->
  forall e, mark_of s e = VisitDone -> neededE e -> ready s e = true.
Proof.
  intros [S1 _] HR. induction e as [e IH] using lt_wf_ind. intros Hd Hn.
  destruct (ready s e) eqn:Hr; [reflexivity|exfalso].
  destruct (HR e Hd) as [_ [Ifin [_ [_ Iun]]]].
  destruct (Iun Hr) as [[o [Ho Hdo]]|[i [e' [Hi [Hp Hr']]]]].
  - apply (Hclean e Hn o Ho). apply (proj1 (S1 o ltac:(unfold node_final; rewrite (out_prod e o Ho); exact Hd))).
    exact Hdo.
  - destruct Hn as [n [Rn Hpn]]. pose proof (Hwg n e Hpn) as He.
    pose proof (edges_all_spec g _ e Htopo He) as H. cbn beta in H. rewrite forallb_forall in H.
    specialize (H i Hi). rewrite Hp in H. apply Nat.ltb_lt in H.
    pose proof (Ifin i Hi) as Fi. unfold node_final in Fi. rewrite Hp in Fi.
    assert (Hn' : neededE e').
    { exists i. split; [|exact Hp]. apply (reach_step g (manifest_ins g) T n i Rn). exists e. split; assumption. }
    rewrite (IH e' H Fi Hn') in Hr'. discriminate.
Qed.

Lemma add_targets_not_missing : forall rest s p m d,
  incl rest T -> add_targets g w s p rest = ScanMissing m d ->
  SInv g w s -> RI s -> PI s noX p -> False.
Proof.
  induction rest as [|t rest IH]; intros s p m d Hinc H HS HR HP; cbn [add_targets] in H; [discriminate|].
  assert (Ht : In t T) by (apply Hinc; left; reflexivity).
  destruct (builder_add_target g w s p t) as [c|m0 d0|e| |s1 p1] eqn:Hb; try discriminate.
  2:{ destruct (bat_GI s p t s1 p1 Ht Hb HS HR HP) as [HS1 [HR1 [_ [_ [HP1 _]]]]].
      apply (IH s1 p1 m d (fun x Hx => Hinc x (or_intror Hx)) H HS1 HR1 HP1). }
  clear H. unfold builder_add_target in Hb.
  destruct (recompute_dirty g w s t) as [[s1 vn]|c|e|] eqn:Hrd; try discriminate.
  unfold recompute_dirty in Hrd.
  destruct (loop_all _ _ _ _ _ _ Hrd HS HR) as [HS1 [HR1 [V1 [F1 Hvn]]]]. subst vn.
  specialize (F1 t (or_introl eq_refl)).
  destruct (g_producer g t) as [e|] eqn:Hpt.
  - (* a produced target: its statement is ready, the plan is not consulted *)
    unfold node_final in F1. rewrite Hpt in F1.
    assert (Hn : neededE e) by (exists t; split; [apply reach_target; exact Ht|exact Hpt]).
    rewrite (all_ready s1 HS1 HR1 e F1 Hn) in Hb. cbn [negb add_validation_targets] in Hb. discriminate.
  - (* a source target *)
    unfold plan_add_target, plan_fuel in Hb. replace (g_nedges g + 2)%nat with (S (g_nedges g + 1)) in Hb by lia.
    cbn [add_sub_target] in Hb. rewrite Hpt in Hb.
    destruct (ns_dirty (st_node s1 t) && negb (g_byloader g t))%bool eqn:Hd; [|discriminate].
    apply andb_true_iff in Hd. destruct Hd as [Hd Hbl]. apply negb_true_iff in Hbl.
    destruct HS1 as [S1 _]. apply (proj1 (S1 t F1)) in Hd. pose proof (must_dirty_leaf_inv g w t Hd Hpt) as Hz.
    destruct (Hleaf t Ht Hpt) as [Hnz|Hb']; [contradiction|congruence].
Qed.

Lemma add_targets_no_loaderr : forall rest s p e,
  add_targets g w s p rest = ScanLoadErr e -> SInv g w s -> False.
Proof.
  induction rest as [|t rest IH]; intros s p e H HS; cbn [add_targets] in H; [discriminate|].
  pose proof (bat_result g w s p t) as Hb.
  destruct (builder_add_target g w s p t) as [c|m0 d0|e0| |s1 p1]; try discriminate.
  - unfold recompute_dirty in Hb. apply (loop_no_loaderr _ _ _ _ _ Hb HS).
  - destruct Hb as [vn Hb]. apply (IH _ _ _ H). unfold recompute_dirty in Hb. apply (loop_spec g w Hwf _ _ _ _ _ _ Hb HS).
Qed.

Theorem scan_accepts : exists s p, scan g w T = ScanOk s p.
Proof.
  destruct (scan g w T) as [c|m d|e| |s p] eqn:H.
  - exfalso. apply (C17_no_false_positive g w T (topo_acyclic Htopo) c H).
  - exfalso. apply (add_targets_not_missing T (init_state g) init_plan m d (incl_refl T) H
                      (SInv_init g w) RI_init PI_init).
  - exfalso. apply (add_targets_no_loaderr T (init_state g) init_plan e H (SInv_init g w)).
  - exfalso. apply (scan_fuel_sufficient g w Hwg T H).
  - exists s, p. reflexivity.
Qed.

End Accepts.
End Plan.
End ScanFacts.

(* ================================================================== Part H: histories *)
Local Open Scope Z_scope.

(* ---- CrashDefs.record_mtime: all that matters here are its bounds *)
Lemma restat_loop_bounds restat : forall scan after rm cl rm' cl',
  CrashDefs.restat_loop restat scan after rm cl = (rm', cl') ->
  rm <= rm' /\ (rm' = rm \/ exists a, In a after /\ rm' = CrashDefs.stat a).
Proof.
  induction scan as [|sc scan IH]; intros after rm cl rm' cl' H; cbn [CrashDefs.restat_loop] in H.
  - inversion H; subst. split; [lia|left; reflexivity].
  - destruct after as [|a after]; [inversion H; subst; split; [lia|left; reflexivity]|].
    destruct (IH _ _ _ _ _ H) as [A B].
    destruct (Z.gtb_spec (CrashDefs.stat a) rm) as [Hgt|Hle].
    + split; [lia|]. destruct B as [->|[a' [Ha' ->]]].
      * right. exists a. split; [left; reflexivity|reflexivity].
      * right. exists a'. split; [right; exact Ha'|reflexivity].
    + split; [exact A|]. destruct B as [->|[a' [Ha' ->]]]; [left; reflexivity|].
      right. exists a'. split; [right; exact Ha'|reflexivity].
Qed.

Lemma record_mtime_bounds c t0 scan after :
  let m := CrashDefs.record_mtime c t0 scan after in
  t0 <= m /\ (m = t0 \/ exists a, In a after /\ m = CrashDefs.stat a).
Proof.
  cbn zeta. unfold CrashDefs.record_mtime.
  destruct (Z.eqb t0 0 || CrashDefs.c_restat c || CrashDefs.c_generator c)%bool; [|split; [lia|left; reflexivity]].
  destruct (CrashDefs.restat_loop (CrashDefs.c_restat c) scan after t0 false) as [rm cl] eqn:Hl.
  destruct (restat_loop_bounds _ _ _ _ _ _ _ Hl) as [A B].
  destruct cl; [split; [lia|left; reflexivity]|]. split; [exact A|exact B].
Qed.

Section Hist.
Variable cmd : edge -> N -> snapshot -> node -> content.
Variable g : graph.
Hypothesis Hwf : wf_spec g.
Hypothesis Hwg : wf_graph g.
Hypothesis Hfrag : frag_AB g = true.
Hypothesis Htopo : topo_ordered g = true.
(* the output of a generator rule does not depend on its own command line (C03's clause:
   ninja does not re-run it when the command line changes) *)
Hypothesis Hgen : forall e h h' S o,
  ei_generator (g_edge g e) = true -> cmd e h S o = cmd e h' S o.

Notation G st := (graph_of g st).
Notation W st := (world_of st).
Notation outs e := (ei_outs (g_edge g e)).
Notation phony e := (ei_phony (g_edge g e)).

Lemma Gwf st : wf_spec (G st).
Proof. exact Hwf. Qed.
Lemma Gwg st : wf_graph (G st).
Proof. exact Hwg. Qed.
Lemma Gfrag st : frag_AB (G st) = true.
Proof. exact Hfrag. Qed.

Lemma G_hash_eq st st' : h_hash st' = h_hash st -> G st' = G st.
Proof. intros H. unfold graph_of. rewrite H. reflexivity. Qed.

Lemma o_prod e o : In o (outs e) -> g_producer g o = Some e.
Proof. apply (proj1 Hwf). Qed.
Lemma p_out n e : g_producer g n = Some e -> In n (outs e).
Proof. apply (proj1 (proj2 Hwf)). Qed.

(* below k: a source or an output of a statement before [k] *)
Definition below (k : nat) (n : node) : Prop :=
  match g_producer g n with Some e => (e < k)%nat | None => True end.

Lemma below_mono k k' n : (k <= k')%nat -> below k n -> below k' n.
Proof. unfold below. destruct (g_producer g n); [lia|auto]. Qed.

Lemma in_below e i : (e < g_nedges g)%nat -> In i (ei_ins (g_edge g e)) -> below e i.
Proof.
  intros He Hi. pose proof (edges_all_spec g _ e Htopo He) as H. cbn beta in H.
  rewrite forallb_forall in H. specialize (H i Hi). unfold below.
  destruct (g_producer g i) as [e'|]; [apply Nat.ltb_lt; exact H|exact I].
Qed.

Lemma nonoo_in e i : In i (nonoo_ins g e) -> In i (ei_ins (g_edge g e)).
Proof. apply (nonoo_incl g e). Qed.

Lemma not_out_of_below k e n : below k n -> (k <= e)%nat -> ~ In n (outs e).
Proof. unfold below. intros Hb Hk Hin. rewrite (o_prod e n Hin) in Hb. lia. Qed.

Lemma edge_frag e : (e < g_nedges g)%nat -> ei_deps (g_edge g e) = DepsNone.
Proof. intros He. apply (frag_edge g Hfrag e He). Qed.

(* ---- elementary state changes *)
Lemma upd_same {A : Type} (f : node -> A) n v : upd f n v n = v.
Proof. unfold upd. rewrite Nat.eqb_refl. reflexivity. Qed.
Lemma upd_other {A : Type} (f : node -> A) n v n' : n' <> n -> upd f n v n' = f n'.
Proof. intros H. unfold upd. destruct (Nat.eqb_spec n' n); [contradiction|reflexivity]. Qed.

Lemma mem_node_In n l : mem_node n l = true <-> In n l.
Proof.
  unfold mem_node. rewrite existsb_exists. split.
  - intros [x [Hx He]]. apply Nat.eqb_eq in He. subst. exact Hx.
  - intros H. exists n. split; [exact H|apply Nat.eqb_refl].
Qed.

Lemma mem_node_false n l : ~ In n l -> mem_node n l = false.
Proof. intros H. destruct (mem_node n l) eqn:E; [|reflexivity]. apply mem_node_In in E. contradiction. Qed.

(* ---- the output writes of one command *)
Lemma write_outs_spec restat f : forall os st,
  let st' := write_outs restat f os st in
  h_blog st' = h_blog st /\ h_hash st' = h_hash st /\ h_ghost st' = h_ghost st /\
  h_trace st' = h_trace st /\ h_clock st <= h_clock st' /\
  (forall n, ~ In n os -> h_disk st' n = h_disk st n) /\
  (forall n, h_disk st' n = h_disk st n \/
             exists m, h_disk st' n = Some (m, f n) /\ h_clock st < m <= h_clock st' /\ In n os) /\
  (forall o, In o os -> exists m, h_disk st' o = Some (m, f o)) /\
  (restat = false -> forall o, In o os ->
     exists m, h_disk st' o = Some (m, f o) /\ h_clock st < m <= h_clock st').
Proof.
  induction os as [|o os IH]; intros st; cbn zeta.
  - cbn [write_outs fold_left]. repeat split; try reflexivity; try lia.
    + intros n. left; reflexivity.
    + intros o [].
    + intros _ o [].
  - change (write_outs restat f (o :: os) st) with (write_outs restat f os (write_out restat f st o)).
    set (st1 := write_out restat f st o).
    destruct (IH st1) as [B [Hh [Gh [Tr [C [D [E [F K]]]]]]]]. cbn zeta in *.
    set (st' := write_outs restat f os st1) in *.
    assert (H1 : h_blog st1 = h_blog st /\ h_hash st1 = h_hash st /\ h_ghost st1 = h_ghost st /\
                 h_trace st1 = h_trace st /\ h_clock st <= h_clock st1 /\
                 (forall n, n <> o -> h_disk st1 n = h_disk st n) /\
                 (exists m, h_disk st1 o = Some (m, f o)) /\
                 (h_disk st1 o = h_disk st o \/
                  (h_disk st1 o = Some (h_clock st + 1, f o) /\ h_clock st1 = h_clock st + 1)) /\
                 (restat = false -> h_disk st1 o = Some (h_clock st + 1, f o) /\ h_clock st1 = h_clock st + 1)).
    { subst st1. unfold write_out.
      destruct (restat && same_content (h_disk st o) (f o))%bool eqn:Hc.
      - apply andb_true_iff in Hc. destruct Hc as [Hr Hc]. unfold same_content in Hc.
        assert (Hex : exists m, h_disk st o = Some (m, f o)).
        { destruct (h_disk st o) as [[m c']|]; [|discriminate]. apply N.eqb_eq in Hc. subst c'.
          exists m. reflexivity. }
        split; [reflexivity|]. split; [reflexivity|]. split; [reflexivity|]. split; [reflexivity|].
        split; [lia|]. split; [reflexivity|]. split; [exact Hex|]. split; [left; reflexivity|].
        intros Hf. rewrite Hf in Hr. discriminate.
      - unfold write_file. cbn [h_blog h_hash h_ghost h_trace h_clock h_disk].
        split; [reflexivity|]. split; [reflexivity|]. split; [reflexivity|]. split; [reflexivity|].
        split; [lia|]. split; [intros n Hn; apply upd_other; exact Hn|].
        split; [exists (h_clock st + 1); apply upd_same|].
        split; [right; split; [apply upd_same|reflexivity]|].
        intros _. split; [apply upd_same|reflexivity]. }
    destruct H1 as [B1 [Hh1 [Gh1 [Tr1 [C1 [D1 [F1 [E1 K1]]]]]]]].
    split; [congruence|]. split; [congruence|]. split; [congruence|]. split; [congruence|].
    split; [lia|]. split; [|split; [|split]].
    + intros n Hn. rewrite D by (intros Hi; apply Hn; right; exact Hi).
      apply D1. intros ->. apply Hn. left; reflexivity.
    + intros n. destruct (E n) as [En|[m [Em [Hm Hin]]]].
      * destruct (Nat.eq_dec n o) as [->|Hne]; [|left; rewrite En; apply D1; exact Hne].
        destruct E1 as [E1|[E1 Ec]]; [left; congruence|].
        right. exists (h_clock st + 1). split; [congruence|]. split; [lia|left; reflexivity].
      * right. exists m. split; [exact Em|]. split; [lia|right; exact Hin].
    + intros x [<-|Hx]; [|apply F; exact Hx].
      destruct (in_dec Nat.eq_dec o os) as [Hin|Hnin]; [apply F; exact Hin|].
      rewrite (D o Hnin). exact F1.
    + intros Hr x Hx. destruct (K1 Hr) as [Ko Kc].
      destruct (in_dec Nat.eq_dec x os) as [Hin|Hnin].
      * destruct (K Hr x Hin) as [m [Em Hm]]. exists m. split; [exact Em|lia].
      * destruct Hx as [<-|Hx]; [|contradiction].
        exists (h_clock st + 1). rewrite (D o Hnin). split; [exact Ko|lia].
Qed.

(* ---- what one command run does *)
Definition fresh_or_same (st st' : hstate) (t0 : Z) (f : node -> content) (os : list node) : Prop :=
  forall n, h_disk st' n = h_disk st n \/
            exists m, h_disk st' n = Some (m, f n) /\ t0 < m <= h_clock st' /\ In n os.

Lemma finish_run_spec sc st1 e h S t0 :
  0 <= h_clock st1 -> (forall n m c, h_disk st1 n = Some (m, c) -> 0 < m <= h_clock st1) ->
  t0 <= h_clock st1 ->
  let st' := finish_run cmd g sc st1 e h S t0 in
  h_hash st' = h_hash st1 /\
  h_clock st1 <= h_clock st' /\
  (forall n, ~ In n (outs e) ->
     h_disk st' n = h_disk st1 n /\ h_blog st' n = h_blog st1 n /\ h_ghost st' n = h_ghost st1 n) /\
  fresh_or_same st1 st' (h_clock st1) (cmd e h S) (outs e) /\
  (forall n m c, h_disk st' n = Some (m, c) -> 0 < m <= h_clock st') /\
  (exists m, t0 <= m <= h_clock st' /\
     (t0 <> 0 -> ei_restat (g_edge g e) = false -> ei_generator (g_edge g e) = false -> m = t0) /\
     forall o, In o (outs e) ->
       h_blog st' o = Some (h, m) /\ h_ghost st' o = Some S /\
       exists mo, h_disk st' o = Some (mo, cmd e h S o)) /\
  (ei_restat (g_edge g e) = false -> forall o, In o (outs e) ->
     exists mo, h_disk st' o = Some (mo, cmd e h S o) /\ h_clock st1 < mo).
Proof.
  intros Hc Hd Ht. cbn zeta. unfold finish_run.
  destruct (write_outs_spec (ei_restat (g_edge g e)) (cmd e h S) (outs e) st1)
    as [B [Hh [Gh [Tr [C [D [E [F K]]]]]]]]. cbn zeta in *.
  set (st2 := write_outs (ei_restat (g_edge g e)) (cmd e h S) (outs e) st1) in *.
  set (m := CrashDefs.record_mtime (crash_cfg (g_edge g e) h) t0
              (map (orec_of sc) (outs e)) (map (orec_of st2) (outs e))).
  assert (Hd2 : forall n m0 c, h_disk st2 n = Some (m0, c) -> 0 < m0 <= h_clock st2).
  { intros n m0 c Hn. destruct (E n) as [En|[m1 [Em [Hm _]]]].
    - rewrite En in Hn. specialize (Hd n m0 c Hn). lia.
    - rewrite Em in Hn. inversion Hn; subst. lia. }
  cbn [record h_hash h_clock h_disk h_blog h_ghost].
  split; [exact Hh|]. split; [exact C|]. split; [|split; [|split; [|split]]].
  - intros n Hn. rewrite (mem_node_false n _ Hn). split; [apply D; exact Hn|]. split; [rewrite B|rewrite Gh]; reflexivity.
  - intros n. destruct (E n) as [En|[m1 [Em [Hm Hin]]]]; [left; exact En|].
    right. exists m1. split; [exact Em|]. split; [exact Hm|exact Hin].
  - exact Hd2.
  - exists m. split; [|split].
    + destruct (record_mtime_bounds (crash_cfg (g_edge g e) h) t0
                  (map (orec_of sc) (outs e)) (map (orec_of st2) (outs e))) as [A1 A2].
      fold m in A1, A2. split; [exact A1|].
      destruct A2 as [->|[a [Ha ->]]]; [lia|].
      apply in_map_iff in Ha. destruct Ha as [o [<- Ho]]. unfold orec_of, CrashDefs.stat. cbn [CrashDefs.o_file].
      destruct (h_disk st2 o) as [[mo c]|] eqn:Hdo; [|lia]. destruct (Hd2 o mo c Hdo). lia.
    + intros Hnz Hr Hg. subst m. unfold CrashDefs.record_mtime, crash_cfg.
      cbn [CrashDefs.c_restat CrashDefs.c_generator]. rewrite Hr, Hg.
      destruct (Z.eqb_spec t0 0); [contradiction|reflexivity].
    + intros o Ho. rewrite (proj2 (mem_node_In o _) Ho). split; [reflexivity|]. split; [reflexivity|].
      apply F; exact Ho.
  - intros Hr o Ho. destruct (K Hr o Ho) as [mo [Em Hm]]. exists mo. split; [exact Em|lia].
Qed.

Lemma run_edge_spec st e :
  0 <= h_clock st -> (forall n m c, h_disk st n = Some (m, c) -> 0 < m <= h_clock st) ->
  let st' := run_edge cmd g st e in
  let h := h_hash st e in
  let S := reads g st e in
  let t0 := h_clock st + 1 in
  h_hash st' = h_hash st /\
  t0 <= h_clock st' /\
  (forall n, ~ In n (outs e) ->
     h_disk st' n = h_disk st n /\ h_blog st' n = h_blog st n /\ h_ghost st' n = h_ghost st n) /\
  fresh_or_same st st' t0 (cmd e h S) (outs e) /\
  (forall n m c, h_disk st' n = Some (m, c) -> 0 < m <= h_clock st') /\
  (exists m, t0 <= m <= h_clock st' /\
     forall o, In o (outs e) ->
       h_blog st' o = Some (h, m) /\ h_ghost st' o = Some S /\
       exists mo, h_disk st' o = Some (mo, cmd e h S o)) /\
  (ei_restat (g_edge g e) = false -> forall o, In o (outs e) ->
     exists mo, h_disk st' o = Some (mo, cmd e h S o) /\ t0 < mo).
Proof.
  intros Hc Hd. cbn zeta. unfold run_edge.
  destruct (finish_run_spec st (tick st) e (h_hash st e) (reads g st e) (h_clock (tick st)))
    as [A [B [C [D [E [[m [Hm [_ Hlog]]] F]]]]]].
  - cbn [tick h_clock]. lia.
  - intros n m c Hn. cbn [tick h_disk h_clock] in *. specialize (Hd n m c Hn). lia.
  - lia.
  - cbn zeta in *. change (h_clock (tick st)) with (h_clock st + 1) in *.
    split; [exact A|]. split; [exact B|]. split; [exact C|]. split; [exact D|]. split; [exact E|].
    split; [exists m; split; [exact Hm|exact Hlog]|exact F].
Qed.

(* ---- StateOk is kept *)
Lemma stateok_init : StateOk g (init_hstate g).
Proof.
  unfold StateOk, init_hstate. cbn [h_clock h_disk h_blog].
  split; [lia|]. split; [discriminate|]. split; [discriminate|]. split; [reflexivity|].
  intros n e _ _ H. contradiction.
Qed.

Lemma stateok_edit st n c : StateOk g st -> is_source g n = true -> StateOk g (write_file st n c).
Proof.
  intros [A [B [C [D E]]]] Hs. unfold is_source in Hs.
  destruct (g_producer g n) eqn:Hp; [discriminate|].
  unfold StateOk, write_file. cbn [h_clock h_disk h_blog].
  split; [lia|]. split; [|split; [|split]].
  - intros n' m c'. unfold upd. destruct (Nat.eqb n' n).
    + intros H; inversion H; subst. lia.
    + intros H. specialize (B n' m c' H). lia.
  - intros n' h m H. specialize (C n' h m H). lia.
  - intros n' e He Hph. rewrite upd_other by (intros ->; congruence). apply (D n' e He Hph).
  - intros n' e He Hph. rewrite upd_other by (intros ->; congruence). apply (E n' e He Hph).
Qed.

Lemma stateok_delete st n : StateOk g st -> StateOk g (delete_file st n).
Proof.
  intros [A [B [C [D E]]]]. unfold StateOk, delete_file. cbn [h_clock h_disk h_blog].
  split; [exact A|]. split; [|split; [exact C|split]].
  - intros n' m c'. unfold upd. destruct (Nat.eqb n' n); [discriminate|apply B].
  - intros n' e He Hph. unfold upd. destruct (Nat.eqb n' n); [reflexivity|apply (D n' e He Hph)].
  - intros n' e He Hph. unfold upd. destruct (Nat.eqb n' n); [intros H; contradiction|apply (E n' e He Hph)].
Qed.

Lemma stateok_setcmd st e h : StateOk g st -> StateOk g (set_cmd st e h).
Proof. intros H. exact H. Qed.

Lemma stateok_run st e :
  StateOk g st -> phony e = false -> StateOk g (run_edge cmd g st e).
Proof.
  intros [A [B [C [D E]]]] Hph.
  destruct (run_edge_spec st e A B) as [Hh [Hc [Hout [Hfs [Hd [[m [Hm Hlog]] _]]]]]]. cbn zeta in *.
  set (st' := run_edge cmd g st e) in *.
  split; [lia|]. split; [exact Hd|]. split; [|split].
  - intros n h0 m0 Hn. destruct (in_dec Nat.eq_dec n (outs e)) as [Hin|Hnin].
    + destruct (Hlog n Hin) as [Hb _]. rewrite Hb in Hn. inversion Hn; subst. lia.
    + destruct (Hout n Hnin) as [_ [Hb _]]. rewrite Hb in Hn. specialize (C n h0 m0 Hn). lia.
  - intros n e' He' Hph'. assert (Hnin : ~ In n (outs e)).
    { intros Hin. rewrite (o_prod e n Hin) in He'. inversion He'; subst. congruence. }
    rewrite (proj1 (Hout n Hnin)). apply (D n e' He' Hph').
  - intros n e' He' Hph'. destruct (in_dec Nat.eq_dec n (outs e)) as [Hin|Hnin].
    + destruct (Hlog n Hin) as [Hb _]. rewrite Hb. discriminate.
    + destruct (Hout n Hnin) as [Hd' [Hb _]]. rewrite Hd', Hb. apply (E n e' He' Hph').
Qed.

(* ---- LogSound is kept *)
Theorem logsound_init : LogSound cmd g (init_hstate g).
Proof. intros e o h m mo c _ _ H. discriminate. Qed.

Theorem logsound_edit st n c :
  Good cmd g st -> is_source g n = true -> LogSound cmd g (write_file st n c).
Proof.
  intros [[A [B [C [D E]]]] L] Hs. unfold is_source in Hs.
  destruct (g_producer g n) eqn:Hp; [discriminate|].
  intros e o h m mo c0 Hph Ho Hb Hd. cbn [write_file h_blog h_disk h_ghost] in *.
  assert (Hne : o <> n) by (intros ->; rewrite (o_prod e n Ho) in Hp; discriminate).
  rewrite upd_other in Hd by exact Hne.
  destruct (L e o h m mo c0 Hph Ho Hb Hd) as [S [HS [Hm [Hc Hf]]]].
  exists S. split; [exact HS|]. split; [exact Hm|]. split; [exact Hc|].
  intros i ci Hi. destruct (Hf i ci Hi) as [F1 F2]. split; [exact F1|].
  intros mi c'. cbn [write_file h_disk]. unfold upd. destruct (Nat.eqb i n).
  - intros H Hle. inversion H; subst. specialize (C o h m Hb). lia.
  - apply F2.
Qed.

Theorem logsound_delete st n : Good cmd g st -> LogSound cmd g (delete_file st n).
Proof.
  intros [_ L]. intros e o h m mo c0 Hph Ho Hb Hd. cbn [delete_file h_blog h_disk h_ghost] in *.
  unfold upd in Hd. destruct (Nat.eqb o n); [discriminate|].
  destruct (L e o h m mo c0 Hph Ho Hb Hd) as [S [HS [Hm [Hc Hf]]]].
  exists S. split; [exact HS|]. split; [exact Hm|]. split; [exact Hc|].
  intros i ci Hi. destruct (Hf i ci Hi) as [F1 F2]. split; [exact F1|].
  intros mi c'. cbn [delete_file h_disk]. unfold upd. destruct (Nat.eqb i n); [discriminate|apply F2].
Qed.

Theorem logsound_setcmd st e h : Good cmd g st -> LogSound cmd g (set_cmd st e h).
Proof. intros [_ L]. exact L. Qed.

(* run_edge_establishes + unrelated entries preserved *)
Theorem logsound_run st e :
  Good cmd g st -> (e < g_nedges g)%nat -> phony e = false -> LogSound cmd g (run_edge cmd g st e).
Proof.
  intros [[A [B [C [D E]]]] L] He Hph.
  destruct (run_edge_spec st e A B) as [Hh [Hc [Hout [Hfs [Hd [[m [Hm Hlog]] _]]]]]]. cbn zeta in *.
  set (st' := run_edge cmd g st e) in *.
  intros e1 o h1 m1 mo c Hph1 Ho Hb Hdo.
  destruct (in_dec Nat.eq_dec o (outs e)) as [Hin|Hnin].
  - (* an output of the command that just ran *)
    assert (e1 = e) by (pose proof (o_prod e1 o Ho) as H1; rewrite (o_prod e o Hin) in H1; congruence). subst e1.
    destruct (Hlog o Hin) as [Hb' [Hg' [mo' Hd']]]. rewrite Hb' in Hb. inversion Hb; subst h1 m1.
    rewrite Hd' in Hdo. inversion Hdo; subst mo c.
    exists (reads g st e). split; [exact Hg'|]. split; [|split; [reflexivity|]].
    + unfold reads. rewrite map_map. cbn [fst]. apply map_id.
    + intros i ci Hi. unfold reads in Hi. apply in_map_iff in Hi. destruct Hi as [i' [Hi' Hin']].
      inversion Hi'; subst i' ci. split.
      * intros e' He' Hph'. unfold content_of. rewrite (D i e' He' Hph'). reflexivity.
      * intros mi c' Hdi _.
        assert (Hni : ~ In i (outs e)).
        { apply (not_out_of_below e e i); [apply (in_below e i He (nonoo_in e i Hin'))|lia]. }
        rewrite (proj1 (Hout i Hni)) in Hdi. unfold content_of. rewrite Hdi. reflexivity.
  - (* an older entry *)
    destruct (Hout o Hnin) as [Hd1 [Hb1 Hg1]]. rewrite Hb1 in Hb. rewrite Hd1 in Hdo.
    destruct (L e1 o h1 m1 mo c Hph1 Ho Hb Hdo) as [S [HS [HmS [HcS Hf]]]].
    exists S. split; [rewrite Hg1; exact HS|]. split; [exact HmS|]. split; [exact HcS|].
    intros i ci Hi. destruct (Hf i ci Hi) as [F1 F2]. split; [exact F1|].
    intros mi c' Hdi Hle. destruct (Hfs i) as [Hsame|[mx [Hx [Hmx _]]]].
    + rewrite Hsame in Hdi. apply (F2 mi c' Hdi Hle).
    + rewrite Hx in Hdi. inversion Hdi; subst. specialize (C o h1 m1 Hb). lia.
Qed.

Lemma good_run st e :
  Good cmd g st -> (e < g_nedges g)%nat -> phony e = false -> Good cmd g (run_edge cmd g st e).
Proof.
  intros HG He Hph. split; [apply stateok_run; [exact (proj1 HG)|exact Hph]|apply logsound_run; assumption].
Qed.

(* ---- the same for a run whose writes start from another state [st1] than the one the command
   read in: all that is needed is that the snapshot is a faithful picture of [st1] for the mtime
   that will be recorded *)
Lemma good_finish sc st1 e h S t0 :
  Good cmd g st1 -> (e < g_nedges g)%nat -> phony e = false -> t0 <= h_clock st1 ->
  map fst S = nonoo_ins g e ->
  (forall m, t0 <= m ->
     (t0 <> 0 -> ei_restat (g_edge g e) = false -> ei_generator (g_edge g e) = false -> m = t0) ->
     snap_fresh g st1 m S) ->
  Good cmd g (finish_run cmd g sc st1 e h S t0).
Proof.
  intros [[A [B [C [D E]]]] L] He Hph Ht HmS Hsnap.
  destruct (finish_run_spec sc st1 e h S t0 A B Ht) as [Hh [Hc [Hout [Hfs [Hd [[m [Hm [Hpl Hlog]]] _]]]]]].
  cbn zeta in *. set (st' := finish_run cmd g sc st1 e h S t0) in *.
  split.
  - split; [lia|]. split; [exact Hd|]. split; [|split].
    + intros n h0 m0 Hn. destruct (in_dec Nat.eq_dec n (outs e)) as [Hin|Hnin].
      * destruct (Hlog n Hin) as [Hb _]. rewrite Hb in Hn. inversion Hn; subst. lia.
      * destruct (Hout n Hnin) as [_ [Hb _]]. rewrite Hb in Hn. specialize (C n h0 m0 Hn). lia.
    + intros n e' He' Hph'. assert (Hnin : ~ In n (outs e)).
      { intros Hin. rewrite (o_prod e n Hin) in He'. inversion He'; subst. congruence. }
      rewrite (proj1 (Hout n Hnin)). apply (D n e' He' Hph').
    + intros n e' He' Hph'. destruct (in_dec Nat.eq_dec n (outs e)) as [Hin|Hnin].
      * destruct (Hlog n Hin) as [Hb _]. rewrite Hb. discriminate.
      * destruct (Hout n Hnin) as [Hd' [Hb _]]. rewrite Hd', Hb. apply (E n e' He' Hph').
  - intros e1 o h1 m1 mo c Hph1 Ho Hb Hdo.
    destruct (in_dec Nat.eq_dec o (outs e)) as [Hin|Hnin].
    + assert (e1 = e) by (pose proof (o_prod e1 o Ho) as H1; rewrite (o_prod e o Hin) in H1; congruence). subst e1.
      destruct (Hlog o Hin) as [Hb' [Hg' [mo' Hd']]]. rewrite Hb' in Hb. inversion Hb; subst h1 m1.
      rewrite Hd' in Hdo. inversion Hdo; subst mo c.
      exists S. split; [exact Hg'|]. split; [exact HmS|]. split; [reflexivity|].
      intros i ci Hi. destruct (Hsnap m (proj1 Hm) Hpl i ci Hi) as [F1 F2]. split; [exact F1|].
      intros mi c' Hdi Hle.
      assert (Hin' : In i (nonoo_ins g e)) by (rewrite <- HmS; apply (in_map fst S (i, ci) Hi)).
      assert (Hni : ~ In i (outs e)).
      { apply (not_out_of_below e e i); [apply (in_below e i He (nonoo_in e i Hin'))|lia]. }
      rewrite (proj1 (Hout i Hni)) in Hdi. apply (F2 mi c' Hdi Hle).
    + destruct (Hout o Hnin) as [Hd1 [Hb1 Hg1]]. rewrite Hb1 in Hb. rewrite Hd1 in Hdo.
      destruct (L e1 o h1 m1 mo c Hph1 Ho Hb Hdo) as [S1 [HS [HmS1 [HcS Hf]]]].
      exists S1. split; [rewrite Hg1; exact HS|]. split; [exact HmS1|]. split; [exact HcS|].
      intros i ci Hi. destruct (Hf i ci Hi) as [F1 F2]. split; [exact F1|].
      intros mi c' Hdi Hle. destruct (Hfs i) as [Hsame|[mx [Hx [Hmx _]]]].
      * rewrite Hsame in Hdi. apply (F2 mi c' Hdi Hle).
      * rewrite Hx in Hdi. inversion Hdi; subst. specialize (C o h1 m1 Hb). lia.
Qed.

Lemma good_tick st : Good cmd g st -> Good cmd g (tick st).
Proof.
  intros [[A [B [C [D E]]]] L]. split; [|exact L].
  unfold StateOk, tick. cbn [h_clock h_disk h_blog].
  split; [lia|]. split; [|split; [|split; [exact D|exact E]]].
  - intros n m c Hn. specialize (B n m c Hn). lia.
  - intros n h m Hn. specialize (C n h m Hn). lia.
Qed.

(* C01's clause about concurrent edits, positive half: a source rewritten while a PLAIN command
   (neither restat nor generator) that may have read it is running does not break the invariant
   (the log entry carries the start tick, the edit is later), so the next successful build
   yields the clean contents again *)
Theorem good_run_racy st e n c :
  Good cmd g st -> (e < g_nedges g)%nat -> phony e = false ->
  ei_restat (g_edge g e) = false -> ei_generator (g_edge g e) = false ->
  is_source g n = true ->
  Good cmd g (run_edge_racy cmd g st e n c).
Proof.
  intros HG He Hph Hr Hgn Hsrc. unfold run_edge_racy.
  pose proof (good_tick st HG) as HGt.
  assert (HGE : Good cmd g (write_file (tick st) n c)).
  { split; [apply stateok_edit; [exact (proj1 HGt)|exact Hsrc]|apply logsound_edit; assumption]. }
  destruct HG as [[A [B [C [D E]]]] L].
  apply good_finish; [exact HGE|exact He|exact Hph|cbn [write_file tick h_clock]; lia| |].
  - unfold reads. rewrite map_map. cbn [fst]. apply map_id.
  - intros m Hm Hpl. rewrite (Hpl ltac:(cbn [tick h_clock]; lia) Hr Hgn).
    intros i ci Hi. unfold reads in Hi. apply in_map_iff in Hi. destruct Hi as [i' [Hi' Hin']].
    inversion Hi'; subst i' ci. split.
    + intros e' He' Hph'. unfold content_of. rewrite (D i e' He' Hph'). reflexivity.
    + intros mi c'. cbn [write_file tick h_disk h_clock]. unfold upd. destruct (Nat.eqb i n).
      * intros H Hle. inversion H; subst. lia.
      * intros H _. unfold content_of. rewrite H. reflexivity.
Qed.

(* ---- the declarative dirty state of the fragment: locality facts *)
Lemma spec_ins_AB st w e : (e < g_nedges g)%nat -> spec_ins (G st) w e = nonoo_ins g e.
Proof.
  intros He. unfold spec_ins, valid_deps, spec_load.
  change (ei_deps (g_edge (G st) e)) with (ei_deps (g_edge g e)). rewrite (edge_frag e He).
  apply app_nil_r.
Qed.

Lemma reach_G st T n : reach (G st) T n <-> reach g T n.
Proof.
  unfold reach. split; intros H.
  - induction H as [t Ht|x y Hx IH Hs]; [apply reach_target; exact Ht|].
    apply (reach_step g (manifest_ins g) T x y IH). exact Hs.
  - induction H as [t Ht|x y Hx IH Hs]; [apply reach_target; exact Ht|].
    apply (reach_step (G st) (manifest_ins (G st)) T x y IH). exact Hs.
Qed.

Lemma out_reason_transfer st w w' (N N' : Z -> Prop) e o :
  w_mtime w' o = w_mtime w o -> w_blog w' o = w_blog w o -> (forall x, N x -> N' x) ->
  out_reason (G st) w N e o -> out_reason (G st) w' N' e o.
Proof.
  unfold out_reason, base_reason, time_reason, used_restat. intros Hm Hb HN. rewrite Hm, Hb.
  intros [Hbase|[[Hu Hn]|Ht]].
  - left; exact Hbase.
  - right; left. split; [exact Hu|apply HN; exact Hn].
  - right; right. destruct (w_blog w o) as [[h m]|]; [apply HN; exact Ht|exact Ht].
Qed.

Definition agree_below (k : nat) (w w' : world) : Prop :=
  forall n, below k n -> w_mtime w' n = w_mtime w n /\ w_blog w' n = w_blog w n.

Lemma below_input k n e i :
  (k <= g_nedges g)%nat -> below k n -> g_producer g n = Some e -> In i (nonoo_ins g e) -> below k i.
Proof.
  intros Hk Hb Hp Hi. unfold below in Hb. rewrite Hp in Hb.
  apply (below_mono e k i); [lia|]. apply in_below; [lia|apply nonoo_in; exact Hi].
Qed.

Lemma newer_below st k w w' : (k <= g_nedges g)%nat -> agree_below k w w' ->
  forall x n, newer_than (G st) w x n -> below k n -> newer_than (G st) w' x n.
Proof.
  intros Hk Ha x n H. induction H as [n Hnz Hlt|n Hz Hlt|n e i Hz Hp Hph Hi Hn IH]; intros Hb.
  - destruct (Ha n Hb) as [Hm _]. apply nt_file; rewrite Hm; assumption.
  - apply nt_missing; [rewrite (proj1 (Ha n Hb))|]; assumption.
  - apply (nt_phony (G st) w' x n e i); [rewrite (proj1 (Ha n Hb)); exact Hz|exact Hp|exact Hph|exact Hi|].
    apply IH. apply (below_input k n e i Hk Hb Hp Hi).
Qed.

Lemma md_below st k w w' : (k <= g_nedges g)%nat -> agree_below k w w' ->
  forall n, must_dirty (G st) w n -> below k n -> must_dirty (G st) w' n.
Proof.
  intros Hk Ha n H.
  induction H as [n Hp Hz|n e i Hp Hi Hd IH|n e o Hp Hph Hin Hv Ho Hz|n e o Hp Hph Ho Hr|n e Hp Hl]; intros Hb.
  - apply md_leaf; [exact Hp|]. rewrite (proj1 (Ha n Hb)). exact Hz.
  - assert (He : (e < g_nedges g)%nat) by (apply (Hwg n e Hp)).
    rewrite (spec_ins_AB st w e He) in Hi.
    apply (md_input (G st) w' n e i Hp); [rewrite (spec_ins_AB st w' e He); exact Hi|].
    apply IH. apply (below_input k n e i Hk Hb Hp Hi).
  - assert (Hbo : below k o) by (unfold below in *; rewrite (o_prod e o Ho); change (g_producer g n = Some e) in Hp; rewrite Hp in Hb; exact Hb).
    apply (md_phony (G st) w' n e o Hp Hph Hin Hv Ho). rewrite (proj1 (Ha o Hbo)). exact Hz.
  - assert (He : (e < g_nedges g)%nat) by (apply (Hwg n e Hp)).
    assert (Hbo : below k o) by (unfold below in *; rewrite (o_prod e o Ho); change (g_producer g n = Some e) in Hp; rewrite Hp in Hb; exact Hb).
    apply (md_self (G st) w' n e o Hp Hph Ho).
    destruct (Ha o Hbo) as [Hm Hbl].
    apply (out_reason_transfer st w w'
             (fun x => exists i, In i (spec_ins (G st) w e) /\ newer_than (G st) w x i)
             (fun x => exists i, In i (spec_ins (G st) w' e) /\ newer_than (G st) w' x i) e o Hm Hbl); [|exact Hr].
    intros x [i [Hi Hn]]. rewrite (spec_ins_AB st w e He) in Hi. exists i.
    split; [rewrite (spec_ins_AB st w' e He); exact Hi|].
    apply (newer_below st k w w' Hk Ha x i Hn). apply (below_input k n e i Hk Hb Hp Hi).
  - exfalso. unfold spec_load in Hl. change (ei_deps (g_edge (G st) e)) with (ei_deps (g_edge g e)) in Hl.
    rewrite (edge_frag e (Hwg n e Hp)) in Hl. discriminate.
Qed.

Lemma newer_bound st k w B : (k <= g_nedges g)%nat -> 0 <= B ->
  (forall n, below k n -> w_mtime w n <= B) ->
  forall x n, newer_than (G st) w x n -> below k n -> x < B.
Proof.
  intros Hk HB Hall x n H. induction H as [n Hnz Hlt|n Hz Hlt|n e i Hz Hp Hph Hi Hn IH]; intros Hb.
  - specialize (Hall n Hb). lia.
  - lia.
  - apply IH. apply (below_input k n e i Hk Hb Hp Hi).
Qed.

(* nothing that was clean in [w0] has been touched *)
Definition agree_clean st (w0 w : world) : Prop :=
  forall n, ~ must_dirty (G st) w0 n -> w_mtime w n = w_mtime w0 n /\ w_blog w n = w_blog w0 n.

Lemma clean_input st w0 n e i :
  g_producer g n = Some e -> In i (nonoo_ins g e) ->
  ~ must_dirty (G st) w0 n -> ~ must_dirty (G st) w0 i.
Proof.
  intros Hp Hi Hn Hd. apply Hn. apply (md_input (G st) w0 n e i Hp); [|exact Hd].
  rewrite (spec_ins_AB st w0 e (Hwg n e Hp)). exact Hi.
Qed.

Lemma newer_clean st w0 w : agree_clean st w0 w ->
  forall x n, newer_than (G st) w x n -> ~ must_dirty (G st) w0 n -> newer_than (G st) w0 x n.
Proof.
  intros Ha x n H. induction H as [n Hnz Hlt|n Hz Hlt|n e i Hz Hp Hph Hi Hn IH]; intros Hc.
  - destruct (Ha n Hc) as [Hm _]. rewrite Hm in *. apply nt_file; assumption.
  - destruct (Ha n Hc) as [Hm _]. rewrite Hm in *. apply nt_missing; assumption.
  - destruct (Ha n Hc) as [Hm _]. rewrite Hm in *.
    apply (nt_phony (G st) w0 x n e i Hz Hp Hph Hi). apply IH. apply (clean_input st w0 n e i Hp Hi Hc).
Qed.

Lemma clean_stable st w0 w : agree_clean st w0 w ->
  forall n, must_dirty (G st) w n -> ~ must_dirty (G st) w0 n -> False.
Proof.
  intros Ha n H.
  induction H as [n Hp Hz|n e i Hp Hi Hd IH|n e o Hp Hph Hin Hv Ho Hz|n e o Hp Hph Ho Hr|n e Hp Hl]; intros Hc.
  - apply Hc. apply md_leaf; [exact Hp|]. rewrite <- (proj1 (Ha n Hc)). exact Hz.
  - rewrite (spec_ins_AB st w e (Hwg n e Hp)) in Hi. apply IH. apply (clean_input st w0 n e i Hp Hi Hc).
  - assert (Hco : ~ must_dirty (G st) w0 o).
    { intros Hd. apply Hc. apply (must_dirty_same_prod (G st) w0 o n e (o_prod e o Ho) Hp Hd). }
    apply Hc. apply (md_phony (G st) w0 n e o Hp Hph Hin Hv Ho). rewrite <- (proj1 (Ha o Hco)). exact Hz.
  - assert (He : (e < g_nedges g)%nat) by (apply (Hwg n e Hp)).
    assert (Hco : ~ must_dirty (G st) w0 o).
    { intros Hd. apply Hc. apply (must_dirty_same_prod (G st) w0 o n e (o_prod e o Ho) Hp Hd). }
    apply Hc. apply (md_self (G st) w0 n e o Hp Hph Ho).
    destruct (Ha o Hco) as [Hm Hbl].
    apply (out_reason_transfer st w w0
             (fun x => exists i, In i (spec_ins (G st) w e) /\ newer_than (G st) w x i)
             (fun x => exists i, In i (spec_ins (G st) w0 e) /\ newer_than (G st) w0 x i) e o
             (eq_sym Hm) (eq_sym Hbl)); [|exact Hr].
    intros x [i [Hi Hn]]. rewrite (spec_ins_AB st w e He) in Hi. exists i.
    split; [rewrite (spec_ins_AB st w0 e He); exact Hi|].
    apply (newer_clean st w0 w Ha x i Hn). apply (clean_input st w0 n e i Hp Hi Hc).
  - unfold spec_load in Hl. change (ei_deps (g_edge (G st) e)) with (ei_deps (g_edge g e)) in Hl.
    rewrite (edge_frag e (Hwg n e Hp)) in Hl. discriminate.
Qed.

(* ---- ScanDefs' test on the current world *)
Lemma dirty_now_spec st e :
  dirty_now g st e = false -> forall o, In o (outs e) -> ~ must_dirty (G st) (W st) o.
Proof.
  unfold dirty_now. intros H o Ho Hmd.
  destruct (scan (G st) (W st) (outs e)) as [c|m d|e'| |s p] eqn:Hs; try discriminate.
  assert (Hr : reach (G st) (outs e) o) by (apply reach_target; exact Ho).
  pose proof (scan_reach_ok (G st) (W st) (Gwf st) (Gwg st) (Gfrag st) (outs e) s p Hs o Hr) as [Hok _].
  apply Hok in Hmd.
  assert (Hex : existsb (fun o0 => ns_dirty (st_node s o0)) (outs e) = true).
  { apply existsb_exists. exists o. split; assumption. }
  congruence.
Qed.

(* ---- the reference build *)
Notation cbf := (cb cmd g).

Lemma cb_S hs src k n : cbf hs src (S k) n =
  match g_producer g n with
  | Some e =>
    if Nat.eqb e k
    then if phony k then None
         else Some (cmd k (hs k) (map (fun i => (i, cbf hs src k i)) (nonoo_ins g k)) n)
    else cbf hs src k n
  | None => cbf hs src k n
  end.
Proof. reflexivity. Qed.

Lemma cb_leaf hs src k n : g_producer g n = None -> cbf hs src k n = src n.
Proof.
  intros Hp. induction k as [|k IH]; [cbn [cb]; rewrite Hp; reflexivity|].
  rewrite cb_S, Hp. exact IH.
Qed.

Lemma cb_below hs src k n : below k n -> forall k', (k <= k')%nat -> cbf hs src k' n = cbf hs src k n.
Proof.
  intros Hb k' Hle. induction Hle as [|k' Hle IH]; [reflexivity|].
  rewrite cb_S. unfold below in Hb. destruct (g_producer g n) as [e|]; [|exact IH].
  destruct (Nat.eqb_spec e k'); [lia|exact IH].
Qed.

Lemma cb_ext hs src src' : (forall n, src n = src' n) -> forall k n, cbf hs src k n = cbf hs src' k n.
Proof.
  intros Hs. induction k as [|k IH]; intros n.
  - cbn [cb]. destruct (g_producer g n); [reflexivity|apply Hs].
  - rewrite !cb_S. destruct (g_producer g n) as [e|]; [|apply IH].
    destruct (Nat.eqb e k); [|apply IH]. destruct (phony k); [reflexivity|].
    f_equal. f_equal. apply map_ext. intros i. rewrite IH. reflexivity.
Qed.

Lemma clean_build_out hs src e o : (e < g_nedges g)%nat -> g_producer g o = Some e ->
  clean_build cmd g hs src o =
  if phony e then None
  else Some (cmd e (hs e) (map (fun i => (i, clean_build cmd g hs src i)) (nonoo_ins g e)) o).
Proof.
  intros He Hp. unfold clean_build.
  rewrite (cb_below hs src (S e) o) by (unfold below; try rewrite Hp; lia).
  rewrite cb_S, Hp, Nat.eqb_refl. destruct (phony e); [reflexivity|].
  f_equal. f_equal. apply map_ext_in. intros i Hi. f_equal. symmetry.
  apply cb_below; [|lia]. apply in_below; [exact He|apply nonoo_in; exact Hi].
Qed.

Lemma clean_of_leaf st n : g_producer g n = None -> clean_of cmd g st n = content_of st n.
Proof.
  intros Hp. unfold clean_of, clean_build. rewrite (cb_leaf _ _ _ n Hp). unfold sources_of. rewrite Hp. reflexivity.
Qed.

Lemma clean_of_ext st st' :
  h_hash st' = h_hash st -> (forall n, g_producer g n = None -> content_of st' n = content_of st n) ->
  forall n, clean_of cmd g st' n = clean_of cmd g st n.
Proof.
  intros Hh Hs n. unfold clean_of, clean_build. rewrite Hh. apply cb_ext.
  intros x. unfold sources_of. destruct (g_producer g x) eqn:Hp; [reflexivity|apply Hs; exact Hp].
Qed.

Lemma snapshot_eq (f : node -> option content) : forall (S : snapshot) l,
  map fst S = l -> (forall i ci, In (i, ci) S -> ci = f i) -> S = map (fun i => (i, f i)) l.
Proof.
  induction S as [|[i ci] S IH]; intros l Hl Hall; cbn [map] in Hl; subst l; [reflexivity|].
  cbn [map fst]. rewrite (Hall i ci (or_introl eq_refl)). f_equal.
  apply IH; [reflexivity|]. intros j cj Hj. apply Hall. right; exact Hj.
Qed.

Lemma md_base st e o : In o (outs e) -> phony e = false ->
  base_reason (G st) (W st) e o -> must_dirty (G st) (W st) o.
Proof.
  intros Ho Hph Hb. apply (md_self (G st) (W st) o e o (o_prod e o Ho) Hph Ho). left. exact Hb.
Qed.

Lemma md_time st e o h m i : (e < g_nedges g)%nat -> In o (outs e) -> phony e = false ->
  h_blog st o = Some (h, m) -> In i (nonoo_ins g e) -> newer_than (G st) (W st) m i ->
  must_dirty (G st) (W st) o.
Proof.
  intros He Ho Hph Hb Hi Hn. apply (md_self (G st) (W st) o e o (o_prod e o Ho) Hph Ho).
  right. right. cbn [world_of w_blog]. rewrite Hb. exists i. split; [|exact Hn].
  rewrite (spec_ins_AB st (W st) e He). exact Hi.
Qed.

(* scan_clean_correct: LogSound and "ScanDefs judges the outputs clean" give the contents of a
   clean build, for the whole clean subtree at once (cleanliness is hereditary along the
   non-order-only inputs, so "the inputs are up to date" is the induction hypothesis) *)
Theorem scan_clean_correct st : Good cmd g st ->
  forall e, (e < g_nedges g)%nat -> phony e = false ->
  forall o, In o (outs e) -> ~ must_dirty (G st) (W st) o ->
  exists m c, h_disk st o = Some (m, c) /\ clean_of cmd g st o = Some c.
Proof.
  intros [[A [B [C [D E]]]] L]. induction e as [e IH] using lt_wf_ind. intros He Hph o Ho Hc.
  destruct (h_disk st o) as [[mo c]|] eqn:Hdo.
  2:{ exfalso. apply Hc. apply (md_base st e o Ho Hph). left. cbn [world_of w_mtime]. unfold mtime_of. rewrite Hdo. reflexivity. }
  destruct (h_blog st o) as [[h m]|] eqn:Hbo.
  2:{ exfalso. apply (E o e (o_prod e o Ho) Hph); [rewrite Hdo; discriminate|exact Hbo]. }
  destruct (L e o h m mo c Hph Ho Hbo Hdo) as [S [HS [HmS [HcS Hf]]]].
  exists mo, c. split; [reflexivity|].
  unfold clean_of. rewrite (clean_build_out (h_hash st) (sources_of g st) e o He (o_prod e o Ho)). rewrite Hph.
  change (clean_build cmd g (h_hash st) (sources_of g st)) with (clean_of cmd g st).
  assert (HSeq : S = map (fun i => (i, clean_of cmd g st i)) (nonoo_ins g e)).
  { apply snapshot_eq; [exact HmS|]. intros i ci Hi.
    assert (Hin : In i (nonoo_ins g e)) by (rewrite <- HmS; apply (in_map fst S (i, ci) Hi)).
    destruct (Hf i ci Hi) as [F1 F2].
    assert (Hci : ~ must_dirty (G st) (W st) i) by (apply (clean_input st (W st) o e i (o_prod e o Ho) Hin Hc)).
    assert (Hfresh : forall mi c', h_disk st i = Some (mi, c') -> ci = Some c').
    { intros mi c' Hdi. apply (F2 mi c' Hdi). destruct (Z_le_gt_dec mi m) as [Hle|Hgt]; [exact Hle|].
      exfalso. apply Hc. apply (md_time st e o h m i He Ho Hph Hbo Hin).
      apply nt_file; cbn [world_of w_mtime]; unfold mtime_of; rewrite Hdi; [|lia].
      specialize (B i mi c' Hdi). lia. }
    destruct (g_producer g i) as [e'|] eqn:Hpi.
    - pose proof (in_below e i He (nonoo_in e i Hin)) as Hlt. unfold below in Hlt. rewrite Hpi in Hlt.
      assert (He' : (e' < g_nedges g)%nat) by lia.
      destruct (phony e') eqn:Hph'.
      + rewrite (F1 e' eq_refl Hph'). unfold clean_of.
        rewrite (clean_build_out _ _ e' i He' Hpi), Hph'. reflexivity.
      + destruct (IH e' Hlt He' Hph' i (p_out i e' Hpi) Hci) as [mi [c' [Hdi Hcl]]].
        rewrite Hcl. apply (Hfresh mi c' Hdi).
    - rewrite (clean_of_leaf st i Hpi). unfold content_of.
      destruct (h_disk st i) as [[mi c']|] eqn:Hdi; [apply (Hfresh mi c' eq_refl)|].
      exfalso. apply Hci. apply md_leaf; [exact Hpi|]. cbn [world_of w_mtime]. unfold mtime_of. rewrite Hdi. reflexivity. }
  rewrite <- HSeq. f_equal. rewrite HcS.
  destruct (ei_generator (g_edge g e)) eqn:Hgn; [apply Hgen; exact Hgn|].
  destruct (N.eq_dec h (h_hash st e)) as [->|Hne]; [reflexivity|].
  exfalso. apply Hc. apply (md_base st e o Ho Hph). right. cbn [world_of w_blog]. rewrite Hbo.
  split; [exact Hgn|exact Hne].
Qed.

Lemma mtime_le st n : StateOk g st -> 0 <= mtime_of st n <= h_clock st.
Proof.
  intros [A [B _]]. unfold mtime_of. destruct (h_disk st n) as [[m c]|] eqn:Hd; [|lia].
  specialize (B n m c Hd). lia.
Qed.

Lemma want_start_iff p e : want_start p e = true <-> p_want p e = Some WantToStart.
Proof. unfold want_start. destruct (p_want p e) as [[| |]|]; split; congruence. Qed.

Lemma build_upto_S p k st :
  build_upto cmd g p (S k) st = build_step cmd g p (build_upto cmd g p k st) k.
Proof. unfold build_upto. rewrite seq_S, fold_left_app. reflexivity. Qed.

(* ---- one accepted invocation *)
Section Build.
Variables (st0 : hstate) (T : list node) (s0 : sstate) (p0 : plan).
Hypothesis HG0 : Good cmd g st0.
Hypothesis Hscan : scan (G st0) (W st0) T = ScanOk s0 p0.

Definition needed (e : edge) : Prop := exists n, reach g T n /\ g_producer g n = Some e.
Notation MD0 := (must_dirty (G st0) (W st0)).
Notation stk k := (build_upto cmd g p0 k st0).

Lemma needed_G st e : neededE (G st) T e <-> needed e.
Proof.
  unfold neededE, needed. split; intros [n [Hr Hp]]; exists n; (split; [|exact Hp]).
  - apply (reach_G st). exact Hr.
  - apply (reach_G st). exact Hr.
Qed.

Lemma want_sound e : want_start p0 e = true -> needed e /\ exists o, In o (outs e) /\ MD0 o.
Proof.
  intros H. apply want_start_iff in H.
  destruct (scan_want_sound (G st0) (W st0) (Gwf st0) (Gwg st0) (Gfrag st0) T s0 p0 Hscan e H) as [Hn Ho].
  split; [apply (needed_G st0); exact Hn|exact Ho].
Qed.

Lemma want_complete e :
  needed e -> (exists o, In o (outs e) /\ MD0 o) ->
  ~ (phony e = true /\ ei_ins (g_edge g e) = []) ->
  want_start p0 e = true /\
  forall i, In i (ei_ins (g_edge g e)) -> g_producer g i = None -> mtime_of st0 i <> 0.
Proof.
  intros Hn Ho Hnp. apply (needed_G st0) in Hn.
  destruct (scan_want_complete (G st0) (W st0) (Gwf st0) (Gwg st0) (Gfrag st0) T s0 p0 Hscan e Hn Ho Hnp)
    as [Hw Hl].
  split; [apply want_start_iff; exact Hw|exact Hl].
Qed.

(* only outputs of wanted real statements below [k] have changed *)
Definition Frame (k : nat) (st : hstate) : Prop :=
  forall n, (h_disk st n = h_disk st0 n /\ h_blog st n = h_blog st0 n /\ h_ghost st n = h_ghost st0 n) \/
            (exists e, g_producer g n = Some e /\ (e < k)%nat /\ want_start p0 e = true /\ phony e = false).

Lemma build_inv1 k : (k <= g_nedges g)%nat ->
  Good cmd g (stk k) /\ h_hash (stk k) = h_hash st0 /\ Frame k (stk k).
Proof.
  induction k as [|k IH]; intros Hk.
  - split; [exact HG0|]. split; [reflexivity|]. intros n. left. repeat split; reflexivity.
  - destruct IH as [HGk [Hh Hf]]; [lia|]. rewrite build_upto_S. set (st := stk k) in *.
    unfold build_step.
    destruct (want_start p0 k && negb (phony k) && dirty_now g st k)%bool eqn:Hc.
    + apply andb_true_iff in Hc. destruct Hc as [Hc _]. apply andb_true_iff in Hc. destruct Hc as [Hw Hph].
      apply negb_true_iff in Hph.
      destruct HGk as [[A [B C]] L].
      destruct (run_edge_spec st k A B) as [Hh' [_ [Hout _]]]. cbn zeta in *.
      split; [apply good_run; [split; [split; [exact A|split; [exact B|exact C]]|exact L]|lia|exact Hph]|].
      split; [congruence|].
      intros n. destruct (in_dec Nat.eq_dec n (outs k)) as [Hin|Hnin].
      * right. exists k. split; [apply o_prod; exact Hin|]. split; [lia|]. split; assumption.
      * destruct (Hout n Hnin) as [E1 [E2 E3]]. rewrite E1, E2, E3.
        destruct (Hf n) as [Hs|[e [He [Hlt Hr]]]]; [left; exact Hs|].
        right. exists e. split; [exact He|]. split; [lia|exact Hr].
    + split; [exact HGk|]. split; [exact Hh|].
      intros n. destruct (Hf n) as [Hs|[e [He [Hlt Hr]]]]; [left; exact Hs|].
      right. exists e. split; [exact He|]. split; [lia|exact Hr].
Qed.

Lemma frame_leaf k st n : Frame k st -> g_producer g n = None -> h_disk st n = h_disk st0 n.
Proof. intros Hf Hp. destruct (Hf n) as [[E _]|[e [He _]]]; [exact E|congruence]. Qed.

Lemma frame_later k st n e : Frame k st -> g_producer g n = Some e -> (k <= e)%nat ->
  h_disk st n = h_disk st0 n /\ h_blog st n = h_blog st0 n.
Proof.
  intros Hf Hp Hk. destruct (Hf n) as [[E1 [E2 _]]|[e' [He' [Hlt _]]]]; [split; assumption|].
  rewrite Hp in He'. inversion He'; subst. lia.
Qed.

Lemma frame_clean k st : Frame k st -> agree_clean st0 (W st0) (W st).
Proof.
  intros Hf n Hc. cbn [world_of w_mtime w_blog]. unfold mtime_of.
  destruct (Hf n) as [[E1 [E2 _]]|[e [He [_ [Hw _]]]]]; [rewrite E1, E2; split; reflexivity|].
  exfalso. apply Hc. destruct (want_sound e Hw) as [_ [o [Ho Hmd]]].
  apply (must_dirty_same_prod (G st0) (W st0) o n e (o_prod e o Ho) He Hmd).
Qed.

(* the statement [k] is either run (wanted, real, dirty now) or the state stays *)
Lemma step_cases k :
  (stk (S k) = run_edge cmd g (stk k) k /\ want_start p0 k = true /\ phony k = false) \/
  (stk (S k) = stk k /\
   (phony k = true \/ want_start p0 k = false \/ dirty_now g (stk k) k = false)).
Proof.
  rewrite build_upto_S. unfold build_step.
  destruct (want_start p0 k); [|right; split; [reflexivity|right; left; reflexivity]].
  destruct (phony k); [right; split; [reflexivity|left; reflexivity]|].
  destruct (dirty_now g (stk k) k); [left; repeat split; reflexivity|].
  right; split; [reflexivity|right; right; reflexivity].
Qed.

(* C01, the loop invariant: the needed real statements below [k] have the clean contents *)
Lemma build_inv_c01 k : (k <= g_nedges g)%nat ->
  forall e, (e < k)%nat -> needed e -> phony e = false ->
  forall o, In o (outs e) ->
    exists m c, h_disk (stk k) o = Some (m, c) /\ clean_of cmd g st0 o = Some c.
Proof.
  induction k as [|k IH]; intros Hk e He Hn Hph o Ho; [lia|].
  destruct (build_inv1 k) as [HGk [Hh Hf]]; [lia|].
  assert (IHk : forall e', (e' < k)%nat -> needed e' -> phony e' = false ->
            forall o', In o' (outs e') ->
            exists m c, h_disk (stk k) o' = Some (m, c) /\ clean_of cmd g st0 o' = Some c)
    by (apply IH; lia).
  set (st := stk k) in *.
  destruct (Nat.eq_dec e k) as [->|Hne].
  2:{ (* an earlier statement: its outputs are not touched by [k] *)
      destruct (IHk e ltac:(lia) Hn Hph o Ho) as [m [c [Hd Hcl]]].
      destruct (step_cases k) as [[Hs _]|[Hs _]]; rewrite Hs; fold st; [|exists m, c; split; assumption].
      destruct HGk as [[A [B _]] _].
      destruct (run_edge_spec st k A B) as [_ [_ [Hout _]]]. cbn zeta in Hout.
      assert (Hnin : ~ In o (outs k)).
      { intros Hin. pose proof (o_prod k o Hin) as H1. rewrite (o_prod e o Ho) in H1. congruence. }
      exists m, c. rewrite (proj1 (Hout o Hnin)). split; assumption. }
  assert (Hcl : clean_of cmd g st0 o =
                Some (cmd k (h_hash st0 k) (map (fun i => (i, clean_of cmd g st0 i)) (nonoo_ins g k)) o)).
  { unfold clean_of. rewrite (clean_build_out _ _ k o Hk (o_prod k o Ho)), Hph. reflexivity. }
  destruct (step_cases k) as [[Hs [Hw _]]|[Hs Hskip]]; rewrite Hs; fold st.
  - (* the command runs: it reads clean contents *)
    destruct HGk as [[A [B [C [D E]]]] L].
    destruct (run_edge_spec st k A B) as [_ [_ [_ [_ [_ [[m [_ Hlog]] _]]]]]]. cbn zeta in Hlog.
    destruct (Hlog o Ho) as [_ [_ [mo Hd]]]. exists mo. eexists. split; [exact Hd|].
    rewrite Hcl, Hh. f_equal. f_equal. unfold reads. apply map_ext_in. intros i Hi. f_equal.
    destruct Hn as [n [Rn Hpn]].
    destruct (g_producer g i) as [e'|] eqn:Hpi.
    + pose proof (in_below k i Hk (nonoo_in k i Hi)) as Hlt. unfold below in Hlt. rewrite Hpi in Hlt.
      destruct (phony e') eqn:Hph'.
      * unfold content_of. rewrite (D i e' Hpi Hph'). unfold clean_of.
        rewrite (clean_build_out _ _ e' i ltac:(lia) Hpi), Hph'. reflexivity.
      * assert (Hn' : needed e').
        { exists i. split; [|exact Hpi]. apply (reach_step g (manifest_ins g) T n i Rn).
          exists k. split; [exact Hpn|apply nonoo_in; exact Hi]. }
        destruct (IHk e' Hlt Hn' Hph' i (p_out i e' Hpi)) as [mi [ci [Hdi Hci]]].
        unfold content_of. rewrite Hdi, Hci. reflexivity.
    + rewrite (clean_of_leaf st0 i Hpi). unfold content_of. rewrite (frame_leaf k st i Hf Hpi). reflexivity.
  - destruct Hskip as [Hp|[Hw|Hdn]]; [congruence| |].
    + (* not wanted: clean at scan time, and untouched since *)
      assert (Hc0 : ~ MD0 o).
      { intros Hmd. destruct (want_complete k Hn (ex_intro _ o (conj Ho Hmd))) as [Hw' _]; [|congruence].
        intros [Hp _]. congruence. }
      destruct (scan_clean_correct st0 HG0 k Hk Hph o Ho Hc0) as [m [c [Hd Hc]]].
      exists m, c. split; [|exact Hc].
      rewrite (proj1 (frame_later k st o k Hf (o_prod k o Ho) (le_n k))). exact Hd.
    + (* wanted, but clean when its turn came *)
      pose proof (dirty_now_spec st k Hdn o Ho) as Hc.
      destruct (scan_clean_correct st HGk k Hk Hph o Ho Hc) as [m [c [Hd Hcc]]].
      exists m, c. split; [exact Hd|]. rewrite <- Hcc. symmetry. apply clean_of_ext; [exact Hh|].
      intros x Hx. unfold content_of. rewrite (frame_leaf k st x Hf Hx). reflexivity.
Qed.

(* C02, the loop invariant: nothing the needed statements below [k] produce must be remade *)
Lemma nip_edge e : no_inputless_phony g = true -> (e < g_nedges g)%nat ->
  ~ (phony e = true /\ ei_ins (g_edge g e) = []).
Proof.
  intros Hn He [Hp Hi]. pose proof (edges_all_spec g _ e Hn He) as H. cbn beta in H.
  rewrite Hp, Hi in H. discriminate.
Qed.

Lemma build_inv_c02 k : no_inputless_phony g = true -> (k <= g_nedges g)%nat ->
  forall e, (e < k)%nat -> needed e ->
  forall o, In o (outs e) -> ~ must_dirty (G st0) (W (stk k)) o.
Proof.
  intros Hnip. induction k as [|k IH]; intros Hk e He Hn o Ho; [lia|].
  destruct (build_inv1 k) as [HGk [Hh Hf]]; [lia|].
  assert (IHk : forall e', (e' < k)%nat -> needed e' ->
            forall o', In o' (outs e') -> ~ must_dirty (G st0) (W (stk k)) o') by (apply IH; lia).
  set (st := stk k) in *.
  assert (HGeq : G st = G st0) by (apply G_hash_eq; exact Hh).
  (* the non-order-only inputs of [k] are clean now *)
  assert (Hins : needed k -> forall i, In i (nonoo_ins g k) -> ~ must_dirty (G st0) (W st) i).
  { intros [n [Rn Hpn]] i Hi Hmd. destruct (g_producer g i) as [e'|] eqn:Hpi.
    - pose proof (in_below k i Hk (nonoo_in k i Hi)) as Hlt. unfold below in Hlt. rewrite Hpi in Hlt.
      assert (Hn' : needed e').
      { exists i. split; [|exact Hpi]. apply (reach_step g (manifest_ins g) T n i Rn).
        exists k. split; [exact Hpn|apply nonoo_in; exact Hi]. }
      apply (IHk e' Hlt Hn' i (p_out i e' Hpi) Hmd).
    - pose proof (must_dirty_leaf_inv (G st0) (W st) i Hmd Hpi) as Hz.
      cbn [world_of w_mtime] in Hz. unfold mtime_of in Hz. rewrite (frame_leaf k st i Hf Hpi) in Hz.
      assert (Hmd0 : MD0 n).
      { apply (md_input (G st0) (W st0) n k i Hpn).
        - rewrite (spec_ins_AB st0 (W st0) k Hk). exact Hi.
        - apply md_leaf; [exact Hpi|exact Hz]. }
      destruct (want_complete k (ex_intro _ n (conj Rn Hpn)) (ex_intro _ n (conj (p_out n k Hpn) Hmd0)))
        as [_ Hl].
      + intros [_ Hnil]. pose proof (nonoo_in k i Hi) as Hin. rewrite Hnil in Hin. destruct Hin.
      + apply (Hl i (nonoo_in k i Hi) Hpi). unfold mtime_of. exact Hz. }
  destruct (step_cases k) as [[Hs [Hw Hph]]|[Hs Hskip]]; rewrite Hs; fold st.
  - (* the command of [k] runs *)
    destruct HGk as [[A [B [C [D E]]]] L].
    destruct (run_edge_spec st k A B) as [Hh' [Hc' [Hout [_ [Hd' [[m [Hm Hlog]] Hnr]]]]]]. cbn zeta in *.
    set (st' := run_edge cmd g st k) in *.
    assert (Hag : agree_below k (W st') (W st)).
    { intros n Hb. pose proof (not_out_of_below k k n Hb (le_n k)) as Hnin.
      destruct (Hout n Hnin) as [E1 [E2 _]]. cbn [world_of w_mtime w_blog]. unfold mtime_of.
      rewrite E1, E2. split; reflexivity. }
    destruct (Nat.eq_dec e k) as [->|Hne].
    2:{ intros Hmd. apply (IHk e ltac:(lia) Hn o Ho).
        apply (md_below st0 k (W st') (W st) ltac:(lia) Hag o Hmd).
        unfold below. rewrite (o_prod e o Ho). lia. }
    intros Hmd.
    destruct (must_dirty_out_inv (G st0) (W st') o k Hmd (o_prod k o Ho))
      as [[i [Hi Hdi]]|[[Hp _]|[[_ [o' [Ho' Hr]]]|Hl]]].
    + rewrite (spec_ins_AB st0 (W st') k Hk) in Hi. apply (Hins Hn i Hi).
      apply (md_below st0 k (W st') (W st) ltac:(lia) Hag i Hdi).
      apply (in_below k i Hk (nonoo_in k i Hi)).
    + change (phony k = true) in Hp. congruence.
    + change (In o' (outs k)) in Ho'.
      destruct (Hlog o' Ho') as [Hb' [_ [mo Hdo]]].
      assert (HN : forall x, (exists i, In i (spec_ins (G st0) (W st') k) /\ newer_than (G st0) (W st') x i) ->
                             x < h_clock st).
      { intros x [i [Hi Hnt]]. rewrite (spec_ins_AB st0 (W st') k Hk) in Hi.
        apply (newer_bound st0 k (W st') (h_clock st) ltac:(lia) A) with (n := i); [|exact Hnt|].
        - intros n Hb. destruct (Hag n Hb) as [E1 _]. cbn [world_of w_mtime] in *. rewrite <- E1.
          apply (mtime_le st n). split; [exact A|split; [exact B|split; [exact C|split; [exact D|exact E]]]].
        - apply (in_below k i Hk (nonoo_in k i Hi)). }
      unfold out_reason, base_reason, time_reason, used_restat in Hr.
      cbn [world_of w_mtime w_blog] in Hr. unfold mtime_of in Hr. rewrite Hdo, Hb' in Hr.
      destruct (Hd' o' mo _ Hdo) as [Hmo _].
      destruct Hr as [[Hz|[_ Hneq]]|[[Hu Hx]|Hx]].
      * lia.
      * apply Hneq. cbn [graph_of g_edge set_hash ei_hash]. rewrite Hh. reflexivity.
      * change (ei_restat (g_edge (G st0) k)) with (ei_restat (g_edge g k)) in Hu.
        rewrite andb_true_r in Hu. destruct (Hnr Hu o' Ho') as [mo' [Hdo' Hlt]].
        rewrite Hdo in Hdo'. inversion Hdo'; subst mo'. specialize (HN mo Hx). lia.
      * specialize (HN m Hx). lia.
    + unfold spec_load in Hl. change (ei_deps (g_edge (G st0) k)) with (ei_deps (g_edge g k)) in Hl.
      rewrite (edge_frag k Hk) in Hl. discriminate.
  - (* the state stays *)
    destruct (Nat.eq_dec e k) as [->|Hne]; [|apply (IHk e ltac:(lia) Hn o Ho)].
    destruct (phony k) eqn:Hph.
    + intros Hmd.
      destruct (must_dirty_out_inv (G st0) (W st) o k Hmd (o_prod k o Ho))
        as [[i [Hi Hdi]]|[[_ [Hnil _]]|[[Hp _]|Hl]]].
      * rewrite (spec_ins_AB st0 (W st) k Hk) in Hi. apply (Hins Hn i Hi Hdi).
      * apply (nip_edge k Hnip Hk). split; [exact Hph|exact Hnil].
      * change (phony k = false) in Hp. congruence.
      * unfold spec_load in Hl. change (ei_deps (g_edge (G st0) k)) with (ei_deps (g_edge g k)) in Hl.
        rewrite (edge_frag k Hk) in Hl. discriminate.
    + destruct Hskip as [Hp|[Hw|Hdn]]; [congruence| |].
      * assert (Hc0 : ~ MD0 o).
        { intros Hmd. destruct (want_complete k Hn (ex_intro _ o (conj Ho Hmd))) as [Hw' _]; [|congruence].
          intros [Hp _]. congruence. }
        intros Hmd. apply (clean_stable st0 (W st0) (W st) (frame_clean k st Hf) o Hmd Hc0).
      * rewrite <- HGeq. apply (dirty_now_spec st k Hdn o Ho).
Qed.

End Build.

(* ---- the theorems about one build *)
Theorem logsound_build st T st' :
  Good cmd g st -> build cmd g st T = Some st' -> Good cmd g st'.
Proof.
  intros HG H. unfold build in H.
  destruct (scan (G st) (W st) T) as [c|m d|e| |s p] eqn:Hs; try discriminate. inversion H; subst st'.
  apply (build_inv1 st p HG (g_nedges g) (le_n _)).
Qed.

(* what a build leaves alone: sources and command lines *)
Lemma build_sources st T st' :
  Good cmd g st -> build cmd g st T = Some st' ->
  h_hash st' = h_hash st /\ forall n, g_producer g n = None -> h_disk st' n = h_disk st n.
Proof.
  intros HG H. unfold build in H.
  destruct (scan (G st) (W st) T) as [c|m d|e| |s p] eqn:Hs; try discriminate. inversion H; subst st'.
  destruct (build_inv1 st p HG (g_nedges g) (le_n _)) as [_ [Hh Hf]].
  split; [exact Hh|]. intros n Hp. apply (frame_leaf st p _ _ n Hf Hp).
Qed.

(* C01 for one invocation: after a successful build from a LogSound state, every node the targets
   need -- through inputs of every kind -- holds exactly what a from-scratch build of the current
   sources and command lines produces (a source: itself; a phony output: no file) *)
Theorem C01_build_equals_clean st T st' :
  Good cmd g st -> build cmd g st T = Some st' ->
  forall n, reach g T n -> content_of st' n = clean_of cmd g st' n.
Proof.
  intros HG H n Rn. destruct (build_sources st T st' HG H) as [Hh Hsrc].
  pose proof (logsound_build st T st' HG H) as HG'.
  unfold build in H.
  destruct (scan (G st) (W st) T) as [c|m d|e| |s p] eqn:Hs; try discriminate. inversion H; subst st'.
  set (st' := build_upto cmd g p (g_nedges g) st) in *.
  destruct (g_producer g n) as [e|] eqn:Hp; [|symmetry; apply clean_of_leaf; exact Hp].
  pose proof (Hwg n e Hp) as He.
  rewrite (clean_of_ext st st' Hh) by (intros x Hx; unfold content_of; rewrite (Hsrc x Hx); reflexivity).
  destruct (phony e) eqn:Hph.
  - destruct HG' as [[_ [_ [_ [D _]]]] _]. unfold content_of. rewrite (D n e Hp Hph).
    unfold clean_of. rewrite (clean_build_out _ _ e n He Hp), Hph. reflexivity.
  - destruct (build_inv_c01 st T s p HG Hs (g_nedges g) (le_n _) e He (ex_intro _ n (conj Rn Hp)) Hph n (p_out n e Hp))
      as [m [c [Hd Hc]]].
    unfold content_of. unfold st'. rewrite Hd, Hc. reflexivity.
Qed.

(* a plan that wants nothing runs nothing *)
Lemma build_upto_idle p st : (forall e, p_want p e <> Some WantToStart) ->
  forall k, build_upto cmd g p k st = st.
Proof.
  intros Hp. induction k as [|k IH]; [reflexivity|]. rewrite build_upto_S, IH. unfold build_step.
  assert (Hw : want_start p k = false).
  { destruct (want_start p k) eqn:E; [|reflexivity]. apply want_start_iff in E. destruct (Hp k E). }
  rewrite Hw. reflexivity.
Qed.

(* C02 for one invocation: immediately after a successful build, ScanDefs' scan of the same
   targets marks no statement kWantToStart (the documented always-dirty case excluded) *)
Theorem C02_wants_nothing st T st' :
  Good cmd g st -> no_inputless_phony g = true -> build cmd g st T = Some st' ->
  forall s p, scan (G st') (W st') T = ScanOk s p -> forall e, p_want p e <> Some WantToStart.
Proof.
  intros HG Hnip H s2 p2 Hs2 e Hw. destruct (build_sources st T st' HG H) as [Hh _].
  unfold build in H.
  destruct (scan (G st) (W st) T) as [c|m d|e'| |s p] eqn:Hs; try discriminate. inversion H; subst st'.
  set (st' := build_upto cmd g p (g_nedges g) st) in *.
  destruct (scan_want_sound (G st') (W st') (Gwf st') (Gwg st') (Gfrag st') T s2 p2 Hs2 e Hw)
    as [Hn [o [Ho Hmd]]].
  apply (needed_G T st') in Hn. rewrite (G_hash_eq st st' Hh) in Hmd.
  assert (He : (e < g_nedges g)%nat) by (destruct Hn as [n [_ Hp]]; apply (Hwg n e Hp)).
  apply (build_inv_c02 st T s p HG Hs (g_nedges g) Hnip (le_n _) e He Hn o Ho Hmd).
Qed.

(* ... and that scan IS accepted (no cycle, no missing source, no load error, enough fuel) *)
Theorem C02_accepts st T st' :
  Good cmd g st -> no_inputless_phony g = true -> build cmd g st T = Some st' ->
  exists s p, scan (G st') (W st') T = ScanOk s p.
Proof.
  intros HG Hnip H. destruct (build_sources st T st' HG H) as [Hh Hsrc].
  unfold build in H.
  destruct (scan (G st) (W st) T) as [c|m d|e'| |s p] eqn:Hs; try discriminate. inversion H; subst st'.
  set (st' := build_upto cmd g p (g_nedges g) st) in *.
  apply (scan_accepts (G st') (W st') (Gwf st') (Gwg st') (Gfrag st') T Htopo).
  - intros t Ht Hp.
    destruct (scan_leaf_targets (G st) (W st) (Gwf st) (Gwg st) (Gfrag st) T s p Hs t Ht Hp) as [Hnz|Hb];
      [left|right; exact Hb].
    cbn [world_of w_mtime] in *. unfold mtime_of in *. rewrite (Hsrc t Hp). exact Hnz.
  - intros e Hn o Ho Hmd. apply (needed_G T st') in Hn. rewrite (G_hash_eq st st' Hh) in Hmd.
    assert (He : (e < g_nedges g)%nat) by (destruct Hn as [n [_ Hp]]; apply (Hwg n e Hp)).
    apply (build_inv_c02 st T s p HG Hs (g_nedges g) Hnip (le_n _) e He Hn o Ho Hmd).
Qed.

(* C02 for one invocation *)
Theorem C02_converges st T st' :
  Good cmd g st -> no_inputless_phony g = true -> build cmd g st T = Some st' ->
  exists s p, scan (G st') (W st') T = ScanOk s p /\ forall e, p_want p e <> Some WantToStart.
Proof.
  intros HG Hnip H. destruct (C02_accepts st T st' HG Hnip H) as [s [p Hs]].
  exists s, p. split; [exact Hs|]. apply (C02_wants_nothing st T st' HG Hnip H s p Hs).
Qed.

(* ... hence running ninja again succeeds, executes no command and changes nothing *)
Theorem C02_second_build_idle st T st' :
  Good cmd g st -> no_inputless_phony g = true -> build cmd g st T = Some st' ->
  build cmd g st' T = Some st'.
Proof.
  intros HG Hnip H. destruct (C02_converges st T st' HG Hnip H) as [s [p [Hs Hc]]].
  unfold build. rewrite Hs. f_equal. apply build_upto_idle. exact Hc.
Qed.

(* ---- histories *)
Theorem good_init : Good cmd g (init_hstate g).
Proof. split; [apply stateok_init|apply logsound_init]. Qed.

Theorem good_step st x : Good cmd g st -> step_ok g x = true -> Good cmd g (apply_step cmd g st x).
Proof.
  intros HG Hok. destruct x as [n c|n|e h|T]; cbn [apply_step step_ok] in *.
  - split; [apply stateok_edit; [exact (proj1 HG)|exact Hok]|apply logsound_edit; assumption].
  - split; [apply stateok_delete; exact (proj1 HG)|apply logsound_delete; exact HG].
  - split; [apply stateok_setcmd; exact (proj1 HG)|apply logsound_setcmd; exact HG].
  - destruct (build cmd g st T) as [st'|] eqn:Hb; [|exact HG]. apply (logsound_build st T st' HG Hb).
Qed.

Theorem good_hist : forall h st, Good cmd g st -> hist_ok g h = true -> Good cmd g (run_hist cmd g st h).
Proof.
  induction h as [|x h IH]; intros st HG Hok; [exact HG|].
  cbn [hist_ok forallb] in Hok. apply andb_true_iff in Hok. destruct Hok as [Hx Hh].
  change (run_hist cmd g st (x :: h)) with (run_hist cmd g (apply_step cmd g st x) h).
  apply IH; [apply good_step; assumption|exact Hh].
Qed.

(* C01 over histories: after ANY history of source edits, deletions, command-line changes and
   builds from the empty tree, a successful build leaves the clean-build contents *)
Theorem C01_history h T st' :
  hist_ok g h = true ->
  build cmd g (run_hist cmd g (init_hstate g) h) T = Some st' ->
  forall n, reach g T n -> content_of st' n = clean_of cmd g st' n.
Proof.
  intros Hok Hb. apply (C01_build_equals_clean _ T st' (good_hist h _ good_init Hok) Hb).
Qed.

(* the next build after a racy plain command *)
Theorem C01_racy_plain_recovers st e n c T st' :
  Good cmd g st -> (e < g_nedges g)%nat -> phony e = false ->
  ei_restat (g_edge g e) = false -> ei_generator (g_edge g e) = false ->
  is_source g n = true ->
  build cmd g (run_edge_racy cmd g st e n c) T = Some st' ->
  forall x, reach g T x -> content_of st' x = clean_of cmd g st' x.
Proof.
  intros HG He Hph Hr Hgn Hsrc Hb. apply (C01_build_equals_clean _ T st' (good_run_racy st e n c HG He Hph Hr Hgn Hsrc) Hb).
Qed.

(* C02 over histories *)
Theorem C02_history h T st' :
  hist_ok g h = true -> no_inputless_phony g = true ->
  build cmd g (run_hist cmd g (init_hstate g) h) T = Some st' ->
  (exists s p, scan (G st') (W st') T = ScanOk s p /\ forall e, p_want p e <> Some WantToStart) /\
  build cmd g st' T = Some st'.
Proof.
  intros Hok Hnip Hb. pose proof (good_hist h _ good_init Hok) as HG. split.
  - apply (C02_converges _ T st' HG Hnip Hb).
  - apply (C02_second_build_idle _ T st' HG Hnip Hb).
Qed.

End Hist.

(* ================================================================== the example project is a model *)
Lemma Ex_wf_spec : wf_spec Ex.g.
Proof.
  split; [|split].
  - intros e o Ho. destruct e as [|[|[|[|e]]]]; cbn in Ho; try (destruct Ho as [<-|[]]; reflexivity); destruct Ho.
  - intros n e Hp. destruct n as [|[|[|[|[|[|n]]]]]]; cbn in Hp; try discriminate; inversion Hp; subst; cbn; left; reflexivity.
  - intros e Hd. exfalso. apply Hd. destruct e as [|[|[|[|e]]]]; reflexivity.
Qed.

Lemma Ex_wf_graph : wf_graph Ex.g.
Proof.
  intros n e Hp. destruct n as [|[|[|[|[|[|n]]]]]]; cbn in Hp; try discriminate; inversion Hp; subst; cbn; lia.
Qed.

Lemma Ex_gen : forall e h h' S o,
  ei_generator (g_edge Ex.g e) = true -> Ex.cmd e h S o = Ex.cmd e h' S o.
Proof. intros e h h' S o H. destruct e as [|[|[|[|e]]]]; cbn in H; discriminate. Qed.


(* ================================================================== the exception of C01 *)
Lemma ExRace_wf_spec r gn : wf_spec (ExRace.mk r gn).
Proof.
  split; [|split].
  - intros e o Ho. destruct e as [|e]; cbn in Ho; [destruct Ho as [<-|[]]; reflexivity|destruct Ho].
  - intros n e Hp. destruct n as [|[|n]]; cbn in Hp; try discriminate. inversion Hp; subst. cbn. left; reflexivity.
  - intros e Hd. exfalso. apply Hd. destruct e as [|e]; reflexivity.
Qed.

Lemma ExRace_wf_graph r gn : wf_graph (ExRace.mk r gn).
Proof. intros n e Hp. destruct n as [|[|n]]; cbn in Hp; try discriminate. inversion Hp; subst. cbn. lia. Qed.

Lemma ExRace_gen r gn : forall e h h' S o,
  ei_generator (g_edge (ExRace.mk r gn) e) = true -> Ex.cmd e h S o = Ex.cmd e h' S o.
Proof. intros e h h' S o H. destruct e as [|e]; [reflexivity|cbn in H; discriminate]. Qed.

(* [C01_racy_plain_recovers] without its two premises "neither restat nor generator" *)
Definition C01_racy_full : Prop :=
  forall (cmd : edge -> N -> snapshot -> node -> content) (g : graph),
    wf_spec g -> wf_graph g -> frag_AB g = true -> topo_ordered g = true ->
    (forall (e : edge) (h h' : N) (S : snapshot) (o : node),
       ei_generator (g_edge g e) = true -> cmd e h S o = cmd e h' S o) ->
  forall (st : hstate) (e : nat) (n : node) (c : content) (T : list node) (st' : hstate),
    Good cmd g st -> (e < g_nedges g)%nat -> ei_phony (g_edge g e) = false ->
    is_source g n = true ->
    build cmd g (run_edge_racy cmd g st e n c) T = Some st' ->
    forall x : node, reach g T x -> content_of st' x = clean_of cmd g st' x.

Lemma racy_refuted_by r gn :
  frag_AB (ExRace.mk r gn) = true -> topo_ordered (ExRace.mk r gn) = true ->
  (exists st', build Ex.cmd (ExRace.mk r gn) (ExRace.after_race (ExRace.mk r gn)) [1%nat] = Some st' /\
               st' = ExRace.next (ExRace.mk r gn)) ->
  content_of (ExRace.next (ExRace.mk r gn)) 1%nat <>
    clean_of Ex.cmd (ExRace.mk r gn) (ExRace.next (ExRace.mk r gn)) 1%nat ->
  ~ C01_racy_full.
Proof.
  intros Hf Ht [st' [Hb Hst']] Hne Hfull. subst st'. apply Hne.
  apply (Hfull Ex.cmd (ExRace.mk r gn) (ExRace_wf_spec r gn) (ExRace_wf_graph r gn) Hf Ht (ExRace_gen r gn)
               (write_file (init_hstate (ExRace.mk r gn)) 0%nat 5%N) 0%nat 0%nat 6%N [1%nat] _).
  - apply (good_step Ex.cmd (ExRace.mk r gn) (ExRace_wf_spec r gn) Ht _ (Edit 0 5)); [apply good_init|reflexivity].
  - cbn. lia.
  - reflexivity.
  - reflexivity.
  - exact Hb.
  - apply reach_target. left; reflexivity.
Qed.

(* the exception the property text makes, as a refutation of the unrestricted statement *)
Theorem C01_racy_generator_refuted : ~ C01_racy_full.
Proof.
  apply (racy_refuted_by false true); [vm_compute; reflexivity|vm_compute; reflexivity| |].
  - eexists. split; [vm_compute; reflexivity|vm_compute; reflexivity].
  - exact (proj2 ExRace.generator_rule_stale).
Qed.

Theorem C01_racy_restat_refuted : ~ C01_racy_full.
Proof.
  apply (racy_refuted_by true false); [vm_compute; reflexivity|vm_compute; reflexivity| |].
  - eexists. split; [vm_compute; reflexivity|vm_compute; reflexivity].
  - exact (proj2 ExRace.restat_rule_stale).
Qed.
