(* Extraction of the plan / build-loop model into its own OCaml module (generic constant names). *)
Require Import ExtrOcamlBasic.
From NinjaV Require Import Base.Bytes Engine.PlanDefs.
Extraction Language OCaml.
Set Extraction KeepSingleton.
Extraction "planmodel.ml" step_res step accepts init_state run auto_phony plan_fuel want_list use_list wf_graph_b wf_snap_b wf_cfg_b.
