(* C20 -- progress counters are consistent.
   PART served by the plan / build-loop model (Engine/PlanDefs.v): the counters of StatusPrinter
   (total_edges_, started_edges_, finished_edges_; running_edges_ = started - finished) as driven
   by EdgeAddedToPlan (Plan::EdgeWanted, before Build()), EdgeRemovedFromPlan (Plan::CleanNode),
   BuildEdgeStarted (StartEdge) and BuildEdgeFinished (FinishCommand), and EdgeAddedToPlan again when a
   dyndep load during the build makes an edge wanted (RefreshDyndepDependents, AddSubTarget).
   Quantification as in
   Properties_C04.v.  Output blocks, console locking and formats are not in this model. *)
From NinjaV Require Import Base.Bytes Engine.PlanDefs Engine.PlanProofs.

(* While the build runs: finished <= started <= total, started - finished = number of running
   commands, and total = Plan::command_edges_ (EdgeAddedToPlan/EdgeRemovedFromPlan match it). *)
Theorem C20_counters : forall g cfg loads rank, wf_graph g rank -> 0 < c_k cfg -> 0 < c_j cfg ->
  forall s, reachable g cfg loads s -> s_phase s = PhBuild ->
  s_finished s <= s_started s /\ s_started s <= s_total s /\
  s_started s - s_finished s = length (s_running s) /\
  s_total s = p_commands (s_plan s).
Proof. exact counters. Qed.
Print Assumptions C20_counters.

(* On every return of Build() other than the interrupt every started command was reported
   finished ... *)
Theorem C20_started_finished_at_exit : forall g cfg loads rank, wf_graph g rank -> 0 < c_k cfg -> 0 < c_j cfg ->
  forall s code m s', reachable g cfg loads s -> step g cfg loads s (EvExit code m) = Some s' ->
  m <> MInterrupted -> s_started s = s_finished s /\ s_finished s <= s_total s.
Proof. exact counters_at_exit. Qed.
Print Assumptions C20_started_finished_at_exit.

(* ... and after a successful build finished = started = total (restat-pruned commands were taken
   out of the total and were never started). *)
Theorem C20_counters_at_success : forall g cfg loads rank, wf_graph g rank -> 0 < c_k cfg -> 0 < c_j cfg ->
  forall s s', reachable g cfg loads s -> step g cfg loads s (EvExit 0 MSuccess) = Some s' ->
  s_finished s = s_total s /\ s_started s = s_total s /\
  s_finished s' = s_finished s /\ s_total s' = s_total s /\ s_started s' = s_started s.
Proof. exact counters_at_success. Qed.
Print Assumptions C20_counters_at_success.

(* ---- non-vacuity on the example: plain success (3 commands) and success with a pruned command ---- *)
Example C20_counters_at_success_nonvacuous :
  exists s s', reachable ex_graph ex_cfg no_loads s /\ step ex_graph ex_cfg no_loads s (EvExit 0 MSuccess) = Some s' /\
               s_total s = 3 /\ s_finished s = 3.
Proof.
  destruct (run_snoc_split ex_graph ex_cfg no_loads ex_prio ex_snap (firstn 10 ex_trace_ok) (EvExit 0 MSuccess))
    as [s [s' [H1 H2]]]; [vm_compute; reflexivity|].
  exists s, s'. split; [apply (run_reachable _ _ _ _ _ _ _ ex_wf_snap H1)|]. split; [exact H2|].
  vm_compute in H1. injection H1 as <-. split; reflexivity.
Qed.

Example C20_pruned_nonvacuous :
  exists s s', reachable ex_graph ex_cfg no_loads s /\ step ex_graph ex_cfg no_loads s (EvExit 0 MSuccess) = Some s' /\
               s_total s = 2 /\ s_finished s = 2 /\ s_started s = 2.
Proof.
  destruct (run_snoc_split ex_graph ex_cfg no_loads ex_prio ex_snap (firstn 8 ex_trace_prune) (EvExit 0 MSuccess))
    as [s [s' [H1 H2]]]; [vm_compute; reflexivity|].
  exists s, s'. split; [apply (run_reachable _ _ _ _ _ _ _ ex_wf_snap H1)|]. split; [exact H2|].
  vm_compute in H1. injection H1 as <-. repeat split; reflexivity.
Qed.

Example C20_counters_midbuild_nonvacuous :
  exists s, reachable ex_graph ex_cfg no_loads s /\ s_phase s = PhBuild /\
            s_total s = 3 /\ s_started s = 2 /\ s_finished s = 1 /\ s_running s = [1].
Proof.
  destruct (is_some_run ex_graph ex_cfg no_loads ex_prio ex_snap (firstn 4 ex_trace_ok)) as [s Hs]; [vm_compute; reflexivity|].
  exists s. split; [apply (run_reachable _ _ _ _ _ _ _ ex_wf_snap Hs)|].
  vm_compute in Hs. injection Hs as <-. repeat split; reflexivity.
Qed.

(* with a dyndep load that adds a command to the plan (EdgeAddedToPlan during the build): [dd_graph] with
   only 0 and 2 planned at first; the load discovers the input produced by 1: total goes from 2 to 3 *)
Example C20_dyndep_added_nonvacuous :
  s_total (init_state dd_graph dd_cfg [] dd_snap2) = 2 /\
  exists s s', run dd_graph dd_cfg dd_loads2 [] dd_snap2
                 [ EvStart 0 []; EvWait; EvFinish 0 0 []; EvStart 1 []; EvWait; EvFinish 1 0 []; EvStart 2 [];
                   EvWait; EvFinish 2 0 [] ] = Some s /\
               step dd_graph dd_cfg dd_loads2 s (EvExit 0 MSuccess) = Some s' /\
               s_total s = 3 /\ s_finished s = 3 /\ s_started s = 3.
Proof.
  split; [vm_compute; reflexivity|].
  destruct (run_snoc_split dd_graph dd_cfg dd_loads2 [] dd_snap2
              [ EvStart 0 []; EvWait; EvFinish 0 0 []; EvStart 1 []; EvWait; EvFinish 1 0 []; EvStart 2 [];
                EvWait; EvFinish 2 0 [] ] (EvExit 0 MSuccess)) as [s [s' [H1 H2]]]; [vm_compute; reflexivity|].
  exists s, s'. split; [exact H1|]. split; [exact H2|].
  vm_compute in H1. injection H1 as <-. repeat split; reflexivity.
Qed.
