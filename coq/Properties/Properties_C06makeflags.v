(* C06 (jobserver) -- what ninja reads out of MAKEFLAGS.
   Model: Misc/MakeflagsDefs.v ([parse_makeflags] / [parse_native_makeflags] = Jobserver::ParseMakeFlagsValue /
   ParseNativeMakeFlagsValue, src/jobserver.cc, POSIX branch, with glibc's sscanf("%d,%d")), tied to the real
   code by tools/miscmodel.py.  [args_of env] are the space/tab separated words of the C string. *)
From NinjaV Require Import Base.Bytes Misc.ClParserDefs Misc.MakeflagsDefs Misc.MakeflagsProofs.
Local Open Scope N_scope.

(* The first word without a leading dash containing 'n' (make -n) gives the default configuration. *)
Theorem C06_makeflags_dry_run_word : forall env : bytes, first_word_n (args_of env) = true ->
  parse_makeflags env = mk_res true cfg_default ENone.
Proof. exact parse_first_word_n. Qed.
Print Assumptions C06_makeflags_dry_run_word.

Example C06_makeflags_dry_run_nonvacuous :   (* "kn --jobserver-auth=3,4" *)
  first_word_n (args_of ([107; 110; 32] ++ k_auth ++ [51; 44; 52])) = true /\
  first_word_n (args_of ([45; 110; 32] ++ k_auth ++ [51; 44; 52])) = false.
Proof. vm_compute. auto. Qed.

(* The last recognised --jobserver-auth / --jobserver-fds argument wins: either no argument is recognised
   and the configuration is the default, or the mode is the one set by the last recognised argument; in
   FIFO mode the path is the text after "fifo:" of that very argument. *)
Theorem C06_makeflags_last_wins : forall env : bytes,
  first_word_n (args_of env) = false -> r_ok (parse_makeflags env) = true ->
  let cfg := r_cfg (parse_makeflags env) in
  (Forall ignored (args_of env) /\ cfg = cfg_default) \/
  (exists l1 a l2, args_of env = l1 ++ a :: l2 /\ Forall ignored l2 /\
     arg_effect a = Some (Some (cfg_mode cfg)) /\
     (cfg_mode cfg = ModePosixFifo -> a = k_auth ++ k_fifo ++ cfg_path cfg)).
Proof. exact parse_last_wins. Qed.
Print Assumptions C06_makeflags_last_wins.

Example C06_makeflags_last_wins_nonvacuous :  (* "-j --jobserver-fds=3,4 --jobserver-auth=fifo:/x" *)
  parse_makeflags ([45; 106; 32] ++ k_fds ++ [51; 44; 52; 32] ++ k_auth ++ k_fifo ++ [47; 120])
  = mk_res true (mk_cfg ModePosixFifo [47; 120]) ENone.
Proof. vm_compute. reflexivity. Qed.

(* An error exactly for a malformed --jobserver-fds pair (and not in the dry-run case); the message names
   the first malformed value. *)
Theorem C06_makeflags_error_iff : forall env : bytes,
  r_ok (parse_makeflags env) = false <->
  first_word_n (args_of env) = false /\ existsb bad_fds (args_of env) = true.
Proof. exact parse_error_iff. Qed.
Print Assumptions C06_makeflags_error_iff.

Theorem C06_makeflags_error_shape : forall env : bytes, r_ok (parse_makeflags env) = false ->
  exists l1 v l2, args_of env = l1 ++ (k_fds ++ v) :: l2 /\ existsb bad_fds l1 = false /\
                  fd_pair v = None /\ r_err (parse_makeflags env) = EBadPair v.
Proof. exact parse_error_shape. Qed.
Print Assumptions C06_makeflags_error_shape.

Example C06_makeflags_error_nonvacuous :   (* "--jobserver-fds=3;4" *)
  parse_makeflags (k_fds ++ [51; 59; 52]) = mk_res false cfg_default (EBadPair [51; 59; 52]).
Proof. vm_compute. reflexivity. Qed.

(* The native (POSIX) variant accepts iff parsing succeeded and the mode is None or FIFO, with the same
   configuration; an accepted FIFO configuration has the path of the winning argument. *)
Theorem C06_native_accept_iff : forall env : bytes,
  r_ok (parse_native_makeflags env) = true <->
  r_ok (parse_makeflags env) = true /\
  (cfg_mode (r_cfg (parse_makeflags env)) = ModeNone \/ cfg_mode (r_cfg (parse_makeflags env)) = ModePosixFifo).
Proof. exact native_accept_iff. Qed.
Print Assumptions C06_native_accept_iff.

Theorem C06_native_fifo_path : forall env : bytes,
  r_ok (parse_native_makeflags env) = true ->
  cfg_mode (r_cfg (parse_native_makeflags env)) = ModePosixFifo ->
  exists l1 l2, args_of env = l1 ++ (k_auth ++ k_fifo ++ cfg_path (r_cfg (parse_native_makeflags env))) :: l2 /\
                Forall ignored l2.
Proof. exact native_fifo_path. Qed.
Print Assumptions C06_native_fifo_path.

Example C06_native_fifo_nonvacuous :
  parse_native_makeflags (k_auth ++ k_fifo ++ [47; 120]) = mk_res true (mk_cfg ModePosixFifo [47; 120]) ENone.
Proof. vm_compute. reflexivity. Qed.

(* REFUTED: "mode None implies an empty path".  config->path is not reset when a later argument switches
   the mode: "--jobserver-auth=fifo:/a --jobserver-auth=-1,-1" yields mode None with path "/a" (harmless:
   the path is only read in FIFO mode, where C06_native_fifo_path holds). *)
Theorem C06_none_mode_has_empty_path_refuted : ~ none_mode_has_empty_path.
Proof. exact none_mode_has_empty_path_refuted. Qed.
Print Assumptions C06_none_mode_has_empty_path_refuted.

(* Quirk: negative descriptors mean "jobserver disabled" for GNU make; ninja honours that for
   --jobserver-auth=-1,-1 (mode None, accepted) but --jobserver-fds=-1,-1 becomes mode Pipe and is refused
   with "Pipe-based protocol is not supported!". *)
Theorem C06_fds_negative_is_pipe :
  let env := k_fds ++ [45; 49; 44; 45; 49] in
  cfg_mode (r_cfg (parse_makeflags env)) = ModePipe /\ r_ok (parse_native_makeflags env) = false /\
  r_err (parse_native_makeflags env) = EPipe /\
  r_ok (parse_native_makeflags (k_auth ++ [45; 49; 44; 45; 49])) = true.
Proof. exact fds_negative_is_pipe. Qed.
Print Assumptions C06_fds_negative_is_pipe.
