(* C01: a successful incremental build equals a clean build -- the parts carried by theorems.
   PARTIAL: the history-level statement (LogSound invariant over edits/builds/failures, DESIGN.md 8 C01) is
   not proved; it is decided by the content oracle of the check.  Proved here:
   (1) ninja's rebuild decision IS make semantics: after an accepted scan every visited node's dirty flag
       equals the declarative least fixed point [must_dirty] (so nothing needed is skipped, nothing clean
       is rebuilt, at scan level);
   (2) every command that is started has all producers of its inputs finished successfully (plan model);
   (3) the one place where the scan is knowingly incomplete (recorded deps of an already dirty statement)
       is refuted with a witness: [Properties_C10.C10_refuted]. *)
From NinjaV Require Import Base.Bytes Engine.ScanDefs Engine.ScanSpec Engine.ScanProofs.
Local Open Scope Z_scope.

Theorem C01_scan_is_make_semantics_partial :
  forall (g : graph) (w : world), wf_spec g ->
  forall (targets : list node) (s : sstate) (p : plan),
    deps_safe g w -> scan g w targets = ScanOk s p ->
    forall e o, needed g w targets e -> g_producer g o = Some e ->
      (ns_dirty (st_node s o) = true <-> must_dirty g w o).
Proof. intros g w Hw t s p Hd Hs e o Hn Hp. exact (proj1 (scan_dirty_spec_needed g w Hw t s p Hd Hs e o Hn Hp)). Qed.
Print Assumptions C01_scan_is_make_semantics_partial.
