(* C10 at HISTORY level for the FAITHFUL build loop of the recorded-deps model ([dbuild_f],
   Engine/HistDepsFaithful.v): the loop that prunes the plan the way ninja does (Plan::CleanNode from
   Builder::FinishCommand) -- the one the correspondence tool runs against the real engine --
   next to HistDepsDefs.dbuild, about which Properties_C10hist.v speaks.
   Proofs: Engine/HistDepsFaithfulProofs.v.  Every theorem is restated in full.

   Premises (those of the C10 history theorems): wf_spec g, wf_graph g, frag_ABD g hid,
   topo_ordered (inline g hid), hidden_reads_ordered g hid, no_restat_upstream_of_deps g hid, the
   invariant GoodD on the state (HistDepsProofs.goodd_hist gives it for every reachable state), and
     no_inputless_phony g            the documented always-dirty case, first trigger;
     hidden_srcs_present / hist_present   second trigger: a hidden read that is a missing source;
     no_restat_above_deps g hid      NEW, the reason for the suffix _partial: no deps statement has an
                                     input of ANY kind (order-only included) that a restat
                                     statement can reach.  It implies no_restat_upstream_of_deps
                                     ([no_restat_above_upstream]).

   (1) PARTIAL  [dbuild_f_eq_dbuild_partial]: the two loops are the same function; hence the C10
       history theorems for the faithful loop ([C10_equiv_f], [C10_C01_f], [C10_C02_f]).
       Missing for the full statement [dbuild_f_eq_dbuild_full] (= the same without
       no_restat_above_deps): a deps statement with an order-only input below a restat statement IS
       looked at by CleanNode, and tested against fewer inputs in the deps manifest (record not
       spliced in) than in the inlined one; to see that both leave it in the plan one needs the
       flag invariant of HistFaithfulProofs Part C for manifests with deps statements.
   (2) PARTIAL  [dbuild_f_accepts_iff] (both accept or both refuse: no side condition) and
       [dbuild_f_trace_subset_partial] (subsequence, contents, deps records: where (1) applies).
       Missing for [dbuild_f_trace_subset_full]: the same invariant; the route through the inlined
       manifest is closed in the interesting case (missing hidden source: the inlined manifest
       refuses the request).  [ExDF_needs_presence] is that case, computed.
   (3) FULL     [dbuild_f_never_out_of_fuel]. *)
From NinjaV Require Import Engine.CrashDefs.
From NinjaV Require Import Base.Bytes Engine.ScanDefs Engine.ScanSpec Engine.ScanProofs Engine.HistDefs Engine.HistProofs Engine.HistFaithful Engine.HistFaithfulProofs Engine.HistDepsDefs Engine.HistDepsProofs Engine.HistDepsFaithful Engine.HistDepsFaithfulProofs.
Local Open Scope Z_scope.

(* ---- (3) Plan::CleanNode's recursion never exhausts its fuel on these graphs *)
Theorem dbuild_f_never_out_of_fuel :
  forall (cmd : edge -> N -> snapshot -> node -> content) (g : graph) (hid : edge -> list node),
    wf_spec g -> wf_graph g -> frag_ABD g hid = true -> topo_ordered (inline g hid) = true ->
  forall (ds : dstate) (T : list node) (s : sstate) (p : plan),
    GoodD cmd g hid ds -> dscan g ds T = ScanOk s p ->
    exists ds' : dstate, dbuild_f cmd g hid ds T = Some ds'.
Proof. exact dbuild_f_never_out_of_fuel. Qed.
Print Assumptions dbuild_f_never_out_of_fuel.

(* ---- (2), first clause: both loops accept or both refuse *)
Theorem dbuild_f_accepts_iff :
  forall (cmd : edge -> N -> snapshot -> node -> content) (g : graph) (hid : edge -> list node),
    wf_spec g -> wf_graph g -> frag_ABD g hid = true -> topo_ordered (inline g hid) = true ->
  forall (ds : dstate) (T : list node),
    GoodD cmd g hid ds ->
    (dbuild_f cmd g hid ds T = None <-> dbuild cmd g hid ds T = None).
Proof. exact dbuild_f_accepts_iff. Qed.
Print Assumptions dbuild_f_accepts_iff.

(* ---- (1) the two loops coincide *)
Theorem dbuild_f_eq_dbuild_partial :
  forall (cmd : edge -> N -> snapshot -> node -> content) (g : graph) (hid : edge -> list node),
    wf_spec g -> wf_graph g -> frag_ABD g hid = true -> topo_ordered (inline g hid) = true ->
    hidden_reads_ordered g hid = true -> no_restat_upstream_of_deps g hid = true ->
    no_inputless_phony g = true -> no_restat_above_deps g hid = true ->
  forall (ds : dstate) (T : list node),
    GoodD cmd g hid ds -> hidden_srcs_present g hid (d_h ds) = true -> targets_known g T = true ->
    dbuild_f cmd g hid ds T = dbuild cmd g hid ds T.
Proof. exact dbuild_f_eq_dbuild_partial. Qed.
Print Assumptions dbuild_f_eq_dbuild_partial.

Theorem no_restat_above_upstream :
  forall (g : graph) (hid : edge -> list node),
    topo_ordered (inline g hid) = true -> frag_ABD g hid = true ->
    no_restat_above_deps g hid = true -> no_restat_upstream_of_deps g hid = true.
Proof. exact no_restat_above_upstream. Qed.
Print Assumptions no_restat_above_upstream.

Theorem drun_hist_f_eq :
  forall (cmd : edge -> N -> snapshot -> node -> content) (g : graph) (hid : edge -> list node),
    wf_spec g -> wf_graph g -> frag_ABD g hid = true -> topo_ordered (inline g hid) = true ->
    hidden_reads_ordered g hid = true -> no_restat_upstream_of_deps g hid = true ->
    no_inputless_phony g = true -> no_restat_above_deps g hid = true ->
  forall (h : list hstep) (ds : dstate),
    GoodD cmd g hid ds -> hist_ok g h = true -> hist_present cmd g hid ds h = true ->
    drun_hist_f cmd g hid ds h = drun_hist cmd g hid ds h.
Proof. exact drun_hist_f_eq. Qed.
Print Assumptions drun_hist_f_eq.

(* the C10 theorems for the faithful loop: same states as the inlined manifest ... *)
Theorem C10_equiv_f :
  forall (cmd : edge -> N -> snapshot -> node -> content) (g : graph) (hid : edge -> list node),
    wf_spec g -> wf_graph g -> frag_ABD g hid = true -> topo_ordered (inline g hid) = true ->
    hidden_reads_ordered g hid = true -> no_restat_upstream_of_deps g hid = true ->
    no_inputless_phony g = true -> no_restat_above_deps g hid = true ->
  forall h : list hstep,
    hist_ok g h = true -> hist_present cmd g hid (init_dstate g) h = true ->
    d_h (drun_hist_f cmd g hid (init_dstate g) h) =
    run_hist cmd (inline g hid) (init_hstate (inline g hid)) h.
Proof. exact C10_equiv_f. Qed.
Print Assumptions C10_equiv_f.

(* ... C01: the contents of a clean build of the ground truth (hidden reads included) ... *)
Theorem C10_C01_f :
  forall (cmd : edge -> N -> snapshot -> node -> content) (g : graph) (hid : edge -> list node),
    wf_spec g -> wf_graph g -> frag_ABD g hid = true -> topo_ordered (inline g hid) = true ->
    hidden_reads_ordered g hid = true -> no_restat_upstream_of_deps g hid = true ->
    no_inputless_phony g = true -> no_restat_above_deps g hid = true ->
  forall (h : list hstep) (T : list node) (ds' : dstate),
    (forall (e : edge) (hh hh' : N) (S : snapshot) (o : node),
       ei_generator (g_edge g e) = true -> cmd e hh S o = cmd e hh' S o) ->
    hist_ok g h = true ->
    hist_present cmd g hid (init_dstate g) (h ++ [Build T]) = true ->
    dbuild_f cmd g hid (drun_hist_f cmd g hid (init_dstate g) h) T = Some ds' ->
    forall n : node, reach (inline g hid) T n ->
      content_of (d_h ds') n = clean_of_d cmd g hid ds' n.
Proof. exact C10_C01_f. Qed.
Print Assumptions C10_C01_f.

(* ... and C02: afterwards the scan wants nothing and a second faithful build changes nothing *)
Theorem C10_C02_f :
  forall (cmd : edge -> N -> snapshot -> node -> content) (g : graph) (hid : edge -> list node),
    wf_spec g -> wf_graph g -> frag_ABD g hid = true -> topo_ordered (inline g hid) = true ->
    hidden_reads_ordered g hid = true -> no_restat_upstream_of_deps g hid = true ->
    no_inputless_phony g = true -> no_restat_above_deps g hid = true ->
  forall (ds : dstate) (T : list node) (ds' : dstate),
    GoodD cmd g hid ds -> hidden_srcs_present g hid (d_h ds) = true -> targets_known g T = true ->
    dbuild_f cmd g hid ds T = Some ds' ->
    (forall (s : sstate) (p : plan), dscan g ds' T = ScanOk s p ->
       forall e : edge, p_want p e <> Some WantToStart) /\
    (forall ds'' : dstate, dbuild_f cmd g hid ds' T = Some ds'' -> ds'' = ds').
Proof. exact C10_C02_f. Qed.
Print Assumptions C10_C02_f.

(* ---- (2), the other clauses, where (1) applies *)
Theorem dbuild_f_trace_subset_partial :
  forall (cmd : edge -> N -> snapshot -> node -> content) (g : graph) (hid : edge -> list node),
    wf_spec g -> wf_graph g -> frag_ABD g hid = true -> topo_ordered (inline g hid) = true ->
    hidden_reads_ordered g hid = true -> no_restat_upstream_of_deps g hid = true ->
    no_inputless_phony g = true -> no_restat_above_deps g hid = true ->
  forall (ds : dstate) (T : list node) (dsf dsu : dstate),
    GoodD cmd g hid ds -> hidden_srcs_present g hid (d_h ds) = true -> targets_known g T = true ->
    dbuild_f cmd g hid ds T = Some dsf -> dbuild cmd g hid ds T = Some dsu ->
    (exists lf lu : list edge,
       h_trace (d_h dsf) = lf ++ h_trace (d_h ds) /\
       h_trace (d_h dsu) = lu ++ h_trace (d_h ds) /\ subseq lf lu) /\
    (forall n : node, content_of (d_h dsf) n = content_of (d_h dsu) n) /\
    (forall n : node, d_deps dsf n = d_deps dsu n).
Proof. exact dbuild_f_trace_subset_partial. Qed.
Print Assumptions dbuild_f_trace_subset_partial.

(* ---- (4) non-vacuity *)
(* (1): HistDepsDefs.ExD (deps statement with the order-only + depfile idiom) satisfies every
   checkable premise, its history is legal and keeps the hidden sources present, and -- computed
   independently of the theorem -- the two loops give the same trace, contents and deps record *)
Example dbuild_f_eq_dbuild_nonvacuous :
  wf_spec ExD.g /\ wf_graph ExD.g /\
  frag_ABD ExD.g ExD.hid && topo_ordered (inline ExD.g ExD.hid) && hidden_reads_ordered ExD.g ExD.hid
  && no_restat_upstream_of_deps ExD.g ExD.hid && no_inputless_phony ExD.g
  && no_restat_above_deps ExD.g ExD.hid = true /\
  hist_ok ExD.g ExD.hist = true /\ hist_present ExD.cmd ExD.g ExD.hid ExD.ds0 ExD.hist = true /\
  GoodD ExD.cmd ExD.g ExD.hid (drun_hist ExD.cmd ExD.g ExD.hid ExD.ds0 ExD.hist) /\
  h_trace (d_h (drun_hist_f ExD.cmd ExD.g ExD.hid ExD.ds0 ExD.hist)) =
  h_trace (d_h (drun_hist ExD.cmd ExD.g ExD.hid ExD.ds0 ExD.hist)) /\
  ExD.contents (drun_hist_f ExD.cmd ExD.g ExD.hid ExD.ds0 ExD.hist) =
  ExD.contents (drun_hist ExD.cmd ExD.g ExD.hid ExD.ds0 ExD.hist) /\
  d_deps (drun_hist_f ExD.cmd ExD.g ExD.hid ExD.ds0 ExD.hist) 3%nat =
  d_deps (drun_hist ExD.cmd ExD.g ExD.hid ExD.ds0 ExD.hist) 3%nat.
Proof.
  destruct ExD_premises as [A [B [C [D [E F]]]]].
  split; [exact ExD_wf_spec|]. split; [exact ExD_wf_graph|]. split; [exact A|]. split; [exact B|]. split; [exact C|].
  split; [|split; [exact D|split; [exact E|exact F]]].
  apply (goodd_hist ExD.cmd ExD.g ExD.hid ExD_wf_spec); [vm_compute; reflexivity|vm_compute; reflexivity|apply goodd_init|exact B].
Qed.

(* (2) and the side condition of (1): HistDepsFaithful.ExDF -- build gen: r0 src (restat, deps = gcc,
   hidden read h) / build out: r1 gen; build, remove h, build -- satisfies every premise of (1)
   EXCEPT the presence of the hidden sources; the state satisfies the invariant; both loops accept
   the third build; dbuild_f runs gen only, dbuild runs gen and out (a proper subsequence); the
   contents and the recorded deps agree *)
Example dbuild_f_trace_subset_witness :
  wf_spec ExDF.g /\ wf_graph ExDF.g /\
  frag_ABD ExDF.g ExDF.hid && topo_ordered (inline ExDF.g ExDF.hid) && hidden_reads_ordered ExDF.g ExDF.hid
  && no_restat_upstream_of_deps ExDF.g ExDF.hid && no_inputless_phony ExDF.g
  && no_restat_above_deps ExDF.g ExDF.hid = true /\
  hist_ok ExDF.g ExDF.pre = true /\
  GoodD Ex.cmd ExDF.g ExDF.hid ExDF.ds2 /\
  hidden_srcs_present ExDF.g ExDF.hid (d_h ExDF.ds2) = false /\
  ExDF.ds2f = ExDF.ds2 /\
  (exists dsf dsu, dbuild_f Ex.cmd ExDF.g ExDF.hid ExDF.ds2 [3%nat] = Some dsf /\
                   dbuild Ex.cmd ExDF.g ExDF.hid ExDF.ds2 [3%nat] = Some dsu /\
                   h_trace (d_h dsf) = [0%nat] ++ h_trace (d_h ExDF.ds2) /\
                   h_trace (d_h dsu) = [1; 0]%nat ++ h_trace (d_h ExDF.ds2) /\
                   map (content_of (d_h dsf)) [0; 1; 2; 3]%nat = map (content_of (d_h dsu)) [0; 1; 2; 3]%nat /\
                   option_map snd (d_deps dsf 2%nat) = option_map snd (d_deps dsu 2%nat)).
Proof.
  destruct ExDF_needs_presence as [A [B [C [D E]]]].
  split; [exact ExDF_wf_spec|]. split; [exact ExDF_wf_graph|]. split; [exact A|]. split; [exact B|].
  split; [exact ExDF_good|]. split; [exact C|]. split; [exact D|exact E].
Qed.

(* the example of HistDepsFaithful.v, as it is there *)
Example faithful_prunes_below_missing_dep :
  frag_ABD ExDF.g ExDF.hid = true /\
  h_trace (d_h ExDF.ds2) = [1; 0; 1; 0]%nat /\ h_trace (d_h ExDF.ds2f) = [1; 0; 1; 0]%nat /\
  h_trace (d_h (dapply_step Ex.cmd ExDF.g ExDF.hid ExDF.ds2 (Build [3%nat]))) = [1; 0; 1; 0; 1; 0]%nat /\
  h_trace (d_h (dapply_step_f Ex.cmd ExDF.g ExDF.hid ExDF.ds2f (Build [3%nat]))) = [0; 1; 0; 1; 0]%nat /\
  map (content_of (d_h (dapply_step Ex.cmd ExDF.g ExDF.hid ExDF.ds2 (Build [3%nat])))) [0; 1; 2; 3]%nat
  = map (content_of (d_h (dapply_step_f Ex.cmd ExDF.g ExDF.hid ExDF.ds2f (Build [3%nat])))) [0; 1; 2; 3]%nat.
Proof. exact ExDF.faithful_prunes_below_missing_dep. Qed.
