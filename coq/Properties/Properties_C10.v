(* C10: discovered dependencies count like declared implicit inputs -- what the scan model proves.
   Positive part: under [deps_safe] (no statement that is dirty for its own reason has recorded deps that
   matter) every statement needed through manifest inputs OR usable recorded deps is visited and gets
   exactly the make-semantics dirty flag, i.e. recorded deps are treated like implicit inputs.
   Negative part (the faithful model REFUTES the full statement, reproduced on the real engine: known
   finding): deps of a statement that is already dirty are only probed, not spliced. *)
From NinjaV Require Import Base.Bytes Engine.ScanDefs Engine.ScanSpec Engine.ScanProofs.
Local Open Scope Z_scope.

Theorem C10_recorded_deps_visited_partial :
  forall (g : graph) (w : world), wf_spec g ->
  forall (targets : list node) (s : sstate) (p : plan),
    deps_safe g w -> scan g w targets = ScanOk s p ->
    forall e, needed g w targets e -> es_mark (st_edge s e) = VisitDone.
Proof. exact scan_visits_needed. Qed.
Print Assumptions C10_recorded_deps_visited_partial.

Definition C10_full_statement : Prop := C10_recorded_dep_built_full.

Theorem C10_refuted : ~ C10_full_statement.
Proof. exact C10_dirty_edge_deps_not_loaded_refuted. Qed.
Print Assumptions C10_refuted.
