(* C12 -- manifest text means what the manual says (and the manifest part of C13).
   Models: Manifest/LexDefs.v (lexer), Manifest/ParseDefs.v + Manifest/EvalModel.v (the code's
   ManifestParser, [eval_manifest]), Manifest/EvalSpec.v (the reference evaluator written from
   doc/manual.asciidoc, [spec_manifest]).  Proofs: Manifest/LexProofs.v, ManifestProofs.v.

   Status in one paragraph.  The full statement "whenever ninja accepts a manifest the graph
   is the documented one" is FALSE of the faithful model ([C12_eval_agrees_refuted]); the
   divergences found are exhibited by concrete manifests (file-level binding shadows the
   rule's for block-less build statements; late re-binding; phantom rspfile bindings; pool
   resolved before $out exists; scope of the $^ version gate).  The phony self-reference
   filter and the include-cycle crash have been fixed in the code: their theorems are now
   positive ([C12_phony_selfref_kinds_], [C13_include_self_rejected_]).  What is proved positively: the lookup order of the code, its agreement
   with the documented order when the edge has its own scope and, under an excluding
   hypothesis, when it has not; the $-escape table for all byte strings; scanner bounds; the
   rejection of every documented constraint violation with file and line. *)
From Coq Require Import String Ascii.
From NinjaV Require Import Base.Bytes Canon.CanonDefs Manifest.LexDefs Manifest.ParseDefs
  Manifest.EvalModel Manifest.EvalSpec Manifest.LexProofs Manifest.ManifestProofs.
Local Open Scope N_scope.

(* ================= lookup order of the code ================= *)

(* $in / $out / $in_newline are answered before any scope is consulted *)
Theorem C12_lookup_order_1_builtins : forall st e,
  get_binding st e s_in = L_ok (path_list true 32 (explicit_ins e)) /\
  get_binding st e s_out = L_ok (path_list true 32 (explicit_outs e)) /\
  get_unescaped st e s_in_newline = L_ok (path_list false 10 (explicit_ins e)).
Proof. exact C12_lookup_builtin_first. Qed.
Print Assumptions C12_lookup_order_1_builtins.

(* a binding in the scope the edge points to shadows the rule's binding of that name *)
Theorem C12_lookup_order_2_build_shadows_rule : forall st e var v,
  is_builtin var = false ->
  assoc_get var (own_bindings st e) = Some v ->
  get_binding st e var = L_ok v.
Proof. exact C12_lookup_build_shadows_rule. Qed.
Print Assumptions C12_lookup_order_2_build_shadows_rule.

(* then the rule's binding, expanded late with the edge's own lookup *)
Theorem C12_lookup_order_3_rule_late : forall st e var es,
  is_builtin var = false ->
  assoc_get var (own_bindings st e) = None ->
  assoc_get var (r_bindings (e_rule e)) = Some es ->
  get_binding st e var =
  eval_es_l (edge_lookup (length (r_bindings (e_rule e)) + 2) st e true [] true) es.
Proof. exact C12_lookup_rule_before_enclosing. Qed.
Print Assumptions C12_lookup_order_3_rule_late.

(* and only then the enclosing scopes *)
Theorem C12_lookup_order_4_enclosing : forall st e var,
  is_builtin var = false ->
  assoc_get var (own_bindings st e) = None ->
  assoc_get var (r_bindings (e_rule e)) = None ->
  get_binding st e var = L_ok (lookup_var st (tl (e_env e)) var).
Proof. exact C12_lookup_enclosing_last. Qed.
Print Assumptions C12_lookup_order_4_enclosing.

(* the fuel of the late lookup is an artefact: it is never exhausted *)
Theorem C12_lookup_total : forall st e esc var,
  edge_lookup (lookup_fuel e) st e esc [] false var <> L_fuel.
Proof. exact C12_lookup_fuel_sufficient. Qed.
Print Assumptions C12_lookup_total.

(* ================= agreement with the documented order ================= *)

(* edge with its own scope (the build block had bindings): every value the code produces is
   the documented one -- build level, rule level (late), file level, including files *)
Theorem C12_lookup_order : forall st e esc fuel lk rc var v,
  edge_lookup fuel st e esc lk rc var = L_ok v ->
  spec_lookup fuel (own_bindings st e) (r_bindings (e_rule e)) (frames_of st (tl (e_env e)))
              (explicit_ins e) (explicit_outs e) esc var = Some v.
Proof. exact C12_lookup_agrees_block. Qed.
Print Assumptions C12_lookup_order.

(* edge without its own scope: agreement provided no name is bound both by the rule and at
   the top level of the file of the build statement *)
Theorem C12_lookup_order_partial : forall st e esc fuel lk rc var v,
  e_env e <> [] ->
  no_file_rule_clash st e ->
  edge_lookup fuel st e esc lk rc var = L_ok v ->
  spec_lookup fuel [] (r_bindings (e_rule e)) (frames_of st (e_env e))
              (explicit_ins e) (explicit_outs e) esc var = Some v.
Proof. exact C12_lookup_partial_noblock. Qed.
Print Assumptions C12_lookup_order_partial.

Example C12_lookup_order_partial_nonvacuous :
  no_file_rule_clash [mkScope [([120], [49])] []] wit_edge /\ e_env wit_edge <> [].
Proof. exact no_file_rule_clash_nonvacuous. Qed.

(* ... and the hypothesis cannot be dropped *)
Theorem C12_lookup_order_refuted_file_shadows_rule :
  exists st e var v v',
    e_env e <> [] /\
    get_binding st e var = L_ok v /\
    spec_lookup (lookup_fuel e) [] (r_bindings (e_rule e)) (frames_of st (e_env e))
                (explicit_ins e) (explicit_outs e) true var = Some v' /\
    v <> v'.
Proof. exact C12_lookup_refuted_file_shadows_rule. Qed.
Print Assumptions C12_lookup_order_refuted_file_shadows_rule.

(* ================= whole manifests: refutations ================= *)

Theorem C12_eval_agrees_is_refuted : ~ C12_eval_agrees_full.
Proof. exact C12_eval_agrees_refuted. Qed.
Print Assumptions C12_eval_agrees_is_refuted.

(* description = FILEDESC / rule r: description = RULEDESC / build a: r / build b: r + x = 1 *)
Theorem C12_eval_refuted_file_shadows_rule_ :
  exists fm,
    dump_binding k_description 0 (eval_manifest fm 4 root) = Some (bs "FILEDESC") /\
    dump_binding k_description 0 (spec_manifest fm 4 root) = Some (bs "RULEDESC") /\
    dump_binding k_description 1 (eval_manifest fm 4 root) = Some (bs "RULEDESC") /\
    dump_binding k_description 1 (spec_manifest fm 4 root) = Some (bs "RULEDESC").
Proof. exact C12_eval_refuted_file_shadows_rule. Qed.
Print Assumptions C12_eval_refuted_file_shadows_rule_.

(* build p: phony c || p   /   build s: phony || s   /   build t: phony t a || b t c ./t :
   the legacy self-reference is dropped and every remaining input keeps the kind it was written
   with; code and reference agree *)
Theorem C12_phony_selfref_kinds_ :
  eval_manifest (single root m_phony_selfref) 4 root = spec_manifest (single root m_phony_selfref) 4 root /\
  dump_edge_field (fun d => (d_ins d, d_implicit_deps d, d_order_only_deps d)) 0
                  (eval_manifest (single root m_phony_selfref) 4 root) = Some ([bs "c"], O, O) /\
  dump_edge_field (fun d => (d_ins d, d_implicit_deps d, d_order_only_deps d)) 1
                  (eval_manifest (single root m_phony_selfref) 4 root) = Some ([], O, O) /\
  dump_edge_field (fun d => (d_ins d, d_implicit_deps d, d_order_only_deps d)) 2
                  (eval_manifest (single root m_phony_selfref) 4 root)
    = Some ([bs "a"; bs "b"; bs "c"], O, 2%nat).
Proof. exact C12_phony_selfref_kinds. Qed.
Print Assumptions C12_phony_selfref_kinds_.

(* for all inputs: the filter treats the explicit part and the order-only part separately and
   the new order-only counter is the length of what is left of the order-only part *)
Theorem C12_phony_filter_kinds : forall out ins oo,
  (oo <= length ins)%nat ->
  let k := (length ins - oo)%nat in
  phony_filter out ins oo =
  (remove_bytes out (firstn k ins) ++ remove_bytes out (skipn k ins),
   length (remove_bytes out (skipn k ins))).
Proof. exact C12_phony_filter_keeps_kinds. Qed.
Print Assumptions C12_phony_filter_kinds.

(* documentation of the defect that was fixed (the filter that left order_only_deps_ alone) *)
Theorem C12_phony_filter_legacy_refuted :
  phony_filter_legacy (bs "p") [bs "c"; bs "p"] 1 = ([bs "c"], 1%nat) /\
  phony_filter (bs "p") [bs "c"; bs "p"] 1 = ([bs "c"], O) /\
  phony_filter_legacy (bs "s") [bs "s"] 1 = ([], 1%nat) /\
  phony_filter (bs "s") [bs "s"] 1 = ([], O).
Proof. exact phony_filter_legacy_corrupts_kinds. Qed.
Print Assumptions C12_phony_filter_legacy_refuted.

Theorem C12_phony_selfref_plain :
  eval_manifest (single root m_phony_selfref_plain) 4 root =
  spec_manifest (single root m_phony_selfref_plain) 4 root /\
  dump_edge_field d_ins 0 (eval_manifest (single root m_phony_selfref_plain) 4 root) = Some [bs "a"].
Proof. exact C12_phony_selfref_plain_agrees. Qed.
Print Assumptions C12_phony_selfref_plain.

(* x = 1 / build a: r / x = 2 / build b: r   with command = echo $x *)
Theorem C12_eval_refuted_late_rebinding_ :
  exists fm,
    dump_binding k_command 0 (eval_manifest fm 4 root) = Some (bs "echo 2") /\
    dump_binding k_command 0 (spec_manifest fm 4 root) = Some (bs "echo 1") /\
    dump_binding k_command 1 (eval_manifest fm 4 root) = Some (bs "echo 2") /\
    dump_binding k_command 1 (spec_manifest fm 4 root) = Some (bs "echo 2").
Proof. exact C12_eval_refuted_late_rebinding. Qed.
Print Assumptions C12_eval_refuted_late_rebinding_.

Theorem C12_eval_refuted_phantom_rspfile_ :
  exists fm,
    dump_binding k_rspfile 0 (eval_manifest fm 4 root) = Some (bs "F") /\
    dump_binding k_rspfile 1 (eval_manifest fm 4 root) = Some [] /\
    dump_binding k_rspfile 0 (spec_manifest fm 4 root) = Some (bs "F") /\
    dump_binding k_rspfile 1 (spec_manifest fm 4 root) = Some (bs "F").
Proof. exact C12_eval_refuted_phantom_rspfile. Qed.
Print Assumptions C12_eval_refuted_phantom_rspfile_.

Theorem C12_eval_refuted_pool_before_outputs_ :
  exists fm,
    dump_edge_field d_pool 0 (eval_manifest fm 4 root) = Some [] /\
    dump_binding k_pool 0 (eval_manifest fm 4 root) = Some (bs "o") /\
    spec_manifest fm 4 root = Err root 4 E_unknown_pool.
Proof. exact C12_eval_refuted_pool_before_outputs. Qed.
Print Assumptions C12_eval_refuted_pool_before_outputs_.

Theorem C12_caret_version_scope :
  eval_manifest (two root m_caret_root (bs "b.ninja") m_caret_b) 4 root
    = Err (bs "b.ninja") 1 E_newline_version /\
  (exists g, eval_manifest
               (fun n => if bytes_eqb n root then Some m_caret_root2
                         else if bytes_eqb n (bs "a.ninja") then Some m_caret_a
                         else if bytes_eqb n (bs "b.ninja") then Some m_caret_b else None) 4 root
             = Ok g).
Proof. exact C12_caret_version_scope_quirk. Qed.
Print Assumptions C12_caret_version_scope.

(* ================= whole manifests: agreement on examples ================= *)
Theorem C12_block_rhs_file_scope :
  dump_binding k_command 0 (eval_manifest (single root m_block_rhs) 4 root) = Some (bs "FILE") /\
  eval_manifest (single root m_block_rhs) 4 root = spec_manifest (single root m_block_rhs) 4 root.
Proof. exact C12_block_rhs_in_file_scope. Qed.
Print Assumptions C12_block_rhs_file_scope.

Theorem C12_eval_agrees_on_example :
  eval_manifest fm_agree 4 root = spec_manifest fm_agree 4 root /\
  dump_binding k_command 3 (eval_manifest fm_agree 4 root) = Some (bs "subcc -Os s.c") /\
  dump_binding k_command 4 (eval_manifest fm_agree 4 root) = Some (bs "gcc -Wall -c i.c -o t") /\
  dump_binding k_command 1 (eval_manifest fm_agree 4 root)
    = Some (bs "gcc -O2 -Wall -c 'b:ar.c' -o 'bar baz.o'").
Proof. exact C12_eval_agrees_example. Qed.
Print Assumptions C12_eval_agrees_on_example.

(* ================= lexer: $-escape table ================= *)
Theorem C12_escape_value_roundtrip : forall ok t rest pos,
  forallb value_byte t = true ->
  read_eval_aux false ok (escape_text t ++ 10 :: rest) pos EM_normal [] false =
  EV_ok (literal t) (S (pos + length (escape_text t))) (pos + length (escape_text t)) false.
Proof. exact escape_value_roundtrip. Qed.
Print Assumptions C12_escape_value_roundtrip.

Theorem C12_escape_path_roundtrip : forall ok t d rest pos,
  forallb path_byte t = true ->
  (d = 32 \/ d = 58 \/ d = 124 \/ d = 10) ->
  read_eval_aux true ok (escape_text t ++ d :: rest) pos EM_normal [] false =
  EV_ok (literal t) (pos + length (escape_text t)) (pos + length (escape_text t)) false.
Proof. exact escape_path_roundtrip. Qed.
Print Assumptions C12_escape_path_roundtrip.

Example C12_escape_roundtrip_nonvacuous :
  forallb path_byte [97; 36; 32; 58; 255; 9; 35] = true.
Proof. exact escape_roundtrip_nonvacuous. Qed.

(* ================= C13 (manifest part) ================= *)
Theorem C13_lexer_no_overrun :
  (forall s, In 0 s -> eat_ws s <> None) /\
  (forall s start pos m, In 0 s -> read_token_aux s start pos m <> TR_overrun) /\
  (forall s, In 0 s -> scan_ident s <> None) /\
  (forall path ok s pos m es caret, In 0 s -> read_eval_aux path ok s pos m es caret <> EV_overrun).
Proof.
  split; [exact C13_eat_ws_no_overrun|].
  split; [exact C13_read_token_no_overrun|].
  split; [exact C13_scan_ident_no_overrun|exact C13_read_eval_no_overrun].
Qed.
Print Assumptions C13_lexer_no_overrun.

Theorem C13_lexer_bounds :
  (forall s k, eat_ws s = Some k -> (k <= length s)%nat) /\
  (forall s start pos m t a b, rtmode_wf m start pos ->
     read_token_aux s start pos m = TR t a b -> (a < b <= pos + length s)%nat) /\
  (forall path ok s pos m es caret es' stop last caret', evmode_wf m pos ->
     read_eval_aux path ok s pos m es caret = EV_ok es' stop last caret' ->
     (last <= stop <= pos + length s)%nat).
Proof.
  split; [exact C13_eat_ws_bound|]. split; [exact C13_read_token_bounds|exact C13_read_eval_bounds].
Qed.
Print Assumptions C13_lexer_bounds.

(* a manifest that includes itself is a parse error (the code's depth limit, 200 nested files),
   reported at the include statement; the recursion fuel of the model is irrelevant from 201 on *)
Theorem C13_include_self_rejected_ :
  forall fuel, eval_manifest fm_selfinc (201 + fuel) root = Err root 1 E_include_depth.
Proof. exact C13_include_self_rejected. Qed.
Print Assumptions C13_include_self_rejected_.

(* ================= rejections (file, line, class) ================= *)
Theorem C12_rejects :
  (* duplicate outputs *)
  rejects (bs (pre ++ "build a: r
build a: r
")) 5 E_multiple_rules /\
  rejects (bs (pre ++ "build a ./a: r
")) 4 E_output_twice /\
  (* unknown rule, unknown pool *)
  rejects (bs "build a: nosuch b
") 1 E_unknown_rule /\
  rejects (bs (pre ++ "build a: r
  pool = nosuch
")) 5 E_unknown_pool /\
  (* duplicate rule, duplicate pool *)
  rejects (bs (pre ++ pre)) 3 E_dup_rule /\
  rejects (bs "pool p
  depth = 1
pool p
  depth = 2
") 3 E_dup_pool /\
  (* missing command, non-reserved rule variable, rspfile without content *)
  rejects (bs "rule r
  description = d
build a: r
") 3 E_expected_command /\
  rejects (bs "rule r
  command = c
  cflags = x
") 3 E_unexpected_var /\
  rejects (bs "rule r
  command = c
  rspfile = f
") 4 E_rspfile /\
  (* bad escape, tab indentation *)
  rejects (bs "x = a$!b
") 1 E_bad_escape /\
  rejects (bs ("build a: phony
" ++ String (ascii_of_nat 9) "x = 1
")) 2 E_tabs /\
  (* dyndep not an input, empty path, bad depth, unknown default target, missing include *)
  rejects (bs (pre ++ "build a: r b
  dyndep = dd
")) 5 E_dyndep_not_input /\
  rejects (bs (pre ++ "build a: r $undefined
")) 4 E_empty_path /\
  rejects (bs "pool p
  depth = -1
") 2 E_bad_depth /\
  rejects (bs (pre ++ "build a: r
default b
")) 4 E_unknown_target /\
  rejects (bs "include nosuch.ninja
") 1 E_loading.
Proof.
  split; [exact (proj1 C12_rejects_duplicate_output)|].
  split; [exact (proj1 (proj2 C12_rejects_duplicate_output))|].
  split; [exact C12_rejects_unknown_rule|].
  split; [exact C12_rejects_unknown_pool|].
  split; [exact C12_rejects_duplicate_rule|].
  split; [exact (proj1 C12_rejects_duplicate_pool)|].
  split; [exact (proj1 C12_rejects_missing_command)|].
  split; [exact C12_rejects_nonreserved_rule_variable|].
  split; [exact (proj1 C12_rejects_rspfile_without_content)|].
  split; [exact (proj1 C12_rejects_bad_escape)|].
  split; [exact (proj1 C12_rejects_tab_indentation)|].
  split; [exact C12_rejects_dyndep_not_input|].
  split; [exact (proj1 C12_rejects_empty_path)|].
  split; [exact (proj1 C12_rejects_bad_depth)|].
  split; [exact C12_rejects_unknown_default_target|exact C12_rejects_missing_include].
Qed.
Print Assumptions C12_rejects.

(* schematic versions, independent of the text of the identifiers *)
Theorem C12_rejects_duplicate_rule_schematic : forall name r0 st lx1 lx2 fuel ps,
  p_read_ident lx1 E_expected_rule_name = P_ok (name, lx2) ->
  lookup_rule_current (ps_store ps) [O] name = Some r0 ->
  ps_store ps = st ->
  forall lx3, expect_token lx2 T_NEWLINE = P_ok lx3 ->
  parse_rule fuel [O] lx1 ps = lex_error lx3 E_dup_rule.
Proof. exact C12_rejects_duplicate_rule_any_name. Qed.
Print Assumptions C12_rejects_duplicate_rule_schematic.

Theorem C12_rejects_duplicate_output_schematic : forall lx st e global es l acc,
  b_empty (eval_in st e es) = false ->
  mem_bytes (canon (eval_in st e es)) acc = false ->
  mem_bytes (canon (eval_in st e es)) global = true ->
  add_outs lx st e global (es :: l) acc = lex_error lx E_multiple_rules.
Proof. exact C12_rejects_duplicate_output_any_path. Qed.
Print Assumptions C12_rejects_duplicate_output_schematic.

(* the line of a semantic error in a build statement is the line of the NEXT token *)
Theorem C12_error_line_quirk :
  eval_manifest (single root (bs (pre ++ "build a: r
# comment
build a: r
# comment
# comment
rule x
"))) 4 root = Err root 8 E_multiple_rules.
Proof. exact C12_error_line_is_next_token. Qed.
Print Assumptions C12_error_line_quirk.
