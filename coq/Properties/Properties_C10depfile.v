(* C10 at HISTORY level for the OTHER way ninja learns discovered dependencies: statements with
   [depfile = X] and NO [deps =] binding ("depfile-only", deps kind [DepsDepfile]).  The depfile is
   read from disk at every scan (ImplicitDepLoader::LoadDepFile), must name the first output, a
   missing depfile makes the statement dirty, nothing goes to the deps log, ninja does not delete it.
   Model: Engine/HistDepfileDefs.v ([fstate] = HistDeps' state + the depfiles on disk; [world_of_f]
   hands them to ScanDefs.scan; [frun_edge] (re)writes "out0: <hidden reads>"; history steps
   [FS x] (Edit/Delete/SetCmd/Build) and [DeleteDepfile e]); proofs: Engine/HistDepfileProofs.v.
   Every theorem is restated in full.

   Method: [to_log g] is the manifest with every depfile-only statement read as a [deps = gcc]
   statement.  Theorem (1) shows that the scan cannot tell the two apart when every existing depfile
   corresponds to a valid record; the build loop only looks at the scan result and the disk, so the
   theorems of Properties_C10hist.v carry over.

   Premises: wf_spec g, wf_graph g; frag_ABF g hid = true (fragment AB + depfile-only statements, no
   [deps = gcc] statement; checkable); topo_ordered (inline g hid) = true;
   hidden_reads_ordered_f / no_restat_upstream_of_depfile / no_inputless_phony: as in C10hist (the two
   LISTED FINDINGS exist for depfile-only statements as well: theorems (8), (9));
   hist_present_f: whenever a build is requested the hidden source reads exist and the targets are
   manifest nodes.  FInv / no_udel: the invariant of (2) / no depfile is missing because the user
   removed it (then theorem (5) applies instead). *)
From NinjaV Require Import Engine.CrashDefs.
From NinjaV Require Import Base.Bytes Engine.ScanDefs Engine.ScanSpec Engine.ScanProofs Engine.HistDefs Engine.HistProofs Engine.HistDepsDefs Engine.HistDepsProofs Engine.HistDepfileDefs Engine.HistDepfileProofs.
Local Open Scope Z_scope.

(* ---- (1) the scan of the depfile manifest on a state [fs] is THE SAME as the scan of the deps-log
        manifest [to_log g] on any state [ds] with the same disk and build log in which every
        existing depfile "out0: l" corresponds to a record (dm, l) of out0 that is not older than
        out0, and every missing depfile to no record *)
Theorem C10df_scan_same :
  forall (g : graph) (fs : fstate) (ds : dstate) (T : list node),
    wf_spec g -> wf_graph g -> (forall e, (e < g_nedges g)%nat -> ei_deps (g_edge g e) <> DepsLog) ->
    d_h ds = f_h fs ->
    (forall e o0 os, ei_deps (g_edge g e) = DepsDepfile -> ei_outs (g_edge g e) = o0 :: os ->
       match f_df fs e with
       | None => d_deps ds o0 = None
       | Some l => exists dm, d_deps ds o0 = Some (dm, l) /\ mtime_of (f_h fs) o0 <= dm
       end) ->
    fscan g fs T = dscan (to_log g) ds T.
Proof. exact C10df_scan_same_proof. Qed.
Print Assumptions C10df_scan_same.

(* ---- (2) invariant: after ANY legal history (DeleteDepfile included) from the empty tree: Good for the
        inlined manifest; nothing in the deps log; a depfile that exists belongs to a depfile-only
        statement and lists exactly its hidden reads; the depfile of a depfile-only statement that
        has a build-log entry exists unless the user removed it since the statement last ran *)
Theorem C10df_invariant :
  forall (cmd : edge -> N -> snapshot -> node -> content) (g : graph) (hid : edge -> list node),
    wf_spec g -> frag_ABF g hid = true -> topo_ordered (inline g hid) = true ->
  forall h : list fstep, fhist_ok g h = true ->
    let fs := frun_hist cmd g hid (init_fstate g) h in
    Good cmd (inline g hid) (f_h fs) /\
    (forall o, d_deps (f_ds fs) o = None) /\
    ((forall e l, f_df fs e = Some l ->
        (e < g_nedges g)%nat /\ ei_deps (g_edge g e) = DepsDepfile /\ l = hid e) /\
     (forall e o, (e < g_nedges g)%nat -> ei_deps (g_edge g e) = DepsDepfile ->
        In o (ei_outs (g_edge g e)) -> h_blog (f_h fs) o <> None ->
        f_df fs e = Some (hid e) \/ f_udel fs e = true) /\
     (forall e, f_udel fs e = true -> f_df fs e = None)).
Proof. exact C10df_invariant_proof. Qed.
Print Assumptions C10df_invariant.

(* ---- (3) a changed listed file (an edited source) re-runs the statement in the next build *)
Theorem C10df_changed_dep_reruns :
  forall (cmd : edge -> N -> snapshot -> node -> content) (g : graph) (hid : edge -> list node),
    wf_spec g -> wf_graph g -> frag_ABF g hid = true -> topo_ordered (inline g hid) = true ->
  forall (fs : fstate) (i : node) (c : content) (T : list node) (fs' : fstate) (e : nat),
    FInv cmd g hid fs -> no_udel fs -> no_restat_upstream_of_depfile g hid = true ->
    (e < g_nedges g)%nat -> ei_deps (g_edge g e) = DepsDepfile -> In i (hid e) -> is_source g i = true ->
    (exists n : node, reach g T n /\ g_producer g n = Some e) ->
    fbuild cmd g hid (fapply_step cmd g hid fs (FS (Edit i c))) T = Some fs' ->
    In e (ran_since (f_h (fapply_step cmd g hid fs (FS (Edit i c)))) (f_h fs')).
Proof. exact C10df_changed_dep_reruns_proof. Qed.
Print Assumptions C10df_changed_dep_reruns.

(* ---- (4) a listed file that is missing and has no rule dirties the statement; it is no error *)
Theorem C10df_missing_dep_dirty :
  forall (cmd : edge -> N -> snapshot -> node -> content) (g : graph) (hid : edge -> list node),
    wf_spec g -> wf_graph g -> frag_ABF g hid = true -> topo_ordered (inline g hid) = true ->
  forall (fs : fstate) (T : list node) (e : nat) (i : node),
    FInv cmd g hid fs -> no_udel fs -> no_restat_upstream_of_depfile g hid = true ->
    (e < g_nedges g)%nat -> ei_deps (g_edge g e) = DepsDepfile -> In i (hid e) -> is_source g i = true ->
    h_disk (f_h fs) i = None -> g_byloader g i = true ->
    (exists n : node, reach g T n /\ g_producer g n = Some e) ->
    (forall d : option node, fscan g fs T <> ScanMissing i d) /\
    (forall fs' : fstate, fbuild cmd g hid fs T = Some fs' -> In e (ran_since (f_h fs) (f_h fs'))).
Proof. exact C10df_missing_dep_dirty_proof. Qed.
Print Assumptions C10df_missing_dep_dirty.

(* ---- (5) the depfile is missing (never written, or removed by the user): in ANY state the statement
        is re-run by a successful build that needs it, and afterwards the depfile is back *)
Theorem C10df_missing_depfile_reruns :
  forall (cmd : edge -> N -> snapshot -> node -> content) (g : graph) (hid : edge -> list node),
    wf_spec g -> wf_graph g -> frag_ABF g hid = true ->
  forall (fs : fstate) (T : list node) (fs' : fstate) (e : nat) (o0 : node) (os : list node),
    (e < g_nedges g)%nat -> ei_deps (g_edge g e) = DepsDepfile -> ei_outs (g_edge g e) = o0 :: os ->
    f_df fs e = None ->
    (exists n : node, reach g T n /\ g_producer g n = Some e) ->
    fbuild cmd g hid fs T = Some fs' ->
    In e (ran_since (f_h fs) (f_h fs')) /\ f_df fs' e = Some (hid e) /\ f_udel fs' e = false.
Proof. exact C10df_missing_depfile_reruns_proof. Qed.
Print Assumptions C10df_missing_depfile_reruns.

(* ---- (6) C10_equiv for depfile-only statements: over histories of Edit/Delete/SetCmd/Build (no
        DeleteDepfile: after it the depfile manifest re-runs a statement the inlined one keeps) the
        depfile manifest and the inlined manifest go through the SAME states *)
Theorem C10df_equiv :
  forall (cmd : edge -> N -> snapshot -> node -> content) (g : graph) (hid : edge -> list node),
    wf_spec g -> wf_graph g -> frag_ABF g hid = true -> topo_ordered (inline g hid) = true ->
    hidden_reads_ordered_f g hid = true -> no_restat_upstream_of_depfile g hid = true ->
    no_inputless_phony g = true ->
  forall h : list hstep,
    hist_ok g h = true -> hist_present_f cmd g hid (init_fstate g) h = true ->
    f_h (frun_hist cmd g hid (init_fstate g) (map FS h)) =
    run_hist cmd (inline g hid) (init_hstate (inline g hid)) h.
Proof. exact C10df_equiv_proof. Qed.
Print Assumptions C10df_equiv.

(* ---- (7) C01 and C02 carried over *)
Theorem C10df_C01 :
  forall (cmd : edge -> N -> snapshot -> node -> content) (g : graph) (hid : edge -> list node),
    wf_spec g -> wf_graph g -> frag_ABF g hid = true -> topo_ordered (inline g hid) = true ->
    hidden_reads_ordered_f g hid = true -> no_restat_upstream_of_depfile g hid = true ->
    no_inputless_phony g = true ->
  forall (h : list hstep) (T : list node) (fs' : fstate),
    (forall (e : edge) (hh hh' : N) (S : snapshot) (o : node),
       ei_generator (g_edge g e) = true -> cmd e hh S o = cmd e hh' S o) ->
    hist_ok g h = true -> hist_present_f cmd g hid (init_fstate g) (h ++ [Build T]) = true ->
    fbuild cmd g hid (frun_hist cmd g hid (init_fstate g) (map FS h)) T = Some fs' ->
    forall n : node, reach (inline g hid) T n ->
      content_of (f_h fs') n = clean_of_f cmd g hid fs' n.
Proof. exact C10df_C01_proof. Qed.
Print Assumptions C10df_C01.

Theorem C10df_C02 :
  forall (cmd : edge -> N -> snapshot -> node -> content) (g : graph) (hid : edge -> list node),
    wf_spec g -> wf_graph g -> frag_ABF g hid = true -> topo_ordered (inline g hid) = true ->
    hidden_reads_ordered_f g hid = true -> no_restat_upstream_of_depfile g hid = true ->
    no_inputless_phony g = true ->
  forall (h : list hstep) (T : list node) (fs' : fstate),
    hist_ok g h = true -> hist_present_f cmd g hid (init_fstate g) (h ++ [Build T]) = true ->
    fbuild cmd g hid (frun_hist cmd g hid (init_fstate g) (map FS h)) T = Some fs' ->
    (forall (s : sstate) (p : plan), fscan g fs' T = ScanOk s p ->
       forall e : edge, p_want p e <> Some WantToStart) /\
    (forall fs'' : fstate, fbuild cmd g hid fs' T = Some fs'' -> fs'' = fs').
Proof. exact C10df_C02_proof. Qed.
Print Assumptions C10df_C02.

(* ---- (8), (9) the two listed findings EXIST for depfile-only statements: a statement that is already
        dirty has its depfile only probed (LoadDepsTry -> LoadDepFileTry: does the file exist?), its
        inputs are not spliced in.  [C10df_equiv_full a b] / [C10df_C01_full a b] are (6) / (7) with
        the premise [hidden_reads_ordered_f] only if a = true, [no_restat_upstream_of_depfile] only
        if b = true. *)
Theorem C10df_equiv_full_both : C10df_equiv_full true true /\ C10df_C01_full true true.
Proof. exact (conj C10df_equiv_full_proof C10df_C01_full_proof). Qed.
Print Assumptions C10df_equiv_full_both.

Theorem C10df_restat_prune_refuted : ~ C10df_C01_full true false /\ ~ C10df_equiv_full true false.
Proof. exact C10df_restat_prune_refuted_proof. Qed.
Print Assumptions C10df_restat_prune_refuted.

Theorem C10df_dirty_edge_deps_not_loaded_refuted : ~ C10df_C01_full false true /\ ~ C10df_equiv_full false true.
Proof. exact C10df_dirty_edge_deps_not_loaded_refuted_proof. Qed.
Print Assumptions C10df_dirty_edge_deps_not_loaded_refuted.

(* the witnesses, step by step *)
Example C10df_restat_prune_details :
  fbuild ExRestatPruneF.cmd ExRestatPruneF.g ExRestatPruneF.hid ExRestatPruneF.fs_before [3%nat] = Some ExRestatPruneF.fs_end /\
  ran_since (f_h ExRestatPruneF.fs_before) (f_h ExRestatPruneF.fs_end) = [0%nat] /\
  content_of (f_h ExRestatPruneF.fs_end) 3%nat <>
    clean_of_f ExRestatPruneF.cmd ExRestatPruneF.g ExRestatPruneF.hid ExRestatPruneF.fs_end 3%nat /\
  match fscan ExRestatPruneF.g ExRestatPruneF.fs_before [3%nat] with
  | ScanOk s p => es_ins (st_edge s 1%nat) = [2%nat] /\ es_deps_missing (st_edge s 1%nat) = false /\
                  p_want p 1%nat = Some WantToStart /\ f_df ExRestatPruneF.fs_before 1%nat = Some [1%nat]
  | _ => False
  end /\
  content_of ExRestatPruneF.st_end 3%nat = clean_of ExRestatPruneF.cmd ExRestatPruneF.gi ExRestatPruneF.st_end 3%nat.
Proof. vm_compute. split; [reflexivity|split; [reflexivity|split; [discriminate|repeat split; reflexivity]]]. Qed.

Example C10df_dirty_edge_deps_not_loaded_details :
  fbuild ExNotLoadedF.cmd ExNotLoadedF.g ExNotLoadedF.hid ExNotLoadedF.fs_before [3%nat] = Some ExNotLoadedF.fs_end /\
  ran_since (f_h ExNotLoadedF.fs_before) (f_h ExNotLoadedF.fs_end) = [1%nat] /\
  content_of (f_h ExNotLoadedF.fs_end) 3%nat <>
    clean_of_f ExNotLoadedF.cmd ExNotLoadedF.g ExNotLoadedF.hid ExNotLoadedF.fs_end 3%nat /\
  match fscan ExNotLoadedF.g ExNotLoadedF.fs_before [3%nat] with
  | ScanOk s p => es_mark (st_edge s 0%nat) = VisitNone /\ p_want p 0%nat = None /\
                  es_ins (st_edge s 1%nat) = [1%nat]
  | _ => False
  end /\
  content_of ExNotLoadedF.st_end 3%nat = clean_of ExNotLoadedF.cmd ExNotLoadedF.gi ExNotLoadedF.st_end 3%nat.
Proof. vm_compute. split; [reflexivity|split; [reflexivity|split; [discriminate|repeat split; reflexivity]]]. Qed.

(* ================================================================== non-vacuity *)
Example C10df_premises_nonvacuous :
  wf_spec ExF.g /\ wf_graph ExF.g /\ frag_ABF ExF.g ExF.hid = true /\
  topo_ordered (inline ExF.g ExF.hid) = true /\ hidden_reads_ordered_f ExF.g ExF.hid = true /\
  no_restat_upstream_of_depfile ExF.g ExF.hid = true /\ no_inputless_phony ExF.g = true /\
  (forall (e : edge) (hh hh' : N) (S : snapshot) (o : node),
     ei_generator (g_edge ExF.g e) = true -> ExF.cmd e hh S o = ExF.cmd e hh' S o) /\
  hist_ok ExF.g ExF.hist0 = true /\ fhist_ok ExF.g ExF.hist = true /\
  hist_present_f ExF.cmd ExF.g ExF.hid ExF.fs0 ExF.hist0 = true /\
  ExF.hist0 = firstn 8 ExF.hist0 ++ [Build [4%nat]] /\
  h_trace (f_h (frun_hist ExF.cmd ExF.g ExF.hid ExF.fs0 ExF.hist)) = [2; 1; 0; 2; 1; 2; 1; 0]%nat /\
  f_df (frun_hist ExF.cmd ExF.g ExF.hid ExF.fs0 ExF.hist) 1%nat = Some [2%nat; 5%nat].
Proof.
  split; [exact ExF_wf_spec|]. split; [exact ExF_wf_graph|].
  repeat (split; [vm_compute; reflexivity|]).
  split; [apply (Ex_cmd_gen ExF.g); intros [|[|[|e]]]; reflexivity|].
  repeat (split; [vm_compute; reflexivity|]). vm_compute. reflexivity.
Qed.

Example ExF_built_inv : FInv ExF.cmd ExF.g ExF.hid ExF.built /\ no_udel ExF.built.
Proof.
  split.
  - apply (finv_hist ExF.cmd ExF.g ExF.hid ExF_wf_spec); [vm_compute; reflexivity|vm_compute; reflexivity|apply finv_init|vm_compute; reflexivity].
  - intros e. destruct e as [|[|[|e]]]; vm_compute; reflexivity.
Qed.

Example ExF_reach_obj : exists n : node, reach ExF.g [4%nat] n /\ g_producer ExF.g n = Some 1%nat.
Proof.
  exists 3%nat. split; [|reflexivity].
  apply (reach_step ExF.g (manifest_ins ExF.g) [4%nat] 4%nat 3%nat); [apply reach_target; left; reflexivity|].
  exists 2%nat. split; [reflexivity|left; reflexivity].
Qed.

(* (3): util.h is edited after a build: b.o is re-run *)
Example C10df_changed_dep_reruns_nonvacuous :
  ei_deps (g_edge ExF.g 1%nat) = DepsDepfile /\ In 5%nat (ExF.hid 1%nat) /\ is_source ExF.g 5%nat = true /\
  match fbuild ExF.cmd ExF.g ExF.hid (fapply_step ExF.cmd ExF.g ExF.hid ExF.built (FS (Edit 5 31))) [4%nat] with
  | Some fs' => ran_since (f_h (fapply_step ExF.cmd ExF.g ExF.hid ExF.built (FS (Edit 5 31)))) (f_h fs') = [2; 1]%nat
  | None => False
  end.
Proof. split; [reflexivity|]. split; [right; left; reflexivity|]. split; [reflexivity|vm_compute; reflexivity]. Qed.

(* (4): util.h is deleted: no manifest node; the depfile manifest rebuilds b.o, the inlined one refuses *)
Example C10df_missing_dep_dirty_nonvacuous :
  let fs := fapply_step ExF.cmd ExF.g ExF.hid ExF.built (FS (Delete 5)) in
  FInv ExF.cmd ExF.g ExF.hid fs /\ no_udel fs /\ h_disk (f_h fs) 5%nat = None /\ g_byloader ExF.g 5%nat = true /\
  match fbuild ExF.cmd ExF.g ExF.hid fs [4%nat] with
  | Some fs' => ran_since (f_h fs) (f_h fs') = [2; 1]%nat
  | None => False
  end /\
  scan (graph_of ExF.gi (f_h fs)) (world_of (f_h fs)) [4%nat] = ScanMissing 5%nat (Some 3%nat).
Proof.
  split; [apply (finv_step ExF.cmd ExF.g ExF.hid ExF_wf_spec); [vm_compute; reflexivity|vm_compute; reflexivity|exact (proj1 ExF_built_inv)|reflexivity]|].
  split; [intros e; destruct e as [|[|[|e]]]; vm_compute; reflexivity|].
  vm_compute. repeat split; reflexivity.
Qed.

(* (5): the user removes b.o.d: b.o is re-run and the depfile is back *)
Example C10df_missing_depfile_reruns_nonvacuous :
  let fs := fapply_step ExF.cmd ExF.g ExF.hid ExF.built (DeleteDepfile 1%nat) in
  fstep_ok ExF.g (DeleteDepfile 1%nat) = true /\ ei_outs (g_edge ExF.g 1%nat) = [3%nat] /\
  f_df fs 1%nat = None /\ f_udel fs 1%nat = true /\
  match fbuild ExF.cmd ExF.g ExF.hid fs [4%nat] with
  | Some fs' => ran_since (f_h fs) (f_h fs') = [2; 1]%nat /\ f_df fs' 1%nat = Some [2%nat; 5%nat] /\
                f_udel fs' 1%nat = false
  | None => False
  end.
Proof. vm_compute. repeat split; reflexivity. Qed.

(* (6), (7): the contents after the 9-step history are the clean ones, and equal to the inlined manifest's *)
Example C10df_equiv_nonvacuous :
  let fs := frun_hist ExF.cmd ExF.g ExF.hid ExF.fs0 ExF.hist in
  f_h fs = run_hist ExF.cmd ExF.gi (init_hstate ExF.gi) ExF.hist0 /\
  ExF.contents fs = ExF.cleans fs /\
  ExF.contents fs = [Some 12; Some 20; Some 6; Some 276; Some 935; Some 31]%N /\
  match fbuild ExF.cmd ExF.g ExF.hid fs [4%nat] with Some fs' => ran_since (f_h fs) (f_h fs') = [] | None => False end.
Proof. vm_compute. repeat split; reflexivity. Qed.
