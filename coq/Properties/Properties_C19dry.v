(* C19, the dry-run clause, on the history model (Engine/HistDefs.v, fragment AB): `ninja -n` runs
   the same scan and plan as a real invocation and executes nothing.  Model of the invocation:
   [HistDry.dry_build] (the state it leaves, the commands it lists).  Proofs: Engine/HistDry.v.
     - undisturbed: the state (disk, clock, both logs) is the one it found, so every continuation of
       the history behaves as if the dry run had not happened;
     - accepted iff the real build is;
     - superset: the commands of the real build, oldest first, are a subsequence of the listing;
     - exact difference: a listed statement is run by the real build iff the restat re-evaluation at
       its turn still finds it dirty ("exact when no restat rule prunes work and a superset
       otherwise");
     - the listing names wanted non-phony statements only, strictly increasing in the edge order
       (a dependency order under [topo_ordered]).
   That the REAL `-n` leaves tree and logs byte-identical is decided by the snapshot oracles of
   tools/props/c19.py (engine harness and real binary); the listing is compared there with the
   real build's trace. *)
From NinjaV Require Import Base.Bytes Engine.ScanDefs Engine.ScanSpec Engine.HistDefs Engine.HistProofs Engine.HistDry.
From Coq Require Import Sorting.Sorted.
Local Open Scope Z_scope.

Theorem C19_dry_undisturbed :
  forall (g : graph) (st : hstate) (T : list node) (st' : hstate) (l : list edge),
    dry_build g st T = Some (st', l) -> st' = st.
Proof. exact dry_undisturbed_proof. Qed.
Print Assumptions C19_dry_undisturbed.

Theorem C19_dry_then_history :
  forall (cmd : edge -> N -> snapshot -> node -> content) (g : graph)
         (st : hstate) (T : list node) (st' : hstate) (l : list edge) (h : list hstep),
    dry_build g st T = Some (st', l) -> run_hist cmd g st' h = run_hist cmd g st h.
Proof. exact dry_then_history_proof. Qed.
Print Assumptions C19_dry_then_history.

Theorem C19_dry_accepts_iff :
  forall (cmd : edge -> N -> snapshot -> node -> content) (g : graph) (st : hstate) (T : list node),
    (exists r, dry_build g st T = Some r) <-> (exists st', build cmd g st T = Some st').
Proof. exact dry_accepts_iff_proof. Qed.
Print Assumptions C19_dry_accepts_iff.

Theorem C19_dry_superset :
  forall (cmd : edge -> N -> snapshot -> node -> content) (g : graph)
         (st : hstate) (T : list node) (st' : hstate),
    build cmd g st T = Some st' ->
    exists (l run : list edge),
      dry_build g st T = Some (st, l) /\
      h_trace st' = rev run ++ h_trace st /\ subseq run l.
Proof. exact dry_superset_proof. Qed.
Print Assumptions C19_dry_superset.

Theorem C19_dry_difference_exact :
  forall (cmd : edge -> N -> snapshot -> node -> content) (g : graph)
         (st : hstate) (T : list node) (st' : hstate),
    build cmd g st T = Some st' ->
    exists (s : sstate) (p : plan),
      scan (graph_of g st) (world_of st) T = ScanOk s p /\
      dry_build g st T = Some (st, dry_list g p) /\
      h_trace st' = rev (filter (ran cmd g p st) (seq 0 (g_nedges g))) ++ h_trace st /\
      (forall e : edge, In e (dry_list g p) ->
         In e (filter (ran cmd g p st) (seq 0 (g_nedges g))) \/
         dirty_now g (build_upto cmd g p e st) e = false).
Proof. exact dry_difference_exact_proof. Qed.
Print Assumptions C19_dry_difference_exact.

Theorem C19_dry_list_sound :
  forall (g : graph) (p : plan) (e : edge),
    In e (dry_list g p) -> want_start p e = true /\ ei_phony (g_edge g e) = false.
Proof. exact dry_list_sound_proof. Qed.
Print Assumptions C19_dry_list_sound.

Theorem C19_dry_list_ordered :
  forall (g : graph) (p : plan), StronglySorted lt (dry_list g p).
Proof. exact dry_list_ordered_proof. Qed.
Print Assumptions C19_dry_list_ordered.
