(* C07 -- interrupting or killing ninja never poisons the next build.
   LOGIC PART served by Engine/CrashDefs.v: ONE build statement in isolation (any number of
   outputs, unbounded mtimes/ticks, restat / generator / deps in {none, depfile, gcc, msvc}, rspfile),
   the exact sequence of atomic persistence actions of StartEdge + the command + FinishCommand
   ([run_actions]; since the fix "record deps before the build log entry": ..., rspfile removal, deps
   records, THEN the per-output build-log lines; [run_actions_old_order] = the order before it), a crash = any prefix, optionally with the next append torn ([crash]), the dirty
   test of the next scan ([next_run_dirty]), and Builder::Cleanup ([cleanup]).
   Not here: several statements at once (C01/C04), log recompaction (C08/C09), real signal timing and
   the exit status 130 (checked on the real binary).
   [log_stale c mri o]: the build-log entry of output o is absent (non-generator), has another command
   hash (non-generator) or is older than the newest manifest input -- the reasons of dirtiness that
   only a RECORDED run removes.  See Engine/README_crash.md for the findings. *)
From NinjaV Require Import Base.Bytes Engine.CrashDefs Engine.CrashProofs.
Local Open Scope Z_scope.

(* ------------------------------------------------------------------ C07_prefix_redone *)
(* Output i has a stale entry: dirty after every crash point that precedes ITS log line (one flushed
   line per output), whatever the command wrote.  No hypothesis on ticks or atomicity. *)
Theorem C07_prefix_redone : forall c r ins st0 i o k torn,
  nth_error (p_outs st0) i = Some o ->
  log_stale c (mri_of (i_explicit ins) None) o = true ->
  (k <= pre_len c r st0 + i)%nat ->
  next_run_dirty c ins (apply_all st0 (crash (run_actions c r st0) k torn)) = true.
Proof. exact prefix_redone. Qed.
Print Assumptions C07_prefix_redone.

(* Never built / an input edited since the last record / command changed (all entries stale):
   dirty after EVERY strict prefix of the run, torn or not -- the last build-log line is the last
   action ([commit_len] = length of the action list) *)
Theorem C07_prefix_redone_all : forall c r ins st0 k torn,
  p_outs st0 <> [] ->
  forallb (log_stale c (mri_of (i_explicit ins) None)) (p_outs st0) = true ->
  (k < commit_len c r st0)%nat ->
  next_run_dirty c ins (apply_all st0 (crash (run_actions c r st0) k torn)) = true.
Proof. exact prefix_redone_all. Qed.
Print Assumptions C07_prefix_redone_all.

Theorem C07_commit_exact : forall c r st0 k, (commit_len c r st0 <= k)%nat ->
  apply_all st0 (firstn k (run_actions c r st0)) = apply_all st0 (run_actions c r st0).
Proof. exact commit_exact. Qed.
Print Assumptions C07_commit_exact.

(* Deps before log lines: from the first build-log line on ([pre_len] actions precede it),
   everything else this run persists is already final -- deps record, depfile, output files.
   In particular once the LAST log line is durable all deps records of this run are. *)
Theorem C07_deps_before_log_commit : forall c r st0 k torn, (pre_len c r st0 <= k)%nat ->
  let st := apply_all st0 (crash (run_actions c r st0) k torn) in
  let fin := apply_all st0 (run_actions c r st0) in
  p_dlog st = p_dlog fin /\ p_depfile st = p_depfile fin
  /\ map o_file (p_outs st) = map o_file (p_outs fin).
Proof. exact deps_before_log_commit. Qed.
Print Assumptions C07_deps_before_log_commit.

(* If a crashed run leaves the statement clean although the entry of some output was stale before
   it (the verdict does rest on this run), then the deps record on disk is the one this run
   reported, and depfile and output files are the final ones. *)
Theorem C07_clean_implies_deps_recorded : forall c r ins st0 i o k torn,
  nth_error (p_outs st0) i = Some o ->
  log_stale c (mri_of (i_explicit ins) None) o = true ->
  let st := apply_all st0 (crash (run_actions c r st0) k torn) in
  next_run_dirty c ins st = false ->
  p_dlog st = (if uses_depslog c
               then match after_cmd c r st0 with a :: _ => Some (stat a, r_deps r) | [] => p_dlog st0 end
               else p_dlog st0)
  /\ p_depfile st = p_depfile (apply_all st0 (run_actions c r st0))
  /\ map o_file (p_outs st) = map o_file (after_cmd c r st0).
Proof. exact clean_implies_deps_recorded. Qed.
Print Assumptions C07_clean_implies_deps_recorded.

(* General form (any reason of dirtiness): a clean verdict after a crash never rests on the
   unfinished run, only on the OLD record of the same command hash that is not older than any
   manifest input. *)
Theorem C07_prefix_trust_is_old : forall c r ins st0 i o k torn,
  nth_error (p_outs st0) i = Some o -> (k <= pre_len c r st0 + i)%nat ->
  next_run_dirty c ins (apply_all st0 (crash (run_actions c r st0) k torn)) = false ->
  log_stale c (mri_of (i_explicit ins) None) o = false /\ any_missing (i_explicit ins) = false.
Proof. exact prefix_trust_is_old. Qed.
Print Assumptions C07_prefix_trust_is_old.

(* The literal "dirty before => dirty after every strict prefix" is false (benign: a hand-deleted
   output is recreated, the other output and both old entries are valid) *)
Theorem C07_prefix_redone_literal_refuted :
  exists c r ins st0 k,
    next_run_dirty c ins st0 = true /\ (k < cmd_done_len c r st0)%nat /\
    next_run_dirty c ins (apply_all st0 (firstn k (run_actions c r st0))) = false.
Proof. exact prefix_redone_literal_refuted. Qed.
Print Assumptions C07_prefix_redone_literal_refuted.

(* FINDING about the order of the code BEFORE the fix (build-log lines, then deps records) and the
   reason the order was changed: restat + deps=gcc, output left alone by the command, process dies
   between the build-log line and RecordDeps: clean next run, the newly discovered input 9 recorded
   nowhere.  (Under [run_actions] the same witness is dirty at every crash point:
   C07_order_matters_old_order_loses_deps.) *)
Theorem C07_restat_deps_lost_refuted :
  exists c r ins st0 k,
    forallb (log_stale c (mri_of (i_explicit ins) None)) (p_outs st0) = true /\
    run_ok r st0 /\ inputs_old ins r /\
    (k < length (run_actions_old_order c r st0))%nat /\
    let st := apply_all st0 (firstn k (run_actions_old_order c r st0)) in
    next_run_dirty c ins st = false /\
    p_dlog st = Some (5, [7%nat]) /\ p_depfile st = None /\ r_deps r = [7%nat; 9%nat] /\
    let ins' := mkIn (i_explicit ins) (fun h => if Nat.eqb h 9 then 50 else i_hdr ins h) in
    next_run_dirty c ins' st = false /\
    next_run_dirty c ins' (apply_all st0 (run_actions_old_order c r st0)) = true.
Proof. exact restat_deps_lost_old_order_refuted. Qed.
Print Assumptions C07_restat_deps_lost_refuted.

(* the two hypotheses of the property text are necessary *)
Theorem C07_atomic_replace_needed :
  let c := mkCfg 77 false false DNone false in
  let ins := mkIn [3] (fun _ => 2) in
  let st0 := mkP [mkO None (Some (77%N, 5))] None None false false in
  next_run_dirty c ins st0 = true /\
  next_run_dirty c ins (apply st0 (ACmdWrite 0 999 11)) = false.
Proof. exact atomic_replace_needed. Qed.

Theorem C07_hash_revert_escape :
  let c77 := mkCfg 77 false false DNone false in
  let c88 := mkCfg 88 false false DNone false in
  let ins := mkIn [3] (fun _ => 2) in
  let st0 := mkP [mkO (Some (5, 100%N)) (Some (77%N, 5))] None None false false in
  let r88 := mkRun 10 [(200%N, 11)] [] 0 in
  let st := apply_all st0 (firstn 2 (run_actions c88 r88 st0)) in
  next_run_dirty c88 ins st0 = true /\ next_run_dirty c88 ins st = true /\
  next_run_dirty c77 ins st = false /\ map o_file (p_outs st) = [Some (11, 200%N)].
Proof. exact hash_revert_escape. Qed.

(* ------------------------------------------------------------------ C07_complete_clean *)
Theorem C07_complete_clean : forall c r ins st0,
  p_outs st0 <> [] -> run_ok r st0 -> inputs_old ins r ->
  next_run_dirty c ins (apply_all st0 (run_actions c r st0)) = false.
Proof. exact complete_clean. Qed.
Print Assumptions C07_complete_clean.

(* ------------------------------------------------------------------ C07_order_matters *)
Theorem C07_order_matters_log_first :
  let c := mkCfg 77 false false DNone false in
  let ins := mkIn [3] (fun _ => 2) in
  let st0 := mkP [mkO (Some (5, 1%N)) (Some (66%N, 5))] None None false false in
  let r := mkRun 10 [(100%N, 11)] [] 0 in
  next_run_dirty c ins st0 = true /\
  dirty_upto c ins st0 (run_actions c r st0) (length (run_actions c r st0)) = true /\
  (2 < length (run_actions_log_first c r st0))%nat /\
  next_run_dirty c ins (apply_all st0 (firstn 2 (run_actions_log_first c r st0))) = false /\
  map o_file (p_outs (apply_all st0 (firstn 2 (run_actions_log_first c r st0)))) = [Some (5, 1%N)].
Proof. exact order_matters_log_first. Qed.

Theorem C07_order_matters_old_order_loses_deps :
  let c := mkCfg 77 true false DGcc false in
  let ins := mkIn [8] (fun _ => 2) in
  let st0 := mkP [mkO (Some (5, 100%N)) (Some (77%N, 5))] (Some (5, [7%nat])) None false false in
  let r := mkRun 10 [(100%N, 11)] [7%nat; 9%nat] 0 in
  next_run_dirty c ins st0 = true /\
  dirty_upto c ins st0 (run_actions c r st0) (length (run_actions c r st0)) = true /\
  p_dlog (apply_all st0 (run_actions c r st0)) = Some (5, [7%nat; 9%nat]) /\
  (4 < length (run_actions_old_order c r st0))%nat /\
  next_run_dirty c ins (apply_all st0 (firstn 4 (run_actions_old_order c r st0))) = false /\
  p_dlog (apply_all st0 (firstn 4 (run_actions_old_order c r st0))) = Some (5, [7%nat]).
Proof. exact order_matters_old_order_loses_deps. Qed.

(* benign under the order of the code: deps log lost, build log valid -- clean as soon as the deps
   record is rewritten, on the strength of the old valid entries (C07_prefix_trust_is_old) *)
Theorem C07_deps_first_benign :
  let c := mkCfg 77 false false DGcc false in
  let ins := mkIn [3] (fun _ => 2) in
  let st0 := mkP [mkO (Some (5, 100%N)) (Some (77%N, 5))] None None false false in
  let r := mkRun 10 [(100%N, 11)] [7%nat] 0 in
  next_run_dirty c ins st0 = true /\ (5 < length (run_actions c r st0))%nat /\
  next_run_dirty c ins (apply_all st0 (firstn 5 (run_actions c r st0))) = false /\
  p_dlog (apply_all st0 (firstn 5 (run_actions c r st0))) = Some (11, [7%nat]).
Proof. exact deps_first_benign. Qed.

(* ------------------------------------------------------------------ C07_interrupt_cleanup *)
(* after Cleanup: every output is gone or has its scan-time mtime; none exists, nor the depfile, for
   depfile statements; the lock is gone; the logs are untouched *)
Theorem C07_interrupt_cleanup : forall c scan st, length (p_outs scan) = length (p_outs st) ->
  let st' := cleanup c scan st in
  Forall2 (fun s o' => o_file o' = None \/ stat o' = stat s) (p_outs scan) (p_outs st')
  /\ (has_depfile c = true ->
      Forall (fun o' => o_file o' = None) (p_outs st') /\ p_depfile st' = None)
  /\ p_lock st' = false
  /\ p_dlog st' = p_dlog st /\ map o_log (p_outs st') = map o_log (p_outs st).
Proof. exact interrupt_cleanup. Qed.
Print Assumptions C07_interrupt_cleanup.

(* dirty before (for ANY reason) => dirty after interrupt + Cleanup *)
Theorem C07_interrupt_redone : forall c r ins st0 k,
  Forall (fun w => r_start r < snd w) (r_writes r) ->
  Forall (fun o0 => stat o0 <= r_start r) (p_outs st0) ->
  (k <= cmd_done_len c r st0)%nat ->
  next_run_dirty c ins st0 = true ->
  next_run_dirty c ins (cleanup c st0 (apply_all st0 (firstn k (run_actions c r st0)))) = true.
Proof. exact interrupt_redone. Qed.
Print Assumptions C07_interrupt_redone.

(* ------------------------------------------------------------------ C07_edit_during_run_picked_up *)
Theorem C07_edit_during_run_picked_up : forall c r ins st0 m,
  c_restat c = false -> c_generator c = false -> r_start r <> 0 -> p_outs st0 <> [] ->
  In m (i_explicit ins) -> r_start r < m ->
  next_run_dirty c ins (apply_all st0 (run_actions c r st0)) = true.
Proof. exact edit_during_run_picked_up. Qed.
Print Assumptions C07_edit_during_run_picked_up.

Theorem C07_edit_header_during_run_picked_up : forall c r ins st0 h,
  c_restat c = false -> c_generator c = false -> r_start r <> 0 -> p_outs st0 <> [] ->
  c_deps c <> DNone -> In h (r_deps r) -> r_start r < i_hdr ins h ->
  next_run_dirty c ins (apply_all st0 (run_actions c r st0)) = true.
Proof. exact edit_header_during_run_picked_up. Qed.
Print Assumptions C07_edit_header_during_run_picked_up.

Theorem C07_edit_during_run_restat_generator_exception :
  let ins := mkIn [11] (fun _ => 2) in
  let r := mkRun 10 [(100%N, 12)] [] 0 in
  let st0 := mkP [mkO None None] None None false false in
  next_run_dirty (mkCfg 77 true false DNone false) ins
     (apply_all st0 (run_actions (mkCfg 77 true false DNone false) r st0)) = false
  /\ next_run_dirty (mkCfg 77 false true DNone false) ins
     (apply_all st0 (run_actions (mkCfg 77 false true DNone false) r st0)) = false
  /\ next_run_dirty (mkCfg 77 false false DNone false) ins
     (apply_all st0 (run_actions (mkCfg 77 false false DNone false) r st0)) = true.
Proof. exact edit_during_run_restat_generator_exception. Qed.

(* ------------------------------------------------------------------ non-vacuity *)
(* CrashDefs.ex_*: build a.o a.d2: cc a.c with depfile, deps=gcc, rspfile; never built; two outputs.
   All hypotheses used above hold of it ... *)
Example C07_hypotheses_nonvacuous :
  next_run_dirty ex_cfg ex_ins ex_st0 = true /\
  forallb (log_stale ex_cfg (mri_of (i_explicit ex_ins) None)) (p_outs ex_st0) = true /\
  p_outs ex_st0 <> [] /\ run_ok ex_run ex_st0 /\ inputs_old ex_ins ex_run /\
  uses_depslog ex_cfg = true /\
  Forall (fun w => r_start ex_run < snd w) (r_writes ex_run) /\
  Forall (fun o0 => stat o0 <= r_start ex_run) (p_outs ex_st0).
Proof. exact ex_hyps. Qed.

(* ... its 11 actions: dirty at every crash point 0..10 (torn or not), clean after the 11th *)
Example C07_prefix_redone_nonvacuous :
  length (run_actions ex_cfg ex_run ex_st0) = 11%nat /\
  commit_len ex_cfg ex_run ex_st0 = 11%nat /\ pre_len ex_cfg ex_run ex_st0 = 9%nat /\
  dirty_upto ex_cfg ex_ins ex_st0 (run_actions ex_cfg ex_run ex_st0) 11 = true /\
  next_run_dirty ex_cfg ex_ins (apply_all ex_st0 (run_actions ex_cfg ex_run ex_st0)) = false.
Proof. exact ex_all_crash_points. Qed.

(* ... interrupted at each of the 6 points of its command phase *)
Example C07_interrupt_nonvacuous :
  forallb (fun k =>
    let st := cleanup ex_cfg ex_st0 (apply_all ex_st0 (firstn k (run_actions ex_cfg ex_run ex_st0))) in
    forallb (fun o => match o_file o with None => true | Some _ => false end) (p_outs st)
    && match p_depfile st with None => true | Some _ => false end
    && negb (p_lock st) && next_run_dirty ex_cfg ex_ins st) (seq 0 6) = true
  /\ cmd_done_len ex_cfg ex_run ex_st0 = 5%nat.
Proof. exact ex_interrupt. Qed.

(* ... an edit of a.c at tick 13 during the run is picked up *)
Example C07_edit_during_run_nonvacuous :
  next_run_dirty ex_cfg (mkIn [13] (fun _ => 2))
    (apply_all ex_st0 (run_actions ex_cfg ex_run ex_st0)) = true.
Proof.
  apply (C07_edit_during_run_picked_up ex_cfg ex_run (mkIn [13] (fun _ => 2)) ex_st0 13).
  - reflexivity.
  - reflexivity.
  - discriminate.
  - discriminate.
  - left; reflexivity.
  - cbn; lia.
Qed.
