(* C19 -- the listing tools agree with the build: `-t compdb-targets` (CommandCollector::CollectFrom,
   src/command_collector.h).  Model: Engine/ToolsDefs.v; proofs: Engine/ToolsProofs2.v.
   The collector walks NODES (visited_nodes_ + visited_edges_), PrintCommands walks EDGES (one EdgeSet):
   they visit exactly the same statements in the same order, so everything proved about `-t commands`
   (Properties_C19tools.v) holds for `-t compdb-targets`.  ONLY restatements. *)
From NinjaV Require Import Base.Bytes Engine.ScanDefs Engine.ToolsDefs Engine.ToolsProofs Engine.ToolsProofs2.

(* whatever the fuel: a collector run that returns is a PrintCommands run on the producers of the targets,
   with the same seen set and the same post-order *)
Theorem C19_compdb_targets_eq_commands : forall g fuel targets s,
  cc_over g fuel targets (mkC [] [] []) = Some s ->
  pc_over g fuel (target_edges g targets) ([], []) = Some (c_vedges s, c_done s).
Proof. exact compdb_targets_eq_commands. Qed.
Print Assumptions C19_compdb_targets_eq_commands.

Theorem C19_compdb_targets_commands : forall g targets l,
  tool_compdb_targets g targets = Some l -> tool_commands g targets = Some l.
Proof. exact tool_compdb_targets_commands. Qed.
Print Assumptions C19_compdb_targets_commands.

(* the C++ recursion ends: fuel = number of statements + 1 is never exhausted on a well-formed graph *)
Theorem C19_compdb_targets_total : forall g targets, wf_graph g -> tool_compdb_targets g targets <> None.
Proof. exact tool_compdb_targets_total. Qed.
Print Assumptions C19_compdb_targets_total.

Theorem C19_compdb_targets_is_commands : forall g targets, wf_graph g ->
  tool_compdb_targets g targets = tool_commands g targets.
Proof. exact tool_compdb_targets_is_commands. Qed.
Print Assumptions C19_compdb_targets_is_commands.

Theorem C19_compdb_targets_nodup : forall g targets l,
  tool_compdb_targets g targets = Some l -> NoDup l.
Proof. exact tool_compdb_targets_nodup. Qed.
Print Assumptions C19_compdb_targets_nodup.

(* exactly the non-phony statements the targets depend on *)
Theorem C19_compdb_targets_exact : forall g targets l,
  tool_compdb_targets g targets = Some l ->
  forall x, In x l <-> (target_reach g targets x /\ ei_phony (g_edge g x) = false).
Proof. exact tool_compdb_targets_exact. Qed.
Print Assumptions C19_compdb_targets_exact.

Theorem C19_compdb_targets_order : forall g targets l,
  tool_compdb_targets g targets = Some l ->
  forall d d', In d l -> dep g d d' -> ei_phony (g_edge g d') = false -> before d' d l \/ reach g d' d.
Proof. exact tool_compdb_targets_order. Qed.
Print Assumptions C19_compdb_targets_order.

Theorem C19_compdb_targets_order_acyclic : forall g targets l,
  tool_compdb_targets g targets = Some l -> acyclic g ->
  forall d x, In d l -> reach g d x -> x <> d -> ei_phony (g_edge g x) = false -> before x d l.
Proof. exact tool_compdb_targets_order_acyclic. Qed.
Print Assumptions C19_compdb_targets_order_acyclic.

(* `-t inputs` (InputsCollector::VisitNode, src/graph.cc): whatever the bound passed for the fuel, a run that
   returns lists no input twice and lists no output of a phony statement *)
Theorem C19_inputs_nodup : forall g nn targets l, tool_inputs g nn targets = Some l -> NoDup l.
Proof. exact tool_inputs_nodup. Qed.
Print Assumptions C19_inputs_nodup.

Theorem C19_inputs_nonphony : forall g nn targets l,
  tool_inputs g nn targets = Some l -> forall n, In n l -> phony_output g n = false.
Proof. exact tool_inputs_nonphony. Qed.
Print Assumptions C19_inputs_nonphony.
