(* C05 at HISTORY level for the FAITHFUL build loop (Engine/HistFailFaithful.v): invocations in
   which a command fails, run the way ninja prunes its plan (want map + Plan::CleanNode from the
   restat loop of Builder::FinishCommand; a failed command: Plan::EdgeFinished(kEdgeFailed) leaves
   want_ alone, no restat loop, nothing is started afterwards under -k1) -- the loops the
   correspondence tool runs against the real engine -- next to HistFailDefs.buildF, about which
   Properties_C05hist.v speaks.  Proofs: Engine/HistFailFaithfulProofs.v.  Every theorem is
   restated in full.

   Premises: those of Properties_C05hist.v (wf_spec g, wf_graph g, frag_AB g, topo_ordered g, the
   invariant [GoodF] of all histories with failures) and
     no_inputless_phony g = true     the documented always-dirty case.
   RESULT (FULL, nothing partial): under these premises the faithful and the original loops are
   the same functions -- [build_f_eq_buildF] (successful invocations, from states with tainted
   outputs too: HistFaithfulProofs.build_f_eq_build needs [Good]), [buildF_full_f_eq],
   [buildF_f_eq], histories [run_fhist_f_eq] -- so every theorem of Properties_C05hist.v
   transfers; [C05_exit_failed_f], [C05_failed_not_recorded_f], [C01F_history_f] are stated.
   With an input-less phony statement the loops differ ([C05_faithful_differs_with_inputless_phony]:
   the original loop starts, and fails, a statement ninja never starts). *)
From NinjaV Require Import Engine.CrashDefs.
From NinjaV Require Import Base.Bytes Engine.ScanDefs Engine.ScanSpec Engine.ScanProofs Engine.HistDefs Engine.HistProofs Engine.HistFaithful Engine.HistFaithfulProofs Engine.HistFailDefs Engine.HistFailProofs Engine.HistCrashDefs Engine.HistCrashProofs Engine.HistFailFaithful Engine.HistFailFaithfulProofs.
Local Open Scope Z_scope.

(* ---- (0) the prefix theorem everything rests on: while nothing has failed the faithful loop is
        in the state of HistDefs.build_upto, and the statement whose turn it is is still wanted
        (and real) iff HistDefs.build would start it *)
Theorem build_upto_f_eq :
  forall (cmd : edge -> N -> snapshot -> node -> content) (g : graph),
    wf_spec g -> wf_graph g -> frag_AB g = true -> topo_ordered g = true ->
  forall (st : hstate) (T : list node) (s : sstate) (p : plan) (k : nat),
    GoodF cmd g st -> no_inputless_phony g = true ->
    scan (graph_of g st) (world_of st) T = ScanOk s p -> (k <= g_nedges g)%nat ->
    exists x : cst,
      build_upto_f cmd g s p k st = Some (build_upto cmd g p k st, x) /\
      ((k < g_nedges g)%nat -> starts_f g x k = starts g p (build_upto cmd g p k st) k).
Proof. exact GF.build_upto_f_eq. Qed.
Print Assumptions build_upto_f_eq.

(* ---- (1) successful invocations, from every state of a history with failures *)
Theorem build_f_eq_buildF :
  forall (cmd : edge -> N -> snapshot -> node -> content) (g : graph),
    wf_spec g -> wf_graph g -> frag_AB g = true -> topo_ordered g = true ->
    no_inputless_phony g = true ->
  forall (st : hstate) (T : list node),
    GoodF cmd g st -> build_f cmd g st T = build cmd g st T.
Proof. exact HistFailFaithfulProofs.build_f_eq_buildF. Qed.
Print Assumptions build_f_eq_buildF.

(* ---- (2) an invocation in which a command fails: same state, same failed statement, same ghost *)
Theorem buildF_full_f_eq :
  forall (cmd : edge -> N -> snapshot -> node -> content) (g : graph),
    wf_spec g -> wf_graph g -> frag_AB g = true -> topo_ordered g = true ->
    no_inputless_phony g = true ->
  forall (st : hstate) (T : list node) (fs : faults),
    GoodF cmd g st -> buildF_full_f cmd g st T fs = buildF_full cmd g st T fs.
Proof. exact HistFailFaithfulProofs.buildF_full_f_eq. Qed.
Print Assumptions buildF_full_f_eq.

Theorem buildF_f_eq :
  forall (cmd : edge -> N -> snapshot -> node -> content) (g : graph),
    wf_spec g -> wf_graph g -> frag_AB g = true -> topo_ordered g = true ->
    no_inputless_phony g = true ->
  forall (st : hstate) (T : list node) (fs : faults),
    GoodF cmd g st -> buildF_f cmd g st T fs = buildF cmd g st T fs.
Proof. exact HistFailFaithfulProofs.buildF_f_eq. Qed.
Print Assumptions buildF_f_eq.

(* ---- (3) histories *)
Theorem run_fhist_f_eq :
  forall (cmd : edge -> N -> snapshot -> node -> content) (g : graph),
    wf_spec g -> wf_graph g -> frag_AB g = true -> topo_ordered g = true ->
    no_inputless_phony g = true ->
  forall (h : list fstep) (st : hstate),
    GoodF cmd g st -> fhist_ok g h = true -> run_fhist_f cmd g st h = run_fhist cmd g st h.
Proof. exact HistFailFaithfulProofs.run_fhist_f_eq. Qed.
Print Assumptions run_fhist_f_eq.

(* ---- (4) theorems of Properties_C05hist.v, for the faithful loops *)
(* C05 (b): exit flag *)
Theorem C05_exit_failed_f :
  forall (cmd : edge -> N -> snapshot -> node -> content) (g : graph),
    wf_spec g -> wf_graph g -> frag_AB g = true -> topo_ordered g = true ->
    no_inputless_phony g = true ->
  forall (st : hstate) (T : list node) (fs : faults) (st' : hstate) (failed : bool),
    GoodF cmd g st -> buildF_f cmd g st T fs = Some (st', failed) ->
    (failed = false ->
       build_f cmd g st T = Some st' /\
       (forall e : edge, In e (HistFailDefs.trace_delta st st') -> fault_of fs e = None)) /\
    (failed = true ->
       exists (e : edge) (kd : fail_kind) (rest : list edge),
         HistFailDefs.trace_delta st st' = e :: rest /\ fault_of fs e = Some kd /\
         (forall e' : edge, In e' rest -> fault_of fs e' = None)).
Proof. exact HistFailFaithfulProofs.C05_exit_failed_f. Qed.
Print Assumptions C05_exit_failed_f.

(* C05 (c): no log entry for the failed command *)
Theorem C05_failed_not_recorded_f :
  forall (cmd : edge -> N -> snapshot -> node -> content) (g : graph),
    wf_spec g -> wf_graph g -> frag_AB g = true -> topo_ordered g = true ->
    no_inputless_phony g = true ->
  forall (st : hstate) (T : list node) (fs : faults) (st' : hstate),
    GoodF cmd g st -> buildF_f cmd g st T fs = Some (st', true) ->
    exists (e : edge) (rest : list edge),
      HistFailDefs.trace_delta st st' = e :: rest /\ fault_of fs e <> None /\
      (forall o : node, In o (ei_outs (g_edge g e)) -> h_blog st' o = h_blog st o) /\
      (forall n : node,
         h_blog st' n = h_blog st n \/
         (exists j : edge, g_producer g n = Some j /\ In j rest /\ fault_of fs j = None)).
Proof. exact HistFailFaithfulProofs.C05_failed_not_recorded_f. Qed.
Print Assumptions C05_failed_not_recorded_f.

(* C01 after a history with failures, where [taint_safe] holds *)
Theorem C01F_history_f :
  forall (cmd : edge -> N -> snapshot -> node -> content) (g : graph),
    wf_spec g -> wf_graph g -> frag_AB g = true -> topo_ordered g = true ->
    no_inputless_phony g = true ->
  forall (h : list fstep) (T : list node) (st' : hstate),
    (forall (e : edge) (h1 h2 : N) (S : snapshot) (o : node),
       ei_generator (g_edge g e) = true -> cmd e h1 S o = cmd e h2 S o) ->
    fhist_ok g h = true ->
    taint_safe g (run_fhist_f cmd g (init_hstate g) h) = true ->
    build_f cmd g (run_fhist_f cmd g (init_hstate g) h) T = Some st' ->
    forall n : node, reach g T n -> content_of st' n = clean_of cmd g st' n.
Proof. exact HistFailFaithfulProofs.C01F_history_f. Qed.
Print Assumptions C01F_history_f.

(* ---- (5) non-vacuity *)
(* the project of HistDefs.Ex satisfies the premises; the state [ExF.st7] (the compile of x.o rewrote
   x.o and failed) satisfies GoodF and NOT Good: (1) is used where HistFaithfulProofs does not reach *)
Example C05_faithful_premises_nonvacuous :
  wf_spec Ex.g /\ wf_graph Ex.g /\
  frag_AB Ex.g && topo_ordered Ex.g && no_inputless_phony Ex.g = true /\
  fhist_ok Ex.g HistFailDefs.ExF.hist7 = true /\
  GoodF Ex.cmd Ex.g HistFailDefs.ExF.st7 /\ ~ Good Ex.cmd Ex.g HistFailDefs.ExF.st7.
Proof.
  destruct HistFailProofs.C01F_nonvacuous_proof as [A [_ [_ [_ [B [C _]]]]]].
  split; [exact Ex_wf_spec|]. split; [exact Ex_wf_graph|]. split; [vm_compute; reflexivity|].
  split; [exact A|]. split; [exact B|exact C].
Qed.

(* computed independently of the theorems: on the example projects of HistFailDefs the faithful and
   the original loops reach the same states *)
Example C05_faithful_same_on_examples :
  run_fhist_f Ex.cmd Ex.g Ex.st0 HistFailDefs.ExF.hist7 = HistFailDefs.ExF.st7 /\
  apply_fstep_f Ex.cmd Ex.g HistFailDefs.ExF.st7 (Plain (Build [5%nat])) = HistFailDefs.ExF.st8 /\
  buildF_f Ex.cmd Ex.g (run_fhist Ex.cmd Ex.g Ex.st0 (map Plain Ex.hist5 ++ [Plain (Edit 1 21)]))
           [5%nat] [(2%nat, FailDeleted); (1%nat, FailUntouched)] =
  buildF Ex.cmd Ex.g (run_fhist Ex.cmd Ex.g Ex.st0 (map Plain Ex.hist5 ++ [Plain (Edit 1 21)]))
         [5%nat] [(2%nat, FailDeleted); (1%nat, FailUntouched)].
Proof. exact ExFF.same_on_ExF. Qed.

Example C05_faithful_same_on_ExFail :
  run_fhist_f Ex.cmd ExFail.g (init_hstate ExFail.g) ExFail.hist5 = ExFail.st5 /\
  h_trace (run_fhist_f Ex.cmd ExFail.g (init_hstate ExFail.g) (ExFail.hist_with FailUntouched)) = [0; 0; 0]%nat /\
  h_trace (run_fhist_f Ex.cmd ExFail.g (init_hstate ExFail.g) ExFail.hist_edit) = [0; 0; 0]%nat /\
  buildF_full_f Ex.cmd ExFail.g ExFail.st3 [1%nat] [(0%nat, FailWrote ExFail.garbage)] =
  buildF_full Ex.cmd ExFail.g ExFail.st3 [1%nat] [(0%nat, FailWrote ExFail.garbage)].
Proof. exact ExFF.same_on_ExFail. Qed.

(* the hypothesis no_inputless_phony cannot be dropped: HistFaithful.ExF (build always: phony /
   build gen: r1 always src, restat / build out: r2 gen), second build, a fault on [out]: the
   original loop starts out and fails (exit flag "failed"); ninja prunes out after gen's command
   left gen untouched, never starts it: exit status 0 *)
Example C05_faithful_differs_with_inputless_phony :
  frag_AB ExFFdiff.g && topo_ordered ExFFdiff.g = true /\ no_inputless_phony ExFFdiff.g = false /\
  (match buildF Ex.cmd ExFFdiff.g ExFFdiff.st1 ExFFdiff.T [(2%nat, FailUntouched)] with
   | Some (st', failed) => failed = true /\ HistFailDefs.trace_delta ExFFdiff.st1 st' = [2; 1]%nat | None => False end) /\
  (match buildF_f Ex.cmd ExFFdiff.g ExFFdiff.st1 ExFFdiff.T [(2%nat, FailUntouched)] with
   | Some (st', failed) => failed = false /\ HistFailDefs.trace_delta ExFFdiff.st1 st' = [1%nat] | None => False end).
Proof.
  destruct ExFFdiff.premises as [A [B _]]. destruct ExFFdiff.fault_not_reached as [C D].
  split; [exact A|]. split; [exact B|]. split; [exact C|exact D].
Qed.
