(* C01 / C02 / C03 under PARALLEL schedules (`ninja -j N`), history level, fragment AB (explicit /
   implicit / order-only inputs, multiple outputs, phony, restat, generator; no depfile / deps /
   dyndep / validations / pools / failing commands).
   Model: Engine/HistParDefs.v -- a small-step semantics of one invocation on the state of
   Engine/HistDefs.v with the bookkeeping of Engine/HistFaithful.v (Plan::CleanNode):
     Start e   allowed iff e is a statement, still wanted, not phony, not running, and every input
               of EVERY kind is ready (a source; or its producer is neither wanted nor running; or
               its producer is a wanted phony statement all of whose inputs are ready) -- the side
               condition Properties_C04.C04_start_after_producers proves of the plan model;
               effect: lock tick, the snapshot of the non-order-only inputs is taken;
     Finish e  allowed iff e is running; effect: HistDefs.finish_run from the current state (output
               writes with fresh ticks, restat = write-if-changed; one log entry per output with
               CrashDefs.record_mtime computed from the START tick; ghost snapshot = what was read
               at the start), Plan::EdgeFinished, then the CleanNode cascade (restat_clean).
   A schedule is a list of events; [par_build st T sched] scans, runs the schedule and requires
   that nothing is running and no real statement is wanted at the end; [par_build_j (Some N)]
   also enforces at most N running commands.  Proofs: Engine/HistParProofs.v.
   Every theorem is restated in full.  Premises about the manifest graph [g] and the command
   function, as in Properties_C01hist.v: wf_spec g, wf_graph g, frag_AB g = true,
   topo_ordered g = true (the edge order is topological; it only serves as a ranking here -- the
   schedules are arbitrary), and for the theorems about contents: a generator's output does not
   depend on its own command line. *)
Require Import Coq.Sorting.Permutation.
From NinjaV Require Import Engine.CrashDefs.
From NinjaV Require Import Base.Bytes Engine.ScanDefs Engine.ScanSpec Engine.ScanProofs Engine.HistDefs Engine.HistProofs Engine.HistFaithful Engine.HistParDefs Engine.HistParProofs.
Local Open Scope Z_scope.

(* ---- (1) the sequential loop is the special case: for the schedule
        [Start e0; Finish e0; Start e1; Finish e1; ...] over the statements the sequential faithful
        loop runs ([seq_sched]), the parallel semantics IS HistFaithful.build_f -- same resulting
        state, refusals included; and that schedule needs one job only *)
Theorem par_sequential :
  forall (cmd : edge -> N -> snapshot -> node -> content) (g : graph),
    topo_ordered g = true ->
  forall (st : hstate) (T : list node),
    par_build cmd g st T (seq_sched cmd g st T) = build_f cmd g st T.
Proof. exact HistParProofs.par_sequential_proof. Qed.
Print Assumptions par_sequential.

Theorem par_sequential_j :
  forall (cmd : edge -> N -> snapshot -> node -> content) (g : graph),
    topo_ordered g = true ->
  forall (st : hstate) (T : list node),
    par_build_j cmd g (Some 1%nat) st T (seq_sched cmd g st T) = build_f cmd g st T.
Proof. exact HistParProofs.par_sequential_j_proof. Qed.
Print Assumptions par_sequential_j.

(* a schedule that respects a job limit is a schedule: theorems about [par_build] cover every -j N *)
Theorem par_build_j_sound :
  forall (cmd : edge -> N -> snapshot -> node -> content) (g : graph)
         (lim : option nat) (st : hstate) (T : list node) (sched : list pevent) (st' : hstate),
    par_build_j cmd g lim st T sched = Some st' -> par_build cmd g st T sched = Some st'.
Proof. exact HistParProofs.par_build_j_sound_proof. Qed.
Print Assumptions par_build_j_sound.

(* ---- (2) LogSound survives interleavings: Good = StateOk /\ LogSound after EVERY valid complete
        schedule *)
Theorem par_good :
  forall (cmd : edge -> N -> snapshot -> node -> content) (g : graph),
    wf_spec g -> topo_ordered g = true ->
  forall (st : hstate) (T : list node) (sched : list pevent) (st' : hstate),
    Good cmd g st -> par_build cmd g st T sched = Some st' -> Good cmd g st'.
Proof. exact HistParProofs.par_good_proof. Qed.
Print Assumptions par_good.

(* the key fact: in every configuration a schedule can reach, what a running command read when it
   started is still what is on disk, its start tick is not later than the clock, and no other
   running command has an output among its inputs *)
Theorem par_running_inputs_stable :
  forall (cmd : edge -> N -> snapshot -> node -> content) (g : graph),
    wf_spec g -> topo_ordered g = true ->
  forall (lim : option nat) (st : hstate) (s : sstate) (p : plan) (sched : list pevent) (c : pcfg),
    Good cmd g st ->
    par_exec cmd g lim sched (init_pcfg st s p) = POk c ->
    forall r : prun, In r (p_run c) ->
      r_snap r = reads g (p_st c) (r_edge r) /\
      r_t0 r <= h_clock (p_st c) /\
      (forall r' : prun, In r' (p_run c) -> r_edge r' <> r_edge r ->
         forall o : node, In o (ei_outs (g_edge g (r_edge r'))) -> ~ In o (ei_ins (g_edge g (r_edge r)))).
Proof. exact HistParProofs.par_running_inputs_stable_proof. Qed.
Print Assumptions par_running_inputs_stable.

(* Plan::CleanNode never runs out of fuel, whatever the schedule *)
Theorem par_never_out_of_fuel :
  forall (cmd : edge -> N -> snapshot -> node -> content) (g : graph),
    wf_spec g -> wf_graph g -> frag_AB g = true -> topo_ordered g = true ->
  forall (lim : option nat) (st : hstate) (T : list node) (sched : list pevent),
    Good cmd g st -> par_run cmd g lim st T sched <> POutOfFuel.
Proof. exact HistParProofs.par_never_out_of_fuel_proof. Qed.
Print Assumptions par_never_out_of_fuel.

(* ---- (3) C01 for every valid complete schedule: every node the targets need -- through inputs of
        every kind -- holds what a from-scratch build of the current sources and command lines
        produces *)
Theorem C01_par :
  forall (cmd : edge -> N -> snapshot -> node -> content) (g : graph),
    wf_spec g -> wf_graph g -> frag_AB g = true -> topo_ordered g = true ->
  forall (st : hstate) (T : list node) (sched : list pevent) (st' : hstate),
    (forall (e : edge) (h h' : N) (S : snapshot) (o : node),
       ei_generator (g_edge g e) = true -> cmd e h S o = cmd e h' S o) ->
    Good cmd g st ->
    par_build cmd g st T sched = Some st' ->
    forall n : node, reach g T n -> content_of st' n = clean_of cmd g st' n.
Proof. exact HistParProofs.C01_par_proof. Qed.
Print Assumptions C01_par.

(* ... over histories in which every Build step carries its own schedule ([phstep] = step *
   schedule; a Build whose schedule is refused, not valid or not complete is a no-op) *)
Theorem good_phist :
  forall (cmd : edge -> N -> snapshot -> node -> content) (g : graph),
    wf_spec g -> topo_ordered g = true ->
  forall (h : list phstep) (st : hstate),
    Good cmd g st -> phist_ok g h = true -> Good cmd g (run_phist cmd g st h).
Proof. exact HistParProofs.good_phist_proof. Qed.
Print Assumptions good_phist.

Theorem C01_history_par :
  forall (cmd : edge -> N -> snapshot -> node -> content) (g : graph),
    wf_spec g -> wf_graph g -> frag_AB g = true -> topo_ordered g = true ->
  forall (h : list phstep) (T : list node) (sched : list pevent) (st' : hstate),
    (forall (e : edge) (h0 h' : N) (S : snapshot) (o : node),
       ei_generator (g_edge g e) = true -> cmd e h0 S o = cmd e h' S o) ->
    phist_ok g h = true ->
    par_build cmd g (run_phist cmd g (init_hstate g) h) T sched = Some st' ->
    forall n : node, reach g T n -> content_of st' n = clean_of cmd g st' n.
Proof. exact HistParProofs.C01_history_par_proof. Qed.
Print Assumptions C01_history_par.

(* ---- (4) restat pruning is schedule independent: two valid complete schedules (with any job
        limits) run the same SET of statements, each once (the ghost traces relative to the common
        start are permutations of each other), and end with the same contents in EVERY node; mtimes
        and recorded mtimes may differ (HistParDefs.ExP.interleaved_same_contents) *)
Theorem par_confluent :
  forall (cmd : edge -> N -> snapshot -> node -> content) (g : graph),
    wf_spec g -> wf_graph g -> frag_AB g = true -> topo_ordered g = true ->
  forall (st : hstate) (T : list node) (sched1 sched2 : list pevent) (st1 st2 : hstate),
    (forall (e : edge) (h h' : N) (S : snapshot) (o : node),
       ei_generator (g_edge g e) = true -> cmd e h S o = cmd e h' S o) ->
    Good cmd g st ->
    par_build cmd g st T sched1 = Some st1 ->
    par_build cmd g st T sched2 = Some st2 ->
    (exists l1 l2 : list edge,
       h_trace st1 = l1 ++ h_trace st /\ h_trace st2 = l2 ++ h_trace st /\ Permutation l1 l2) /\
    (forall n : node, content_of st1 n = content_of st2 n).
Proof. exact HistParProofs.par_confluent_proof. Qed.
Print Assumptions par_confluent.

(* ... in particular: every valid complete schedule runs the statements the sequential faithful
   loop runs, and ends with its contents *)
Theorem par_same_commands :
  forall (cmd : edge -> N -> snapshot -> node -> content) (g : graph),
    wf_spec g -> wf_graph g -> frag_AB g = true -> topo_ordered g = true ->
  forall (st : hstate) (T : list node) (sched : list pevent) (stp stf : hstate),
    (forall (e : edge) (h h' : N) (S : snapshot) (o : node),
       ei_generator (g_edge g e) = true -> cmd e h S o = cmd e h' S o) ->
    Good cmd g st ->
    par_build cmd g st T sched = Some stp ->
    build_f cmd g st T = Some stf ->
    (exists lp lf : list edge,
       h_trace stp = lp ++ h_trace st /\ h_trace stf = lf ++ h_trace st /\ Permutation lp lf) /\
    (forall n : node, content_of stp n = content_of stf n).
Proof. exact HistParProofs.par_same_commands_proof. Qed.
Print Assumptions par_same_commands.

(* ... and which statements these are is fixed by the scan's plan, the start state and the
   clean-build contents alone: [HistParProofs.Runs] (a wanted real statement runs iff it is dirty
   for a reason of its own at the start, or one of its non-order-only inputs is "hot": written by a
   statement that runs and either is no restat rule or changes the content, or a phony alias of a
   hot node, or an input-less phony) mentions no schedule *)
Theorem par_commands_characterized :
  forall (cmd : edge -> N -> snapshot -> node -> content) (g : graph),
    wf_spec g -> wf_graph g -> frag_AB g = true -> topo_ordered g = true ->
  forall (lim : option nat) (st : hstate) (T : list node) (s : sstate) (p : plan)
         (sched : list pevent) (st' : hstate),
    (forall (e : edge) (h h' : N) (S : snapshot) (o : node),
       ei_generator (g_edge g e) = true -> cmd e h S o = cmd e h' S o) ->
    Good cmd g st ->
    scan (graph_of g st) (world_of st) T = ScanOk s p ->
    par_build_j cmd g lim st T sched = Some st' ->
    exists l : list edge,
      h_trace st' = l ++ h_trace st /\ NoDup l /\
      (forall e : edge, In e l <-> HistParProofs.Runs cmd g st p e).
Proof. exact HistParProofs.par_commands_characterized_proof. Qed.
Print Assumptions par_commands_characterized.

(* ---- (5) C02 for every valid complete schedule: the next scan is accepted and wants nothing (the
        documented always-dirty case excluded) ... *)
Theorem C02_par :
  forall (cmd : edge -> N -> snapshot -> node -> content) (g : graph),
    wf_spec g -> wf_graph g -> frag_AB g = true -> topo_ordered g = true ->
  forall (st : hstate) (T : list node) (sched : list pevent) (st' : hstate),
    Good cmd g st -> no_inputless_phony g = true ->
    par_build cmd g st T sched = Some st' ->
    exists (s : sstate) (p : plan),
      scan (graph_of g st') (world_of st') T = ScanOk s p /\
      (forall e : edge, p_want p e <> Some WantToStart).
Proof. exact HistParProofs.C02_par_proof. Qed.
Print Assumptions C02_par.

(* ... hence the next invocation's sequential schedule is empty, the empty schedule is complete,
   and it changes nothing *)
Theorem C02_par_idle :
  forall (cmd : edge -> N -> snapshot -> node -> content) (g : graph),
    wf_spec g -> wf_graph g -> frag_AB g = true -> topo_ordered g = true ->
  forall (st : hstate) (T : list node) (sched : list pevent) (st' : hstate),
    Good cmd g st -> no_inputless_phony g = true ->
    par_build cmd g st T sched = Some st' ->
    seq_sched cmd g st' T = [] /\ par_build cmd g st' T [] = Some st'.
Proof. exact HistParProofs.C02_par_idle_proof. Qed.
Print Assumptions C02_par_idle.

Theorem C02_history_par :
  forall (cmd : edge -> N -> snapshot -> node -> content) (g : graph),
    wf_spec g -> wf_graph g -> frag_AB g = true -> topo_ordered g = true ->
  forall (h : list phstep) (T : list node) (sched : list pevent) (st' : hstate),
    phist_ok g h = true -> no_inputless_phony g = true ->
    par_build cmd g (run_phist cmd g (init_hstate g) h) T sched = Some st' ->
    (exists (s : sstate) (p : plan),
       scan (graph_of g st') (world_of st') T = ScanOk s p /\
       (forall e : edge, p_want p e <> Some WantToStart)) /\
    par_build cmd g st' T [] = Some st'.
Proof. exact HistParProofs.C02_history_par_proof. Qed.
Print Assumptions C02_history_par.

(* ---- (6) the theorems are not vacuous: from a Good state, every accepted scan HAS a valid complete
        schedule, the sequential one, which needs a single job and is the faithful loop *)
Theorem par_schedule_exists :
  forall (cmd : edge -> N -> snapshot -> node -> content) (g : graph),
    wf_spec g -> wf_graph g -> frag_AB g = true -> topo_ordered g = true ->
  forall (st : hstate) (T : list node) (s : sstate) (p : plan),
    Good cmd g st ->
    scan (graph_of g st) (world_of st) T = ScanOk s p ->
    exists st' : hstate,
      par_build_j cmd g (Some 1%nat) st T (seq_sched cmd g st T) = Some st' /\
      par_build cmd g st T (seq_sched cmd g st T) = Some st' /\
      build_f cmd g st T = Some st'.
Proof. exact HistParProofs.par_schedule_exists_proof. Qed.
Print Assumptions par_schedule_exists.

(* ... and a genuinely interleaved one (HistParDefs.ExP: x.o and y.o are both started before either
   finishes, and finish in the other order; -j 2) satisfies every premise used above *)
Example par_premises_nonvacuous :
  wf_spec ExP.g /\ wf_graph ExP.g /\ frag_AB ExP.g = true /\ topo_ordered ExP.g = true /\
  no_inputless_phony ExP.g = true /\ Good ExP.cmd ExP.g ExP.st1 /\
  exists st' : hstate,
    par_build_j ExP.cmd ExP.g (Some 2%nat) ExP.st1 [5%nat] ExP.inter = Some st'.
Proof. exact HistParProofs.ExP_interleaved_is_schedule_proof. Qed.
Print Assumptions par_premises_nonvacuous.

Example par_gen_nonvacuous :
  forall (e : edge) (h h' : N) (S : snapshot) (o : node),
    ei_generator (g_edge ExP.g e) = true -> ExP.cmd e h S o = ExP.cmd e h' S o.
Proof. exact HistParProofs.ExP_gen. Qed.
Print Assumptions par_gen_nonvacuous.
