(* C02 at HISTORY level, fragment AB: convergence.  Immediately after a successful build, ninja's
   scan of the same targets is ACCEPTED and marks no statement kWantToStart; running the build
   again succeeds, executes no command and changes nothing -- after any history of source edits,
   deletions, command-line changes and builds.  The documented always-dirty case (a phony
   statement without inputs) is excluded by the boolean hypothesis [no_inputless_phony g], and is
   shown to be really always dirty.
   Model: Engine/HistDefs.v; proofs: Engine/HistProofs.v.  Premises as in Properties_C01hist.v
   (the command function needs no assumption here). *)
From NinjaV Require Import Base.Bytes Engine.ScanDefs Engine.ScanSpec Engine.ScanProofs Engine.HistDefs Engine.HistProofs.
Local Open Scope Z_scope.

(* ---- (1) one invocation, from any state satisfying the invariant *)
Theorem C02_converges :
  forall (cmd : edge -> N -> snapshot -> node -> content) (g : graph),
    wf_spec g -> wf_graph g -> frag_AB g = true -> topo_ordered g = true ->
  forall (st : hstate) (T : list node) (st' : hstate),
    Good cmd g st -> no_inputless_phony g = true -> build cmd g st T = Some st' ->
    exists (s : sstate) (p : plan),
      scan (graph_of g st') (world_of st') T = ScanOk s p /\
      (forall e : edge, p_want p e <> Some WantToStart).
Proof. exact C02_converges. Qed.
Print Assumptions C02_converges.

(* the second run: same targets, succeeds, state unchanged (in particular no command in the
   ghost trace, no tick of the clock, no log entry) *)
Theorem C02_second_build_idle :
  forall (cmd : edge -> N -> snapshot -> node -> content) (g : graph),
    wf_spec g -> wf_graph g -> frag_AB g = true -> topo_ordered g = true ->
  forall (st : hstate) (T : list node) (st' : hstate),
    Good cmd g st -> no_inputless_phony g = true -> build cmd g st T = Some st' ->
    build cmd g st' T = Some st'.
Proof. exact C02_second_build_idle. Qed.
Print Assumptions C02_second_build_idle.

(* ---- (2) over histories *)
Theorem C02_history :
  forall (cmd : edge -> N -> snapshot -> node -> content) (g : graph),
    wf_spec g -> wf_graph g -> frag_AB g = true -> topo_ordered g = true ->
  forall (h : list hstep) (T : list node) (st' : hstate),
    hist_ok g h = true -> no_inputless_phony g = true ->
    build cmd g (run_hist cmd g (init_hstate g) h) T = Some st' ->
    (exists (s : sstate) (p : plan),
       scan (graph_of g st') (world_of st') T = ScanOk s p /\
       (forall e : edge, p_want p e <> Some WantToStart)) /\
    build cmd g st' T = Some st'.
Proof. exact C02_history. Qed.
Print Assumptions C02_history.

(* ---- (3) the scan-level fact behind the acceptance of the second scan: when nothing the
        targets need must be remade and the source targets exist, ScanDefs.scan is accepted *)
Theorem scan_accepts :
  forall (g : graph) (w : world), wf_spec g -> wf_graph g -> frag_AB g = true ->
  forall T : list node, topo_ordered g = true ->
    (forall t : node, In t T -> g_producer g t = None -> w_mtime w t <> 0 \/ g_byloader g t = true) ->
    (forall e : edge, neededE g T e ->
       forall o : node, In o (ei_outs (g_edge g e)) -> ~ must_dirty g w o) ->
    exists (s : sstate) (p : plan), scan g w T = ScanOk s p.
Proof. exact scan_accepts. Qed.
Print Assumptions scan_accepts.

(* ---- (4) the excluded case is real: build always : phony  /  build out : cc always.
        The graph is in the fragment, only [no_inputless_phony] fails; after a successful build
        the scan still wants e1, and the second build runs it again. *)
Example C02_inputless_phony_always_dirty :
  frag_AB ExAlways.g && topo_ordered ExAlways.g = true /\ no_inputless_phony ExAlways.g = false /\
  h_trace ExAlways.st1 = [1%nat] /\
  match scan (graph_of ExAlways.g ExAlways.st1) (world_of ExAlways.st1) [1%nat] with
  | ScanOk _ p => p_want p 1%nat = Some WantToStart
  | _ => False
  end /\
  h_trace (apply_step Ex.cmd ExAlways.g ExAlways.st1 (Build [1%nat])) = [1; 1]%nat.
Proof.
  destruct ExAlways.frag_ok as [A B]. destruct ExAlways.always_dirty as [C [D E]].
  split; [exact A|]. split; [exact B|]. split; [exact C|]. split; [exact D|exact E].
Qed.

(* ---- non-vacuity: the project of HistDefs.Ex satisfies every premise, its 9-step history is
        legal, the build after it succeeds; and, computed independently of the theorem, the scan
        after the history wants nothing and one more build leaves the trace as it is *)
Example C02_history_nonvacuous :
  wf_spec Ex.g /\ wf_graph Ex.g /\ frag_AB Ex.g = true /\ topo_ordered Ex.g = true /\
  no_inputless_phony Ex.g = true /\ hist_ok Ex.g Ex.hist9 = true /\
  (exists st', build Ex.cmd Ex.g (run_hist Ex.cmd Ex.g Ex.st0 Ex.hist9) [5%nat] = Some st') /\
  (let st := run_hist Ex.cmd Ex.g Ex.st0 Ex.hist9 in
   h_trace (apply_step Ex.cmd Ex.g st (Build [5%nat])) = h_trace st /\
   match scan (graph_of Ex.g st) (world_of st) [5%nat] with
   | ScanOk _ p => forallb (fun e => negb (want_start p e)) (seq 0 4) = true
   | _ => False
   end).
Proof.
  split; [exact Ex_wf_spec|]. split; [exact Ex_wf_graph|].
  split; [vm_compute; reflexivity|]. split; [vm_compute; reflexivity|].
  split; [vm_compute; reflexivity|]. split; [vm_compute; reflexivity|].
  split; [vm_compute; eexists; reflexivity|]. exact Ex.converged9.
Qed.
