(* C13: no file content can crash, corrupt or hang ninja -- the part a theorem can carry: for the MODELS of
   the readers, every index computed stays inside its buffer and every loop terminates (fuel is sufficient).
   PARTIAL by nature: memory safety of the compiled C++ is observed on generated inputs (ASan/UBSan), see
   tools/props/c13.py.  Further reader theorems live with their components: C13_lexer_* in Properties_C12.v,
   C13_depslog_* in Properties_C09.v, C13_dyndep_* in Properties_C11.v, C08_load_never_fails in Properties_C08.v. *)
From NinjaV Require Import Base.Bytes Depfile.DepfileDefs Depfile.DepfileProofs.

Theorem C13_depfile_reader_bounds : forall s, snd (parse_depfile_idx s) <= length s.
Proof. exact C13_depfile_bounds. Qed.
Print Assumptions C13_depfile_reader_bounds.

Theorem C13_depfile_reader_total : forall s,
  (exists outs ins, parse_depfile s = DOk outs ins) \/ (exists e, parse_depfile s = DErr e).
Proof. exact C13_depfile_total. Qed.
Print Assumptions C13_depfile_reader_total.
