(* C11 at scan level: the dependency scan with scan-time dyndep loads (Engine/ScanDynDefs.v). *)
From NinjaV Require Import Base.Bytes Engine.ScanDefs Engine.ScanDynDefs Engine.ScanDynProofs.

(* (a) conservative extension: without dyndep bindings the scan with dyndep loads IS the dyndep-free scan
   (same error, or same state and plan on the unchanged graph): every theorem of ScanProofs transfers. *)
Theorem C11_scan_dyn_conservative : forall di g w targets,
  (forall e, di_dyndep di e = None) ->
  scan_dyn di g w targets = embed_result g (init_pending di g) (scan g w targets).
Proof. exact scan_dyn_conservative. Qed.
Print Assumptions C11_scan_dyn_conservative.

Example C11_scan_dyn_conservative_nonvacuous : forall e, di_dyndep no_dyndep e = None.
Proof. intros e. reflexivity. Qed.

(* (c) a statement whose dyndep file is pending and whose producer is not ready once visited: nothing is loaded *)
Theorem C11_dyndep_step_pending : forall di visit e dd d vs d1 vs1 pe,
  di_dyndep di e = Some dd -> d_pending d dd = true ->
  visit dd (d, vs) = DOk (d1, vs1) ->
  g_producer (d_g d1) dd = Some pe -> es_ready (st_edge (d_s d1) pe) = false ->
  dyndep_step di visit e false (d, vs) = DOk (d1, vs1).
Proof. exact dyndep_step_pending. Qed.
Print Assumptions C11_dyndep_step_pending.

(* non-vacuity, on a whole scan: producer of the dyndep file dirty -> file still pending, the bound statement not
   ready, inputs/outputs/restat as in the manifest, the discovered output has no producer; producer wanted *)
Example C11_dyndep_step_pending_nonvacuous :
  Pending.summary (scan_dyn Pending.di Pending.g Pending.w [3])
  = Some (true, false, [2; 1], [3], false, None, false, Some WantToStart, Some WantNothing).
Proof. exact Pending.pending_scan. Qed.

(* ... and a source or a ready producer means: loaded right there *)
Theorem C11_dyndep_step_ready : forall di visit e dd d vs d1 vs1,
  di_dyndep di e = Some dd -> d_pending d dd = true ->
  visit dd (d, vs) = DOk (d1, vs1) ->
  match g_producer (d_g d1) dd with None => true | Some pe => es_ready (st_edge (d_s d1) pe) end = true ->
  dyndep_step di visit e false (d, vs)
  = match load_dyndeps di dd d1 with
    | DOk d2 => DOk (d2, vs1) | DCycle c => DCycle c | DLoadErr e' => DLoadErr e'
    | DOutOfFuel => DOutOfFuel | DDyn err => DDyn err end.
Proof. exact dyndep_step_ready. Qed.
Print Assumptions C11_dyndep_step_ready.

Example C11_dyndep_step_ready_nonvacuous :
  Pending.summary (scan_dyn Pending.di Pending.g Pending.w2 [3])
  = Some (false, false, [2; 0; 1], [3; 9], true, Some 1, true, None, Some WantToStart).
Proof. exact Pending.loaded_scan. Qed.

Theorem C11_load_dyndeps_clears_pending : forall di dd d d',
  load_dyndeps di dd d = DOk d' ->
  d_pending d' dd = false /\ forall n, n <> dd -> d_pending d' n = d_pending d n.
Proof. exact load_dyndeps_clears_pending. Qed.
Print Assumptions C11_load_dyndeps_clears_pending.

(* (b) "as if written in the manifest" at scan level, for dyndep files that are present sources and load without
   error (dd_ok): FALSE of the faithful model.  Witness (Stale): a consumer of a file that a dyndep file later
   declares an output of a dirty statement was scanned -- clean, ready, finished -- before the load. *)
Theorem C11_scan_inline_refuted : ~ (forall di g w targets nn,
  dd_ok di g w = true ->
  verdict_of_scan_dyn nn (scan_dyn di g w targets) = verdict_of_scan nn (inline di g) (scan (inline di g) w targets)).
Proof. exact C11_scan_inline_refuted. Qed.
Print Assumptions C11_scan_inline_refuted.

(* the equality is not refuted for trivial reasons: it holds (with a load, an added input, an added output and
   restat from the file) where the bound statement is entered before any reader of the discovered output *)
Example C11_scan_inline_agree :
  dd_ok Agree.di Agree.g Agree.w = true /\
  verdict_of_scan_dyn 5 (scan_dyn Agree.di Agree.g Agree.w [2])
  = verdict_of_scan 5 (inline Agree.di Agree.g) (scan (inline Agree.di Agree.g) Agree.w [2]).
Proof. split; [exact Agree.ok|exact Agree.agree]. Qed.
