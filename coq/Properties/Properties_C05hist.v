(* C05 at HISTORY level, fragment AB: "failures are contained, reported, and never recorded as
   success" -- clauses (a) nothing that depends on the failed command's outputs is started in that
   invocation, (b) the exit status is non-zero, (c) no log entry is written for it, SO THE NEXT
   INVOCATION RUNS IT AGAIN -- and what a failed command does to C01.  (The plan-level clauses, -k N
   included, are in Properties_C05.v on the plan model.)
   Model: Engine/HistFailDefs.v = HistDefs.v + the step  BuildF targets faults  (ninja -j1 -k1 in
   the edge order; a fault makes a command fail when it is started: FailUntouched | FailDeleted |
   FailWrote f).  Proofs: Engine/HistFailProofs.v.  Every theorem is restated in full.

   Premises about the manifest graph [g] and the command function as in Properties_C01hist.v:
   wf_spec g, wf_graph g, frag_AB g = true, topo_ordered g = true, and for C01 that a generator's
   output does not depend on its own command line.

   RESULT.  (a), (b), (c) hold as stated.  "So the next invocation runs it again" holds for
   FailUntouched and FailDeleted without further premise, and for FailWrote exactly when the LOG gives
   the statement a reason to run ([rerun_reason]); in general it is REFUTED, and with it C01 after a
   history that contains a failed command: the listed finding id=failed-cmd-rewrote-output
   ([C05_next_invocation_reruns_refuted], [C01_failed_cmd_rewrote_output_refuted]).  The invariant
   that survives failures is [GoodF]; C01 holds for every successful invocation started in a state
   where no output written by a failed command is validated by an old log entry ([taint_safe], a
   boolean), in particular after every history whose failures are benign ([fhist_benign]). *)
From NinjaV Require Import Base.Bytes Engine.ScanDefs Engine.ScanSpec Engine.ScanProofs Engine.HistDefs Engine.HistProofs Engine.HistFailDefs Engine.HistFailProofs.
Local Open Scope Z_scope.

(* ---- (0) the extension is conservative: an invocation without faults is [build] *)
Theorem buildF_nofault :
  forall (cmd : edge -> N -> snapshot -> node -> content) (g : graph) (st : hstate) (T : list node),
    buildF cmd g st T [] =
    match build cmd g st T with Some st' => Some (st', false) | None => None end.
Proof. exact HistFailProofs.buildF_nofault. Qed.
Print Assumptions buildF_nofault.

(* ---- (1) one failing invocation, from any state satisfying the invariant.  The failed command is
        identified as the LAST command started: the head of [trace_delta st st']. *)

(* C05 (b): the exit flag is "failed" exactly when a command with a fault was started, and that
   command is the last one started; otherwise the invocation is the successful [build] *)
Theorem C05_exit_failed :
  forall (cmd : edge -> N -> snapshot -> node -> content) (g : graph),
    wf_spec g -> topo_ordered g = true ->
  forall (st : hstate) (T : list node) (fs : faults) (st' : hstate) (failed : bool),
    GoodF cmd g st -> buildF cmd g st T fs = Some (st', failed) ->
    (failed = false ->
       build cmd g st T = Some st' /\
       (forall e : edge, In e (trace_delta st st') -> fault_of fs e = None)) /\
    (failed = true ->
       exists (e : edge) (kd : fail_kind) (rest : list edge),
         trace_delta st st' = e :: rest /\ fault_of fs e = Some kd /\
         (forall e' : edge, In e' rest -> fault_of fs e' = None)).
Proof. exact HistFailProofs.C05_exit_failed_proof. Qed.
Print Assumptions C05_exit_failed.

(* C05 (c): the log entries of the failed command's outputs are the ones from BEFORE the invocation
   (an old entry of an earlier successful run stays, no new one is written); the only entries that
   changed belong to outputs of commands that succeeded in this invocation *)
Theorem C05_failed_not_recorded :
  forall (cmd : edge -> N -> snapshot -> node -> content) (g : graph),
    wf_spec g -> topo_ordered g = true ->
  forall (st : hstate) (T : list node) (fs : faults) (st' : hstate),
    GoodF cmd g st -> buildF cmd g st T fs = Some (st', true) ->
    exists (e : edge) (rest : list edge),
      trace_delta st st' = e :: rest /\ fault_of fs e <> None /\
      (forall o : node, In o (ei_outs (g_edge g e)) -> h_blog st' o = h_blog st o) /\
      (forall n : node,
         h_blog st' n = h_blog st n \/
         (exists j : edge, g_producer g n = Some j /\ In j rest /\ fault_of fs j = None)).
Proof. exact HistFailProofs.C05_failed_not_recorded_proof. Qed.
Print Assumptions C05_failed_not_recorded.

(* C05 (a): no statement that depends on an output of the failed command -- transitively, through
   inputs of every kind -- is started in that invocation; its outputs and their log entries are as
   before the invocation *)
Theorem C05_dependents_not_started :
  forall (cmd : edge -> N -> snapshot -> node -> content) (g : graph),
    wf_spec g -> wf_graph g -> topo_ordered g = true ->
  forall (st : hstate) (T : list node) (fs : faults) (st' : hstate),
    GoodF cmd g st -> buildF cmd g st T fs = Some (st', true) ->
    exists (e : edge) (rest : list edge),
      trace_delta st st' = e :: rest /\
      (forall d : edge, depends_on g e d ->
         ~ In d (trace_delta st st') /\
         (forall o : node, In o (ei_outs (g_edge g d)) ->
            h_disk st' o = h_disk st o /\ h_blog st' o = h_blog st o)).
Proof. exact HistFailProofs.C05_dependents_not_started_proof. Qed.
Print Assumptions C05_dependents_not_started.

(* ---- (2) "so the next invocation runs it again".  [buildF_full] is [buildF] together with the
        failed statement [e], its fault [kd] and the state [stk] in which it was started. *)

(* when it is true: nothing else changes, ninja is run again for the same targets; if that
   invocation gets past its scan it starts [e] again, PROVIDED [rerun_reason]:
     FailDeleted    no condition
     FailUntouched  the statement was must_dirty when it was started (always the case, see
                    [C05_rerun_reason_untouched]); here the state must be Good and the graph without
                    input-less phony statements
     FailWrote      the LOG gives a reason: an output without entry (not a generator rule), with an
                    entry of another command hash (not a generator rule), or with an entry that is
                    older than an input *)
Theorem C05_next_invocation_reruns :
  forall (cmd : edge -> N -> snapshot -> node -> content) (g : graph),
    wf_spec g -> wf_graph g -> frag_AB g = true -> topo_ordered g = true ->
  forall (st : hstate) (T : list node) (fs : faults) (st1 : hstate)
         (e : edge) (kd : fail_kind) (stk st2 : hstate),
    GoodF cmd g st ->
    buildF_full cmd g st T fs = Some (st1, Some (e, kd, stk)) ->
    rerun_reason g stk e kd ->
    (kd = FailUntouched -> Good cmd g st /\ no_inputless_phony g = true) ->
    build cmd g st1 T = Some st2 ->
    In e (trace_delta st1 st2).
Proof. exact HistFailProofs.C05_next_invocation_reruns_proof. Qed.
Print Assumptions C05_next_invocation_reruns.

(* the next invocation IS accepted (no "missing and no known rule", no cycle): the scan of a world
   with the same sources in which nothing clean became dirty is accepted when the first one was *)
Theorem C05_next_invocation_accepted :
  forall (cmd : edge -> N -> snapshot -> node -> content) (g : graph),
    wf_spec g -> wf_graph g -> frag_AB g = true -> topo_ordered g = true ->
  forall (st : hstate) (T : list node) (fs : faults) (st1 : hstate)
         (e : edge) (kd : fail_kind) (stk : hstate),
    GoodF cmd g st -> no_inputless_phony g = true ->
    buildF_full cmd g st T fs = Some (st1, Some (e, kd, stk)) ->
    exists st2 : hstate, build cmd g st1 T = Some st2.
Proof. exact HistFailProofs.next_invocation_accepted_proof. Qed.
Print Assumptions C05_next_invocation_accepted.

(* a command that failed leaving its outputs alone was must_dirty when it was started *)
Theorem C05_rerun_reason_untouched :
  forall (cmd : edge -> N -> snapshot -> node -> content) (g : graph),
    wf_spec g -> wf_graph g -> frag_AB g = true -> topo_ordered g = true ->
  forall (st : hstate) (T : list node) (fs : faults) (st1 : hstate) (e : edge) (stk : hstate),
    GoodF cmd g st -> no_inputless_phony g = true ->
    buildF_full cmd g st T fs = Some (st1, Some (e, FailUntouched, stk)) ->
    rerun_reason g stk e FailUntouched.
Proof. exact HistFailProofs.rerun_reason_untouched_proof. Qed.
Print Assumptions C05_rerun_reason_untouched.

(* the clause of the property for the failures that leave no new file behind, all premises being
   about the failing invocation: the next invocation is accepted and starts the command again *)
Theorem C05_reruns_untouched_or_deleted :
  forall (cmd : edge -> N -> snapshot -> node -> content) (g : graph),
    wf_spec g -> wf_graph g -> frag_AB g = true -> topo_ordered g = true ->
  forall (st : hstate) (T : list node) (fs : faults) (st1 : hstate)
         (e : edge) (kd : fail_kind) (stk : hstate),
    Good cmd g st -> no_inputless_phony g = true ->
    buildF_full cmd g st T fs = Some (st1, Some (e, kd, stk)) ->
    kd = FailUntouched \/ kd = FailDeleted ->
    exists st2 : hstate, build cmd g st1 T = Some st2 /\ In e (trace_delta st1 st2).
Proof. exact HistFailProofs.C05_reruns_untouched_or_deleted_proof. Qed.
Print Assumptions C05_reruns_untouched_or_deleted.

(* the same for every fault with its [rerun_reason] *)
Theorem C05_next_invocation_accepted_and_reruns :
  forall (cmd : edge -> N -> snapshot -> node -> content) (g : graph),
    wf_spec g -> wf_graph g -> frag_AB g = true -> topo_ordered g = true ->
  forall (st : hstate) (T : list node) (fs : faults) (st1 : hstate)
         (e : edge) (kd : fail_kind) (stk : hstate),
    GoodF cmd g st -> no_inputless_phony g = true ->
    buildF_full cmd g st T fs = Some (st1, Some (e, kd, stk)) ->
    rerun_reason g stk e kd ->
    (kd = FailUntouched -> Good cmd g st) ->
    exists st2 : hstate, build cmd g st1 T = Some st2 /\ In e (trace_delta st1 st2).
Proof. exact HistFailProofs.C05_next_invocation_accepted_and_reruns_proof. Qed.
Print Assumptions C05_next_invocation_accepted_and_reruns.

(* whatever faults the next invocation has itself: it cannot exit successfully without having
   started the failed command again *)
Theorem C05_no_success_without_rerun :
  forall (cmd : edge -> N -> snapshot -> node -> content) (g : graph),
    wf_spec g -> wf_graph g -> frag_AB g = true -> topo_ordered g = true ->
  forall (st : hstate) (T : list node) (fs : faults) (st1 : hstate)
         (e : edge) (kd : fail_kind) (stk : hstate) (fs' : faults) (st2 : hstate),
    GoodF cmd g st ->
    buildF_full cmd g st T fs = Some (st1, Some (e, kd, stk)) ->
    rerun_reason g stk e kd ->
    (kd = FailUntouched -> Good cmd g st /\ no_inputless_phony g = true) ->
    buildF cmd g st1 T fs' = Some (st2, false) ->
    In e (trace_delta st1 st2).
Proof. exact HistFailProofs.C05_no_success_without_rerun_proof. Qed.
Print Assumptions C05_no_success_without_rerun.

(* REFUTED without [rerun_reason] (all other premises in their strongest form).  Witness: the listed
   finding id=failed-cmd-rewrote-output, HistFailDefs.ExFail:  build out: cc src ;
   src := 5 ; ninja out (ok) ; rm out ; ninja out: the command REWRITES out and FAILS ; ninja out
   starts nothing: the entry of the first run has the right hash and is not older than src, and the
   rewritten out is newer than src. *)
Theorem C05_next_invocation_reruns_refuted :
  ~ (forall (cmd : edge -> N -> snapshot -> node -> content) (g : graph),
       wf_spec g -> wf_graph g -> frag_AB g = true -> topo_ordered g = true ->
       no_inputless_phony g = true ->
     forall (st : hstate) (T : list node) (fs : faults) (st1 : hstate)
            (e : edge) (kd : fail_kind) (stk st2 : hstate),
       Good cmd g st ->
       buildF_full cmd g st T fs = Some (st1, Some (e, kd, stk)) ->
       build cmd g st1 T = Some st2 ->
       In e (trace_delta st1 st2)).
Proof. exact HistFailProofs.C05_next_invocation_reruns_refuted_proof. Qed.
Print Assumptions C05_next_invocation_reruns_refuted.

(* ---- (3) the invariant with failures.  GoodF = StateOkF /\ LogSoundF: LogSound for the outputs that
        still have their ghost snapshot; a FailWrote run forgets the snapshot of the files it
        rewrites ("tainted": on disk, no snapshot), a successful run sets it again. *)
Theorem goodF_of_good :
  forall (cmd : edge -> N -> snapshot -> node -> content) (g : graph) (st : hstate),
    Good cmd g st -> GoodF cmd g st.
Proof. exact HistFailProofs.goodF_of_good. Qed.
Print Assumptions goodF_of_good.

(* ... and GoodF without tainted outputs is Good *)
Theorem good_of_goodF :
  forall (cmd : edge -> N -> snapshot -> node -> content) (g : graph), wf_spec g ->
  forall st : hstate,
    GoodF cmd g st ->
    (forall (e : edge) (o : node),
       ei_phony (g_edge g e) = false -> In o (ei_outs (g_edge g e)) -> tainted st o = false) ->
    Good cmd g st.
Proof. exact HistFailProofs.good_of_goodF. Qed.
Print Assumptions good_of_goodF.

(* a failing invocation with ARBITRARY faults keeps it *)
Theorem goodF_buildF :
  forall (cmd : edge -> N -> snapshot -> node -> content) (g : graph),
    wf_spec g -> topo_ordered g = true ->
  forall (st : hstate) (T : list node) (fs : faults) (st' : hstate) (failed : bool),
    GoodF cmd g st -> buildF cmd g st T fs = Some (st', failed) -> GoodF cmd g st'.
Proof. exact HistFailProofs.goodF_buildF_proof. Qed.
Print Assumptions goodF_buildF.

(* the invariant of ALL histories: source edits, deletions, command-line changes, successful and
   failing invocations *)
Theorem goodF_hist :
  forall (cmd : edge -> N -> snapshot -> node -> content) (g : graph),
    wf_spec g -> topo_ordered g = true ->
  forall (h : list fstep) (st : hstate),
    GoodF cmd g st -> fhist_ok g h = true -> GoodF cmd g (run_fhist cmd g st h).
Proof. exact HistFailProofs.goodF_hist_proof. Qed.
Print Assumptions goodF_hist.

(* C01 for one successful invocation from a GoodF state, under the BOOLEAN hypothesis on that state
   that no tainted output is validated by an old log entry *)
Theorem C01F_build :
  forall (cmd : edge -> N -> snapshot -> node -> content) (g : graph),
    wf_spec g -> wf_graph g -> frag_AB g = true -> topo_ordered g = true ->
    (forall (e : edge) (h h' : N) (S : snapshot) (o : node),
       ei_generator (g_edge g e) = true -> cmd e h S o = cmd e h' S o) ->
  forall (st : hstate) (T : list node) (st' : hstate),
    GoodF cmd g st -> taint_safe g st = true -> build cmd g st T = Some st' ->
    forall n : node, reach g T n -> content_of st' n = clean_of cmd g st' n.
Proof. exact HistFailProofs.C01F_build_bool_proof. Qed.
Print Assumptions C01F_build.

(* what the boolean means: every tainted output has a stale log entry ... *)
Theorem taint_safe_sound :
  forall g : graph, wf_spec g -> wf_graph g ->
  forall (wh : bool) (st : hstate), taint_okb g wh st = true -> TaintOk g wh st.
Proof. exact HistFailProofs.taint_okb_sound. Qed.
Print Assumptions taint_safe_sound.

(* ... and a stale log entry makes ninja's scan judge the output dirty *)
Theorem stale_entry_must_dirty :
  forall g : graph, wf_spec g -> wf_graph g -> frag_AB g = true ->
  forall (st : hstate) (e : edge) (o : node),
    StateOkF g st -> ei_phony (g_edge g e) = false -> In o (ei_outs (g_edge g e)) ->
    StaleEntry g true st e o -> must_dirty (graph_of g st) (world_of st) o.
Proof. exact HistFailProofs.stale_md. Qed.
Print Assumptions stale_entry_must_dirty.

(* C01 after ANY history with failures, under the boolean hypothesis on the state ninja is started in *)
Theorem C01F_history :
  forall (cmd : edge -> N -> snapshot -> node -> content) (g : graph),
    wf_spec g -> wf_graph g -> frag_AB g = true -> topo_ordered g = true ->
    (forall (e : edge) (h h' : N) (S : snapshot) (o : node),
       ei_generator (g_edge g e) = true -> cmd e h S o = cmd e h' S o) ->
  forall (h : list fstep) (T : list node) (st' : hstate),
    fhist_ok g h = true ->
    taint_safe g (run_fhist cmd g (init_hstate g) h) = true ->
    build cmd g (run_fhist cmd g (init_hstate g) h) T = Some st' ->
    forall n : node, reach g T n -> content_of st' n = clean_of cmd g st' n.
Proof. exact HistFailProofs.C01F_history_proof. Qed.
Print Assumptions C01F_history.

(* the clean statement: if every fault that fired in the history was FailUntouched, FailDeleted, or a
   FailWrote on a statement whose outputs had no log entry that could validate the rewritten files
   (none at all and not a generator rule, or one older than an input) -- [fhist_benign], judged in
   the state the command was started in -- then every later successful invocation yields the clean
   contents.  ("Another command hash" is NOT benign: the command line can be changed back,
   HistFailDefs.ExFail.setcmd_variant.) *)
Theorem C01_after_failures_untouched_or_deleted :
  forall (cmd : edge -> N -> snapshot -> node -> content) (g : graph),
    wf_spec g -> wf_graph g -> frag_AB g = true -> topo_ordered g = true ->
    (forall (e : edge) (h h' : N) (S : snapshot) (o : node),
       ei_generator (g_edge g e) = true -> cmd e h S o = cmd e h' S o) ->
  forall (h : list fstep) (T : list node) (st' : hstate),
    fhist_ok g h = true ->
    fhist_benign cmd g (init_hstate g) h = true ->
    build cmd g (run_fhist cmd g (init_hstate g) h) T = Some st' ->
    forall n : node, reach g T n -> content_of st' n = clean_of cmd g st' n.
Proof. exact HistFailProofs.C01_after_failures_untouched_or_deleted_proof. Qed.
Print Assumptions C01_after_failures_untouched_or_deleted.

(* the same for an invocation given with faults of which none fires (exit flag "ok") *)
Theorem C01_after_failures_buildF :
  forall (cmd : edge -> N -> snapshot -> node -> content) (g : graph),
    wf_spec g -> wf_graph g -> frag_AB g = true -> topo_ordered g = true ->
    (forall (e : edge) (h h' : N) (S : snapshot) (o : node),
       ei_generator (g_edge g e) = true -> cmd e h S o = cmd e h' S o) ->
  forall (h : list fstep) (T : list node) (fs : faults) (st' : hstate),
    fhist_ok g h = true ->
    fhist_benign cmd g (init_hstate g) h = true ->
    buildF cmd g (run_fhist cmd g (init_hstate g) h) T fs = Some (st', false) ->
    forall n : node, reach g T n -> content_of st' n = clean_of cmd g st' n.
Proof. exact HistFailProofs.C01_after_failures_buildF_proof. Qed.
Print Assumptions C01_after_failures_buildF.

(* histories without any FailWrote: benign, and even the invariant Good of HistDefs is kept, so every
   theorem of Properties_C01hist.v / Properties_C02hist.v applies to the states they reach *)
Theorem no_wrote_benign :
  forall (cmd : edge -> N -> snapshot -> node -> content) (g : graph),
    wf_spec g -> topo_ordered g = true ->
  forall (h : list fstep) (st : hstate),
    GoodF cmd g st -> fhist_ok g h = true -> forallb no_wrote h = true ->
    fhist_benign cmd g st h = true.
Proof. exact HistFailProofs.no_wrote_benign_proof. Qed.
Print Assumptions no_wrote_benign.

Theorem good_fhist_no_wrote :
  forall (cmd : edge -> N -> snapshot -> node -> content) (g : graph),
    wf_spec g -> topo_ordered g = true ->
  forall (h : list fstep) (st : hstate),
    Good cmd g st -> fhist_ok g h = true -> forallb no_wrote h = true ->
    Good cmd g (run_fhist cmd g st h).
Proof. exact HistFailProofs.good_fhist_no_wrote_proof. Qed.
Print Assumptions good_fhist_no_wrote.

(* ---- (4) the listed finding as a refutation of C01 over histories with failures *)
(* C01_history of Properties_C01hist.v, stated for histories with failing invocations, is FALSE *)
Theorem C01F_history_refuted :
  ~ (forall (cmd : edge -> N -> snapshot -> node -> content) (g : graph),
       wf_spec g -> wf_graph g -> frag_AB g = true -> topo_ordered g = true ->
       (forall (e : edge) (h h' : N) (S : snapshot) (o : node),
          ei_generator (g_edge g e) = true -> cmd e h S o = cmd e h' S o) ->
     forall (h : list fstep) (T : list node) (st' : hstate),
       fhist_ok g h = true ->
       build cmd g (run_fhist cmd g (init_hstate g) h) T = Some st' ->
       forall n : node, reach g T n -> content_of st' n = clean_of cmd g st' n).
Proof. exact HistFailProofs.C01F_history_refuted_proof. Qed.
Print Assumptions C01F_history_refuted.

(* the witness in full: a graph, a legal history (ending with the invocation that rewrote out and
   failed) after which the invariant GoodF holds but the hypothesis [taint_safe] does NOT; the next
   invocation is accepted, starts nothing, exits successfully, and an output the target needs holds
   999 where a from-scratch build gives 2 *)
Theorem C01_failed_cmd_rewrote_output_refuted :
  exists (g : graph) (h : list fstep) (T : list node) (st' : hstate) (n : node),
    frag_AB g && topo_ordered g && no_inputless_phony g && fhist_ok g h = true /\
    GoodF Ex.cmd g (run_fhist Ex.cmd g (init_hstate g) h) /\
    taint_safe g (run_fhist Ex.cmd g (init_hstate g) h) = false /\
    build Ex.cmd g (run_fhist Ex.cmd g (init_hstate g) h) T = Some st' /\
    trace_delta (run_fhist Ex.cmd g (init_hstate g) h) st' = [] /\
    reach g T n /\
    content_of st' n = Some 999%N /\ clean_of Ex.cmd g st' n = Some 2%N.
Proof. exact HistFailProofs.C01_failed_cmd_rewrote_output_refuted_proof. Qed.
Print Assumptions C01_failed_cmd_rewrote_output_refuted.

(* the witness spelled out, and what the same history does with the other two faults *)
Example C01_failed_cmd_rewrote_output_witness :
  ExFail.hist5 =
    [Plain (Edit 0 5); Plain (Build [1%nat]); Plain (Delete 1);
     BuildF [1%nat] [(0%nat, FailWrote ExFail.garbage)]; Plain (Build [1%nat])] /\
  build Ex.cmd ExFail.g ExFail.st4 [1%nat] = Some ExFail.st4 /\ ExFail.st5 = ExFail.st4 /\
  trace_delta ExFail.st4 ExFail.st5 = [] /\
  content_of ExFail.st5 1%nat = Some 999%N /\ clean_of Ex.cmd ExFail.g ExFail.st5 1%nat = Some 2%N.
Proof. split; [reflexivity|exact ExFail.next_invocation_idle]. Qed.

(* two more shapes of the same defect the model exhibits: the command line is changed, the new
   command rewrites out and fails, the change is taken back (the old entry has the right hash
   again); a GENERATOR rule fails in its very first run after writing out (a generator needs no log
   entry to be clean) *)
Example C01_failed_cmd_rewrote_output_variants :
  (let b := run_fhist Ex.cmd ExFail.g (init_hstate ExFail.g) ExFail.hist_setcmd in
   h_trace b = [0; 0]%nat /\ content_of b 1%nat = Some 999%N /\ clean_of Ex.cmd ExFail.g b 1%nat = Some 2%N) /\
  (let b := run_fhist Ex.cmd (ExFail.mk true) (init_hstate (ExFail.mk true)) ExFail.hist_gen in
   h_trace b = [0%nat] /\ h_blog b 1%nat = None /\
   content_of b 1%nat = Some 999%N /\ clean_of Ex.cmd (ExFail.mk true) b 1%nat = Some 2%N).
Proof.
  split; [exact (proj2 (proj2 ExFail.setcmd_variant))|exact ExFail.generator_variant].
Qed.

(* ---- non-vacuity *)
(* (1): a failing invocation from a state satisfying the invariant, in the 4-statement project of
   HistDefs.Ex: a.src was edited, e0 runs and succeeds, e1 rewrites x.o and fails, e2 (link) and e3
   (phony alias) depend on e1 *)
Example C05_failing_invocation_nonvacuous :
  exists st st' : hstate, GoodF Ex.cmd Ex.g st /\
    buildF Ex.cmd Ex.g st [5%nat] [(1%nat, FailWrote ExFail.garbage)] = Some (st', true) /\
    trace_delta st st' = [1; 0]%nat /\ depends_on Ex.g 1%nat 2%nat /\ depends_on Ex.g 1%nat 3%nat.
Proof. exact HistFailProofs.C05_failing_invocation_nonvacuous_proof. Qed.

(* (2): the premises of the rerun theorems hold for each kind of fault, and the conclusion with them *)
Example C05_next_invocation_reruns_nonvacuous :
  forall kd : fail_kind,
    kd = FailUntouched \/ kd = FailDeleted \/ kd = FailWrote ExFail.garbage ->
    exists st st1 stk st2 : hstate,
      Good Ex.cmd Ex.g st /\ no_inputless_phony Ex.g = true /\
      buildF_full Ex.cmd Ex.g st [5%nat] [(1%nat, kd)] = Some (st1, Some (1%nat, kd, stk)) /\
      rerun_reason Ex.g stk 1%nat kd /\
      build Ex.cmd Ex.g st1 [5%nat] = Some st2 /\ In 1%nat (trace_delta st1 st2).
Proof. exact HistFailProofs.C05_next_invocation_reruns_nonvacuous_proof. Qed.

(* (3): a reachable state with a tainted output (so Good fails, GoodF holds) in which [taint_safe]
   holds, after a benign history; the successful invocation repairs the tainted output *)
Example C01F_nonvacuous :
  fhist_ok Ex.g ExF.hist7 = true /\ tainted ExF.st7 3%nat = true /\
  taint_safe Ex.g ExF.st7 = true /\ fhist_benign Ex.cmd Ex.g Ex.st0 ExF.hist7 = true /\
  GoodF Ex.cmd Ex.g ExF.st7 /\ ~ Good Ex.cmd Ex.g ExF.st7 /\
  exists st' : hstate,
    build Ex.cmd Ex.g ExF.st7 [5%nat] = Some st' /\ reach Ex.g [5%nat] 3%nat /\
    content_of st' 3%nat = clean_of Ex.cmd Ex.g st' 3%nat.
Proof. exact HistFailProofs.C01F_nonvacuous_proof. Qed.

(* a history without FailWrote, with a failing invocation in it *)
Example no_wrote_nonvacuous :
  forallb no_wrote (ExFail.hist_with FailDeleted) = true /\
  fhist_ok ExFail.g (ExFail.hist_with FailDeleted) = true /\
  exists st st' : hstate,
    run_fhist Ex.cmd ExFail.g (init_hstate ExFail.g) (firstn 3 (ExFail.hist_with FailDeleted)) = st /\
    buildF Ex.cmd ExFail.g st [1%nat] [(0%nat, FailDeleted)] = Some (st', true).
Proof. exact HistFailProofs.no_wrote_nonvacuous_proof. Qed.

(* the graphs of the witnesses satisfy the premises about [g] *)
Example C05hist_graphs_nonvacuous :
  wf_spec ExFail.g /\ wf_graph ExFail.g /\
  frag_AB ExFail.g && topo_ordered ExFail.g && no_inputless_phony ExFail.g = true /\
  wf_spec Ex.g /\ wf_graph Ex.g /\ frag_AB Ex.g && topo_ordered Ex.g && no_inputless_phony Ex.g = true.
Proof.
  split; [exact (ExFail_wf_spec false)|]. split; [exact (ExFail_wf_graph false)|].
  split; [vm_compute; reflexivity|]. split; [exact Ex_wf_spec|]. split; [exact Ex_wf_graph|].
  vm_compute. reflexivity.
Qed.
