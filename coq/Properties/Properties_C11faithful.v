(* C11 at history level, the invocation that does a mid-build dyndep load the way ninja does it:
   Engine/HistDyndepFaithful.v [ybuild_ff] = HistDyndepDefs.ybuild_f (HistFaithful's CleanNode machinery) with
   (a) Plan::RefreshDyndepDependents: only the dependents of the loaded dyndep nodes (Plan::UnmarkDependents: out-edges
       that are in want_, transitively through their outputs) are re-scanned, with DependencyScan::RecomputeDirty on
       the LIVE node / edge states (an edge visited before keeps a dirty verdict); a dependent found dirty goes from
       kWantNothing to kWantToStart; Plan::AddSubTarget for the dyndep inputs of the statements that got information;
   (b) a failing load: Builder::FinishCommand returns before BuildLog::RecordCommand -- the producer's outputs are
       written, its log entry is not;
   (c) the load happens exactly when the producer is IN THE PLAN and Plan::EdgeFinished is called for it: it ran, or it
       is kWantNothing (clean, or pruned by Plan::CleanNode) and its inputs became ready (Plan::EdgeMaybeReady).
   Proofs: Engine/HistDyndepFaithfulProofs.v.  Every theorem is restated in full.

   PROVED IN FULL: an invocation in which every dyndep file is loaded at scan time is the same for [ybuild_ff] and
   [ybuild_f] (no premise at all); with the premises of Properties_C11hist and every dyndep file a source, [ybuild_ff]
   = [ybuild_f] = [ybuild] = HistDefs.build on the inlined manifest over every history, and C01 / C02 hold for it.
   PARTIAL: a dyndep file PRODUCED and loaded in the middle of a build ([C11_ff_eq_f_full true false], stated in
   HistDyndepFaithfulProofs.v): not proved; covered by the vm_compute theorems (4) below and by the tie against the engine.
   Missing: an invariant in the style of HistFaithfulProofs.CInv for a graph that changes mid-build and facts about
   RecomputeNodeDirty on an edge visited a second time.  (For that case Properties_C11hist.v has the full theorems about
   [ybuild], the re-evaluating invocation.)
   REFUTED: without [no_inputless_phony] [ybuild_ff] and [ybuild_f] differ: below an always-dirty statement
   [ybuild_f]'s fresh re-scan re-wants what Plan::CleanNode had pruned. *)
From NinjaV Require Import Engine.CrashDefs.
From NinjaV Require Import Base.Bytes Engine.ScanDefs Engine.ScanSpec Engine.ScanProofs Engine.HistDefs Engine.HistProofs Engine.HistFaithful Engine.HistFaithfulProofs Engine.HistDyndepDefs Engine.HistDyndepProofs Engine.HistDyndepFaithful Engine.HistDyndepFaithfulProofs.
Local Open Scope nat_scope.

(* ---- (1) [ybuild_ff] = [ybuild_f] when nothing is pending after the scan-time loads (no premise) *)
Theorem C11_ff_eq_f_noload :
  forall (cmd : edge -> N -> snapshot -> node -> content) (g : graph) (y : dyninfo) (st : hstate) (T : list node),
    no_pending y (scan_loads g y st) = true ->
    yres_of (ybuild_ff cmd g y st T) = ybuild_f cmd g y st T.
Proof. exact HistDyndepFaithfulProofs.C11_ff_eq_f_noload_proof. Qed.
Print Assumptions C11_ff_eq_f_noload.

(* ---- (2) one request in which every dyndep file is ready at scan time (a source, or a clean producer): the four
        invocations accept and end in the same state *)
Theorem C11_ff_allready :
  forall (cmd : edge -> N -> snapshot -> node -> content) (g : graph) (y : dyninfo),
    wf_spec g -> wf_graph g -> wf_y g y -> frag_ABY g y = true ->
    frag_AB (inline_y g y) = true -> topo_ordered (inline_y g y) = true ->
    dd_ins_ordered g y = true -> no_inputless_phony (inline_y g y) = true -> no_late_restat g y = true ->
  forall (st : hstate) (T : list node),
    Good cmd (inline_y g y) st -> srcs_present g y st = true -> targets_produced g T = true ->
    scan_loads g y st = y_dds y ->
    exists st' : hstate,
      ybuild_ff cmd g y st T = FDone st' /\ ybuild_f cmd g y st T = YDone st' /\
      ybuild cmd g y st T = YDone st' /\ build cmd (inline_y g y) st T = Some st'.
Proof. exact HistDyndepFaithfulProofs.C11_ff_allready_proof. Qed.
Print Assumptions C11_ff_allready.

(* ---- (3) every dyndep file a source: equivalence over histories, C01, C02 for [ybuild_ff] *)
Theorem C11_equiv_ff :
  forall (cmd : edge -> N -> snapshot -> node -> content) (g : graph) (y : dyninfo),
    wf_spec g -> wf_graph g -> wf_y g y -> frag_ABY g y = true ->
    frag_AB (inline_y g y) = true -> topo_ordered (inline_y g y) = true ->
    dd_ins_ordered g y = true -> no_inputless_phony (inline_y g y) = true -> all_dd_sources g y = true ->
  forall h : list hstep,
    hist_ok (inline_y g y) h = true ->
    hist_present_y cmd g y (init_hstate (inline_y g y)) h = true ->
    let sf := yrun_hist_ff cmd g y (init_hstate (inline_y g y)) h in
    sf = run_hist cmd (inline_y g y) (init_hstate (inline_y g y)) h /\
    sf = yrun_hist cmd g y (init_hstate (inline_y g y)) h /\
    sf = yrun_hist_f cmd g y (init_hstate (inline_y g y)) h /\
    forall T : list node, srcs_present g y sf = true -> targets_produced g T = true ->
      exists st' : hstate,
        ybuild_ff cmd g y sf T = FDone st' /\ build cmd (inline_y g y) sf T = Some st'.
Proof. exact HistDyndepFaithfulProofs.C11_equiv_ff_proof. Qed.
Print Assumptions C11_equiv_ff.

Theorem C11_C01_ff :
  forall (cmd : edge -> N -> snapshot -> node -> content) (g : graph) (y : dyninfo),
    wf_spec g -> wf_graph g -> wf_y g y -> frag_ABY g y = true ->
    frag_AB (inline_y g y) = true -> topo_ordered (inline_y g y) = true ->
    dd_ins_ordered g y = true -> no_inputless_phony (inline_y g y) = true -> all_dd_sources g y = true ->
    (forall (e : edge) (h h' : N) (S : snapshot) (o : node),
       ei_generator (g_edge (inline_y g y) e) = true -> cmd e h S o = cmd e h' S o) ->
  forall (h : list hstep) (T : list node),
    hist_ok (inline_y g y) h = true ->
    hist_present_y cmd g y (init_hstate (inline_y g y)) h = true ->
    let s := yrun_hist_ff cmd g y (init_hstate (inline_y g y)) h in
    srcs_present g y s = true -> targets_produced g T = true ->
    exists st' : hstate,
      ybuild_ff cmd g y s T = FDone st' /\
      forall n : node, reach (inline_y g y) T n -> content_of st' n = clean_of cmd (inline_y g y) st' n.
Proof. exact HistDyndepFaithfulProofs.C11_C01_ff_proof. Qed.
Print Assumptions C11_C01_ff.

Theorem C11_C02_ff :
  forall (cmd : edge -> N -> snapshot -> node -> content) (g : graph) (y : dyninfo),
    wf_spec g -> wf_graph g -> wf_y g y -> frag_ABY g y = true ->
    frag_AB (inline_y g y) = true -> topo_ordered (inline_y g y) = true ->
    dd_ins_ordered g y = true -> no_inputless_phony (inline_y g y) = true -> all_dd_sources g y = true ->
  forall (h : list hstep) (T : list node) (st' : hstate),
    hist_ok (inline_y g y) h = true ->
    hist_present_y cmd g y (init_hstate (inline_y g y)) h = true ->
    let s := yrun_hist_ff cmd g y (init_hstate (inline_y g y)) h in
    srcs_present g y s = true -> targets_produced g T = true ->
    ybuild_ff cmd g y s T = FDone st' -> ybuild_ff cmd g y st' T = FDone st'.
Proof. exact HistDyndepFaithfulProofs.C11_C02_ff_proof. Qed.
Print Assumptions C11_C02_ff.

(* ---- (4) [ybuild_ff] against [ybuild_f] over histories, with switches.  PARTIAL: proved with every dyndep file a
        source (whatever the first switch); the statement [C11_ff_eq_f_full true false] (produced files) is open. *)
Theorem C11_ff_eq_f_partial :
  forall nip : bool,
  forall (cmd : edge -> N -> snapshot -> node -> content) (g : graph) (y : dyninfo),
    wf_spec g -> wf_graph g -> wf_y g y -> frag_ABY g y = true ->
    frag_AB (inline_y g y) = true -> topo_ordered (inline_y g y) = true ->
    dd_ins_ordered g y = true -> no_late_restat g y = true ->
    (nip = true -> no_inputless_phony (inline_y g y) = true) ->
    (true = true -> all_dd_sources g y = true) ->
  forall h : list hstep,
    hist_ok (inline_y g y) h = true ->
    hist_present_y cmd g y (init_hstate (inline_y g y)) h = true ->
    h_trace (yrun_hist_ff cmd g y (init_hstate (inline_y g y)) h)
    = h_trace (yrun_hist_f cmd g y (init_hstate (inline_y g y)) h).
Proof. exact HistDyndepFaithfulProofs.C11_ff_eq_f_partial_proof. Qed.
Print Assumptions C11_ff_eq_f_partial.

(* REFUTED with both switches off: the first minimal case of the tie *)
Theorem C11_ff_eq_f_nip_refuted :
  ~ (forall (cmd : edge -> N -> snapshot -> node -> content) (g : graph) (y : dyninfo),
    wf_spec g -> wf_graph g -> wf_y g y -> frag_ABY g y = true ->
    frag_AB (inline_y g y) = true -> topo_ordered (inline_y g y) = true ->
    dd_ins_ordered g y = true -> no_late_restat g y = true ->
    (false = true -> no_inputless_phony (inline_y g y) = true) ->
    (false = true -> all_dd_sources g y = true) ->
  forall h : list hstep,
    hist_ok (inline_y g y) h = true ->
    hist_present_y cmd g y (init_hstate (inline_y g y)) h = true ->
    h_trace (yrun_hist_ff cmd g y (init_hstate (inline_y g y)) h)
    = h_trace (yrun_hist_f cmd g y (init_hstate (inline_y g y)) h)).
Proof. exact HistDyndepFaithfulProofs.C11_ff_eq_f_nip_refuted_proof. Qed.
Print Assumptions C11_ff_eq_f_nip_refuted.

(* ---- (5) the two minimal cases (commands per build, most recent first): [ybuild_ff] runs what ninja runs *)
Theorem C11_ff_minimal_cases :
  ExReplay.runs (yapply_step_ff ExAlwaysDD.cmd ExAlwaysDD.g ExAlwaysDD.y) (init_hstate ExAlwaysDD.g) ExAlwaysDD.hist
    = [[2; 1]; [1]; [1]] /\
  ExReplay.runs (yapply_step_f ExAlwaysDD.cmd ExAlwaysDD.g ExAlwaysDD.y) (init_hstate ExAlwaysDD.g) ExAlwaysDD.hist
    = [[2; 1]; [2; 1]; [2; 1]] /\
  ExReplay.runs (yapply_step_ff ExPrunedProducer.cmd ExPrunedProducer.g ExPrunedProducer.y)
                (init_hstate ExPrunedProducer.g) ExPrunedProducer.hist = [[3; 2; 1]; [1]; [1]] /\
  ExReplay.runs (yapply_step_f ExPrunedProducer.cmd ExPrunedProducer.g ExPrunedProducer.y)
                (init_hstate ExPrunedProducer.g) ExPrunedProducer.hist = [[3; 2; 1]; [3; 2; 1]; [3; 2; 1]].
Proof. exact HistDyndepFaithfulProofs.C11_ff_minimal_cases_proof. Qed.
Print Assumptions C11_ff_minimal_cases.

(* ---- (6) the failing load: output written, no log entry, the producer runs again *)
Theorem C11_ff_failing_load :
  match ybuild_ff ExFailingLoad.cmd ExFailingLoad.g ExFailingLoad.y ExFailingLoad.st0 [2],
        ybuild_f ExFailingLoad.cmd ExFailingLoad.g ExFailingLoad.y ExFailingLoad.st0 [2] with
  | FFailed sf, YFailed sy =>
    h_trace sf = [0] /\ h_trace sy = [0] /\ content_of sf 1 = content_of sy 1 /\ content_of sf 1 <> None /\
    h_blog sf 1 = None /\ h_blog sy 1 <> None
  | _, _ => False
  end /\
  ExReplay.runs (yapply_step_ff ExFailingLoad.cmd ExFailingLoad.g ExFailingLoad.y) (init_hstate ExFailingLoad.g)
                ExFailingLoad.hist = [[0]; [1; 0]; []] /\
  ExReplay.runs (yapply_step_f ExFailingLoad.cmd ExFailingLoad.g ExFailingLoad.y) (init_hstate ExFailingLoad.g)
                ExFailingLoad.hist = [[0]; [1]; []].
Proof. exact HistDyndepFaithfulProofs.C11_ff_failing_load_proof. Qed.
Print Assumptions C11_ff_failing_load.

(* ---- (7) a produced file loaded in the middle of the build, by computation: the project ExY (state equal to the
        inlined manifest's), the real replay of the listed finding, the late-restat project *)
Theorem C11_ff_midbuild_examples :
  (let sf := yrun_hist_ff ExY.cmd ExY.g ExY.y (init_hstate (inline_y ExY.g ExY.y)) ExY.hist in
   let sy := yrun_hist ExY.cmd ExY.g ExY.y (init_hstate (inline_y ExY.g ExY.y)) ExY.hist in
   let si := run_hist ExY.cmd (inline_y ExY.g ExY.y) (init_hstate (inline_y ExY.g ExY.y)) ExY.hist in
   h_trace sf = h_trace sy /\ h_trace sf = h_trace si /\ ExY.contents sf = ExY.contents si /\
   h_clock sf = h_clock si /\ map (h_blog sf) ExY.nodes = map (h_blog si) ExY.nodes) /\
  ExReplay.runs (yapply_step_ff ExReplay.cmd ExReplay.g ExReplay.y) (init_hstate ExReplay.g) ExReplay.hist
  = ExReplay.runs (yapply_step ExReplay.cmd ExReplay.g ExReplay.y) (init_hstate ExReplay.g) ExReplay.hist /\
  ExReplay.runs (yapply_step_ff ExLate.cmd ExLate.g ExLate.y) (init_hstate ExLate.g) ExLate.hist
  = ExReplay.runs (yapply_step ExLate.cmd ExLate.g ExLate.y) (init_hstate ExLate.g) ExLate.hist.
Proof. exact HistDyndepFaithfulProofs.C11_ff_midbuild_examples_proof. Qed.
Print Assumptions C11_ff_midbuild_examples.

(* ---- (8) bounded exhaustive comparison for the case without a general theorem.  EVERY history of at most 5 / 7 / 6
        steps over the alphabets HistDyndepFaithful.alpha_ExY / alpha_ExLate / alpha_ExReplay (edits of every source with two
        contents each, command-line changes of the dyndep file's producer and of a bound statement, deletions of an
        output and of the dyndep file, builds): after every step [ybuild_ff] and [ybuild] -- the invocation
        Properties_C11hist.v is about -- have the same trace, clock, contents and log entries (vm_compute over
        59049 + 279936 + 262144 histories, through HistDyndepFaithfulProofs.check_sound). *)
Theorem C11_ff_bounded :
  (forall h, length h <= 5 -> (forall x, In x h -> In x alpha_ExY) ->
     obs_eq ExY.nodes (yrun_hist_ff ExY.cmd ExY.g ExY.y (init_hstate ExY.g) h)
                      (yrun_hist ExY.cmd ExY.g ExY.y (init_hstate ExY.g) h)) /\
  (forall h, length h <= 7 -> (forall x, In x h -> In x alpha_ExLate) ->
     obs_eq [0; 1; 2; 3] (yrun_hist_ff ExLate.cmd ExLate.g ExLate.y (init_hstate ExLate.g) h)
                         (yrun_hist ExLate.cmd ExLate.g ExLate.y (init_hstate ExLate.g) h)) /\
  (forall h, length h <= 6 -> (forall x, In x h -> In x alpha_ExReplay) ->
     obs_eq [0; 1; 2; 3; 4; 5] (yrun_hist_ff ExReplay.cmd ExReplay.g ExReplay.y (init_hstate ExReplay.g) h)
                               (yrun_hist ExReplay.cmd ExReplay.g ExReplay.y (init_hstate ExReplay.g) h)).
Proof. exact HistDyndepFaithfulProofs.C11_ff_bounded_proof. Qed.
Print Assumptions C11_ff_bounded.
