(* C13 -- the two small readers of external bytes never hang and never index out of their input.
   Models: Misc/ClParserDefs.v ([cl_parse], CLParser::Parse of src/clparser.cc, non-Windows branch) and
   Misc/MakeflagsDefs.v ([parse_makeflags], Jobserver::ParseMakeFlagsValue of src/jobserver.cc with glibc's
   sscanf("%d,%d")).  Both are tied to the real code by tools/miscmodel.py.  All statements hold for ALL
   byte strings (NUL, \r, \n included). *)
From NinjaV Require Import Base.Bytes Canon.CanonDefs Misc.ClParserDefs Misc.ClParserProofs
  Misc.MakeflagsDefs Misc.MakeflagsProofs.
Local Open Scope N_scope.

(* CLParser::Parse terminates: the loop fuelled by the length of the output never runs out of fuel (every
   iteration consumes at least one byte: a bare "\r" is consumed as a terminator), it is the fold of the
   loop body over the lines, and the lines are exactly the pieces between "\r", "\n", "\r\n" terminators
   (the relation [splits] is the specification of the splitting: no byte lost, none invented). *)
Theorem C13_clparser_total : forall output pre : bytes,
  cl_parse output pre = Some (fold_left (cl_step pre) (cl_lines output) cl_init) /\
  splits output (cl_lines output).
Proof. exact cl_parse_total. Qed.
Print Assumptions C13_clparser_total.

Theorem C13_clparser_never_out_of_fuel : forall output pre : bytes, cl_parse output pre <> None.
Proof. exact cl_parse_never_out_of_fuel. Qed.
Print Assumptions C13_clparser_never_out_of_fuel.

(* the seeded bug "no progress on a bare \r" is impossible in the model: three lines, the loop ends *)
Example C13_clparser_bare_cr :
  cl_lines [97; 13; 13; 98; 13] = [[97]; []; [98]] /\
  cl_parse [97; 13; 13; 98; 13] [] = Some (mk_cl false [97; 10; 10; 98; 10] []).
Proof. vm_compute. auto. Qed.

(* no line contains a terminator byte *)
Theorem C13_clparser_lines_clean : forall (s : bytes) (ls : list bytes), splits s ls -> Forall no_eol ls.
Proof. exact splits_no_eol. Qed.
Print Assumptions C13_clparser_lines_clean.

(* MAKEFLAGS: the parser is a structurally recursive function (no fuel at all), and the one indexed read
   that is not guarded by a length test, args[0][0], is inside the word: the splitter never yields an
   empty word. *)
Theorem C13_makeflags_words_nonempty : forall (s a : bytes), In a (mf_args s) -> a <> [].
Proof. exact mf_args_nonempty. Qed.
Print Assumptions C13_makeflags_words_nonempty.

Example C13_makeflags_words_nonvacuous : mf_args [32; 45; 106; 9; 9; 110; 32] = [[45; 106]; [110]].
Proof. vm_compute. reflexivity. Qed.

(* every answer is well formed: success carries no error, failure names a malformed --jobserver-fds value *)
Theorem C13_makeflags_ok_no_error : forall env : bytes,
  r_ok (parse_makeflags env) = true -> r_err (parse_makeflags env) = ENone.
Proof. exact parse_ok_no_error. Qed.
Print Assumptions C13_makeflags_ok_no_error.

Example C13_makeflags_ok_nonvacuous : r_ok (parse_makeflags (k_auth ++ [51; 44; 52])) = true.
Proof. vm_compute. reflexivity. Qed.
