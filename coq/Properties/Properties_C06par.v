(* C06 at history level: "At no instant do more commands run than allowed by -j or by each pool's
   depth (one for the console pool).  Each build statement's command runs at most once per
   invocation.  The build always finishes (no deadlock)."
   Model: Engine/HistParPoolDefs.v = the parallel small-step semantics of Engine/HistParDefs.v
   (events Start e / Finish e on the history-level state, see Properties_C01par.v) with pools:
   [pool_of e = None] the default pool, [Some p] pool number p (the console pool is a pool of depth
   1), [depth p = 0] = unlimited exactly as in src/state.h (Pool::ShouldDelayEdge: depth_ != 0).
   [Start e] needs, besides HistParDefs.start_ok (a statement of the graph, still wanted, not phony,
   not running, #running < -j, every input of every kind ready), [pool_ok]: the pool of e is
   unlimited or fewer than [depth] of its statements are running.  Phony statements never run and
   never occupy a slot.  Proofs: Engine/HistParPoolProofs.v.  Every theorem is restated in full.
   Premises, as in Properties_C01par.v: wf_spec g, wf_graph g, frag_AB g = true, topo_ordered g =
   true (acyclicity: the statement numbering is a topological order; schedules are arbitrary),
   Good start state, accepted scan; progress additionally needs -j >= 1 ([jobs_pos]; ninja has no
   -j 0).  NO premise on the depths: 0 is unlimited, anything else admits one command. *)
Require Import Coq.Sorting.Permutation.
From NinjaV Require Import Engine.CrashDefs.
From NinjaV Require Import Base.Bytes Engine.ScanDefs Engine.ScanSpec Engine.ScanProofs Engine.HistDefs Engine.HistProofs Engine.HistFaithful Engine.HistParDefs Engine.HistParProofs Engine.HistParPoolDefs Engine.HistParPoolProofs.
Local Open Scope nat_scope.

(* ---- (a) refinement: a pool-respecting complete schedule is a complete schedule of HistParDefs
        with the same final configuration; every prefix of a pool-valid schedule is pool-valid;
        without pools the pooled semantics is the plain one *)
Theorem par_run_pool_sound :
  forall (cmd : edge -> N -> snapshot -> node -> content) (g : graph)
         (pool_of : edge -> option nat) (depth : nat -> nat)
         (lim : option nat) (st : hstate) (T : list node) (sched : list pevent) (c : pcfg),
    par_run_pool cmd g pool_of depth lim st T sched = PDone c -> par_run cmd g lim st T sched = PDone c.
Proof. exact HistParPoolProofs.par_run_pool_sound_proof. Qed.
Print Assumptions par_run_pool_sound.

Theorem par_build_pool_sound :
  forall (cmd : edge -> N -> snapshot -> node -> content) (g : graph)
         (pool_of : edge -> option nat) (depth : nat -> nat)
         (lim : option nat) (st : hstate) (T : list node) (sched : list pevent) (st' : hstate),
    par_build_pool cmd g pool_of depth lim st T sched = Some st' ->
    par_build_j cmd g lim st T sched = Some st'.
Proof. exact HistParPoolProofs.par_build_pool_sound_proof. Qed.
Print Assumptions par_build_pool_sound.

Theorem par_exec_pool_prefix :
  forall (cmd : edge -> N -> snapshot -> node -> content) (g : graph)
         (pool_of : edge -> option nat) (depth : nat -> nat)
         (lim : option nat) (s1 s2 : list pevent) (c c' : pcfg),
    par_exec_pool cmd g pool_of depth lim (s1 ++ s2) c = POk c' ->
    exists c1 : pcfg,
      par_exec_pool cmd g pool_of depth lim s1 c = POk c1 /\
      par_exec_pool cmd g pool_of depth lim s2 c1 = POk c'.
Proof. exact HistParPoolProofs.par_exec_pool_prefix_proof. Qed.
Print Assumptions par_exec_pool_prefix.

Theorem par_run_nopool :
  forall (cmd : edge -> N -> snapshot -> node -> content) (g : graph) (depth : nat -> nat)
         (lim : option nat) (st : hstate) (T : list node) (sched : list pevent),
    par_run_pool cmd g (fun _ => None) depth lim st T sched = par_run cmd g lim st T sched.
Proof. exact HistParPoolProofs.par_run_nopool_proof. Qed.
Print Assumptions par_run_nopool.

(* ... hence Good, C01, C02 and confluence for EVERY pool-respecting complete schedule *)
Theorem pool_good :
  forall (cmd : edge -> N -> snapshot -> node -> content) (g : graph)
         (pool_of : edge -> option nat) (depth : nat -> nat),
    wf_spec g -> topo_ordered g = true ->
  forall (lim : option nat) (st : hstate) (T : list node) (sched : list pevent) (st' : hstate),
    Good cmd g st -> par_build_pool cmd g pool_of depth lim st T sched = Some st' -> Good cmd g st'.
Proof. exact HistParPoolProofs.pool_good_proof. Qed.
Print Assumptions pool_good.

Theorem C01_pool :
  forall (cmd : edge -> N -> snapshot -> node -> content) (g : graph)
         (pool_of : edge -> option nat) (depth : nat -> nat),
    wf_spec g -> wf_graph g -> frag_AB g = true -> topo_ordered g = true ->
  forall (lim : option nat) (st : hstate) (T : list node) (sched : list pevent) (st' : hstate),
    (forall (e : edge) (h h' : N) (S : snapshot) (o : node),
       ei_generator (g_edge g e) = true -> cmd e h S o = cmd e h' S o) ->
    Good cmd g st ->
    par_build_pool cmd g pool_of depth lim st T sched = Some st' ->
    forall n : node, reach g T n -> content_of st' n = clean_of cmd g st' n.
Proof. exact HistParPoolProofs.C01_pool_proof. Qed.
Print Assumptions C01_pool.

Theorem C02_pool :
  forall (cmd : edge -> N -> snapshot -> node -> content) (g : graph)
         (pool_of : edge -> option nat) (depth : nat -> nat),
    wf_spec g -> wf_graph g -> frag_AB g = true -> topo_ordered g = true ->
  forall (lim : option nat) (st : hstate) (T : list node) (sched : list pevent) (st' : hstate),
    Good cmd g st -> no_inputless_phony g = true ->
    par_build_pool cmd g pool_of depth lim st T sched = Some st' ->
    exists (s : sstate) (p : plan),
      scan (graph_of g st') (world_of st') T = ScanOk s p /\
      (forall e : edge, p_want p e <> Some WantToStart).
Proof. exact HistParPoolProofs.C02_pool_proof. Qed.
Print Assumptions C02_pool.

(* two pool-respecting complete schedules -- under any two pool assignments, depths and job limits --
   run the same set of statements, each once, and end with the same contents in every node *)
Theorem pool_confluent :
  forall (cmd : edge -> N -> snapshot -> node -> content) (g : graph)
         (pool_of : edge -> option nat) (depth : nat -> nat),
    wf_spec g -> wf_graph g -> frag_AB g = true -> topo_ordered g = true ->
  forall (pool_of2 : edge -> option nat) (depth2 : nat -> nat) (lim1 lim2 : option nat)
         (st : hstate) (T : list node) (sched1 sched2 : list pevent) (st1 st2 : hstate),
    (forall (e : edge) (h h' : N) (S : snapshot) (o : node),
       ei_generator (g_edge g e) = true -> cmd e h S o = cmd e h' S o) ->
    Good cmd g st ->
    par_build_pool cmd g pool_of depth lim1 st T sched1 = Some st1 ->
    par_build_pool cmd g pool_of2 depth2 lim2 st T sched2 = Some st2 ->
    (exists l1 l2 : list edge,
       h_trace st1 = l1 ++ h_trace st /\ h_trace st2 = l2 ++ h_trace st /\ Permutation l1 l2) /\
    (forall n : node, content_of st1 n = content_of st2 n).
Proof. exact HistParPoolProofs.pool_confluent_proof. Qed.
Print Assumptions pool_confluent.

(* ... those of the sequential build (HistFaithful.build_f) *)
Theorem pool_same_as_sequential :
  forall (cmd : edge -> N -> snapshot -> node -> content) (g : graph)
         (pool_of : edge -> option nat) (depth : nat -> nat),
    wf_spec g -> wf_graph g -> frag_AB g = true -> topo_ordered g = true ->
  forall (lim : option nat) (st : hstate) (T : list node) (sched : list pevent) (stp stf : hstate),
    (forall (e : edge) (h h' : N) (S : snapshot) (o : node),
       ei_generator (g_edge g e) = true -> cmd e h S o = cmd e h' S o) ->
    Good cmd g st ->
    par_build_pool cmd g pool_of depth lim st T sched = Some stp ->
    build_f cmd g st T = Some stf ->
    (exists lp lf : list edge,
       h_trace stp = lp ++ h_trace st /\ h_trace stf = lf ++ h_trace st /\ Permutation lp lf) /\
    (forall n : node, content_of stp n = content_of stf n).
Proof. exact HistParPoolProofs.pool_same_as_sequential_proof. Qed.
Print Assumptions pool_same_as_sequential.

(* ---- (b) C06, the limits: in every configuration a pool-valid schedule reaches -- by
        [par_exec_pool_prefix]: at every instant of a pool-valid schedule -- at most -j commands
        run, at most [depth q] of pool q when that is not 0, and no statement runs twice at once *)
Theorem C06_limits :
  forall (cmd : edge -> N -> snapshot -> node -> content) (g : graph)
         (pool_of : edge -> option nat) (depth : nat -> nat)
         (lim : option nat) (st : hstate) (s : sstate) (p : plan) (sched : list pevent) (c : pcfg),
    par_exec_pool cmd g pool_of depth lim sched (init_pcfg st s p) = POk c ->
    (forall n : nat, lim = Some n -> length (p_run c) <= n) /\
    (forall q : nat, depth q <> 0 -> pool_use pool_of (p_run c) q <= depth q) /\
    NoDup (map r_edge (p_run c)).
Proof. exact HistParPoolProofs.pool_sched_limits_proof. Qed.
Print Assumptions C06_limits.

(* ---- C06, at most once: in a pool-valid schedule no statement is started twice, none is finished
        twice, only started statements finish (apply to prefixes: only AFTER their start), every
        started one is a statement of the graph, the started ones are exactly the running plus the
        finished ones, and the schedule has at most 2 * #statements events: no schedule is infinite *)
Theorem C06_at_most_once :
  forall (cmd : edge -> N -> snapshot -> node -> content) (g : graph)
         (pool_of : edge -> option nat) (depth : nat -> nat)
         (lim : option nat) (st : hstate) (s : sstate) (p : plan) (sched : list pevent) (c : pcfg),
    par_exec_pool cmd g pool_of depth lim sched (init_pcfg st s p) = POk c ->
    NoDup (starts_of sched) /\ NoDup (finishes_of sched) /\
    incl (finishes_of sched) (starts_of sched) /\
    (forall e : edge, In e (starts_of sched) -> e < g_nedges g) /\
    Permutation (starts_of sched) (map r_edge (p_run c) ++ rev (finishes_of sched)) /\
    p_done c = rev (finishes_of sched) /\
    length sched <= 2 * g_nedges g.
Proof. exact HistParPoolProofs.pool_sched_events_proof. Qed.
Print Assumptions C06_at_most_once.

(* ---- (c) C06, no deadlock: a configuration reached by a pool-valid schedule that is not complete
        is not stuck: every running command can finish, and when nothing runs some statement can
        start within -j and its pool's depth *)
Theorem C06_progress :
  forall (cmd : edge -> N -> snapshot -> node -> content) (g : graph)
         (pool_of : edge -> option nat) (depth : nat -> nat),
    wf_spec g -> wf_graph g -> frag_AB g = true -> topo_ordered g = true ->
  forall (st0 : hstate) (T : list node) (s0 : sstate) (p0 : plan),
    Good cmd g st0 ->
    scan (graph_of g st0) (world_of st0) T = ScanOk s0 p0 ->
  forall (lim : option nat) (sched : list pevent) (c : pcfg),
    jobs_pos lim ->
    par_exec_pool cmd g pool_of depth lim sched (init_pcfg st0 s0 p0) = POk c ->
    complete g c = false ->
    (forall r : prun, In r (p_run c) ->
       exists c' : pcfg, par_step_pool cmd g pool_of depth lim c (Finish (r_edge r)) = POk c') /\
    (p_run c = [] ->
       exists e : edge, start_enabled g pool_of depth lim c e = true /\
                        par_step_pool cmd g pool_of depth lim c (Start e) = POk (do_start g c e)) /\
    (exists (ev : pevent) (c' : pcfg), par_step_pool cmd g pool_of depth lim c ev = POk c').
Proof. exact HistParPoolProofs.pool_progress_proof. Qed.
Print Assumptions C06_progress.

(* ---- C06, the build always finishes: every pool-valid schedule is a prefix of a pool-valid
        COMPLETE schedule of at most 2 * #statements events *)
Theorem C06_always_finishes :
  forall (cmd : edge -> N -> snapshot -> node -> content) (g : graph)
         (pool_of : edge -> option nat) (depth : nat -> nat),
    wf_spec g -> wf_graph g -> frag_AB g = true -> topo_ordered g = true ->
  forall (st0 : hstate) (T : list node) (s0 : sstate) (p0 : plan),
    Good cmd g st0 ->
    scan (graph_of g st0) (world_of st0) T = ScanOk s0 p0 ->
  forall (lim : option nat) (sched : list pevent) (c : pcfg),
    jobs_pos lim ->
    par_exec_pool cmd g pool_of depth lim sched (init_pcfg st0 s0 p0) = POk c ->
    exists (ext : list pevent) (c' : pcfg),
      par_run_pool cmd g pool_of depth lim st0 T (sched ++ ext) = PDone c' /\
      length (sched ++ ext) <= 2 * g_nedges g.
Proof. exact HistParPoolProofs.pool_always_finishes_proof. Qed.
Print Assumptions C06_always_finishes.

(* ... in particular a complete pool-respecting schedule exists for every accepted request *)
Theorem C06_schedule_exists :
  forall (cmd : edge -> N -> snapshot -> node -> content) (g : graph)
         (pool_of : edge -> option nat) (depth : nat -> nat),
    wf_spec g -> wf_graph g -> frag_AB g = true -> topo_ordered g = true ->
  forall (lim : option nat) (st : hstate) (T : list node) (s : sstate) (p : plan),
    jobs_pos lim ->
    Good cmd g st ->
    scan (graph_of g st) (world_of st) T = ScanOk s p ->
    exists (sched : list pevent) (st' : hstate),
      par_build_pool cmd g pool_of depth lim st T sched = Some st'.
Proof. exact HistParPoolProofs.pool_schedule_exists_proof. Qed.
Print Assumptions C06_schedule_exists.

(* ---- non-vacuity: HistParDefs.ExP with pool 0 (depth 1) = the two compiles and pool 1 (depth 2)
        = generate + link, -j 2: every premise holds; compiling one after the other is a complete
        pool-respecting schedule; the interleaved schedule of ExP (both compiles at once) is a
        complete schedule for -j 2 that the pools refuse *)
Example C06_nonvacuous :
  wf_spec ExP.g /\ wf_graph ExP.g /\ frag_AB ExP.g = true /\ topo_ordered ExP.g = true /\
  no_inputless_phony ExP.g = true /\ Good ExP.cmd ExP.g ExP.st1 /\ jobs_pos (Some 2) /\
  ExPool.depth 0 = 1 /\ ExPool.depth 1 = 2 /\
  (exists st' : hstate,
     par_build_pool ExP.cmd ExP.g ExPool.pool_of ExPool.depth (Some 2) ExP.st1 [5] ExPool.one_by_one = Some st') /\
  par_run_pool ExP.cmd ExP.g ExPool.pool_of ExPool.depth (Some 2) ExP.st1 [5] ExP.inter = PInvalid /\
  (exists st' : hstate, par_build_j ExP.cmd ExP.g (Some 2) ExP.st1 [5] ExP.inter = Some st').
Proof. exact HistParPoolProofs.ExPool_nonvacuous_proof. Qed.
Print Assumptions C06_nonvacuous.
