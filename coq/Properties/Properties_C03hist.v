(* C03 at HISTORY level, fragment AB (explicit/implicit/order-only inputs, multiple outputs, phony,
   restat, generator; no depfile/deps/dyndep/validations, no failing commands): rebuilds are minimal.
   After a successful build (a CONVERGED state), a change and another build run a command only if
   (a) its own command line changed and it is not a generator rule, or (b) one of its explicit or
   implicit inputs was changed or rebuilt with a changed mtime, or (c) one of its outputs is missing;
   order-only inputs alone, a restat command that leaves its output untouched, the command line of a
   generator rule, and statements the targets do not need cause no command to run.
   Model: Engine/HistDefs.v; definitions and proofs: Engine/HistMinimal.v.  Every theorem is
   restated in full.

   Vocabulary (Engine/HistMinimal.v):
     Converged g st T        ScanDefs.scan of T on st is accepted and wants nothing (C02's conclusion)
     nobuild h               the history stretch h contains no invocation of ninja
     trace_delta st st'      the commands executed between st and st' (new front of the ghost trace)
     touched st st' n        the mtime of n differs between st and st' (ninja decides by mtime)
     eff_in g e j            j is an explicit or implicit input of e, looking THROUGH phony statements
                             (the output of a phony statement is never a file; ninja looks at the
                             phony statement's own non-order-only inputs instead)
     nonoo_path g s n        s reaches n through non-order-only inputs all the way
   Premises about the manifest graph g, as in Properties_C01hist.v / Properties_C02hist.v: wf_spec,
   wf_graph, frag_AB, topo_ordered, no_inputless_phony (the documented always-dirty case).  The
   command function cmd is arbitrary. *)
From NinjaV Require Import Base.Bytes Engine.ScanDefs Engine.ScanSpec Engine.ScanProofs Engine.HistDefs Engine.HistProofs Engine.HistMinimal.
Local Open Scope Z_scope.

(* ---- (0) the setting is reachable: a successful build from a Good state ends Good and Converged *)
Theorem converged_after_build :
  forall (cmd : edge -> N -> snapshot -> node -> content) (g : graph),
    wf_spec g -> wf_graph g -> frag_AB g = true -> topo_ordered g = true ->
    no_inputless_phony g = true ->
  forall (st0 : hstate) (T : list node) (st : hstate),
    Good cmd g st0 -> build cmd g st0 T = Some st -> Good cmd g st /\ Converged g st T.
Proof. exact HistMinimal.converged_after_build_proof. Qed.
Print Assumptions converged_after_build.

(* the trace delta IS what the invocation executed *)
Theorem C03_trace_delta_spec :
  forall (cmd : edge -> N -> snapshot -> node -> content) (g : graph)
         (st : hstate) (T : list node) (st' : hstate),
    build cmd g st T = Some st' -> h_trace st' = trace_delta st st' ++ h_trace st.
Proof. exact HistMinimal.C03_trace_delta_spec_proof. Qed.
Print Assumptions C03_trace_delta_spec.

(* ---- (1) the main theorem.  [st] converged; any stretch [h] of source edits, file removals and
        command-line changes; the next build of the same targets runs [e] only if
        (a) e is no generator rule and its command line is not the converged one, or
        (b) an explicit/implicit input of e (through phony statements) was touched by the change
            or rewritten -- new mtime -- by this very build, or
        (c) an output of e is missing;
        and e is needed by the targets, is a statement of the graph and not phony. *)
Theorem C03_runs_only_if_affected :
  forall (cmd : edge -> N -> snapshot -> node -> content) (g : graph),
    wf_spec g -> wf_graph g -> frag_AB g = true -> topo_ordered g = true ->
    no_inputless_phony g = true ->
  forall (st : hstate) (h : list hstep) (T : list node) (st2 : hstate) (e : edge),
    Good cmd g st -> Converged g st T -> hist_ok g h = true -> nobuild h = true ->
    build cmd g (run_hist cmd g st h) T = Some st2 ->
    In e (trace_delta (run_hist cmd g st h) st2) ->
    needed g T e /\ (e < g_nedges g)%nat /\ ei_phony (g_edge g e) = false /\
    ((ei_generator (g_edge g e) = false /\ h_hash (run_hist cmd g st h) e <> h_hash st e) \/
     (exists j : node, eff_in g e j /\
        (touched st (run_hist cmd g st h) j \/ touched (run_hist cmd g st h) st2 j)) \/
     (exists o : node, In o (ei_outs (g_edge g e)) /\ h_disk (run_hist cmd g st h) o = None)).
Proof. exact HistMinimal.C03_runs_only_if_affected_proof. Qed.
Print Assumptions C03_runs_only_if_affected.

(* "rewritten by this build" means: the producing statement ran in it, the file carries a tick
   later than anything before the build, and a restat statement wrote a DIFFERENT content (a restat
   command that reproduces the content leaves the file, and its mtime, alone) *)
Theorem C03_rewritten :
  forall (cmd : edge -> N -> snapshot -> node -> content) (g : graph),
    wf_spec g -> topo_ordered g = true ->
  forall (st1 : hstate) (T : list node) (st2 : hstate) (n : node),
    Good cmd g st1 -> build cmd g st1 T = Some st2 -> touched st1 st2 n ->
    exists e : edge,
      g_producer g n = Some e /\ In e (trace_delta st1 st2) /\
      h_clock st1 < mtime_of st2 n /\
      (ei_restat (g_edge g e) = true -> content_of st2 n <> content_of st1 n).
Proof. exact HistMinimal.C03_rewritten_proof. Qed.
Print Assumptions C03_rewritten.

(* ---- (1a) ONE change: the content of one source file *)
Theorem C03_after_edit :
  forall (cmd : edge -> N -> snapshot -> node -> content) (g : graph),
    wf_spec g -> wf_graph g -> frag_AB g = true -> topo_ordered g = true ->
    no_inputless_phony g = true ->
  forall (st : hstate) (T : list node) (s : node) (c : content) (st2 : hstate) (e : edge),
    Good cmd g st -> Converged g st T -> is_source g s = true ->
    build cmd g (write_file st s c) T = Some st2 ->
    In e (trace_delta (write_file st s c) st2) ->
    needed g T e /\ (e < g_nedges g)%nat /\ ei_phony (g_edge g e) = false /\
    exists j : node, eff_in g e j /\ (j = s \/ touched (write_file st s c) st2 j).
Proof. exact HistMinimal.C03_after_edit_proof. Qed.
Print Assumptions C03_after_edit.

(* ---- (1b) ONE change: the command line of one build statement *)
Theorem C03_after_setcmd :
  forall (cmd : edge -> N -> snapshot -> node -> content) (g : graph),
    wf_spec g -> wf_graph g -> frag_AB g = true -> topo_ordered g = true ->
    no_inputless_phony g = true ->
  forall (st : hstate) (T : list node) (e0 : edge) (hh : N) (st2 : hstate) (e : edge),
    Good cmd g st -> Converged g st T ->
    build cmd g (set_cmd st e0 hh) T = Some st2 ->
    In e (trace_delta (set_cmd st e0 hh) st2) ->
    needed g T e /\ (e < g_nedges g)%nat /\ ei_phony (g_edge g e) = false /\
    ((e = e0 /\ ei_generator (g_edge g e0) = false /\ hh <> h_hash st e0) \/
     exists j : node, eff_in g e j /\ touched (set_cmd st e0 hh) st2 j).
Proof. exact HistMinimal.C03_after_setcmd_proof. Qed.
Print Assumptions C03_after_setcmd.

(* ---- (1c) clause (c) made reachable: ONE file removed *)
Theorem C03_after_delete :
  forall (cmd : edge -> N -> snapshot -> node -> content) (g : graph),
    wf_spec g -> wf_graph g -> frag_AB g = true -> topo_ordered g = true ->
    no_inputless_phony g = true ->
  forall (st : hstate) (T : list node) (n : node) (st2 : hstate) (e : edge),
    Good cmd g st -> Converged g st T ->
    build cmd g (delete_file st n) T = Some st2 ->
    In e (trace_delta (delete_file st n) st2) ->
    needed g T e /\ (e < g_nedges g)%nat /\ ei_phony (g_edge g e) = false /\
    (In n (ei_outs (g_edge g e)) \/
     exists j : node, eff_in g e j /\ (j = n \/ touched (delete_file st n) st2 j)).
Proof. exact HistMinimal.C03_after_delete_proof. Qed.
Print Assumptions C03_after_delete.

(* ---- (2) order-only inputs alone.  Whatever happens to its order-only inputs, a statement whose
        command line is the converged one (or which is a generator), whose outputs exist and none of
        whose explicit/implicit inputs is touched by the change or rewritten by the build, is not run *)
Theorem C03_order_only_alone :
  forall (cmd : edge -> N -> snapshot -> node -> content) (g : graph),
    wf_spec g -> wf_graph g -> frag_AB g = true -> topo_ordered g = true ->
    no_inputless_phony g = true ->
  forall (st : hstate) (h : list hstep) (T : list node) (st2 : hstate) (e : edge),
    Good cmd g st -> Converged g st T -> hist_ok g h = true -> nobuild h = true ->
    build cmd g (run_hist cmd g st h) T = Some st2 ->
    (ei_generator (g_edge g e) = true \/ h_hash (run_hist cmd g st h) e = h_hash st e) ->
    (forall o : node, In o (ei_outs (g_edge g e)) -> h_disk (run_hist cmd g st h) o <> None) ->
    (forall j : node, eff_in g e j ->
       ~ touched st (run_hist cmd g st h) j /\ ~ touched (run_hist cmd g st h) st2 j) ->
    ~ In e (trace_delta (run_hist cmd g st h) st2).
Proof. exact HistMinimal.C03_order_only_alone_proof. Qed.
Print Assumptions C03_order_only_alone.

(* the path form: after one source edit, a command runs only if the edited source reaches one of
   its explicit/implicit inputs through NON-order-only inputs all the way; a change that reaches a
   statement only through paths with an order-only hop (at the statement or anywhere below) does
   not re-run it *)
Theorem C03_order_only_path :
  forall (cmd : edge -> N -> snapshot -> node -> content) (g : graph),
    wf_spec g -> wf_graph g -> frag_AB g = true -> topo_ordered g = true ->
    no_inputless_phony g = true ->
  forall (st : hstate) (T : list node) (s : node) (c : content) (st2 : hstate),
    Good cmd g st -> Converged g st T -> is_source g s = true ->
    build cmd g (write_file st s c) T = Some st2 ->
    forall e : edge, In e (trace_delta (write_file st s c) st2) ->
      exists i : node, In i (nonoo_ins g e) /\ nonoo_path g s i.
Proof. exact HistMinimal.C03_order_only_path_proof. Qed.
Print Assumptions C03_order_only_path.

(* ---- (3) restat cut-off.  A statement (command line as converged or generator, outputs present)
        each of whose explicit/implicit inputs is an unmodified file whose own statement, if it ran
        in this build at all, is a restat statement that left the content as it was, is not run *)
Theorem C03_restat_cutoff :
  forall (cmd : edge -> N -> snapshot -> node -> content) (g : graph),
    wf_spec g -> wf_graph g -> frag_AB g = true -> topo_ordered g = true ->
    no_inputless_phony g = true ->
  forall (st : hstate) (h : list hstep) (T : list node) (st2 : hstate) (e : edge),
    Good cmd g st -> Converged g st T -> hist_ok g h = true -> nobuild h = true ->
    build cmd g (run_hist cmd g st h) T = Some st2 ->
    (ei_generator (g_edge g e) = true \/ h_hash (run_hist cmd g st h) e = h_hash st e) ->
    (forall o : node, In o (ei_outs (g_edge g e)) -> h_disk (run_hist cmd g st h) o <> None) ->
    (forall j : node, eff_in g e j ->
       ~ touched st (run_hist cmd g st h) j /\
       (forall e' : edge, g_producer g j = Some e' ->
          In e' (trace_delta (run_hist cmd g st h) st2) ->
          ei_restat (g_edge g e') = true /\
          content_of st2 j = content_of (run_hist cmd g st h) j)) ->
    ~ In e (trace_delta (run_hist cmd g st h) st2).
Proof. exact HistMinimal.C03_restat_cutoff_proof. Qed.
Print Assumptions C03_restat_cutoff.

(* ---- (4) only the command line of a generator rule changes: the next build is accepted, runs no
        command and changes nothing *)
Theorem C03_generator_cmdline :
  forall (cmd : edge -> N -> snapshot -> node -> content) (g : graph),
    wf_spec g -> wf_graph g -> frag_AB g = true -> topo_ordered g = true ->
    no_inputless_phony g = true ->
  forall (st : hstate) (T : list node) (e0 : edge) (hh : N),
    Good cmd g st -> Converged g st T -> ei_generator (g_edge g e0) = true ->
    build cmd g (set_cmd st e0 hh) T = Some (set_cmd st e0 hh) /\
    (forall st2 : hstate, build cmd g (set_cmd st e0 hh) T = Some st2 ->
                          trace_delta (set_cmd st e0 hh) st2 = []).
Proof. exact HistMinimal.C03_generator_cmdline_proof. Qed.
Print Assumptions C03_generator_cmdline.

(* ---- (5) from ANY state: what an invocation runs is needed by the requested targets (through
        inputs of every kind), is a statement of the graph and is not phony *)
Theorem C03_unneeded_not_run :
  forall (cmd : edge -> N -> snapshot -> node -> content) (g : graph),
    wf_spec g -> wf_graph g -> frag_AB g = true ->
  forall (st : hstate) (T : list node) (st' : hstate) (e : edge),
    build cmd g st T = Some st' -> In e (trace_delta st st') ->
    needed g T e /\ (e < g_nedges g)%nat /\ ei_phony (g_edge g e) = false.
Proof. exact HistMinimal.C03_unneeded_not_run_proof. Qed.
Print Assumptions C03_unneeded_not_run.

(* ---- (6) over histories: the main theorem after ANY history from the empty tree that ends in a
        successful build *)
Theorem C03_history :
  forall (cmd : edge -> N -> snapshot -> node -> content) (g : graph),
    wf_spec g -> wf_graph g -> frag_AB g = true -> topo_ordered g = true ->
    no_inputless_phony g = true ->
  forall (h0 : list hstep) (T : list node) (st : hstate) (h : list hstep) (st2 : hstate) (e : edge),
    hist_ok g h0 = true -> build cmd g (run_hist cmd g (init_hstate g) h0) T = Some st ->
    hist_ok g h = true -> nobuild h = true ->
    build cmd g (run_hist cmd g st h) T = Some st2 ->
    In e (trace_delta (run_hist cmd g st h) st2) ->
    needed g T e /\ (e < g_nedges g)%nat /\ ei_phony (g_edge g e) = false /\
    ((ei_generator (g_edge g e) = false /\ h_hash (run_hist cmd g st h) e <> h_hash st e) \/
     (exists j : node, eff_in g e j /\
        (touched st (run_hist cmd g st h) j \/ touched (run_hist cmd g st h) st2 j)) \/
     (exists o : node, In o (ei_outs (g_edge g e)) /\ h_disk (run_hist cmd g st h) o = None)).
Proof. exact HistMinimal.C03_history_proof. Qed.
Print Assumptions C03_history.

(* ---- (7) sanity of the model behind the theorems: [dirty_now] answers "dirty" when the
        re-evaluation scan is refused; for the statements of an accepted plan it never is, so a
        command is only ever run on ScanDefs' own verdict *)
Theorem C03_reevaluation_accepted :
  forall (cmd : edge -> N -> snapshot -> node -> content) (g : graph),
    wf_spec g -> wf_graph g -> frag_AB g = true -> topo_ordered g = true ->
    no_inputless_phony g = true ->
  forall (st0 : hstate) (T : list node) (s0 : sstate) (p0 : plan),
    Good cmd g st0 -> scan (graph_of g st0) (world_of st0) T = ScanOk s0 p0 ->
  forall k : nat, (k < g_nedges g)%nat -> want_start p0 k = true ->
    exists (s : sstate) (p : plan),
      scan (graph_of g (build_upto cmd g p0 k st0)) (world_of (build_upto cmd g p0 k st0))
           (ei_outs (g_edge g k)) = ScanOk s p.
Proof. exact HistMinimal.C03_reevaluation_accepted_proof. Qed.
Print Assumptions C03_reevaluation_accepted.

(* the scan-level fact behind it: ninja's "missing and no known rule" comes with a chain of
   statements with something to remake below them, from a target down to a missing source *)
Theorem C03_scan_missing_sound :
  forall (g : graph) (w : world),
    wf_spec g -> wf_graph g -> frag_AB g = true -> topo_ordered g = true ->
  forall (T : list node) (m : node) (d : option node),
    scan g w T = ScanMissing m d ->
    exists t : node, In t T /\ wch g (unready g w) t m /\ g_producer g m = None /\ w_mtime w m = 0.
Proof. exact HistMinimal.C03_scan_missing_sound_proof. Qed.
Print Assumptions C03_scan_missing_sound.

(* ---- (8) mtime, not content.  Clause (b) read with CONTENT instead of mtime is FALSE of the model,
        as it is of ninja: rewriting a source with the same content re-runs its consumers (witness:
        ExMin, b.src rewritten with 20: e1 runs although b.src and gen.h hold what they held).  Only
        restat statements compare contents (C03_rewritten).  Documented behaviour, not a finding. *)
Theorem C03_content_based_refuted :
  ~ (forall (cmd : edge -> N -> snapshot -> node -> content) (g : graph),
       wf_spec g -> wf_graph g -> frag_AB g = true -> topo_ordered g = true ->
       no_inputless_phony g = true ->
     forall (st : hstate) (T : list node) (s : node) (c : content) (st2 : hstate) (e : edge),
       Good cmd g st -> Converged g st T -> is_source g s = true ->
       build cmd g (write_file st s c) T = Some st2 ->
       In e (trace_delta (write_file st s c) st2) ->
       exists j : node, eff_in g e j /\ content_of st2 j <> content_of st j).
Proof. exact HistMinimal.C03_content_based_refuted_proof. Qed.
Print Assumptions C03_content_based_refuted.

(* ---- non-vacuity: HistMinimal.ExMin, a project with a restat statement (e0), an implicit input
        (e1), a phony group (e2), order-only inputs (e3, e4), a generator rule (e5), a phony
        top-level target (e6) and a statement the target does not need (e7) *)
Example C03_premises_nonvacuous :
  wf_spec ExMin.g /\ wf_graph ExMin.g /\ frag_AB ExMin.g = true /\ topo_ordered ExMin.g = true /\
  no_inputless_phony ExMin.g = true /\
  build ExMin.cmd ExMin.g ExMin.pre ExMin.T = Some ExMin.base /\
  Good ExMin.cmd ExMin.g ExMin.base /\ Converged ExMin.g ExMin.base ExMin.T /\
  h_trace ExMin.base = [5; 4; 3; 1; 0]%nat.
Proof.
  split; [exact ExMin.wf|]. split; [exact ExMin.wfg|]. split; [exact ExMin.frag|].
  split; [exact ExMin.topo|]. split; [exact ExMin.nip|]. split; [exact ExMin.base_build|].
  split; [exact (proj1 ExMin.base_premises)|]. split; [exact (proj2 ExMin.base_premises)|exact ExMin.trace_base].
Qed.

(* one change, then ninja again: Some (commands run, newest first); computed by vm_compute *)
Example C03_deltas_nonvacuous :
  ExMin.next_delta (Edit 0 11) = Some [0%nat] /\                 (* restat cut-off: gen.h keeps its content *)
  ExMin.next_delta (Edit 0 14) = Some [3; 1; 0]%nat /\           (* gen.h changes; e4 (order-only) not run *)
  ExMin.next_delta (Edit 1 21) = Some [4; 3; 1]%nat /\           (* the unneeded e7 not run *)
  ExMin.next_delta (Edit 1 20) = Some [4; 3; 1]%nat /\           (* same content, new mtime: ninja decides by mtime *)
  ExMin.next_delta (SetCmd 5 999) = Some [] /\                   (* generator command line *)
  ExMin.next_delta (Edit 7 31) = Some [5%nat] /\                 (* generator input *)
  ExMin.next_delta (SetCmd 3 203) = Some [3%nat] /\              (* own command line *)
  ExMin.next_delta (Delete 3) = Some [3; 1]%nat.                 (* missing output *)
Proof.
  split; [exact ExMin.delta_restat_cutoff|]. split; [exact ExMin.delta_order_only|].
  split; [exact ExMin.delta_unneeded|]. split; [exact ExMin.delta_same_content|].
  split; [exact ExMin.delta_generator_cmdline|]. split; [exact ExMin.delta_generator_input|].
  split; [exact ExMin.delta_cmdline|exact ExMin.delta_missing_output].
Qed.

(* the path theorem applied instead of computing: whatever is written to a.src, e4 is not run *)
Example C03_order_only_path_nonvacuous :
  forall (c : content) (st2 : hstate),
    build ExMin.cmd ExMin.g (write_file ExMin.base 0%nat c) ExMin.T = Some st2 ->
    ~ In 4%nat (trace_delta (write_file ExMin.base 0%nat c) st2).
Proof. exact ExMin.e4_not_run_by_theorem. Qed.
