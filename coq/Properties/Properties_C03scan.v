(* Scan-level parts of C03 (minimality), C01/C02 (what "dirty" means) and C10 (discovered deps).
   Model: Engine/ScanDefs.v; declarative specification: Engine/ScanSpec.v ([must_dirty],
   [newer_than]); proofs: Engine/ScanProofs.v.  Every theorem is restated in full. *)
From NinjaV Require Import Base.Bytes Engine.ScanDefs Engine.ScanSpec Engine.ScanProofs.
Local Open Scope Z_scope.

(* (1) Exactness of the dirty flags.  After an accepted scan, for EVERY node the scan looked at
   (status known: a stat'ed source, an output of a visited statement) the flag is exactly the
   least fixed point [must_dirty] (missing source; a non-order-only manifest input or usable
   recorded dep that must be remade; input-less phony with a missing output; for real commands:
   missing output, output older than an input unless restat+log entry, command hash changed
   unless generator, recorded mtime older than an input, never recorded unless generator;
   recorded deps missing/out of date), and the mtime of a clean node is the one make semantics
   gives it ([newer_than]: looking through phony statements whose output does not exist).
   Only well-formedness of the graph is assumed (no acyclicity hypothesis: acceptance implies
   it; no [deps_safe]: recorded deps of a statement that is dirty for its own reason are not
   VISITED, which is the C10 refutation below, but they cannot change its own flag). *)
Theorem scan_dirty_spec :
  forall (g : graph) (w : world), wf_spec g ->
  forall (targets : list node) (s : sstate) (p : plan),
    scan g w targets = ScanOk s p ->
    forall n, n_known (st_node s n) = true ->
      (ns_dirty (st_node s n) = true <-> must_dirty g w n) /\
      (ns_dirty (st_node s n) = false ->
       forall x, x < ns_mtime (st_node s n) <-> newer_than g w x n).
Proof. exact scan_dirty_spec. Qed.
Print Assumptions scan_dirty_spec.

Example scan_dirty_spec_nonvacuous :
  wf_spec C10Witness.g /\
  match scan C10Witness.g C10Witness.w [1%nat] with
  | ScanOk s p => ns_dirty (st_node s 1%nat) = true /\ n_known (st_node s 1%nat) = true
  | _ => False
  end.
Proof.
  split; [exact C10Witness.wf|]. pose proof C10Witness.scanned as H.
  destruct (scan C10Witness.g C10Witness.w [1%nat]); try contradiction. tauto.
Qed.

(* (2) C03: a change to order-only inputs alone.  If two disks differ only in the mtimes of
   sources that exist on both and are neither a non-order-only manifest input nor a usable
   recorded dep of any statement, [must_dirty] is the same ... *)
Theorem must_dirty_order_only_indep :
  forall (g : graph) (w w' : world) (X : node -> Prop),
    (forall e o, In o (ei_outs (g_edge g e)) -> g_producer g o = Some e) ->
    worlds_agree_except X w w' -> order_only_sources g w X -> order_only_sources g w' X ->
    forall n, must_dirty g w n <-> must_dirty g w' n.
Proof. exact must_dirty_order_only_indep. Qed.
Print Assumptions must_dirty_order_only_indep.

(* ... and so is every dirty flag the scan computes. *)
Theorem C03_order_only_alone_no_dirty :
  forall (g : graph) (w w' : world) (X : node -> Prop) (targets : list node)
         (s : sstate) (p : plan) (s' : sstate) (p' : plan),
    wf_spec g ->
    worlds_agree_except X w w' -> order_only_sources g w X -> order_only_sources g w' X ->
    scan g w targets = ScanOk s p -> scan g w' targets = ScanOk s' p' ->
    forall n, n_known (st_node s n) = true -> n_known (st_node s' n) = true ->
              ns_dirty (st_node s n) = ns_dirty (st_node s' n).
Proof. exact C03_order_only_alone_no_dirty. Qed.
Print Assumptions C03_order_only_alone_no_dirty.

Example C03_order_only_nonvacuous :
  wf_spec OrderOnlyExample.g /\
  worlds_agree_except OrderOnlyExample.X OrderOnlyExample.w OrderOnlyExample.w' /\
  order_only_sources OrderOnlyExample.g OrderOnlyExample.w OrderOnlyExample.X /\
  order_only_sources OrderOnlyExample.g OrderOnlyExample.w' OrderOnlyExample.X /\
  match scan OrderOnlyExample.g OrderOnlyExample.w [0%nat], scan OrderOnlyExample.g OrderOnlyExample.w' [0%nat] with
  | ScanOk s p, ScanOk s' p' =>
    n_known (st_node s 0%nat) = true /\ n_known (st_node s' 0%nat) = true /\
    ns_dirty (st_node s 0%nat) = false /\ ns_dirty (st_node s' 0%nat) = false /\
    ns_mtime (st_node s 2%nat) = 6 /\ ns_mtime (st_node s' 2%nat) = 50
  | _, _ => False
  end.
Proof.
  split; [exact OrderOnlyExample.wf|]. split; [exact OrderOnlyExample.agree|].
  split; [apply OrderOnlyExample.oos; discriminate|]. split; [apply OrderOnlyExample.oos; discriminate|].
  exact OrderOnlyExample.scans.
Qed.

(* (3) C03: changing only the command line of generator rules. *)
Theorem must_dirty_generator_hash_indep :
  forall (g g' : graph) (w : world),
    same_but_generator_hash g g' -> forall n, must_dirty g w n <-> must_dirty g' w n.
Proof. exact must_dirty_generator_hash_indep. Qed.
Print Assumptions must_dirty_generator_hash_indep.

Theorem C03_generator_cmdline_no_dirty :
  forall (g g' : graph) (w : world) (targets : list node)
         (s : sstate) (p : plan) (s' : sstate) (p' : plan),
    wf_spec g -> wf_spec g' -> same_but_generator_hash g g' ->
    scan g w targets = ScanOk s p -> scan g' w targets = ScanOk s' p' ->
    forall n, n_known (st_node s n) = true -> n_known (st_node s' n) = true ->
              ns_dirty (st_node s n) = ns_dirty (st_node s' n).
Proof. exact C03_generator_cmdline_no_dirty. Qed.
Print Assumptions C03_generator_cmdline_no_dirty.

Example C03_generator_nonvacuous :
  wf_spec GeneratorExample.g /\ wf_spec GeneratorExample.g' /\
  same_but_generator_hash GeneratorExample.g GeneratorExample.g' /\
  match scan GeneratorExample.g GeneratorExample.w [0%nat], scan GeneratorExample.g' GeneratorExample.w [0%nat] with
  | ScanOk s p, ScanOk s' p' =>
    n_known (st_node s 0%nat) = true /\ n_known (st_node s' 0%nat) = true /\
    ns_dirty (st_node s 0%nat) = false /\ ns_dirty (st_node s' 0%nat) = false
  | _, _ => False
  end.
Proof.
  split; [apply GeneratorExample.wf|]. split; [apply GeneratorExample.wf|].
  split; [exact GeneratorExample.same|exact GeneratorExample.scans].
Qed.

(* (1') ... and under [deps_safe] (no statement that is dirty for its own reason has a usable,
   generated recorded dep without a manifest path) nothing the targets need is skipped: every
   statement needed through manifest inputs of any kind or usable recorded deps is visited, and the
   flags of all its outputs are the specified ones.  This is the scan-level C10/C01 partial. *)
Theorem scan_visits_needed :
  forall (g : graph) (w : world), wf_spec g ->
  forall (targets : list node) (s : sstate) (p : plan),
    deps_safe g w -> scan g w targets = ScanOk s p ->
    forall e, needed g w targets e -> es_mark (st_edge s e) = VisitDone.
Proof. exact scan_visits_needed. Qed.
Print Assumptions scan_visits_needed.

Theorem scan_dirty_spec_needed :
  forall (g : graph) (w : world), wf_spec g ->
  forall (targets : list node) (s : sstate) (p : plan),
    deps_safe g w -> scan g w targets = ScanOk s p ->
    forall e o, needed g w targets e -> g_producer g o = Some e ->
      (ns_dirty (st_node s o) = true <-> must_dirty g w o) /\
      (ns_dirty (st_node s o) = false ->
       forall x, x < ns_mtime (st_node s o) <-> newer_than g w x o).
Proof. exact scan_dirty_spec_needed. Qed.
Print Assumptions scan_dirty_spec_needed.

Example scan_visits_needed_nonvacuous :
  wf_spec DepsSafeExample.g /\ deps_safe DepsSafeExample.g DepsSafeExample.w /\
  needed DepsSafeExample.g DepsSafeExample.w [1%nat] 0%nat /\
  match scan DepsSafeExample.g DepsSafeExample.w [1%nat] with
  | ScanOk s p => es_mark (st_edge s 0%nat) = VisitDone /\ es_ins (st_edge s 1%nat) = [3%nat; 0%nat] /\
                  p_want p 0%nat = Some WantToStart /\ p_want p 1%nat = Some WantToStart
  | _ => False
  end.
Proof.
  split; [exact C10Witness.wf|]. split; [exact DepsSafeExample.safe|].
  split; [exact DepsSafeExample.hdr_needed|exact DepsSafeExample.scanned].
Qed.

(* (4) C10, REFUTED: "a usable recorded dep that is generated and must be remade is brought up
   to date (its statement is wanted) whenever the consumer is requested" is false of the
   faithful model.  Witness: consumer dirty for its own reason (its source was edited) and the
   generated header dirty: LoadDepsTry only probes the record, the header's statement is neither
   visited nor put in the plan, the consumer is started against the stale header. *)
Theorem C10_dirty_edge_deps_not_loaded_refuted : ~ C10_recorded_dep_built_full.
Proof. exact C10_dirty_edge_deps_not_loaded_refuted. Qed.
Print Assumptions C10_dirty_edge_deps_not_loaded_refuted.

Example C10_witness :
  valid_deps C10Witness.g C10Witness.w 1%nat = [0%nat] /\
  must_dirty C10Witness.g C10Witness.w 0%nat /\
  match scan C10Witness.g C10Witness.w [1%nat] with
  | ScanOk s p => p_want p 1%nat = Some WantToStart /\ p_want p 0%nat = None /\
                  es_mark (st_edge s 0%nat) = VisitNone /\ es_ins (st_edge s 1%nat) = [3%nat] /\
                  ns_dirty (st_node s 1%nat) = true /\ n_known (st_node s 1%nat) = true
  | _ => False
  end.
Proof.
  split; [exact C10Witness.hdr_recorded_and_valid|]. split; [exact C10Witness.hdr_must_be_remade|].
  exact C10Witness.scanned.
Qed.
