(* C01 at HISTORY level, fragment AB (explicit/implicit/order-only inputs, multiple outputs, phony,
   restat, generator; no depfile/deps/dyndep/validations): a successful incremental build equals a
   clean build, after ANY history of source edits, file deletions, command-line changes and builds.
   Model: Engine/HistDefs.v (semantic state + ScanDefs.scan as the decision procedure);
   proofs: Engine/HistProofs.v.  Every theorem is restated in full.

   Premises of every theorem below, all about the manifest graph [g] and the command function:
     wf_spec g            outputs know their producer and vice versa          (ScanSpec)
     wf_graph g           producers are edges of the graph                    (ScanDefs)
     frag_AB g = true     the fragment (checkable)
     topo_ordered g = true  the edge order is topological (checkable); it is the order the
                          sequential build takes
     cmd                  deterministic function of (statement, command line, contents of the
                          non-order-only inputs); a generator's output does not depend on its
                          own command line. *)
From NinjaV Require Import Base.Bytes Engine.ScanDefs Engine.ScanSpec Engine.ScanProofs Engine.HistDefs Engine.HistProofs.
Local Open Scope Z_scope.

(* ---- (1) the invariant LogSound (+ bookkeeping StateOk = Good) holds initially and is kept by
        every history step *)
Theorem logsound_init :
  forall (cmd : edge -> N -> snapshot -> node -> content) (g : graph),
    LogSound cmd g (init_hstate g).
Proof. exact logsound_init. Qed.
Print Assumptions logsound_init.

Theorem logsound_edit :
  forall (cmd : edge -> N -> snapshot -> node -> content) (g : graph), wf_spec g ->
  forall (st : hstate) (n : node) (c : content),
    Good cmd g st -> is_source g n = true -> LogSound cmd g (write_file st n c).
Proof. exact logsound_edit. Qed.
Print Assumptions logsound_edit.

Theorem logsound_delete :
  forall (cmd : edge -> N -> snapshot -> node -> content) (g : graph) (st : hstate) (n : node),
    Good cmd g st -> LogSound cmd g (delete_file st n).
Proof. exact logsound_delete. Qed.
Print Assumptions logsound_delete.

Theorem logsound_setcmd :
  forall (cmd : edge -> N -> snapshot -> node -> content) (g : graph) (st : hstate) (e : edge) (h : N),
    Good cmd g st -> LogSound cmd g (set_cmd st e h).
Proof. exact logsound_setcmd. Qed.
Print Assumptions logsound_setcmd.

(* run_edge_establishes + unrelated entries preserved: one successful command *)
Theorem logsound_run :
  forall (cmd : edge -> N -> snapshot -> node -> content) (g : graph),
    wf_spec g -> topo_ordered g = true ->
  forall (st : hstate) (e : nat),
    Good cmd g st -> (e < g_nedges g)%nat -> ei_phony (g_edge g e) = false ->
    LogSound cmd g (run_edge cmd g st e).
Proof. exact logsound_run. Qed.
Print Assumptions logsound_run.

(* a whole successful sequential build *)
Theorem logsound_build :
  forall (cmd : edge -> N -> snapshot -> node -> content) (g : graph),
    wf_spec g -> topo_ordered g = true ->
  forall (st : hstate) (T : list node) (st' : hstate),
    Good cmd g st -> build cmd g st T = Some st' -> Good cmd g st'.
Proof. exact logsound_build. Qed.
Print Assumptions logsound_build.

Theorem good_hist :
  forall (cmd : edge -> N -> snapshot -> node -> content) (g : graph),
    wf_spec g -> topo_ordered g = true ->
  forall (h : list hstep) (st : hstate),
    Good cmd g st -> hist_ok g h = true -> Good cmd g (run_hist cmd g st h).
Proof. exact good_hist. Qed.
Print Assumptions good_hist.

(* ---- (2) scan_clean_correct: in a LogSound state, an output that ScanDefs' dirty test judges
        clean ([must_dirty] is what the flags equal, ScanProofs.scan_dirty_spec) holds the
        content of a clean build.  "The inputs are up to date" is not a premise: cleanliness is
        hereditary along non-order-only inputs and the proof is by induction on the edge order. *)
Theorem scan_clean_correct :
  forall (cmd : edge -> N -> snapshot -> node -> content) (g : graph),
    wf_spec g -> wf_graph g -> frag_AB g = true -> topo_ordered g = true ->
    (forall (e : edge) (h h' : N) (S : snapshot) (o : node),
       ei_generator (g_edge g e) = true -> cmd e h S o = cmd e h' S o) ->
  forall st : hstate, Good cmd g st ->
  forall e : nat, (e < g_nedges g)%nat -> ei_phony (g_edge g e) = false ->
  forall o : node, In o (ei_outs (g_edge g e)) ->
    ~ must_dirty (graph_of g st) (world_of st) o ->
    exists (m : Z) (c : content), h_disk st o = Some (m, c) /\ clean_of cmd g st o = Some c.
Proof. exact scan_clean_correct. Qed.
Print Assumptions scan_clean_correct.

(* ---- (3) what the plan of an accepted scan means in the fragment (the link between
        ScanDefs' want map and the declarative dirty state) *)
Theorem scan_want_sound :
  forall (g : graph) (w : world), wf_spec g -> wf_graph g -> frag_AB g = true ->
  forall (T : list node) (s : sstate) (p : plan), scan g w T = ScanOk s p ->
  forall e : edge, p_want p e = Some WantToStart ->
    neededE g T e /\ (exists o : node, In o (ei_outs (g_edge g e)) /\ must_dirty g w o).
Proof. exact scan_want_sound. Qed.
Print Assumptions scan_want_sound.

Theorem scan_want_complete :
  forall (g : graph) (w : world), wf_spec g -> wf_graph g -> frag_AB g = true ->
  forall (T : list node) (s : sstate) (p : plan), scan g w T = ScanOk s p ->
  forall e : edge, neededE g T e ->
    (exists o : node, In o (ei_outs (g_edge g e)) /\ must_dirty g w o) ->
    ~ (ei_phony (g_edge g e) = true /\ ei_ins (g_edge g e) = []) ->
    p_want p e = Some WantToStart /\
    (forall i : node, In i (ei_ins (g_edge g e)) -> g_producer g i = None -> w_mtime w i <> 0).
Proof. exact scan_want_complete. Qed.
Print Assumptions scan_want_complete.

(* ---- (4) C01 for one invocation: after a successful build from a LogSound state every node the
        targets need, through inputs of every kind, holds exactly what a from-scratch build of
        the current sources and command lines produces *)
Theorem C01_build_equals_clean :
  forall (cmd : edge -> N -> snapshot -> node -> content) (g : graph),
    wf_spec g -> wf_graph g -> frag_AB g = true -> topo_ordered g = true ->
    (forall (e : edge) (h h' : N) (S : snapshot) (o : node),
       ei_generator (g_edge g e) = true -> cmd e h S o = cmd e h' S o) ->
  forall (st : hstate) (T : list node) (st' : hstate),
    Good cmd g st -> build cmd g st T = Some st' ->
    forall n : node, reach g T n -> content_of st' n = clean_of cmd g st' n.
Proof. exact C01_build_equals_clean. Qed.
Print Assumptions C01_build_equals_clean.

(* ---- (5) C01 over histories: unbounded in the size of the graph and the length of the history *)
Theorem C01_history :
  forall (cmd : edge -> N -> snapshot -> node -> content) (g : graph),
    wf_spec g -> wf_graph g -> frag_AB g = true -> topo_ordered g = true ->
    (forall (e : edge) (h h' : N) (S : snapshot) (o : node),
       ei_generator (g_edge g e) = true -> cmd e h S o = cmd e h' S o) ->
  forall (h : list hstep) (T : list node) (st' : hstate),
    hist_ok g h = true ->
    build cmd g (run_hist cmd g (init_hstate g) h) T = Some st' ->
    forall n : node, reach g T n -> content_of st' n = clean_of cmd g st' n.
Proof. exact C01_history. Qed.
Print Assumptions C01_history.

(* ---- (6) the clause about edits while a command runs.  Positive half, for plain rules: the
        invariant survives (the log entry carries the start tick), so the next build is right *)
Theorem C01_racy_plain_recovers :
  forall (cmd : edge -> N -> snapshot -> node -> content) (g : graph),
    wf_spec g -> wf_graph g -> frag_AB g = true -> topo_ordered g = true ->
    (forall (e : edge) (h h' : N) (S : snapshot) (o : node),
       ei_generator (g_edge g e) = true -> cmd e h S o = cmd e h' S o) ->
  forall (st : hstate) (e : nat) (n : node) (c : content) (T : list node) (st' : hstate),
    Good cmd g st -> (e < g_nedges g)%nat -> ei_phony (g_edge g e) = false ->
    ei_restat (g_edge g e) = false -> ei_generator (g_edge g e) = false ->
    is_source g n = true ->
    build cmd g (run_edge_racy cmd g st e n c) T = Some st' ->
    forall x : node, reach g T x -> content_of st' x = clean_of cmd g st' x.
Proof. exact C01_racy_plain_recovers. Qed.
Print Assumptions C01_racy_plain_recovers.

(* Negative half, the exception the property states: WITHOUT the premises "neither restat nor
   generator" the statement is false: with a generator rule, or a restat rule whose output
   changed, the entry carries the OUTPUT's time, later than the edit; the next run does nothing
   and the output is stale.  Witnesses: HistDefs.ExRace (by computation). *)
Theorem C01_racy_generator_refuted :
  ~ (forall (cmd : edge -> N -> snapshot -> node -> content) (g : graph),
       wf_spec g -> wf_graph g -> frag_AB g = true -> topo_ordered g = true ->
       (forall (e : edge) (h h' : N) (S : snapshot) (o : node),
          ei_generator (g_edge g e) = true -> cmd e h S o = cmd e h' S o) ->
     forall (st : hstate) (e : nat) (n : node) (c : content) (T : list node) (st' : hstate),
       Good cmd g st -> (e < g_nedges g)%nat -> ei_phony (g_edge g e) = false ->
       is_source g n = true ->
       build cmd g (run_edge_racy cmd g st e n c) T = Some st' ->
       forall x : node, reach g T x -> content_of st' x = clean_of cmd g st' x).
Proof. exact C01_racy_generator_refuted. Qed.
Print Assumptions C01_racy_generator_refuted.

Theorem C01_racy_restat_refuted : ~ C01_racy_full.
Proof. exact C01_racy_restat_refuted. Qed.
Print Assumptions C01_racy_restat_refuted.

Example C01_racy_witnesses :
  (let g := ExRace.mk false true in
   h_trace (ExRace.next g) = [0%nat] /\
   content_of (ExRace.next g) 1%nat <> clean_of Ex.cmd g (ExRace.next g) 1%nat) /\
  (let g := ExRace.mk true false in
   h_trace (ExRace.next g) = [0%nat] /\
   content_of (ExRace.next g) 1%nat <> clean_of Ex.cmd g (ExRace.next g) 1%nat).
Proof. split; [exact ExRace.generator_rule_stale|exact ExRace.restat_rule_stale]. Qed.

Example C01_racy_plain_example :
  let g := ExRace.mk false false in
  h_trace (ExRace.next g) = [0; 0]%nat /\
  content_of (ExRace.next g) 1%nat = clean_of Ex.cmd g (ExRace.next g) 1%nat.
Proof. exact ExRace.plain_rule_recovers. Qed.

(* why histories edit SOURCES only ([hist_ok]): an output overwritten by hand stays *)
Example C01_tampered_output_refuted :
  let st := run_hist Ex.cmd Ex.g Ex.st0 Ex.hist_tamper in
  hist_ok Ex.g Ex.hist_tamper = false /\ content_of st 3%nat <> clean_of Ex.cmd Ex.g st 3%nat.
Proof. exact Ex.tamper_output_stale. Qed.

(* ---- non-vacuity: the 4-statement project of HistDefs.Ex (a restat statement, a statement with
        an implicit input, one with an order-only input, a phony alias) satisfies every premise;
        the 5-step and the 9-step history are legal, their builds succeed, the restat pruning
        happens (second build runs e0 only), and the contents are the clean ones *)
Example C01_history_nonvacuous :
  wf_spec Ex.g /\ wf_graph Ex.g /\ frag_AB Ex.g = true /\ topo_ordered Ex.g = true /\
  (forall (e : edge) (h h' : N) (S : snapshot) (o : node),
     ei_generator (g_edge Ex.g e) = true -> Ex.cmd e h S o = Ex.cmd e h' S o) /\
  hist_ok Ex.g Ex.hist5 = true /\ hist_ok Ex.g Ex.hist9 = true /\
  (exists st', build Ex.cmd Ex.g (run_hist Ex.cmd Ex.g Ex.st0 Ex.hist9) [5%nat] = Some st') /\
  h_trace (run_hist Ex.cmd Ex.g Ex.st0 Ex.hist5) = [0; 2; 1; 0]%nat /\
  Ex.contents (run_hist Ex.cmd Ex.g Ex.st0 Ex.hist9) = [Some 14; Some 20; Some 7; Some 186; Some 765; None]%N.
Proof.
  split; [exact Ex_wf_spec|]. split; [exact Ex_wf_graph|].
  split; [vm_compute; reflexivity|]. split; [vm_compute; reflexivity|].
  split; [exact Ex_gen|]. split; [vm_compute; reflexivity|]. split; [vm_compute; reflexivity|].
  split; [vm_compute; eexists; reflexivity|]. split; vm_compute; reflexivity.
Qed.

(* every node of the closure of {all} really is reachable, so the conclusion talks about them *)
Example C01_reach_nonvacuous : forall n, In n [5; 4; 3; 2; 1; 0]%nat -> reach Ex.g [5%nat] n.
Proof.
  assert (R5 : reach Ex.g [5%nat] 5%nat) by (apply reach_target; left; reflexivity).
  assert (R4 : reach Ex.g [5%nat] 4%nat).
  { apply (reach_step Ex.g (manifest_ins Ex.g) [5%nat] 5%nat 4%nat R5). exists 3%nat. split; [reflexivity|left; reflexivity]. }
  assert (R3 : reach Ex.g [5%nat] 3%nat).
  { apply (reach_step Ex.g (manifest_ins Ex.g) [5%nat] 4%nat 3%nat R4). exists 2%nat. split; [reflexivity|left; reflexivity]. }
  assert (R2 : reach Ex.g [5%nat] 2%nat).
  { apply (reach_step Ex.g (manifest_ins Ex.g) [5%nat] 4%nat 2%nat R4). exists 2%nat. split; [reflexivity|right; left; reflexivity]. }
  assert (R1 : reach Ex.g [5%nat] 1%nat).
  { apply (reach_step Ex.g (manifest_ins Ex.g) [5%nat] 3%nat 1%nat R3). exists 1%nat. split; [reflexivity|left; reflexivity]. }
  assert (R0 : reach Ex.g [5%nat] 0%nat).
  { apply (reach_step Ex.g (manifest_ins Ex.g) [5%nat] 2%nat 0%nat R2). exists 0%nat. split; [reflexivity|left; reflexivity]. }
  intros n [<-|[<-|[<-|[<-|[<-|[<-|[]]]]]]]; assumption.
Qed.
