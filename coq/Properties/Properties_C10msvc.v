(* C10 (deps=msvc) -- the dependencies discovered from /showIncludes output are exactly the reported ones,
   and the text shown to the user is exactly the rest.
   Model: Misc/ClParserDefs.v ([cl_parse] = CLParser::Parse, src/clparser.cc, non-Windows branch; [canon] =
   CanonicalizePath), tied to the real code by tools/miscmodel.py.  For ALL byte strings. *)
From NinjaV Require Import Base.Bytes Canon.CanonDefs Misc.ClParserDefs Misc.ClParserProofs.
Local Open Scope N_scope.

(* Conservation.  Every line gets exactly one class ([classify_all] is a function: include / dropped source
   echo / kept); the filtered output is exactly the kept lines, unaltered, in order, each followed by "\n";
   the include set is the set of the non-system canonicalised include paths; seen_show_includes is "some
   line was an include line". *)
Theorem C10_clparser_conservation : forall output pre : bytes,
  let cls := classify_all pre false (cl_lines output) in
  cl_parse output pre =
    Some (mk_cl (existsb (inc_line pre) (cl_lines output)) (kept_of cls) (insert_all (incs_of cls) [])).
Proof. exact cl_parse_conservation. Qed.
Print Assumptions C10_clparser_conservation.

Theorem C10_clparser_classes_cover_lines : forall (pre : bytes) (ls : list bytes) (seen : bool),
  map fst (classify_all pre seen ls) = ls.
Proof. exact classify_all_lines. Qed.
Print Assumptions C10_clparser_classes_cover_lines.

Theorem C10_clparser_kept_exact : forall cls : list (bytes * line_class),
  kept_of cls = concat (map (fun lc => fst lc ++ [b_lf])
                       (filter (fun lc => match snd lc with LKeep => true | _ => false end) cls)).
Proof. exact kept_of_spec. Qed.
Print Assumptions C10_clparser_kept_exact.

(* The include set: no duplicates, and x is in it iff some line is an include line (FilterShowIncludes
   non-empty), x is the canonicalised path and x is not a system include.  Nothing else. *)
Theorem C10_clparser_includes_exact : forall (output pre : bytes) (st : cl_state),
  cl_parse output pre = Some st ->
  NoDup (cs_incs st) /\
  forall x, In x (cs_incs st) <->
    exists line, In line (cl_lines output) /\ filter_show_includes line pre <> [] /\
                 x = canon (filter_show_includes line pre) /\ is_system_include x = false.
Proof. exact cl_includes_exact. Qed.
Print Assumptions C10_clparser_includes_exact.

(* ... where an include line is: the (localized, else English) prefix, then a non-empty rest; the path is
   the rest without its leading spaces (and must be non-empty itself). *)
Theorem C10_clparser_include_line : forall line pre inc : bytes, inc <> [] ->
  (filter_show_includes line pre = inc <->
   exists rest, line = eff_prefix pre ++ rest /\ rest <> [] /\ inc = drop_spaces rest).
Proof. exact filter_show_includes_spec. Qed.
Print Assumptions C10_clparser_include_line.

Example C10_clparser_nonvacuous :
  (* "Note: including file:   a/./b/../c.h\r\nfoo.cc\rx\n" *)
  cl_parse (k_english ++ [32; 32; 97; 47; 46; 47; 98; 47; 46; 46; 47; 99; 46; 104; 13; 10; 102; 111; 111; 46; 99; 99; 13; 120; 10]) []
  = Some (mk_cl true [102; 111; 111; 46; 99; 99; 10; 120; 10] [[97; 47; 99; 46; 104]]).
Proof. vm_compute. reflexivity. Qed.

(* A source-file echo is dropped only BEFORE the first include line: the line at position |l1| is dropped
   iff no earlier line is an include line, it is not one itself and it ends in .c/.cc/.cxx/.cpp/.c++ . *)
Theorem C10_clparser_drop_only_before_first_include : forall (output pre : bytes) (l1 : list bytes) (l : bytes) (l2 : list bytes),
  cl_lines output = l1 ++ l :: l2 ->
  let c := classify pre (existsb (inc_line pre) l1) l in
  nth_error (classify_all pre false (cl_lines output)) (length l1) = Some (l, c) /\
  (c = LDrop <-> (forall l', In l' l1 -> filter_show_includes l' pre = []) /\
                 filter_show_includes l pre = [] /\ filter_input_filename l = true).
Proof. exact cl_drop_only_before_first_include. Qed.
Print Assumptions C10_clparser_drop_only_before_first_include.

Example C10_clparser_drop_nonvacuous :
  (* "foo.cc\nNote: including file: x.h\nfoo.cc\n": the first echo is dropped, the second is kept *)
  cl_parse ([102; 111; 111; 46; 99; 99; 10] ++ k_english ++ [120; 46; 104; 10] ++ [102; 111; 111; 46; 99; 99; 10]) []
  = Some (mk_cl true [102; 111; 111; 46; 99; 99; 10] [[120; 46; 104]]).
Proof. vm_compute. reflexivity. Qed.

(* Quirk: a line equal to the prefix alone, or the prefix followed only by spaces, is never an include
   line (it stays in the output unless it happens to look like a source-file echo). *)
Theorem C10_clparser_prefix_only_not_include : forall (pre : bytes) (n : nat),
  filter_show_includes (eff_prefix pre ++ repeat b_sp n) pre = [].
Proof. exact prefix_and_spaces_not_include. Qed.
Print Assumptions C10_clparser_prefix_only_not_include.

Example C10_clparser_prefix_only_kept :
  cl_parse (k_english ++ [10] ++ k_english ++ [32; 32; 13; 10]) []
  = Some (mk_cl false (k_english ++ [10] ++ k_english ++ [32; 32; 10]) []).
Proof. vm_compute. reflexivity. Qed.

(* Quirk: a localized prefix replaces the English one entirely: under the prefix "P: " an English include
   line is ordinary output, and no dependency is recorded. *)
Example C10_clparser_localized_replaces_english :
  cl_parse (k_english ++ [120; 46; 104; 10] ++ [80; 58; 32; 121; 46; 104; 10]) [80; 58; 32]
  = Some (mk_cl true (k_english ++ [120; 46; 104; 10]) [[121; 46; 104]]).
Proof. vm_compute. reflexivity. Qed.
