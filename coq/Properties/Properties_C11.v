(* C11 (file-level part) -- dyndep information behaves as if written in the manifest; invalid dyndep
   files are rejected -- and the C13 part for the dyndep parser (total, never past the NUL).

   Model: Dyndep/DyndepDefs.v, a transliteration of src/lexer.in.cc (the scanners the dyndep parser
   uses), src/dyndep_parser.cc (WITH the fix "propagate lexer errors in DyndepParser::ParseEdge"),
   src/dyndep.cc (LoadDyndeps / UpdateEdge), src/version.cc (ParseVersion), checked against the real
   code by tools/dyndepmodel.py (harness/run_dyndep.cc), zero differences.
     parse_gen chk c      DyndepParser::Parse on file content c ([chk] = the two checks against the State)
     parse_dyndep c       the pure syntax ([chk] = none)
     load_dyndep g f l    DyndepLoader::LoadDyndeps after the parse: one-to-one checks + UpdateEdge
     dyndep_load g f c    the whole of LoadDyndeps(node) (c = None: file missing)
     inline_dyndep g l    the manifest-level meaning: the information written into the build statements
     print_dyndep l       canonical rendering of a statement list
   The schedule-level part of C11 (same commands / order / final state) is elsewhere (engine). *)
From NinjaV Require Import Base.Bytes Canon.CanonDefs Dyndep.DyndepDefs Dyndep.DyndepProofs.
Local Open Scope N_scope.

(* ------------------------------------------------------------------------------------------ *)
(** * Loading = inlining *)

(* Graph level.  The [graph] record holds what the engine observes of an edge (outputs + implicit
   count, inputs + implicit / order-only counts, dyndep binding, sources of the restat flag;
   producers and out-edges are functions of these), hence plain equality.
   Hypothesis: the dyndep file is listed ONCE among the inputs of a bound edge (needed: see the
   refutation).  No hypothesis about binding scopes any more: since the fix the parser gives every
   edge with a dyndep binding a scope of its own, which is where UpdateEdge binds restat. *)
Theorem C11_load_is_inline : forall g f stmts g',
  listed_once g f ->
  load_dyndep g f stmts = Ok g' -> g' = inline_dyndep g stmts.
Proof. exact C11_load_is_inline_proof. Qed.
Print Assumptions C11_load_is_inline.

(* File level: whatever bytes the loader accepts, the result is the inlined graph of the statements
   the file denotes. *)
Theorem C11_file_load_is_inline : forall g f c g',
  listed_once g f ->
  dyndep_load g f (Some c) = Ok g' ->
  exists stmts, parse_dyndep c = Ok stmts /\ g' = inline_dyndep g stmts.
Proof. exact C11_file_load_is_inline_proof. Qed.
Print Assumptions C11_file_load_is_inline.

Theorem C11_load_print : forall g f stmts,
  Forall (fun st => wf_stmt st = true) stmts -> check_stmts g [] stmts = None ->
  dyndep_load g f (Some (print_dyndep stmts)) = load_dyndep g f stmts.
Proof. exact C11_load_print_proof. Qed.
Print Assumptions C11_load_print.

(* The fix, for all graphs and all statement lists (no hypothesis): a load never touches the
   file-level scope, so the restat flag of the edges the file does not mention is what it was. *)
Theorem C11_load_keeps_file_scope : forall g f stmts g',
  load_dyndep g f stmts = Ok g' -> g_file_restat g' = g_file_restat g.
Proof. exact C11_load_keeps_file_scope_proof. Qed.
Print Assumptions C11_load_keeps_file_scope.

(* REFUTED without the hypothesis (finding about the real code, reproduced on it): a dyndep file
   listed twice among the inputs of a bound edge makes UpdateEdge run twice. *)
Theorem C11_load_is_inline_unconditional_refuted : ~ C11_load_is_inline_full.
Proof. exact C11_load_is_inline_full_refuted. Qed.
Print Assumptions C11_load_is_inline_unconditional_refuted.

Theorem C11_listed_twice_witness :
  exists g f stmts g', load_dyndep g f stmts = Ok g' /\ g' <> inline_dyndep g stmts.
Proof. exact C11_load_is_inline_refuted_listed_twice. Qed.
Print Assumptions C11_listed_twice_witness.

(* REFUTATION ABOUT THE OLD CODE ([load_dyndep_old] = the loader with UpdateEdge as it was before
   "fix: give an edge whose dyndep binding comes from its rule a scope of its own"): "restat = 1" of a dyndep file
   for an edge whose dyndep binding comes from its RULE (no indented binding => Edge::env_ was the
   file-level scope) made EVERY edge of the manifest a restat edge.  The defect was found by this
   model, reproduced on the real code and fixed in /repo. *)
Theorem C11_restat_leak_witness :
  exists g f stmts g', load_dyndep_old g f stmts = Ok g' /\ g' <> inline_dyndep g stmts /\
    exists e e', nth_error (g_edges g') 1 = Some e' /\
                 nth_error (g_edges (inline_dyndep g stmts)) 1 = Some e /\
                 edge_restat g' e' = true /\ edge_restat (inline_dyndep g stmts) e = false.
Proof. exact C11_old_load_refuted_restat_leak. Qed.
Print Assumptions C11_restat_leak_witness.

(* ... and the same scenario with the fixed loader *)
Theorem C11_restat_leak_fixed :
  load_dyndep w_leak_graph w_dd w_leak_stmts = Ok (inline_dyndep w_leak_graph w_leak_stmts) /\
  exists e, nth_error (g_edges (inline_dyndep w_leak_graph w_leak_stmts)) 1 = Some e /\
            edge_restat (inline_dyndep w_leak_graph w_leak_stmts) e = false.
Proof. exact C11_restat_leak_fixed_on_witness. Qed.
Print Assumptions C11_restat_leak_fixed.

(* ------------------------------------------------------------------------------------------ *)
(** * Invalid files are rejected: the loader's one-to-one and collision checks *)

(* "adds a build statement": a statement whose edge is not bound to this file *)
Theorem C11_rejects_unbound : forall g f stmts st i,
  In st stmts -> stmt_key g st = Some i -> bound_to g f i = false ->
  exists e, load_dyndep g f stmts = Err e.
Proof. exact C11_rejects_unbound_proof. Qed.
Print Assumptions C11_rejects_unbound.

(* ... or whose output no build statement produces *)
Theorem C11_rejects_unknown_output : forall g f stmts st,
  In st stmts -> stmt_key g st = None -> exists e, load_dyndep g f stmts = Err e.
Proof. exact C11_rejects_unknown_output_proof. Qed.
Print Assumptions C11_rejects_unknown_output.

(* "omits a build statement": an edge bound to the file, reading it, without a statement *)
Theorem C11_rejects_omitted : forall g f stmts i e,
  nth_error (g_edges g) i = Some e -> e_dyndep e = Some f -> mem_bytes f (e_ins e) = true ->
  find_stmt g stmts i = None ->
  exists err, load_dyndep g f stmts = Err err.
Proof. exact C11_rejects_omitted_edge_proof. Qed.
Print Assumptions C11_rejects_omitted.

(* "names an output twice": two statements for one build statement *)
Theorem C11_rejects_duplicate : forall g f l1 st1 l2 st2 l3 i,
  stmt_key g st1 = Some i -> stmt_key g st2 = Some i ->
  exists e, load_dyndep g f (l1 ++ st1 :: l2 ++ st2 :: l3) = Err e.
Proof. exact C11_rejects_duplicate_proof. Qed.
Print Assumptions C11_rejects_duplicate.

(* "claims an output another statement produces": an implicit output with a producer in the manifest *)
Theorem C11_rejects_claimed_output : forall g f stmts i st o,
  find_stmt g stmts i = Some st -> In o (dd_imp_outs st) -> producer g o <> None ->
  exists e, load_dyndep g f stmts = Err e.
Proof. exact C11_rejects_claimed_output_proof. Qed.
Print Assumptions C11_rejects_claimed_output.

(* ... or that two statements of the file both claim *)
Theorem C11_rejects_output_claimed_twice : forall g f stmts i1 i2 st1 st2 o,
  i1 <> i2 -> find_stmt g stmts i1 = Some st1 -> find_stmt g stmts i2 = Some st2 ->
  In o (dd_imp_outs st1) -> In o (dd_imp_outs st2) ->
  exists e, load_dyndep g f stmts = Err e.
Proof. exact C11_rejects_output_claimed_twice_proof. Qed.
Print Assumptions C11_rejects_output_claimed_twice.

(* ------------------------------------------------------------------------------------------ *)
(** * Invalid files are rejected: the parser *)

Theorem C11_rejects_missing_file : forall g f, dyndep_load g f None = Err E_loading.
Proof. exact C11_rejects_missing_file_proof. Qed.
Print Assumptions C11_rejects_missing_file.

(* any error of the parser (lexing, syntax, version, unknown / repeated output) fails the load *)
Theorem C11_rejects_syntax_error : forall g f c e,
  parse_gen (graph_chk g) c = Err e -> dyndep_load g f (Some c) = Err e.
Proof. exact C11_rejects_syntax_error_proof. Qed.
Print Assumptions C11_rejects_syntax_error.

(* the rendering without its version line *)
Theorem C11_rejects_missing_version : forall chk stmts,
  Forall (fun st => wf_stmt st = true) stmts ->
  parse_gen chk (print_body stmts) = Err E_version_expected_build \/
  parse_gen chk (print_body stmts) = Err E_version_expected_eof.
Proof. exact C11_rejects_missing_version_proof. Qed.
Print Assumptions C11_rejects_missing_version.

(* [bad_file pre out X] = rendering of the valid statements [pre], then "build <out>" ++ X *)
Theorem C11_rejects_explicit_output : forall chk pre out x d rest,
  Forall (fun st => wf_stmt st = true) pre -> chk_passes chk [] pre ->
  wf_name out = true -> chk (rev pre) out = None -> wf_name x = true -> delim d ->
  parse_gen chk (bad_file pre out (32 :: esc_path x ++ d :: rest)) = Err E_explicit_outs.
Proof. exact C11_rejects_explicit_output_proof. Qed.
Print Assumptions C11_rejects_explicit_output.

Theorem C11_rejects_explicit_input : forall chk pre out x d rest,
  Forall (fun st => wf_stmt st = true) pre -> chk_passes chk [] pre ->
  wf_name out = true -> chk (rev pre) out = None -> wf_name x = true -> delim d ->
  parse_gen chk (bad_file pre out (58 :: 32 :: s_dyndep ++ 32 :: esc_path x ++ d :: rest))
  = Err E_explicit_ins.
Proof. exact C11_rejects_explicit_input_proof. Qed.
Print Assumptions C11_rejects_explicit_input.

Theorem C11_rejects_order_only : forall chk pre out rest,
  Forall (fun st => wf_stmt st = true) pre -> chk_passes chk [] pre ->
  wf_name out = true -> chk (rev pre) out = None ->
  parse_gen chk (bad_file pre out (58 :: 32 :: s_dyndep ++ 32 :: 124 :: 124 :: rest))
  = Err E_order_only.
Proof. exact C11_rejects_order_only_proof. Qed.
Print Assumptions C11_rejects_order_only.

(* ": dyndep\n  <key> = 1\n" with a key other than restat *)
Theorem C11_rejects_other_binding : forall chk pre out key rest,
  Forall (fun st => wf_stmt st = true) pre -> chk_passes chk [] pre ->
  wf_name out = true -> chk (rev pre) out = None ->
  key <> [] -> forallb is_varname_char key = true -> bytes_eqb key s_restat = false ->
  parse_gen chk (bad_file pre out
     (58 :: 32 :: s_dyndep ++ 10 :: 32 :: 32 :: key ++ 32 :: 61 :: 32 :: 49 :: 10 :: rest))
  = Err E_binding_not_restat.
Proof. exact C11_rejects_other_binding_proof. Qed.
Print Assumptions C11_rejects_other_binding.

Theorem C11_rejects_wrong_rule : forall chk pre out rule d rest,
  Forall (fun st => wf_stmt st = true) pre -> chk_passes chk [] pre ->
  wf_name out = true -> chk (rev pre) out = None ->
  rule <> [] -> forallb is_varname_char rule = true -> bytes_eqb rule s_dyndep = false ->
  d = 32 \/ d = 10 ->
  parse_gen chk (bad_file pre out (58 :: 32 :: rule ++ d :: rest)) = Err E_expected_dyndep.
Proof. exact C11_rejects_wrong_rule_proof. Qed.
Print Assumptions C11_rejects_wrong_rule.

(* ------------------------------------------------------------------------------------------ *)
(** * Truncation *)

(* The strong form, for ALL files: what the parser accepts ends with a newline.  (False of the tree
   before the fix: "build out |" was accepted.) *)
Theorem C11_accepted_ends_with_newline : forall chk content stmts,
  chk_ok chk -> ~ In 0 content -> parse_gen chk content = Ok stmts ->
  exists c', content = c' ++ [10].
Proof. exact C11_accepted_ends_with_newline_proof. Qed.
Print Assumptions C11_accepted_ends_with_newline.

(* every prefix of a rendered file that stops inside a line is rejected *)
Theorem C11_truncation : forall chk stmts k,
  chk_ok chk -> Forall (fun st => wf_stmt st = true) stmts ->
  (forall c', firstn k (print_dyndep stmts) <> c' ++ [10]) ->
  exists e, parse_gen chk (firstn k (print_dyndep stmts)) = Err e.
Proof. exact C11_truncation_proof. Qed.
Print Assumptions C11_truncation.

(* the case the fix is about: the file ends right after '|' (or "| ") *)
Theorem C11_truncation_after_pipe : forall chk pre,
  chk_ok chk -> ~ In 0 pre ->
  (exists e, parse_gen chk (pre ++ [124]) = Err e) /\
  (exists e, parse_gen chk (pre ++ [124; 32]) = Err e).
Proof. exact C11_truncation_after_pipe_proof. Qed.
Print Assumptions C11_truncation_after_pipe.

(* a prefix that stops at a line boundary = the rendering of fewer statements: rejected by the
   loader as soon as a bound edge lost its statement *)
Theorem C11_truncation_drops_statement : forall g f stmts i e,
  Forall (fun st => wf_stmt st = true) stmts ->
  nth_error (g_edges g) i = Some e -> e_dyndep e = Some f -> mem_bytes f (e_ins e) = true ->
  find_stmt g stmts i = None ->
  exists err, dyndep_load g f (Some (print_dyndep stmts)) = Err err.
Proof. exact C11_truncation_drops_statement_proof. Qed.
Print Assumptions C11_truncation_drops_statement.

(* PARTIAL: "every proper prefix is rejected" is false for exactly one cut, which no reader of the
   format can detect: before the "  restat = 1" line of the LAST statement the prefix is itself the
   rendering of the same statements with that flag cleared. *)
Definition C11_truncation_every_prefix_full : Prop :=
  forall g f stmts k g', (k < length (print_dyndep stmts))%nat ->
    Forall (fun st => wf_stmt st = true) stmts ->
    load_dyndep g f stmts = Ok g' ->
    exists e, dyndep_load g f (Some (firstn k (print_dyndep stmts))) = Err e.
Theorem C11_truncation_restat_line_undetected : forall l out outs ins,
  print_dyndep (l ++ [mkStmt out outs ins true]) =
  print_dyndep (l ++ [mkStmt out outs ins false]) ++ s_restat_line.
Proof. exact C11_truncation_restat_line_is_a_rendering. Qed.
Print Assumptions C11_truncation_restat_line_undetected.

(* ------------------------------------------------------------------------------------------ *)
(** * Round trip, relation between the two parsers *)

Theorem C11_parse_print : forall stmts,
  Forall (fun st => wf_stmt st = true) stmts -> parse_dyndep (print_dyndep stmts) = Ok stmts.
Proof. exact C11_parse_print_proof. Qed.
Print Assumptions C11_parse_print.

Theorem C11_parse_print_checked : forall chk stmts,
  Forall (fun st => wf_stmt st = true) stmts -> chk_passes chk [] stmts ->
  parse_gen chk (print_dyndep stmts) = Ok stmts.
Proof. exact C11_parse_print_gen_proof. Qed.
Print Assumptions C11_parse_print_checked.

(* the checks against the State only add errors *)
Theorem C11_checked_parse_refines_syntax : forall chk c l,
  parse_gen chk c = Ok l -> parse_dyndep c = Ok l.
Proof. exact parse_gen_ok_syntax_proof. Qed.
Print Assumptions C11_checked_parse_refines_syntax.

(* ------------------------------------------------------------------------------------------ *)
(** * C13 for the dyndep parser *)

(* On a NUL-terminated buffer no scanner of the model looks past the end of the buffer (the
   distinct outcome E_overrun never occurs) and no loop runs out of fuel (E_fuel never occurs):
   parse_gen always returns a genuine answer of DyndepParser::Parse. *)
Theorem C13_dyndep_total : forall chk content,
  chk_ok chk ->
  parse_gen chk content <> Err E_overrun /\ parse_gen chk content <> Err E_fuel.
Proof. exact C13_dyndep_total_proof. Qed.
Print Assumptions C13_dyndep_total.

Theorem C13_dyndep_no_overrun_raw : forall chk buf,
  chk_ok chk -> In 0 buf ->
  parse_raw chk buf <> Err E_overrun /\ parse_raw chk buf <> Err E_fuel.
Proof. exact C13_dyndep_total_raw_proof. Qed.
Print Assumptions C13_dyndep_no_overrun_raw.

(* ------------------------------------------------------------------------------------------ *)
(** * Non-vacuity: a concrete 3-edge graph and dyndep file

   rule r / command = c              build out1: r in | dd        (dyndep = dd)
   rule t / command = c              build out2 | side: r out1 || dd   (dyndep = dd)
                                     build other: t in
   dd:  ninja_dyndep_version = 1
        build out1 | gen.h: dyndep | hdr.h
          restat = 1
        build out2: dyndep | gen.h                                                              *)
Definition n_in : node := [105; 110].
Definition n_dd : node := [100; 100].
Definition n_out1 : node := [111; 117; 116; 49].
Definition n_out2 : node := [111; 117; 116; 50].
Definition n_side : node := [115; 105; 100; 101].
Definition n_other : node := [111; 116; 104; 101; 114].
Definition n_gen : node := [103; 101; 110; 46; 104].
Definition n_hdr : node := [104; 100; 114; 46; 104].

Definition ex_graph : graph :=
  mkGraph [mkEdge [n_out1] 0 [n_in; n_dd] 1 0 (Some n_dd) (Scope None) None;
           mkEdge [n_out2; n_side] 1 [n_out1; n_dd] 0 1 (Some n_dd) (Scope None) None;
           mkEdge [n_other] 0 [n_in] 0 0 None NoScope None] None.
Definition ex_stmts : list dd_stmt :=
  [mkStmt n_out1 [n_gen] [n_hdr] true; mkStmt n_out2 [] [n_gen] false].
Definition ex_file : bytes := print_dyndep ex_stmts.

Example ex_file_text : ex_file =
  (* "ninja_dyndep_version = 1\n" *)
  [110;105;110;106;97;95;100;121;110;100;101;112;95;118;101;114;115;105;111;110;32;61;32;49;10] ++
  (* "build out1 | gen.h: dyndep | hdr.h\n" *)
  [98;117;105;108;100;32;111;117;116;49;32;124;32;103;101;110;46;104;58;32;100;121;110;100;101;112;
   32;124;32;104;100;114;46;104;10] ++
  (* "  restat = 1\n" *)
  [32;32;114;101;115;116;97;116;32;61;32;49;10] ++
  (* "build out2: dyndep | gen.h\n" *)
  [98;117;105;108;100;32;111;117;116;50;58;32;100;121;110;100;101;112;32;124;32;103;101;110;46;104;10].
Proof. vm_compute. reflexivity. Qed.

Example ex_wf : Forall (fun st => wf_stmt st = true) ex_stmts.
Proof. repeat constructor. Qed.

Example ex_listed_once : listed_once ex_graph n_dd.
Proof.
  intros i e H Hb. destruct i as [|[|[|i]]]; cbn [ex_graph g_edges nth_error] in H.
  - injection H as <-. vm_compute. reflexivity.
  - injection H as <-. vm_compute. reflexivity.
  - injection H as <-. vm_compute in Hb. discriminate.
  - destruct i; discriminate.
Qed.

(* the premises of C11_load_is_inline / C11_file_load_is_inline / C11_load_print hold, the load succeeds *)
Example C11_load_is_inline_nonvacuous :
  listed_once ex_graph n_dd /\ check_stmts ex_graph [] ex_stmts = None /\
  exists g', load_dyndep ex_graph n_dd ex_stmts = Ok g' /\
             dyndep_load ex_graph n_dd (Some ex_file) = Ok g' /\
             (* what the load did: out1 got gen.h as output, hdr.h as implicit input, restat;
                out2 got gen.h spliced before its order-only input *)
             g' = mkGraph [mkEdge [n_out1; n_gen] 1 [n_in; n_dd; n_hdr] 2 0 (Some n_dd) (Scope (Some true)) None;
                           mkEdge [n_out2; n_side] 1 [n_out1; n_gen; n_dd] 1 1 (Some n_dd) (Scope None) None;
                           mkEdge [n_other] 0 [n_in] 0 0 None NoScope None] None.
Proof.
  split; [exact ex_listed_once|].
  split; [vm_compute; reflexivity|]. eexists. split; [vm_compute; reflexivity|].
  split; vm_compute; reflexivity.
Qed.

(* rejects: premises satisfiable, and the class the real code reports *)
Example C11_rejects_unbound_nonvacuous :
  let stmts := ex_stmts ++ [mkStmt n_other [] [] false] in
  In (mkStmt n_other [] [] false) stmts /\ stmt_key ex_graph (mkStmt n_other [] [] false) = Some 2%nat /\
  bound_to ex_graph n_dd 2 = false /\ load_dyndep ex_graph n_dd stmts = Err E_not_bound.
Proof. cbv zeta. split; [right; right; now left|]. repeat split; vm_compute; reflexivity. Qed.

Example C11_rejects_unknown_output_nonvacuous :
  let st := mkStmt n_hdr [] [] false in
  In st (ex_stmts ++ [st]) /\ stmt_key ex_graph st = None /\
  dyndep_load ex_graph n_dd (Some (print_dyndep (ex_stmts ++ [st]))) = Err E_no_build_stmt.
Proof. cbv zeta. split; [right; right; now left|]. split; vm_compute; reflexivity. Qed.

Example C11_rejects_omitted_nonvacuous :
  let stmts := [mkStmt n_out1 [n_gen] [n_hdr] true] in
  (exists e, nth_error (g_edges ex_graph) 1 = Some e /\ e_dyndep e = Some n_dd /\ mem_bytes n_dd (e_ins e) = true) /\
  find_stmt ex_graph stmts 1 = None /\ load_dyndep ex_graph n_dd stmts = Err E_not_mentioned.
Proof. cbv zeta. split; [eexists; repeat split; vm_compute; reflexivity|]. split; vm_compute; reflexivity. Qed.

Example C11_rejects_duplicate_nonvacuous :
  (* the second statement names the OTHER output of the same build statement *)
  stmt_key ex_graph (mkStmt n_out2 [] [] false) = Some 1%nat /\
  stmt_key ex_graph (mkStmt n_side [] [] false) = Some 1%nat /\
  dyndep_load ex_graph n_dd (Some (print_dyndep ([mkStmt n_out1 [] [] false] ++ mkStmt n_out2 [] [] false :: [] ++ mkStmt n_side [] [] false :: [])))
  = Err E_multiple_stmts.
Proof. repeat split; vm_compute; reflexivity. Qed.

Example C11_rejects_claimed_output_nonvacuous :
  let stmts := [mkStmt n_out1 [n_other] [] false; mkStmt n_out2 [] [] false] in
  find_stmt ex_graph stmts 0 = Some (mkStmt n_out1 [n_other] [] false) /\
  producer ex_graph n_other <> None /\ load_dyndep ex_graph n_dd stmts = Err E_multiple_rules.
Proof. cbv zeta. split; [vm_compute; reflexivity|]. split; [vm_compute; discriminate|vm_compute; reflexivity]. Qed.

Example C11_rejects_output_claimed_twice_nonvacuous :
  let stmts := [mkStmt n_out1 [n_gen] [] false; mkStmt n_out2 [n_gen] [] false] in
  find_stmt ex_graph stmts 0 = Some (mkStmt n_out1 [n_gen] [] false) /\
  find_stmt ex_graph stmts 1 = Some (mkStmt n_out2 [n_gen] [] false) /\
  load_dyndep ex_graph n_dd stmts = Err E_multiple_rules.
Proof. cbv zeta. repeat split; vm_compute; reflexivity. Qed.

Example C11_rejects_syntax_error_nonvacuous :
  parse_gen (graph_chk ex_graph) (s_version_line ++ [98; 117; 105; 108; 100; 32; 111; 117; 116; 49; 10])
  = Err (E_expected T_COLON T_NEWLINE).      (* "build out1\n" : expected ':', got newline *)
Proof. vm_compute. reflexivity. Qed.

Example C11_rejects_parser_classes_nonvacuous :
  chk_passes (graph_chk ex_graph) [] [mkStmt n_out1 [] [] false] /\
  graph_chk ex_graph (rev [mkStmt n_out1 [] [] false]) n_out2 = None /\
  wf_name n_out2 = true /\ wf_name n_gen = true /\
  forallb is_varname_char [112; 111; 111; 108] = true /\ bytes_eqb [112; 111; 111; 108] s_restat = false /\
  bytes_eqb [112; 111; 111; 108] s_dyndep = false.
Proof. repeat split; vm_compute; reflexivity. Qed.

(* truncation: every one of the 100 proper prefixes (lengths 0..99) of the example file is rejected
   by the parser or by the loader (the restat line belongs to the FIRST statement here, so the one
   undetectable cut does not occur; see C11_truncation_restat_cut_accepted for a file where it does) *)
Example C11_truncation_nonvacuous :
  length ex_file = 100%nat /\
  forallb (fun k => match dyndep_load ex_graph n_dd (Some (firstn k ex_file)) with
                    | Err _ => true | Ok _ => false end) (seq 0 100) = true /\
  (* inside a line: premise of C11_truncation *)
  (forall c', firstn 40 ex_file <> c' ++ [10]) /\
  (* at a line boundary: the statement of out2 is lost *)
  firstn 73 ex_file = print_dyndep [mkStmt n_out1 [n_gen] [n_hdr] true] /\
  dyndep_load ex_graph n_dd (Some (firstn 73 ex_file)) = Err E_not_mentioned /\
  (* after the pipe *)
  parse_gen (graph_chk ex_graph) (firstn 37 ex_file) = Err E_unexpected_eof.
Proof.
  split; [vm_compute; reflexivity|]. split; [vm_compute; reflexivity|]. split.
  - intros c' E. assert (H : last (firstn 40 ex_file) 0 = last (c' ++ [10]) 0) by now rewrite E.
    rewrite last_last in H. vm_compute in H. discriminate.
  - repeat split; vm_compute; reflexivity.
Qed.

(* the undetectable cut exists: same file with the restat line LAST *)
Example C11_truncation_restat_cut_accepted :
  let stmts := [mkStmt n_out2 [] [n_gen] false; mkStmt n_out1 [n_gen] [n_hdr] true] in
  let file := print_dyndep stmts in
  exists g1 g2, dyndep_load ex_graph n_dd (Some file) = Ok g1 /\
                dyndep_load ex_graph n_dd (Some (firstn (length file - 13) file)) = Ok g2 /\ g1 <> g2.
Proof. cbv zeta. do 2 eexists. split; [vm_compute; reflexivity|]. split; [vm_compute; reflexivity|]. discriminate. Qed.

Example C11_parse_print_nonvacuous :
  Forall (fun st => wf_stmt st = true) ex_stmts /\ parse_dyndep ex_file = Ok ex_stmts /\
  (* names that need escapes: "a b", "c:d", "p$q" *)
  wf_stmt (mkStmt n_out1 [[97; 32; 98]] [[99; 58; 100]; [112; 36; 113]] false) = true.
Proof. split; [exact ex_wf|]. split; vm_compute; reflexivity. Qed.

Example C13_dyndep_total_nonvacuous : chk_ok no_chk /\ chk_ok (graph_chk ex_graph).
Proof. split; [exact no_chk_ok|apply graph_chk_ok]. Qed.
