(* C09 — the deps log (.ninja_deps) survives torn writes, restarts and compaction;
   and the deps-log part of C13 (no file content makes DepsLog::Load misbehave).

   Model: Log/DepsLogDefs.v, a byte-level transliteration of src/deps_log.cc (Load, RecordDeps,
   RecordId, OpenForWrite(IfNeeded), Recompact, UpdateDeps, GetDeps), validated against the real
   code under ASan/UBSan on ~30 000 files (see Log/README_depslog.md).  Proofs: Log/DepsLogProofs.v.

   Vocabulary (all from DepsLogDefs / DepsLogProofs):
     load_deps f          what DepsLog::Load does on file content f  (= load_deps_ver false RdCur;
                          load_deps_ver old m: old = before the torn-size-word fix,
                          m = RdOld strict / RdCur: before / after the validation fix)
                          (DOk state truncate_to needs_recompaction | DBadHeader | DUnsafe class)
     apply_ops f ops      file content after one ninja session (load, open, RecordDeps..., close)
     session live f ops   the same with IsDepsEntryLiveFor = live (matters when Load asks for
                          recompaction); run_sessions folds it over a list of sessions
     view s o             GetDeps of the node with path o: Some (mtime, paths of the dep nodes)
     abstract_ops ops o   the specification: the most recent RecordDeps for o in ops
     clean f s            f = valid header ++ whole accepted records leading the loader to s:
                          no partial record, no stray bytes
     wf_ops ops           paths non-empty, not ending in NUL, records <= kMaxRecordSize, mtimes
                          in int64, fewer than 2^31-1 path mentions
   Results: roundtrip, sessions, recompaction, garbage tail hold in full generality (unbounded).
   C09_torn and C09_torn_next_session hold in full for the CURRENT loader (after the fix
   "truncate a torn record header when loading the deps log"): every cut, no exception.  For the
   loader as it was originally ([load_deps_old] = [load_deps_ver true (RdOld true)], sessions
   [apply_ops_old]) both are REFUTED for cuts leaving 1-3 bytes of a record's size word (not
   truncated; the next session's records were lost) and proved for all other cuts: these
   witnesses document why the code changed.  C13 for the deps log holds UNCONDITIONALLY for the
   CURRENT reader (after the fix "validate record sizes and ids when loading the deps log":
   C13_depslog_bounds, C13_recompact_bounds); for the reader before that fix
   ([load_deps_rd_old], mode [RdOld]) it is REFUTED: six classes of files made Load exhibit
   undefined behaviour, a seventh crashed Recompact; it was safe outside these classes. *)
From NinjaV Require Import Base.Bytes Log.DepsLogDefs Log.DepsLogProofs.
Local Open Scope N_scope.

(* ------------------------------------------------------------------------------------ *)
(* Round trip                                                                           *)

Theorem C09_roundtrip : forall ops : list dop,
  wf_ops ops ->
  exists s nr,
    load_deps (apply_ops [] ops) = DOk s None nr /\
    forall o, view s o = spec_view (abstract_ops ops o).
Proof. exact C09_roundtrip_thm. Qed.
Print Assumptions C09_roundtrip.

(* premises satisfiable: paths of every length mod 4, a repeated output, mtimes on both sides
   of the 32-bit split and negative *)
Definition ex_ops : list dop :=
  [RecordDeps [111] 1 [[97]; [98; 99]; [100; 101; 102]; [103; 104; 105; 106];
                       [107; 108; 109; 110; 111]];
   RecordDeps [112; 113] 4294967301 [[97]; [111]];
   RecordDeps [111] (-7) [[98; 99]]].

Example C09_roundtrip_nonvacuous : wf_ops ex_ops.
Proof. split; vm_compute; reflexivity. Qed.

Example C09_roundtrip_example :
  exists s, load_deps (apply_ops [] ex_ops) = DOk s None false /\
            view s [111] = Some ((-7)%Z, [Some [98; 99]]) /\
            view s [112; 113] = Some (4294967301%Z, [Some [97]; Some [111]]) /\
            view s [97] = None.
Proof.
  eexists. split; [vm_compute; reflexivity|].
  split; [vm_compute; reflexivity|]. split; [vm_compute; reflexivity|]. vm_compute; reflexivity.
Qed.

(* ------------------------------------------------------------------------------------ *)
(* Sessions                                                                             *)

(* Any number of load/append/close sessions starting without a file.  [live] is
   IsDepsEntryLiveFor (used when a load asks for recompaction): every output ever recorded is
   assumed to keep its deps-producing build statement. *)
Theorem C09_sessions : forall (live : bytes -> bool) (first : list dop) (rest : list (list dop)),
  wf_ops (concat (first :: rest)) ->
  (forall out m ins, In (RecordDeps out m ins) (concat (first :: rest)) -> live out = true) ->
  exists s nr,
    load_deps (run_sessions live [] (first :: rest)) = DOk s None nr /\
    ok_state s /\
    forall o, view s o = spec_view (abstract_ops (concat (first :: rest)) o).
Proof. exact C09_sessions_thm. Qed.
Print Assumptions C09_sessions.

Example C09_sessions_nonvacuous :
  wf_ops (concat (ex_ops :: [ex_ops; []; ex_ops])) /\
  (forall out m ins, In (RecordDeps out m ins) (concat (ex_ops :: [ex_ops; []; ex_ops])) ->
                     (fun _ : bytes => true) out = true).
Proof. split; [split; vm_compute; reflexivity|reflexivity]. Qed.

(* One session on a writer-produced file, recompaction included: what the next load sees is the
   old view (restricted to the live outputs when the load asked for recompaction) updated by the
   session's records.  [old] selects the loader before/after the torn-size-word fix, [m] the
   record validation before/after the validation fix (no difference on clean files). *)
Theorem C09_session_step : forall old (m : rmode) live (U : list bytes) f s ops,
  nlen U < kMaxIds -> oclean m f s -> ok_state s -> incl (d_paths s) U ->
  Forall (fun op => incl (op_paths op) U) ops -> forallb wf_op ops = true ->
  exists s' nr,
    load_deps_ver old m f = DOk s None nr /\
    oclean m (session_ver old m live f ops) s' /\ ok_state s' /\ incl (d_paths s') U /\
    (forall o, view s' o =
               upd (fun o => if nr then (if live o then view s o else None) else view s o) ops o).
Proof. exact session_spec. Qed.
Print Assumptions C09_session_step.

(* ------------------------------------------------------------------------------------ *)
(* Recompaction                                                                         *)

Theorem C09_recompact_live : forall (live : bytes -> bool) (s : dstate),
  ok_state s -> nlen (d_paths s) < kMaxIds ->
  exists s2 nr,
    load_deps (recompact live s) = DOk s2 None nr /\
    ok_state s2 /\
    forall o, view s2 o = if live o then view s o else None.
Proof. exact C09_recompact_live_thm. Qed.
Print Assumptions C09_recompact_live.

Example C09_recompact_live_nonvacuous :
  exists s, ok_state s /\ nlen (d_paths s) < kMaxIds /\ d_deps s <> [] /\
            load_deps (apply_ops [] ex_ops) = DOk s None false.
Proof.
  destruct (C09_sessions_thm (fun _ => true) ex_ops []) as (s & nr & Hl & Hok & _).
  - split; vm_compute; reflexivity.
  - reflexivity.
  - assert (E : load_deps (run_sessions (fun _ => true) [] [ex_ops])
                = DOk (mkD [[111]; [97]; [98; 99]; [100; 101; 102]; [103; 104; 105; 106];
                            [107; 108; 109; 110; 111]; [112; 113]]
                           [(0, ((-7)%Z, [2])); (6, (4294967301%Z, [1; 0]));
                            (0, (1%Z, [1; 2; 3; 4; 5]))]) None false)
      by (vm_compute; reflexivity).
    rewrite E in Hl. inversion Hl; subst s nr.
    eexists. split; [exact Hok|]. split; [vm_compute; reflexivity|]. split; [discriminate|exact E].
Qed.

(* ------------------------------------------------------------------------------------ *)
(* Torn writes — current loader (after the fix "truncate a torn record header when loading
   the deps log")                                                                       *)

(* For EVERY prefix of a log written by ninja: below 16 bytes the header is invalid (the file is
   unlinked and the log starts over); otherwise let off be the last record boundary <= k
   (clean prefix, and no clean prefix between off and k): the loader returns exactly the state of
   the records complete at off, and truncates to off whenever k is not on a record boundary. *)
Theorem C09_torn : forall ops : list dop,
  wf_ops ops ->
  forall k, (k <= length (apply_ops [] ops))%nat ->
  ((k < 16)%nat -> load_deps (firstn k (apply_ops [] ops)) = DBadHeader) /\
  ((16 <= k)%nat ->
   exists off s1 nr,
     (16 <= off <= k)%nat /\
     clean RdCur (firstn off (apply_ops [] ops)) s1 /\
     (forall j s', (off < j <= k)%nat -> ~ clean RdCur (firstn j (apply_ops [] ops)) s') /\
     load_deps (firstn k (apply_ops [] ops)) =
       DOk s1 (if (k =? off)%nat then None else Some off) nr).
Proof. exact C09_torn_thm. Qed.
Print Assumptions C09_torn.

(* The exact outcome for both loaders ([torn_outcome]: the recompaction flag is the one of the
   state at off when only a size word was torn, false when read_failed). *)
Theorem C09_torn_outcome : forall (m : rmode) (ops : list dop),
  wf_ops ops ->
  forall k, (16 <= k <= length (apply_ops [] ops))%nat ->
  exists off s1 nr1,
    (16 <= off <= k)%nat /\
    clean m (firstn off (apply_ops [] ops)) s1 /\
    (forall j s', (off < j <= k)%nat -> ~ clean m (firstn j (apply_ops [] ops)) s') /\
    (forall old, load_deps_ver old m (firstn k (apply_ops [] ops))
                 = torn_outcome old s1 nr1 off k).
Proof. exact torn_apply_ops. Qed.
Print Assumptions C09_torn_outcome.

(* Whatever prefix of the log reached the disk, the next session is consistent: the load after
   it sees the records complete at the cut updated by everything the session recorded, and the
   file is clean again (no truncation needed). *)
Theorem C09_torn_next_session : forall ops ops2 : list dop,
  wf_ops (ops ++ ops2) ->
  forall k, (k <= length (apply_ops [] ops))%nat ->
  ((k < 16)%nat ->
   exists s' nr,
     load_deps (apply_ops (firstn k (apply_ops [] ops)) ops2) = DOk s' None nr /\
     forall o, view s' o = spec_view (abstract_ops ops2 o)) /\
  ((16 <= k)%nat ->
   exists off s1,
     (16 <= off <= k)%nat /\
     clean RdCur (firstn off (apply_ops [] ops)) s1 /\
     (forall j s', (off < j <= k)%nat -> ~ clean RdCur (firstn j (apply_ops [] ops)) s') /\
     exists s' nr,
       load_deps (apply_ops (firstn k (apply_ops [] ops)) ops2) = DOk s' None nr /\
       forall o, view s' o = upd (view s1) ops2 o).
Proof. exact C09_torn_next_session_thm. Qed.
Print Assumptions C09_torn_next_session.

Example C09_torn_nonvacuous :
  wf_ops (torn_ops ++ torn_ops2) /\ (16 <= 30 <= length (apply_ops [] torn_ops))%nat.
Proof.
  split; [split; vm_compute; reflexivity|].
  replace (length (apply_ops [] torn_ops)) with 44%nat by (vm_compute; reflexivity). lia.
Qed.

(* the history that used to lose a session, on the current code *)
Example C09_torn_fixed_example :
  load_deps (firstn 30 torn_file) = DOk (mkD [[97]] []) (Some 28%nat) false /\
  load_deps (apply_ops (firstn 30 torn_file) torn_ops2)
  = DOk (mkD [[97]; [98]] [(1, (2%Z, []))]) None false.
Proof. split; [exact torn_cut_30|exact torn_next_load]. Qed.

(* ------------------------------------------------------------------------------------ *)
(* Torn writes — the OLD loader ([load_deps_old], [apply_ops_old]): why the code changed  *)

(* Same as C09_torn except for off < k < off + 4 (1 to 3 bytes of a size word): fread returned
   short with feof set, read_failed stayed false: NO truncation. *)
Theorem C09_torn_old_partial : forall ops : list dop,
  wf_ops ops ->
  forall k, (k <= length (apply_ops [] ops))%nat ->
  ((k < 16)%nat -> load_deps_old (firstn k (apply_ops [] ops)) = DBadHeader) /\
  ((16 <= k)%nat ->
   exists off s1 nr1,
     (16 <= off <= k)%nat /\
     clean (RdOld true) (firstn off (apply_ops [] ops)) s1 /\
     (forall j s', (off < j <= k)%nat -> ~ clean (RdOld true) (firstn j (apply_ops [] ops)) s') /\
     load_deps_old (firstn k (apply_ops [] ops)) =
       (if (k - off <? 4)%nat then DOk s1 None nr1 else DOk s1 (Some off) false)).
Proof. exact C09_torn_old_partial_thm. Qed.
Print Assumptions C09_torn_old_partial.

(* The statement C09_torn is FALSE of the old loader. *)
Theorem C09_torn_old_refuted :
  ~ (forall ops, wf_ops ops ->
     forall k, (16 <= k <= length (apply_ops [] ops))%nat ->
     exists off s1 nr1,
       (16 <= off <= k)%nat /\
       clean (RdOld true) (firstn off (apply_ops [] ops)) s1 /\
       load_deps_old (firstn k (apply_ops [] ops)) =
         DOk s1 (if (k =? off)%nat then None else Some off) nr1).
Proof. exact C09_torn_old_refuted_thm. Qed.
Print Assumptions C09_torn_old_refuted.

(* the witness: RecordDeps("a", 1, {}) writes 44 bytes; the first 30 of them (2 bytes into the
   deps record's size word) loaded WITHOUT truncation *)
Example C09_torn_old_witness :
  torn_file = deps_header ++ [8; 0; 0; 0; 97; 0; 0; 0; 255; 255; 255; 255]
                          ++ [12; 0; 0; 128; 0; 0; 0; 0; 1; 0; 0; 0; 0; 0; 0; 0] /\
  load_deps_old (firstn 30 torn_file) = DOk (mkD [[97]] []) None false.
Proof. split; [exact torn_file_bytes|exact torn_cut_30_old]. Qed.

(* Consequence, also FALSE of the old code: "whatever prefix of the log reached the disk, what the
   next session records is seen by the load after it". *)
Theorem C09_torn_next_session_old_lost_refuted :
  ~ (forall ops ops2 k, wf_ops (ops ++ ops2) -> (k <= length (apply_ops [] ops))%nat ->
     forall o x, abstract_ops ops2 o = Some x ->
     exists s tr nr,
       load_deps_old (apply_ops_old (firstn k (apply_ops [] ops)) ops2) = DOk s tr nr /\
       view s o = spec_view (Some x)).
Proof. exact C09_torn_next_session_old_lost_refuted_thm. Qed.
Print Assumptions C09_torn_next_session_old_lost_refuted.

(* the witness: the next session recorded "b" behind the stray bytes 0c 00; the load after it
   read the size word 0c 00 08 00 (= 524300 > kMaxRecordSize), kept only "a" and truncated
   the file to 28 bytes: both records of that session were lost (only a warning was printed) *)
Example C09_torn_next_session_old_witness :
  apply_ops_old (firstn 30 torn_file) torn_ops2 =
    deps_header ++ [8; 0; 0; 0; 97; 0; 0; 0; 255; 255; 255; 255] ++ [12; 0]
    ++ [8; 0; 0; 0; 98; 0; 0; 0; 254; 255; 255; 255]
    ++ [12; 0; 0; 128; 1; 0; 0; 0; 2; 0; 0; 0; 0; 0; 0; 0] /\
  load_deps_old (apply_ops_old (firstn 30 torn_file) torn_ops2)
  = DOk (mkD [[97]] []) (Some 28%nat) false.
Proof. split; [exact torn_next_file_old|exact torn_next_load_old]. Qed.

(* For every other cut the old code was consistent too. *)
Theorem C09_torn_next_session_old_partial : forall ops ops2 : list dop,
  wf_ops (ops ++ ops2) ->
  forall k, (16 <= k <= length (apply_ops [] ops))%nat ->
  exists off s1,
    (16 <= off <= k)%nat /\
    clean (RdOld true) (firstn off (apply_ops [] ops)) s1 /\
    (forall j s', (off < j <= k)%nat -> ~ clean (RdOld true) (firstn j (apply_ops [] ops)) s') /\
    (k = off \/ (off + 4 <= k)%nat ->
     exists s' nr,
       load_deps_old (apply_ops_old (firstn k (apply_ops [] ops)) ops2) = DOk s' None nr /\
       forall o, view s' o = upd (view s1) ops2 o).
Proof. exact C09_torn_next_session_old_partial_thm. Qed.
Print Assumptions C09_torn_next_session_old_partial.

(* ------------------------------------------------------------------------------------ *)
(* Arbitrary bytes after a valid log                                                    *)

(* Unless the garbage drives the C++ into undefined behaviour (old reader only, C13 below;
   for the current reader the DUnsafe branch is excluded by C13_depslog_bounds): every record of the
   valid prefix is kept (the tables only grow), and either the file is cut exactly in front of
   the first malformed record (or torn size word), leaving a clean file whose state is the one
   returned, or the end of the file is reached and the whole file is clean (old loader: up to 3
   stray bytes may remain). *)
Theorem C09_garbage_tail : forall old (m : rmode) (f : bytes) (s : dstate) (g : bytes),
  clean m f s ->
  match load_deps_ver old m (f ++ g) with
  | DUnsafe _ => True
  | DOk s' tr nr =>
      extends s s' /\
      match tr with
      | Some off =>
          (length f <= off <= length (f ++ g))%nat /\ clean m (firstn off (f ++ g)) s'
      | None =>
          exists f' stray, f ++ g = f' ++ stray /\
                           (if old then (length stray < 4)%nat else stray = []) /\
                           (length f <= length f')%nat /\ clean m f' s'
      end
  | DBadHeader | DFuel => False
  end.
Proof. exact C09_garbage_tail_thm. Qed.
Print Assumptions C09_garbage_tail.

Example C09_garbage_tail_nonvacuous : exists s, clean RdCur torn_file s.
Proof.
  destruct (apply_ops_clean RdCur torn_ops wf_torn_ops) as (s & [Hcl _] & _). exists s. exact Hcl.
Qed.

(* ------------------------------------------------------------------------------------ *)
(* C13 for the deps log                                                                 *)

(* Load terminates on every byte string (the fuel of the model is never exhausted), every
   version. *)
Theorem C13_depslog_total : forall old (m : rmode) (f : bytes), load_deps_ver old m f <> DFuel.
Proof. exact load_deps_never_fuel. Qed.
Print Assumptions C13_depslog_total.

(* CURRENT reader (after "validate record sizes and ids when loading the deps log"): no file
   content makes Load index out of bounds, allocate a negative size, read before the buffer
   or load a misaligned word.  Unconditional.  (The model keeps the unsafe accesses where the
   code performs them - decode_cur - and this theorem shows the new checks make them
   unreachable.) *)
Theorem C13_depslog_bounds : forall (f : bytes) (w : nat), load_deps f <> DUnsafe w.
Proof. exact (C13_depslog_bounds_thm false). Qed.
Print Assumptions C13_depslog_bounds.

Theorem C13_depslog_bounds_gen : forall old strict (f : bytes) (w : nat),
  load_deps_ver old RdCur f <> DUnsafe w /\ load_deps_gen strict f <> DUnsafe w.
Proof. intros old strict f w. split; apply C13_depslog_bounds_thm. Qed.
Print Assumptions C13_depslog_bounds_gen.

(* ... and Recompact never indexes nodes_ out of bounds on a state produced by Load: every out
   id and dep id of the state is an index of d_paths. *)
Theorem C13_recompact_bounds : forall (f : bytes) s tr nr (live : bytes -> bool) (w : nat),
  load_deps f = DOk s tr nr -> recompact_r live s <> CUnsafe w.
Proof. exact (C13_recompact_bounds_thm false). Qed.
Print Assumptions C13_recompact_bounds.

Theorem C13_depslog_ids_in_range : forall (f : bytes) s tr nr,
  load_deps f = DOk s tr nr ->
  Forall (fun e => fst e < nlen (d_paths s) /\
                   Forall (fun i => i < nlen (d_paths s)) (snd (snd e))) (d_deps s).
Proof. exact (load_deps_ids_in_range false). Qed.
Print Assumptions C13_depslog_ids_in_range.

(* the seven files below on the current code: malformed record, truncation in front of it *)
Example C13_depslog_bounds_examples :
  load_deps unsafe1 = DOk d_empty (Some 16%nat) false /\
  load_deps unsafe6 = DOk d_empty (Some 16%nat) false /\
  load_deps unsafe_recompact = DOk d_empty (Some 16%nat) false.
Proof.
  destruct unsafe_files_now as (H1 & _ & _ & _ & _ & H6 & H7).
  split; [exact H1|]. split; [exact H6|exact H7].
Qed.

(* OLD reader ([load_deps_rd_old strict] = the code before the validation fix): "Load never
   misbehaves" was FALSE: one minimal file per class (header + one record), and one accepted
   by Load that crashed Recompact. *)
Theorem C13_depslog_bounds_refuted :
  load_deps_rd_old true unsafe1 = DUnsafe 1 /\ load_deps_rd_old true unsafe2 = DUnsafe 2 /\
  load_deps_rd_old true unsafe3 = DUnsafe 3 /\ load_deps_rd_old true unsafe4 = DUnsafe 4 /\
  load_deps_rd_old true unsafe5 = DUnsafe 5 /\ load_deps_rd_old true unsafe6 = DUnsafe 6 /\
  load_deps_rd_old false unsafe5 = DUnsafe 5 /\
  (exists s, load_deps_rd_old true unsafe_recompact = DOk s None false /\
             forall live, recompact_r live s = CUnsafe 1).
Proof. exact C13_depslog_bounds_refuted_thm. Qed.
Print Assumptions C13_depslog_bounds_refuted.

Corollary C13_depslog_bounds_old_full_refuted :
  ~ (forall f w, load_deps_rd_old true f <> DUnsafe w).
Proof.
  intros H. destruct C13_depslog_bounds_refuted_thm as (H1 & _). exact (H _ _ H1).
Qed.
Print Assumptions C13_depslog_bounds_old_full_refuted.

(* OLD reader: outside these classes (safe_file: a syntactic condition on the framed records)
   it had no undefined behaviour; strict = true counts the misaligned checksum load. *)
Theorem C13_depslog_bounds_old_partial : forall old strict (f : bytes),
  safe_file strict f = true -> forall w, load_deps_ver old (RdOld strict) f <> DUnsafe w.
Proof. exact C13_depslog_bounds_old_partial_thm. Qed.
Print Assumptions C13_depslog_bounds_old_partial.

Example C13_depslog_bounds_old_partial_nonvacuous :
  safe_file true (apply_ops [] ex_ops) = true /\ safe_file false (apply_ops [] ex_ops) = true /\
  safe_file true unsafe6 = false /\ safe_file false unsafe6 = true.
Proof.
  split; [vm_compute; reflexivity|]. split; [vm_compute; reflexivity|].
  split; vm_compute; reflexivity.
Qed.
