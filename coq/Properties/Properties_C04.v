(* C04 -- a command starts only after everything it needs is up to date.
   PART served by the plan / build-loop model (Engine/PlanDefs.v: a transliteration of class Plan
   of src/build.cc, class Pool of src/state.cc and of the loop of Builder::Build, INCLUDING the dyndep
   loads made during the build: Builder::LoadDyndeps from Plan::EdgeFinished, Plan::DyndepsLoaded,
   RefreshDyndepDependents, UnmarkDependents).
   All statements are for ALL graphs [g] -- with any dyndep-discovered inputs/outputs, which are entries
   of the graph that exist only once the dyndep file of their edge is loaded -- with an acyclic producer
   relation ([wf_graph g rank]: a ranking function over the graph with all dyndep information), ALL
   -j >= 1, -k >= 1, pool depths and jobserver sizes ([cfg], [g_depths]), ALL snapshots of a dependency
   scan satisfying [wf_snap] (checked on every replayed trace by the computable [wf_snap_b]), ALL
   [loads] (what the trace says each re-scan after a dyndep load decided; facts the model can check are
   guards of the transition) and ALL accepted event lists -- i.e. all completion orders, all choices of
   FindWork among the ready edges, all priority orders of the pools' delayed sets, all iteration orders
   of dyndep_walk, all failures.
   "The directories exist / the response file holds its content" is not in this model. *)
From NinjaV Require Import Base.Bytes Engine.PlanDefs Engine.PlanProofs.

(* The invariant of the plan bookkeeping (DESIGN.md Appendix D.3, as it is true of the code). *)
Theorem C04_plan_inv : forall g cfg loads rank, wf_graph g rank -> 0 < c_k cfg -> 0 < c_j cfg ->
  forall s, reachable g cfg loads s -> s_phase s = PhBuild -> plan_inv g cfg s.
Proof. exact plan_inv_reachable. Qed.
Print Assumptions C04_plan_inv.

(* At every accepted Start, every producer of an input -- as known at that moment: manifest, loaded
   deps, dyndep files loaded so far ([ins_at]) -- has outputs_ready. *)
Theorem C04_start_inputs_ready : forall g cfg loads rank, wf_graph g rank -> 0 < c_k cfg -> 0 < c_j cfg ->
  forall s e prio s', reachable g cfg loads s -> step g cfg loads s (EvStart e prio) = Some s' ->
  forall i, In i (ins_at g (s_plan s) e) -> p_oready (s_plan s) i = true.
Proof. exact start_inputs_ready. Qed.
Print Assumptions C04_start_inputs_ready.

(* ... and outputs_ready means: ready at scan time, or finished successfully EARLIER IN THE TRACE (a
   command with exit code 0, or a phony edge), or an edge that was not wanted (kWantNothing at scan
   time or pruned by restat) and was checked off once its own inputs were ready, or -- after a dyndep
   load -- an edge the re-scan visited for the first time and judged up to date, or put into want_ as
   not wanted ([Lorig]: it is named in the [ld_ready]/[ld_added] payload of some load). *)
Theorem C04_start_after_producers : forall g cfg loads rank, wf_graph g rank -> 0 < c_k cfg -> 0 < c_j cfg ->
  forall prio sn evs s e pr s', wf_snap g sn -> run g cfg loads prio sn evs = Some s ->
  step g cfg loads s (EvStart e pr) = Some s' ->
  forall i, In i (ins_at g (s_plan s) e) ->
    sn_oready sn i = true \/
    ((exists pr', In (EvFinish i 0 pr') evs) \/ (exists pr', In (EvStart i pr') evs /\ phony g i = true)) \/
    sn_want sn i = Some WNothing \/ In (EvPrune i) evs \/
    ((exists e' L, loads e' = Some L /\ In i (ld_ready L)) \/
     (exists e' L, loads e' = Some L /\ In (i, false) (ld_added L))).
Proof. exact start_after_producers. Qed.
Print Assumptions C04_start_after_producers.

(* Validations impose no ordering: they are not among the inputs (the harness's `vals=` column is not
   read by the model at all), and the guard of Start is exactly the following -- a non-phony ready
   edge is started whenever budget, capacity and a token are there. *)
Theorem C04_validation_no_order : forall g cfg loads, 0 < c_k cfg -> 0 < c_j cfg ->
  forall s e prio,
  in_build s = true -> s_waiting s = false -> more_to_do (s_plan s) = true -> 0 < s_fa s ->
  length (s_running s) < c_j cfg -> In e (p_ready (s_plan s)) -> token_ok cfg (s_plan s) = true ->
  phony g e = false -> exists s', step g cfg loads s (EvStart e prio) = Some s'.
Proof. exact start_enabled. Qed.
Print Assumptions C04_validation_no_order.

(* ---- non-vacuity: the example of PlanDefs.v (4 edges, a pool of depth 1) ---- *)
Example C04_premises_nonvacuous :
  wf_graph ex_graph ex_rank /\ wf_snap ex_graph ex_snap /\ 0 < c_k ex_cfg /\ 0 < c_j ex_cfg /\
  exists s, run ex_graph ex_cfg no_loads ex_prio ex_snap ex_trace_ok = Some s.
Proof.
  split; [exact ex_wf_graph|]. split; [exact ex_wf_snap|]. split; [exact ex_cfg_k|]. split; [exact ex_cfg_j|].
  apply is_some_run. vm_compute. reflexivity.
Qed.

(* the accepted trace reaches a state where command 2 (inputs produced by 0 and 1) is started *)
Example C04_start_inputs_ready_nonvacuous :
  exists s s', reachable ex_graph ex_cfg no_loads s /\ step ex_graph ex_cfg no_loads s (EvStart 2 ex_prio) = Some s' /\
               ins_at ex_graph (s_plan s) 2 = [0; 1].
Proof.
  destruct (run_snoc_split ex_graph ex_cfg no_loads ex_prio ex_snap (firstn 6 ex_trace_ok) (EvStart 2 ex_prio))
    as [s [s' [H1 H2]]]; [vm_compute; reflexivity|].
  exists s, s'. split; [apply (run_reachable _ _ _ _ _ _ _ ex_wf_snap H1)|]. split; [exact H2|reflexivity].
Qed.

(* and it is rejected one step earlier, when 1 has not finished *)
Example C04_start_too_early_rejected :
  is_some (run ex_graph ex_cfg no_loads ex_prio ex_snap (firstn 5 ex_trace_ok ++ [EvStart 2 ex_prio])) = false.
Proof. vm_compute. reflexivity. Qed.

Example C04_validation_no_order_nonvacuous :
  exists s, reachable ex_graph ex_cfg no_loads s /\
    in_build s = true /\ s_waiting s = false /\ more_to_do (s_plan s) = true /\ 0 < s_fa s /\
    length (s_running s) < c_j ex_cfg /\ In 2 (p_ready (s_plan s)) /\ token_ok ex_cfg (s_plan s) = true /\
    phony ex_graph 2 = false.
Proof.
  destruct (is_some_run ex_graph ex_cfg no_loads ex_prio ex_snap (firstn 6 ex_trace_ok)) as [s Hs]; [vm_compute; reflexivity|].
  exists s. split; [apply (run_reachable _ _ _ _ _ _ _ ex_wf_snap Hs)|].
  vm_compute in Hs. injection Hs as <-. vm_compute. repeat split; try reflexivity; try lia.
Qed.

(* ---- with a dyndep load ([dd_graph]: command 2 is bound to the dyndep file produced by 0, which
   tells that 2 also needs an output of 1) ---- *)
Lemma dd_wf_graph : wf_graph dd_graph (fun e => e).
Proof. apply wf_graph_b_sound. vm_compute. reflexivity. Qed.
Lemma dd_wf_snap : wf_snap dd_graph dd_snap.
Proof.
  apply wf_snap_b_sound; [|vm_compute; reflexivity].
  intros e He. change (n_edges dd_graph) with 4 in He. unfold dd_snap. cbn [sn_want sn_oready].
  destruct (Nat.ltb_spec e 4); [lia|]. split; reflexivity.
Qed.

(* before the load 2 has one input (the dyndep file, produced by 0), afterwards two; the accepted
   trace starts 2 only after 1 has finished, and starting it right after the load is rejected *)
Example C04_dyndep_nonvacuous :
  ins_at dd_graph (s_plan (init_state dd_graph dd_cfg [] dd_snap)) 2 = [0] /\
  (exists s s', reachable dd_graph dd_cfg dd_loads s /\ step dd_graph dd_cfg dd_loads s (EvStart 2 []) = Some s' /\
                ins_at dd_graph (s_plan s) 2 = [0; 1]) /\
  is_some (run dd_graph dd_cfg dd_loads [] dd_snap (firstn 4 dd_trace ++ [EvStart 2 []])) = false.
Proof.
  split; [vm_compute; reflexivity|]. split; [|vm_compute; reflexivity].
  destruct (run_snoc_split dd_graph dd_cfg dd_loads [] dd_snap (firstn 6 dd_trace) (EvStart 2 []))
    as [s [s' [H1 H2]]]; [vm_compute; reflexivity|].
  exists s, s'. split; [apply (run_reachable _ _ _ _ _ _ _ dd_wf_snap H1)|]. split; [exact H2|].
  vm_compute in H1. injection H1 as <-. vm_compute. reflexivity.
Qed.
