(* C04 -- a command starts only after everything it needs is up to date.
   PART served by the plan / build-loop model (Engine/PlanDefs.v: a transliteration of class Plan
   of src/build.cc, class Pool of src/state.cc and of the loop of Builder::Build; dyndep-free).
   All statements are for ALL graphs [g] with an acyclic producer relation ([wf_graph g rank]: a
   ranking function), ALL -j >= 1, -k >= 1, pool depths and jobserver sizes ([cfg], [g_depths]),
   ALL snapshots of a dependency scan satisfying [wf_snap] (checked on every replayed trace by the
   computable [wf_snap_b]), ALL accepted event lists -- i.e. all completion orders, all choices of
   FindWork among the ready edges, all priority orders of the pools' delayed sets, all failures.
   "The directories exist / the response file holds its content" is not in this model. *)
From NinjaV Require Import Base.Bytes Engine.PlanDefs Engine.PlanProofs.

(* The invariant of the plan bookkeeping (DESIGN.md Appendix D.3, as it is true of the code). *)
Theorem C04_plan_inv : forall g cfg rank, wf_graph g rank -> 0 < c_k cfg -> 0 < c_j cfg ->
  forall s, reachable g cfg s -> s_phase s = PhBuild -> plan_inv g cfg s.
Proof. exact plan_inv_reachable. Qed.
Print Assumptions C04_plan_inv.

(* At every accepted Start, every producer of an input has outputs_ready. *)
Theorem C04_start_inputs_ready : forall g cfg rank, wf_graph g rank -> 0 < c_k cfg -> 0 < c_j cfg ->
  forall s e prio s', reachable g cfg s -> step g cfg s (EvStart e prio) = Some s' ->
  forall i, In i (ins g e) -> p_oready (s_plan s) i = true.
Proof. exact start_inputs_ready. Qed.
Print Assumptions C04_start_inputs_ready.

(* ... and outputs_ready means: ready at scan time, or finished successfully EARLIER IN THE TRACE (a
   command with exit code 0, or a phony edge), or an edge that was not wanted (kWantNothing at scan
   time or pruned by restat) and was checked off once its own inputs were ready. *)
Theorem C04_start_after_producers : forall g cfg rank, wf_graph g rank -> 0 < c_k cfg -> 0 < c_j cfg ->
  forall prio sn evs s e pr s', wf_snap g sn -> run g cfg prio sn evs = Some s ->
  step g cfg s (EvStart e pr) = Some s' ->
  forall i, In i (ins g e) ->
    sn_oready sn i = true \/
    ((exists pr', In (EvFinish i 0 pr') evs) \/ (exists pr', In (EvStart i pr') evs /\ phony g i = true)) \/
    sn_want sn i = Some WNothing \/ In (EvPrune i) evs.
Proof. exact start_after_producers. Qed.
Print Assumptions C04_start_after_producers.

(* Validations impose no ordering: they are not among [ins] (the harness's `vals=` column is not
   read by the model at all), and the guard of Start is exactly the following -- a non-phony ready
   edge is started whenever budget, capacity and a token are there. *)
Theorem C04_validation_no_order : forall g cfg, 0 < c_k cfg -> 0 < c_j cfg ->
  forall s e prio,
  in_build s = true -> s_waiting s = false -> more_to_do (s_plan s) = true -> 0 < s_fa s ->
  length (s_running s) < c_j cfg -> In e (p_ready (s_plan s)) -> token_ok cfg (s_plan s) = true ->
  phony g e = false -> exists s', step g cfg s (EvStart e prio) = Some s'.
Proof. exact start_enabled. Qed.
Print Assumptions C04_validation_no_order.

(* ---- non-vacuity: the example of PlanDefs.v (4 edges, a pool of depth 1) ---- *)
Example C04_premises_nonvacuous :
  wf_graph ex_graph ex_rank /\ wf_snap ex_graph ex_snap /\ 0 < c_k ex_cfg /\ 0 < c_j ex_cfg /\
  exists s, run ex_graph ex_cfg ex_prio ex_snap ex_trace_ok = Some s.
Proof.
  split; [exact ex_wf_graph|]. split; [exact ex_wf_snap|]. split; [exact ex_cfg_k|]. split; [exact ex_cfg_j|].
  apply is_some_run. vm_compute. reflexivity.
Qed.

(* the accepted trace reaches a state where command 2 (inputs produced by 0 and 1) is started *)
Example C04_start_inputs_ready_nonvacuous :
  exists s s', reachable ex_graph ex_cfg s /\ step ex_graph ex_cfg s (EvStart 2 ex_prio) = Some s' /\
               ins ex_graph 2 = [0; 1].
Proof.
  destruct (run_snoc_split ex_graph ex_cfg ex_prio ex_snap (firstn 6 ex_trace_ok) (EvStart 2 ex_prio))
    as [s [s' [H1 H2]]]; [vm_compute; reflexivity|].
  exists s, s'. split; [apply (run_reachable _ _ _ _ _ _ ex_wf_snap H1)|]. split; [exact H2|reflexivity].
Qed.

(* and it is rejected one step earlier, when 1 has not finished *)
Example C04_start_too_early_rejected :
  is_some (run ex_graph ex_cfg ex_prio ex_snap (firstn 5 ex_trace_ok ++ [EvStart 2 ex_prio])) = false.
Proof. vm_compute. reflexivity. Qed.

Example C04_validation_no_order_nonvacuous :
  exists s, reachable ex_graph ex_cfg s /\
    in_build s = true /\ s_waiting s = false /\ more_to_do (s_plan s) = true /\ 0 < s_fa s /\
    length (s_running s) < c_j ex_cfg /\ In 2 (p_ready (s_plan s)) /\ token_ok ex_cfg (s_plan s) = true /\
    phony ex_graph 2 = false.
Proof.
  destruct (is_some_run ex_graph ex_cfg ex_prio ex_snap (firstn 6 ex_trace_ok)) as [s Hs]; [vm_compute; reflexivity|].
  exists s. split; [apply (run_reachable _ _ _ _ _ _ ex_wf_snap Hs)|].
  vm_compute in Hs. injection Hs as <-. vm_compute. repeat split; try reflexivity; try lia.
Qed.
