(* C07 at HISTORY level for the FAITHFUL build loop (Engine/HistFailFaithful.v): killed and
   interrupted invocations, and the recoveries after them, run the way ninja prunes its plan (want
   map + Plan::CleanNode from the restat loop of Builder::FinishCommand; after a kill or an
   interrupt the plan is not consulted again) -- the loops the correspondence tool runs against the
   real engine -- next to HistCrashDefs.buildK / buildI, about which Properties_C07hist.v speaks.
   Proofs: Engine/HistFailFaithfulProofs.v.  Every theorem is restated in full.

   Premises: those of Properties_C07hist.v (wf_spec g, wf_graph g, frag_AB g, topo_ordered g, the
   invariant [GoodK] = HistFailDefs.GoodF of all histories with failures, kills and interrupts) and
     no_inputless_phony g = true     the documented always-dirty case.
   RESULT (FULL, nothing partial): under these premises the faithful and the original loops are
   the same functions -- [buildK_full_f_eq], [buildK_f_eq], [buildI_full_f_eq], [buildI_f_eq],
   histories [run_khist_f_eq]; successful invocations from states with half-written outputs:
   Properties_C05faithful.build_f_eq_buildF -- so every theorem of Properties_C07hist.v transfers;
   [C07_kill_recovery_f], [C07_kill_then_build_f], [C07_interrupt_then_build_f] are stated.  With an
   input-less phony statement the loops differ ([C07_faithful_differs_with_inputless_phony]). *)
From NinjaV Require Import Engine.CrashDefs.
From NinjaV Require Import Base.Bytes Engine.ScanDefs Engine.ScanSpec Engine.ScanProofs Engine.HistDefs Engine.HistProofs Engine.HistFaithful Engine.HistFaithfulProofs Engine.HistFailDefs Engine.HistFailProofs Engine.HistCrashDefs Engine.HistCrashProofs Engine.HistFailFaithful Engine.HistFailFaithfulProofs.
Local Open Scope Z_scope.

(* ---- (1) a killed invocation: same state, same killed statement, same ghost *)
Theorem buildK_full_f_eq :
  forall (cmd : edge -> N -> snapshot -> node -> content) (g : graph),
    wf_spec g -> wf_graph g -> frag_AB g = true -> topo_ordered g = true ->
    no_inputless_phony g = true ->
  forall (st : hstate) (T : list node) (cp : crash_point),
    GoodK cmd g st -> buildK_full_f cmd g st T cp = buildK_full cmd g st T cp.
Proof. exact HistFailFaithfulProofs.buildK_full_f_eq. Qed.
Print Assumptions buildK_full_f_eq.

Theorem buildK_f_eq :
  forall (cmd : edge -> N -> snapshot -> node -> content) (g : graph),
    wf_spec g -> wf_graph g -> frag_AB g = true -> topo_ordered g = true ->
    no_inputless_phony g = true ->
  forall (st : hstate) (T : list node) (cp : crash_point),
    GoodK cmd g st -> buildK_f cmd g st T cp = buildK cmd g st T cp.
Proof. exact HistFailFaithfulProofs.buildK_f_eq. Qed.
Print Assumptions buildK_f_eq.

(* ---- (2) an interrupted invocation: same state, same exit status *)
Theorem buildI_full_f_eq :
  forall (cmd : edge -> N -> snapshot -> node -> content) (g : graph),
    wf_spec g -> wf_graph g -> frag_AB g = true -> topo_ordered g = true ->
    no_inputless_phony g = true ->
  forall (st : hstate) (T : list node) (ip : intr_point),
    GoodK cmd g st -> buildI_full_f cmd g st T ip = buildI_full cmd g st T ip.
Proof. exact HistFailFaithfulProofs.buildI_full_f_eq. Qed.
Print Assumptions buildI_full_f_eq.

Theorem buildI_f_eq :
  forall (cmd : edge -> N -> snapshot -> node -> content) (g : graph),
    wf_spec g -> wf_graph g -> frag_AB g = true -> topo_ordered g = true ->
    no_inputless_phony g = true ->
  forall (st : hstate) (T : list node) (ip : intr_point),
    GoodK cmd g st -> buildI_f cmd g st T ip = buildI cmd g st T ip.
Proof. exact HistFailFaithfulProofs.buildI_f_eq. Qed.
Print Assumptions buildI_f_eq.

(* ---- (3) histories with edits, successful, failing, killed and interrupted invocations *)
Theorem run_khist_f_eq :
  forall (cmd : edge -> N -> snapshot -> node -> content) (g : graph),
    wf_spec g -> wf_graph g -> frag_AB g = true -> topo_ordered g = true ->
    no_inputless_phony g = true ->
  forall (h : list kstep) (st : hstate),
    GoodK cmd g st -> khist_ok g h = true -> run_khist_f cmd g st h = run_khist cmd g st h.
Proof. exact HistFailFaithfulProofs.run_khist_f_eq. Qed.
Print Assumptions run_khist_f_eq.

(* ---- (4) theorems of Properties_C07hist.v, for the faithful loops *)
Theorem C07_kill_recovery_f :
  forall (cmd : edge -> N -> snapshot -> node -> content) (g : graph),
    wf_spec g -> wf_graph g -> frag_AB g = true -> topo_ordered g = true ->
    no_inputless_phony g = true ->
  forall (h : list kstep) (T : list node) (st' : hstate),
    (forall (e : edge) (h1 h2 : N) (S : snapshot) (o : node),
       ei_generator (g_edge g e) = true -> cmd e h1 S o = cmd e h2 S o) ->
    khist_ok g h = true ->
    taint_safe g (run_khist_f cmd g (init_hstate g) h) = true ->
    build_f cmd g (run_khist_f cmd g (init_hstate g) h) T = Some st' ->
    forall n : node, reach g T n -> content_of st' n = clean_of cmd g st' n.
Proof. exact HistFailFaithfulProofs.C07_kill_recovery_f. Qed.
Print Assumptions C07_kill_recovery_f.

Theorem C07_kill_then_build_f :
  forall (cmd : edge -> N -> snapshot -> node -> content) (g : graph),
    wf_spec g -> wf_graph g -> frag_AB g = true -> topo_ordered g = true ->
    no_inputless_phony g = true ->
  forall (st : hstate) (T : list node) (cp : crash_point) (st1 : hstate)
         (r : option (edge * crash_at * hstate)) (T' : list node) (st2 : hstate),
    (forall (e : edge) (h1 h2 : N) (S : snapshot) (o : node),
       ei_generator (g_edge g e) = true -> cmd e h1 S o = cmd e h2 S o) ->
    GoodK cmd g st -> taint_robust g st = true ->
    buildK_full_f cmd g st T cp = Some (st1, r) ->
    match r with Some (e, a, stk) => kill_benign g stk e a = true | None => True end ->
    build_f cmd g st1 T' = Some st2 ->
    forall n : node, reach g T' n -> content_of st2 n = clean_of cmd g st2 n.
Proof. exact HistFailFaithfulProofs.C07_kill_then_build_f. Qed.
Print Assumptions C07_kill_then_build_f.

Theorem C07_interrupt_then_build_f :
  forall (cmd : edge -> N -> snapshot -> node -> content) (g : graph),
    wf_spec g -> wf_graph g -> frag_AB g = true -> topo_ordered g = true ->
    no_inputless_phony g = true ->
  forall (st : hstate) (T : list node) (ip : intr_point) (st1 : hstate) (code : N)
         (T' : list node) (st2 : hstate),
    (forall (e : edge) (h1 h2 : N) (S : snapshot) (o : node),
       ei_generator (g_edge g e) = true -> cmd e h1 S o = cmd e h2 S o) ->
    GoodK cmd g st -> taint_robust g st = true ->
    buildI_f cmd g st T ip = Some (st1, code) ->
    build_f cmd g st1 T' = Some st2 ->
    forall n : node, reach g T' n -> content_of st2 n = clean_of cmd g st2 n.
Proof. exact HistFailFaithfulProofs.C07_interrupt_then_build_f. Qed.
Print Assumptions C07_interrupt_then_build_f.

(* ---- (5) non-vacuity: the project HistCrashDefs.ExK (a restat statement, a two-output statement) *)
(* the premises hold; the state after kill 1 (x.o half written) satisfies GoodK, has a tainted output
   and is [taint_safe] *)
Example C07_faithful_premises_nonvacuous :
  let h := ExK.pre ++ [BuildK ExK.T ExK.cp1] in
  wf_spec ExK.g /\ wf_graph ExK.g /\
  frag_AB ExK.g && topo_ordered ExK.g && no_inputless_phony ExK.g = true /\
  khist_ok ExK.g h = true /\
  GoodK ExK.cmd ExK.g (run_khist ExK.cmd ExK.g ExK.st0 h) /\
  tainted (run_khist ExK.cmd ExK.g ExK.st0 h) 3%nat = true /\
  taint_safe ExK.g (run_khist ExK.cmd ExK.g ExK.st0 h) = true.
Proof.
  cbn zeta. destruct HistCrashProofs.C07_kill_recovery_nonvacuous_proof as [A [B [C _]]]. cbn zeta in A, B, C.
  split; [exact ExK_wf_spec|]. split; [exact ExK_wf_graph|]. split; [vm_compute; reflexivity|].
  split; [exact A|]. split; [|split; [exact B|exact C]].
  apply (goodK_hist_proof ExK.cmd ExK.g ExK_wf_spec); [vm_compute; reflexivity|apply goodK_init_proof|exact A].
Qed.

(* computed independently of the theorems: every kill / interrupt of the examples of HistCrashDefs and
   the recoveries after them, with the faithful loop: the same states *)
Example C07_faithful_same_on_ExK :
  run_khist_f ExK.cmd ExK.g ExK.st0 ExK.pre = ExK.st4 /\
  apply_kstep_f ExK.cmd ExK.g ExK.st4 (BuildK ExK.T ExK.cp1) = ExK.k1 /\
  apply_kstep_f ExK.cmd ExK.g ExK.k1 (KStep (Plain (Build ExK.T))) = ExK.r1 /\
  apply_kstep_f ExK.cmd ExK.g ExK.st4 (BuildK ExK.T ExK.cp2) = ExK.k2 /\
  apply_kstep_f ExK.cmd ExK.g ExK.k2 (KStep (Plain (Build ExK.T))) = ExK.r2 /\
  apply_kstep_f ExK.cmd ExK.g ExK.k2 (BuildK ExK.T (mkCP 1 (KWrote 2 ExK.garbage))) = ExK.k2b /\
  apply_kstep_f ExK.cmd ExK.g ExK.k2b (KStep (Plain (Build ExK.T))) = ExK.r2b /\
  apply_kstep_f ExK.cmd ExK.g ExK.st5 (BuildK ExK.T ExK.cp3) = ExK.k3 /\
  apply_kstep_f ExK.cmd ExK.g ExK.k3 (KStep (Plain (Build ExK.T))) = ExK.r3 /\
  apply_kstep_f ExK.cmd ExK.g ExK.st4 (BuildI ExK.T ExK.ip1) = ExK.i1 /\
  apply_kstep_f ExK.cmd ExK.g ExK.i1 (KStep (Plain (Build ExK.T))) = ExK.ri1 /\
  buildI_f ExK.cmd ExK.g ExK.st4 ExK.T (mkIP 0 1 ExK.garbage) = buildI ExK.cmd ExK.g ExK.st4 ExK.T (mkIP 0 1 ExK.garbage) /\
  buildK_full_f ExK.cmd ExK.g ExK.st4 ExK.T (mkCP 4 KBefore) = buildK_full ExK.cmd ExK.g ExK.st4 ExK.T (mkCP 4 KBefore).
Proof. exact ExFF.same_on_ExK. Qed.

Example C07_faithful_same_on_ExKill :
  run_khist_f Ex.cmd ExKill.g (init_hstate ExKill.g) ExKill.hist4 = ExKill.st4 /\
  run_khist_f Ex.cmd ExKill.g (init_hstate ExKill.g) ExKill.hist_edit =
  run_khist Ex.cmd ExKill.g (init_hstate ExKill.g) ExKill.hist_edit /\
  run_khist_f Ex.cmd ExKill.g (init_hstate ExKill.g) ExKill.hist4i =
  run_khist Ex.cmd ExKill.g (init_hstate ExKill.g) ExKill.hist4i.
Proof. exact ExFF.same_on_ExKill. Qed.

(* the hypothesis no_inputless_phony cannot be dropped: HistFaithful.ExF (build always: phony /
   build gen: r1 always src, restat / build out: r2 gen), second build, a kill / an interrupt at
   [out]: the original loop is in the middle of out's command (half-written out / out removed,
   exit status 130); ninja has pruned out: the position lies between two statements, out is as it
   was, exit status 0 *)
Example C07_faithful_differs_with_inputless_phony :
  frag_AB ExFFdiff.g && topo_ordered ExFFdiff.g = true /\ no_inputless_phony ExFFdiff.g = false /\
  (match buildK_full Ex.cmd ExFFdiff.g ExFFdiff.st1 ExFFdiff.T (mkCP 2 (KWrote 1 ExFFdiff.garbage)) with
   | Some (st', r) => is_some r = true /\ content_of st' 3%nat = Some 999%N | None => False end) /\
  (match buildK_full_f Ex.cmd ExFFdiff.g ExFFdiff.st1 ExFFdiff.T (mkCP 2 (KWrote 1 ExFFdiff.garbage)) with
   | Some (st', r) => is_some r = false /\ content_of st' 3%nat = content_of ExFFdiff.st1 3%nat /\
                      HistFailDefs.trace_delta ExFFdiff.st1 st' = [1%nat] | None => False end) /\
  (match buildI Ex.cmd ExFFdiff.g ExFFdiff.st1 ExFFdiff.T (mkIP 2 1 ExFFdiff.garbage),
         buildI_f Ex.cmd ExFFdiff.g ExFFdiff.st1 ExFFdiff.T (mkIP 2 1 ExFFdiff.garbage) with
   | Some (st', c), Some (st'', c') => c = exit_interrupted /\ content_of st' 3%nat = None /\
                                       c' = exit_success /\ content_of st'' 3%nat = content_of ExFFdiff.st1 3%nat
   | _, _ => False end).
Proof.
  destruct ExFFdiff.premises as [A [B _]]. destruct ExFFdiff.kill_not_reached as [C [D E]].
  split; [exact A|]. split; [exact B|]. split; [exact C|]. split; [exact D|exact E].
Qed.
