(* C20, counters across the builds of ONE invocation (the manifest regeneration build and the real build share the
   StatusPrinter): "after a successful build the number finished equals the total".  Model: Status/StatusDefs.v
   (tied byte for byte to the real StatusPrinter by tools/props/c20.py), counters as in StatusProofs.cn_step. *)
From NinjaV Require Import Base.Bytes Status.StatusDefs Status.StatusProofs Status.StatusMulti.
Local Open Scope Z_scope.

Theorem C20_total_zero_after_build_finished : forall cs, n_total (counters_of (cs ++ [BuildFinished])) = 0.
Proof. exact total_zero_after_build_finished. Qed.
Print Assumptions C20_total_zero_after_build_finished.

Theorem C20_next_build_counts_from_zero : forall cs adds,
  all_added adds -> n_total (counters_of (cs ++ [BuildFinished] ++ adds)) = Z.of_nat (length adds).
Proof. exact next_build_counts_from_zero. Qed.
Print Assumptions C20_next_build_counts_from_zero.

Theorem C20_finished_equals_total_every_build : forall cs es,
  let cn := counters_of (cs ++ [BuildFinished] ++ map Added es ++ [BuildStarted] ++ run_all es) in
  n_finished cn = n_total cn /\ n_started cn = n_total cn /\ n_total cn = Z.of_nat (length es).
Proof. exact finished_equals_total_every_build. Qed.
Print Assumptions C20_finished_equals_total_every_build.

(* the pinned tree before the fix: after a regeneration the last status line of a successful build read [2/3] *)
Theorem C20_finished_equals_total_old_refuted : forall e0 e1 e2,
  let cn := counters_of_old (regen_then_build e0 e1 e2) in n_finished cn = 2 /\ n_total cn = 3.
Proof. exact finished_equals_total_old_refuted. Qed.
Print Assumptions C20_finished_equals_total_old_refuted.
