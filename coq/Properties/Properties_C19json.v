(* C19 (JSON part) — compdb strings are valid JSON string literals whatever bytes the commands
   contain.  Model: Shell/JsonDefs.v (EncodeJSONString, strict decoder, UTF-8 DFA).
   Proofs: Shell/JsonProofs.v. *)
From NinjaV Require Import Base.Bytes Shell.JsonDefs Shell.JsonProofs.
Local Open Scope N_scope.

(* For ALL byte strings: a strict byte-level decoder of the RFC 8259 string grammar accepts the
   output and returns the input. *)
Theorem C19_json_roundtrip : forall s, json_decode (json_encode s) = Some s.
Proof. exact JsonProofs.C19_json_roundtrip. Qed.
Print Assumptions C19_json_roundtrip.

(* The complete literal, followed by anything: the parser stops at ninja's closing quote. *)
Theorem C19_json_literal :
  forall s rest, json_parse_string (json_literal s ++ rest) = Some (s, rest).
Proof. exact JsonProofs.C19_json_literal. Qed.
Print Assumptions C19_json_literal.

(* No raw control byte ... *)
Theorem C19_json_no_raw_control : forall s b, In b (json_encode s) -> 32 <= b.
Proof. exact JsonProofs.C19_json_no_raw_control. Qed.
Print Assumptions C19_json_no_raw_control.

Example C19_json_no_raw_control_nonvacuous : In 92 (json_encode [1]).
Proof. vm_compute. left. reflexivity. Qed.

(* ... and every quote / backslash of the output is part of an escape of the grammar. *)
Theorem C19_json_wf : forall s, json_wf (json_encode s) = true.
Proof. exact JsonProofs.C19_json_wf. Qed.
Print Assumptions C19_json_wf.

Theorem C19_json_decode_wf : forall t s, json_decode t = Some s -> json_wf t = true.
Proof. exact JsonProofs.json_decode_wf. Qed.
Print Assumptions C19_json_decode_wf.

Example C19_json_decode_wf_nonvacuous : json_decode [97; 92; 110] = Some [97; 10].
Proof. reflexivity. Qed.

(* the recogniser/decoder are not trivially permissive *)
Example C19_json_strict_1 : json_wf [97; 34; 98] = false /\ json_decode [97; 34; 98] = None.
Proof. split; reflexivity. Qed.                       (* bare quote *)
Example C19_json_strict_2 : json_wf [10] = false /\ json_decode [10] = None.
Proof. split; reflexivity. Qed.                       (* raw newline *)
Example C19_json_strict_3 : json_wf [92] = false /\ json_wf [92; 120] = false /\ json_wf [92; 117; 48; 48; 49] = false.
Proof. repeat split; reflexivity. Qed.                (* truncated / unknown escapes *)

(* Bytes the encoder adds are printable ASCII; other bytes are the input's own. *)
Theorem C19_json_new_bytes_ascii :
  forall s b, In b (json_encode s) -> In b s \/ (32 <= b /\ b < 128).
Proof. exact JsonProofs.C19_json_new_bytes_ascii. Qed.
Print Assumptions C19_json_new_bytes_ascii.

(* UTF-8: preserved when the input is well-formed ... *)
Theorem C19_json_utf8 : forall s, utf8_valid s = true -> utf8_valid (json_encode s) = true.
Proof. exact JsonProofs.C19_json_utf8. Qed.
Print Assumptions C19_json_utf8.

Example C19_json_utf8_nonvacuous : utf8_valid [99; 99; 32; 34; 195; 169; 34; 10] = true.
Proof. reflexivity. Qed.                              (* cc "é"<LF> *)

Theorem C19_json_utf8_iff : forall s, utf8_valid (json_encode s) = utf8_valid s.
Proof. exact JsonProofs.C19_json_utf8_iff. Qed.
Print Assumptions C19_json_utf8_iff.

(* FINDING: ... and NOT produced otherwise: bytes >= 0x80 are copied raw, so a command with a
   byte sequence that is not UTF-8 gives output that is not valid JSON text (RFC 8259 8.1). *)
Theorem C19_json_invalid_utf8_refuted : exists s, utf8_valid (json_encode s) = false.
Proof. exact JsonProofs.C19_json_invalid_utf8_refuted. Qed.
Print Assumptions C19_json_invalid_utf8_refuted.
