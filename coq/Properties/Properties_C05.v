(* C05 -- failures are contained and reported.
   PART served by the plan / build-loop model (Engine/PlanDefs.v, dyndep loads during the build
   included).  Quantification as in
   Properties_C04.v: all graphs with an acyclic producer relation, all -j/-k/pools/jobserver sizes, all
   scan snapshots satisfying [wf_snap], all accepted event lists (all completion orders, all sets of
   failing commands with any exit code other than 130, which the loop treats as an interrupt).
   "No log record is written for a failed command" and "a missing source is reported first" are
   not in this model. *)
From NinjaV Require Import Base.Bytes Engine.PlanDefs Engine.PlanProofs.

(* After a command failed, nothing that depends on it -- through any chain of inputs, in the graph as it
   is known when that Start happens (dyndep files loaded so far included) -- is started, and the failed
   command itself is not started again. *)
Theorem C05_no_dependent_started : forall g cfg loads rank, wf_graph g rank -> 0 < c_k cfg -> 0 < c_j cfg ->
  forall prio sn evs1 e c pr a d pr' s3 s4, wf_snap g sn ->
  run g cfg loads prio sn (evs1 ++ EvFinish e c pr :: a) = Some s3 -> c <> 0 ->
  step g cfg loads s3 (EvStart d pr') = Some s4 -> ~ depends g (s_plan s3) d e /\ d <> e.
Proof. exact no_dependent_started. Qed.
Print Assumptions C05_no_dependent_started.

(* the same over whole traces, for the dependencies that are in the graph from the start *)
Theorem C05_no_dependent_started0 : forall g cfg loads rank, wf_graph g rank -> 0 < c_k cfg -> 0 < c_j cfg ->
  forall prio sn evs1 e c pr evs2 s, wf_snap g sn ->
  run g cfg loads prio sn (evs1 ++ EvFinish e c pr :: evs2) = Some s -> c <> 0 ->
  forall d pr', In (EvStart d pr') evs2 -> ~ depends0 g d e /\ d <> e.
Proof. exact no_dependent_started0. Qed.
Print Assumptions C05_no_dependent_started0.

(* If some command failed, Build() does not return success: the exit status is non-zero, and on
   every return other than "interrupted by user" it is the status tracked by SetFailureCode ... *)
Theorem C05_exit_code : forall g cfg loads rank, wf_graph g rank -> 0 < c_k cfg -> 0 < c_j cfg ->
  forall prio sn evs code m s, wf_snap g sn ->
  run g cfg loads prio sn (evs ++ [EvExit code m]) = Some s ->
  (exists e c pr, In (EvFinish e c pr) evs /\ c <> 0) ->
  code <> 0 /\ (m <> MInterrupted -> code = exit_track 0 evs /\ m <> MSuccess).
Proof. exact exit_code_of_failure. Qed.
Print Assumptions C05_exit_code.

(* ... which is the exit code of the LAST command that failed. *)
Theorem C05_exit_code_is_last_failure : forall x a e c pr b, c <> 0 ->
  (forall e' c' pr', In (EvFinish e' c' pr') b -> c' = 0) ->
  exit_track x (a ++ EvFinish e c pr :: b) = c.
Proof. exact exit_track_last. Qed.
Print Assumptions C05_exit_code_is_last_failure.

(* Once failures_allowed has reached 0 no Start is accepted ... *)
Theorem C05_budget : forall g cfg loads s e prio, s_fa s = 0 -> step g cfg loads s (EvStart e prio) = None.
Proof. exact no_start_without_budget. Qed.
Print Assumptions C05_budget.

(* ... yet, whatever the budget, the loop can still wait for the running commands (when it cannot
   start anything) and every completion of a running command -- with any status other than 130 --
   is accepted, i.e. handled by FinishCommand/EdgeFinished without tripping an assert or a negative
   counter (and, by C04_plan_inv, a successful one updates the plan).  The second statement is for
   builds without a pending dyndep file: with one, acceptance also depends on what the trace says the
   re-scan decided ([apply_load]'s guards). *)
Theorem C05_drain_wait : forall g cfg loads rank, wf_graph g rank -> 0 < c_k cfg -> 0 < c_j cfg ->
  forall s, reachable g cfg loads s -> s_phase s = PhBuild -> s_waiting s = false ->
  s_running s <> [] -> can_start cfg s = false -> exists s', step g cfg loads s EvWait = Some s'.
Proof. exact wait_enabled. Qed.
Print Assumptions C05_drain_wait.

Theorem C05_drain_finish : forall g cfg loads rank, wf_graph g rank -> 0 < c_k cfg -> 0 < c_j cfg ->
  forall s e code prio, no_pending_dyndep g -> reachable g cfg loads s -> s_phase s = PhBuild -> s_waiting s = true ->
  In e (s_running s) -> code <> exit_interrupted ->
  exists s', step g cfg loads s (EvFinish e code prio) = Some s'.
Proof. exact finish_enabled. Qed.
Print Assumptions C05_drain_finish.

(* On every return of Build() other than the interrupt, no command is left running. *)
Theorem C05_reaped : forall g cfg loads rank, wf_graph g rank -> 0 < c_k cfg -> 0 < c_j cfg ->
  forall s code m s', reachable g cfg loads s -> step g cfg loads s (EvExit code m) = Some s' ->
  m <> MInterrupted -> s_running s = [] /\ s_running s' = [].
Proof. exact exit_reaped. Qed.
Print Assumptions C05_reaped.

(* ---- non-vacuity: command 0 of the example fails with status 7 ---- *)
Example C05_no_dependent_started_nonvacuous :
  is_some (run ex_graph ex_cfg no_loads ex_prio ex_snap
             ([EvStart 0 ex_prio; EvWait] ++ EvFinish 0 7 ex_prio :: [EvExit 7 MSubcommandFailed])) = true /\
  7 <> 0 /\ depends0 ex_graph 2 0 /\ depends0 ex_graph 3 0.
Proof.
  split; [vm_compute; reflexivity|]. split; [discriminate|].
  split; [apply dep0_direct; left; reflexivity|].
  apply (dep0_trans ex_graph 3 2 0); [left; reflexivity|apply dep0_direct; left; reflexivity].
Qed.

(* with -k2 the independent command 1 is still started after the failure of 0, the dependent 2 is not *)
Example C05_keep_going_example :
  is_some (run ex_graph (mkConfig 2 2 None) no_loads ex_prio ex_snap
             [EvStart 0 ex_prio; EvWait; EvFinish 0 7 ex_prio; EvStart 1 ex_prio; EvWait; EvFinish 1 0 ex_prio;
              EvExit 7 MCannotProgress]) = true /\
  is_some (run ex_graph (mkConfig 2 2 None) no_loads ex_prio ex_snap
             [EvStart 0 ex_prio; EvWait; EvFinish 0 7 ex_prio; EvStart 1 ex_prio; EvWait; EvFinish 1 0 ex_prio;
              EvStart 2 ex_prio]) = false.
Proof. split; vm_compute; reflexivity. Qed.

Example C05_exit_code_nonvacuous :
  is_some (run ex_graph ex_cfg no_loads ex_prio ex_snap (firstn 3 ex_trace_fail ++ [EvExit 7 MSubcommandFailed])) = true /\
  (exists e c pr, In (EvFinish e c pr) (firstn 3 ex_trace_fail) /\ c <> 0) /\
  exit_track 0 (firstn 3 ex_trace_fail) = 7.
Proof.
  split; [vm_compute; reflexivity|]. split; [|vm_compute; reflexivity].
  exists 0, 7, ex_prio. split; [right; right; left; reflexivity|discriminate].
Qed.

(* two independent commands, -j2 -k1: 0 fails while 1 is still running; nothing can be started,
   the loop waits for 1 and accepts its completion *)
Definition ex2_graph : graph := mkGraph [mkEdge [] [] 0 false None []; mkEdge [] [] 0 false None []] [].
Definition ex2_snap : snapshot := mkSnap (fun e => if e <? 2 then Some WToStart else None) (fun _ => false) 2 2.
Lemma ex2_wf_graph : wf_graph ex2_graph (fun e => e).
Proof. apply wf_graph_b_sound. vm_compute. reflexivity. Qed.
Lemma ex2_wf_snap : wf_snap ex2_graph ex2_snap.
Proof.
  apply wf_snap_b_sound; [|vm_compute; reflexivity]. intros e He. change (n_edges ex2_graph) with 2 in He.
  unfold ex2_snap. cbn [sn_want sn_oready]. destruct (Nat.ltb_spec e 2); [lia|]. split; reflexivity.
Qed.

Example C05_budget_drain_nonvacuous :
  exists s, reachable ex2_graph ex_cfg no_loads s /\ s_fa s = 0 /\ s_phase s = PhBuild /\
            s_waiting s = false /\ s_running s = [1] /\ can_start ex_cfg s = false /\
            is_some (accepts ex2_graph ex_cfg no_loads s [EvWait; EvFinish 1 0 []; EvExit 7 MSubcommandFailed]) = true.
Proof.
  destruct (is_some_run ex2_graph ex_cfg no_loads [] ex2_snap [EvStart 0 []; EvStart 1 []; EvWait; EvFinish 0 7 []]) as [s Hs];
    [vm_compute; reflexivity|].
  exists s. split; [apply (run_reachable _ _ _ _ _ _ _ ex2_wf_snap Hs)|].
  vm_compute in Hs. injection Hs as <-. vm_compute. repeat split; reflexivity.
Qed.

(* a dependency discovered by a dyndep load counts: in [dd_graph] (PlanDefs.v) command 2 learns from the
   dyndep file produced by 0 that it needs an output of 1; 1 fails afterwards (-k2): 2 is not started *)
Example C05_dyndep_dependent_nonvacuous :
  exists s3, run dd_graph (mkConfig 3 2 None) dd_loads [] dd_snap
               ([EvStart 1 []; EvStart 0 []; EvWait; EvFinish 0 0 []; EvWait] ++ EvFinish 1 7 [] :: []) = Some s3 /\
             depends dd_graph (s_plan s3) 2 1 /\ ~ depends0 dd_graph 2 1 /\
             step dd_graph (mkConfig 3 2 None) dd_loads s3 (EvStart 2 []) = None.
Proof.
  destruct (is_some_run dd_graph (mkConfig 3 2 None) dd_loads [] dd_snap
              ([EvStart 1 []; EvStart 0 []; EvWait; EvFinish 0 0 []; EvWait] ++ EvFinish 1 7 [] :: [])) as [s3 Hs];
    [vm_compute; reflexivity|].
  exists s3. split; [exact Hs|]. vm_compute in Hs. injection Hs as <-.
  split; [apply dep_direct; vm_compute; right; left; reflexivity|].
  split; [|vm_compute; reflexivity].
  intros H. inversion H as [d e Hin|d i e Hin Hd]; subst.
  - vm_compute in Hin. destruct Hin as [Hin|[]]. discriminate.
  - vm_compute in Hin. destruct Hin as [Hin|[]]. subst i. inversion Hd as [d e Hin'|d i e Hin' Hd']; subst; vm_compute in Hin'; destruct Hin'.
Qed.

(* ---- the stuck exit ("stuck [this is a bug]": wanted edges are left, nothing runs, nothing can be
   started, nothing failed).  By C06_never_stuck it is not reachable from a graph with an acyclic producer
   relation; the real tree reaches it when a dependency cycle escapes the scan (C17 finding
   dyndep-output-cycle-not-named).  Since "fix: exit with a failure status when the build loop is stuck"
   that return carries ExitFailure, from whatever state it is taken ... ---- *)
Theorem C05_stuck_exit_status : forall g cfg loads s code s',
  step g cfg loads s (EvExit code MStuck) = Some s' -> code = exit_failure.
Proof. exact stuck_exit_status. Qed.
Print Assumptions C05_stuck_exit_status.

(* ... e.g. from the initial state of the cyclic graph [cy_graph] (PlanDefs.v), which is the plan of that
   C17 finding *)
Example C05_stuck_exit_status_nonvacuous :
  wf_graph_b cy_graph (fun e => e) = false /\
  is_some (run cy_graph cy_cfg no_loads [] cy_snap [EvExit exit_failure MStuck]) = true /\
  is_some (run cy_graph cy_cfg no_loads [] cy_snap [EvExit 0 MStuck]) = false.
Proof. split; [|split]; vm_compute; reflexivity. Qed.

(* before that fix ([step_res_old]) the stuck exit returned exit_code_, which is ExitSuccess there:
   "a stuck exit never has status success" fails for the old code *)
Definition C05_stuck_exit_status_old : Prop :=
  forall g cfg loads s code s', step_res_old g cfg loads s (EvExit code MStuck) = Ok s' -> code <> 0.
Theorem C05_stuck_exit_status_old_refuted : ~ C05_stuck_exit_status_old.
Proof.
  intros H.
  destruct (step_res_old cy_graph cy_cfg no_loads (init_state cy_graph cy_cfg [] cy_snap) (EvExit 0 MStuck))
    as [s'| |] eqn:E.
  - apply (H _ _ _ _ 0 s' E). reflexivity.
  - pose proof cy_old_stuck_status_success as W. rewrite E in W. discriminate.
  - pose proof cy_old_stuck_status_success as W. rewrite E in W. discriminate.
Qed.
Print Assumptions C05_stuck_exit_status_old_refuted.
