(* C19 (listing tools): "the commands listed by `-t commands` are those a from-scratch build of the same targets
   runs, in an order that respects dependencies".  Model: Engine/ToolsDefs.v (PrintCommands of src/ninja.cc,
   transliterated; tied to the real binary by tools/toolsmodel.py on every run).  ONLY restatements. *)
From NinjaV Require Import Base.Bytes Engine.ScanDefs Engine.ToolsDefs Engine.ToolsProofs.

(* the walk ends: with fuel = number of statements + 1 the model never reports exhaustion on a well-formed graph *)
Theorem C19_commands_total : forall g targets, wf_graph g -> tool_commands g targets <> None.
Proof. exact tool_commands_total. Qed.
Print Assumptions C19_commands_total.

(* no command is listed twice *)
Theorem C19_commands_nodup : forall g targets l, tool_commands g targets = Some l -> NoDup l.
Proof. exact tool_commands_nodup. Qed.
Print Assumptions C19_commands_nodup.

(* exactly the non-phony statements the targets transitively depend on through explicit, implicit and order-only
   inputs: the statements a from-scratch build of these targets runs (cycles included: the tool diagnoses none) *)
Theorem C19_commands_exact : forall g targets l, tool_commands g targets = Some l ->
  forall x, In x l <-> (target_reach g targets x /\ ei_phony (g_edge g x) = false).
Proof. exact tool_commands_exact. Qed.
Print Assumptions C19_commands_exact.

(* order: a listed statement comes after each listed statement it directly depends on, unless the two lie on a cycle *)
Theorem C19_commands_order : forall g targets l, tool_commands g targets = Some l ->
  forall d d', In d l -> dep g d d' -> ei_phony (g_edge g d') = false -> before d' d l \/ reach g d' d.
Proof. exact tool_commands_order. Qed.
Print Assumptions C19_commands_order.

(* on an acyclic graph: after EVERY statement it transitively depends on (through phony statements too) *)
Theorem C19_commands_order_acyclic : forall g targets l, tool_commands g targets = Some l ->
  acyclic g ->
  forall d x, In d l -> reach g d x -> x <> d -> ei_phony (g_edge g x) = false -> before x d l.
Proof. intros g targets l H Hac. exact (tool_commands_order_acyclic g targets l H Hac). Qed.
Print Assumptions C19_commands_order_acyclic.

(* `-t commands -s`: exactly the non-phony producers of the named targets *)
Theorem C19_commands_single_exact : forall g targets x,
  In x (tool_commands_single g targets) <-> (In x (target_edges g targets) /\ ei_phony (g_edge g x) = false).
Proof. exact tool_commands_single_exact. Qed.
Print Assumptions C19_commands_single_exact.

(* non-vacuity: the example graph of ToolsDefs is well formed and acyclic enough for the premises to bite:
   two targets sharing a chain through a phony statement give a three-command listing in dependency order *)
Example C19_tools_nonvacuous :
  wf_graph ToolsEx.g /\ tool_commands ToolsEx.g [5; 4]%nat = Some [0; 2; 3]%nat /\
  before 0%nat 3%nat [0; 2; 3]%nat.
Proof.
  split; [|split].
  - intros n e. unfold ToolsEx.g; cbn [g_producer g_nedges].
    destruct n as [|[|[|[|[|[|n]]]]]]; intros H; try discriminate; injection H as <-; repeat constructor.
  - vm_compute. reflexivity.
  - exists [], [2%nat], []. reflexivity.
Qed.
