(* C07 at HISTORY level, fragment AB: "interrupts and kills never poison the next build": if ninja is
   interrupted (SIGINT/SIGTERM/SIGHUP) or killed (SIGKILL, power loss) at ANY point of an invocation
   -- before a command starts, while it runs, between its writes, between the persistence steps
   after it finished -- then the next invocation, when it exits successfully, leaves every needed
   output with the content a from-scratch build would produce, and the build after that finds
   nothing to do; on an interrupt ninja removes the outputs the running command had modified and
   exits with status 130.  (The single-statement persistence order, deps log and depfile included,
   is Properties_C07.v on Engine/CrashDefs.v; torn log records are C08/C09.)
   Model: Engine/HistCrashDefs.v = HistFailDefs.v + the steps
     BuildK targets cp   an invocation killed at crash point cp = (position e in the sequential edge
                         order, KBefore | KLocked | KWrote k f | KLogged j): everything before e as
                         in [build]; of statement e: nothing / the lock tick / k output writes with
                         ARBITRARY contents f (half-written files) / all writes and the first j log
                         entries of BuildLog::RecordCommand (one entry per output);
     BuildI targets ip   an invocation interrupted while statement e runs, after k of its writes:
                         the kill state, then Builder::Cleanup (outputs whose mtime differs from the
                         scan's are removed), exit status 130.
   Proofs: Engine/HistCrashProofs.v.  Every theorem is restated in full.  Assumed (the property's):
   log appends are atomic per record; the filesystem is otherwise reliable; NOT assumed: that
   commands write their outputs atomically.

   Premises about the manifest graph [g] and the command function as in Properties_C01hist.v /
   Properties_C05hist.v: wf_spec g, wf_graph g, frag_AB g = true, topo_ordered g = true, and for the
   content theorems that a generator's output does not depend on its own command line.

   RESULT.  The invariant [GoodK] (= GoodF) survives a kill at every crash point and an interrupt at
   every interrupt point.  INTERRUPTS: the modified outputs are gone, the log is untouched, status
   130, and recovery needs NO side condition ([C07_interrupt_recovery]; even HistDefs.Good is kept).
   KILLS: recovery holds under a boolean hypothesis on the state ninja is started in: no half-written
   output is validated by an OLD log entry -- per output [taint_safe], or weaker, per statement
   [taint_safe_stmt] -- and after every history whose kills are benign ([khist_benign]); WITHOUT it
   the property is REFUTED ([C07_kill_recovery_refuted], [C07_kill_half_written_accepted_refuted]):
   output deleted, the re-run is killed after it has half written the output, the log entry of the
   earlier run still validates the file.  This is the listed finding failed-cmd-rewrote-output with
   a kill in place of the failure.  A kill between the log entries of a multi-output statement
   leaves the statement dirty whenever an output without new entry has a stale one
   ([C07_partial_log_entries]).  The build after ANY accepted build is idle
   ([C07_converges_after_recovery], no side condition). *)
From NinjaV Require Import Base.Bytes Engine.ScanDefs Engine.ScanSpec Engine.ScanProofs Engine.HistDefs Engine.HistProofs Engine.HistFailDefs Engine.HistFailProofs Engine.HistCrashDefs Engine.HistCrashProofs.
Local Open Scope Z_scope.

(* ---- (0) the extension is conservative *)
(* a kill after the last statement: the invocation is [build] *)
Theorem buildK_after_last :
  forall (cmd : edge -> N -> snapshot -> node -> content) (g : graph) (st : hstate)
         (T : list node) (cp : crash_point),
    (g_nedges g <= cp_pos cp)%nat -> buildK cmd g st T cp = build cmd g st T.
Proof. exact HistCrashProofs.buildK_after_last_proof. Qed.
Print Assumptions buildK_after_last.

(* a kill after the last log entry of statement e is a kill before statement e+1 *)
Theorem kill_after_last_entry :
  forall (cmd : edge -> N -> snapshot -> node -> content) (g : graph) (st : hstate)
         (T : list node) (e : edge) (j : nat),
    (length (ei_outs (g_edge g e)) <= j)%nat -> (S e < g_nedges g)%nat ->
    buildK cmd g st T (mkCP e (KLogged j)) = buildK cmd g st T (mkCP (S e) KBefore).
Proof. exact HistCrashProofs.kill_after_last_entry_proof. Qed.
Print Assumptions kill_after_last_entry.

(* ---- (1) the invariant: GoodK = StateOkF /\ LogSoundF (LogSound for the outputs whose ghost
        snapshot is intact; a half-written output of a killed command is "tainted") is kept by a
        kill at EVERY crash point and by an interrupt at EVERY interrupt point *)
Theorem goodK_init :
  forall (cmd : edge -> N -> snapshot -> node -> content) (g : graph), GoodK cmd g (init_hstate g).
Proof. exact HistCrashProofs.goodK_init_proof. Qed.
Print Assumptions goodK_init.

Theorem goodK_buildK :
  forall (cmd : edge -> N -> snapshot -> node -> content) (g : graph),
    wf_spec g -> topo_ordered g = true ->
  forall (st : hstate) (T : list node) (cp : crash_point) (st' : hstate),
    GoodK cmd g st -> buildK cmd g st T cp = Some st' -> GoodK cmd g st'.
Proof. exact HistCrashProofs.goodK_buildK_proof. Qed.
Print Assumptions goodK_buildK.

Theorem goodK_buildI :
  forall (cmd : edge -> N -> snapshot -> node -> content) (g : graph),
    wf_spec g -> topo_ordered g = true ->
  forall (st : hstate) (T : list node) (ip : intr_point) (st' : hstate) (code : N),
    GoodK cmd g st -> buildI cmd g st T ip = Some (st', code) -> GoodK cmd g st'.
Proof. exact HistCrashProofs.goodK_buildI_proof. Qed.
Print Assumptions goodK_buildI.

Theorem goodK_step :
  forall (cmd : edge -> N -> snapshot -> node -> content) (g : graph),
    wf_spec g -> topo_ordered g = true ->
  forall (st : hstate) (s : kstep),
    GoodK cmd g st -> kstep_ok g s = true -> GoodK cmd g (apply_kstep cmd g st s).
Proof. exact HistCrashProofs.goodK_step_proof. Qed.
Print Assumptions goodK_step.

(* all histories: edits, deletions, command-line changes, successful, failing, killed and
   interrupted invocations *)
Theorem goodK_hist :
  forall (cmd : edge -> N -> snapshot -> node -> content) (g : graph),
    wf_spec g -> topo_ordered g = true ->
  forall (h : list kstep) (st : hstate),
    GoodK cmd g st -> khist_ok g h = true -> GoodK cmd g (run_khist cmd g st h).
Proof. exact HistCrashProofs.goodK_hist_proof. Qed.
Print Assumptions goodK_hist.

(* ---- (2) recovery after kills.  After ANY history (from the empty tree) with kills, interrupts
        and failures at arbitrary points, a later build that is accepted leaves every node the
        targets need with the clean-build content, PROVIDED that in the state ninja is started in no
        output written by a killed/failed command is validated by an old log entry *)
Theorem C07_kill_recovery :
  forall (cmd : edge -> N -> snapshot -> node -> content) (g : graph),
    wf_spec g -> wf_graph g -> frag_AB g = true -> topo_ordered g = true ->
    (forall (e : edge) (h h' : N) (S : snapshot) (o : node),
       ei_generator (g_edge g e) = true -> cmd e h S o = cmd e h' S o) ->
  forall (h : list kstep) (T : list node) (st' : hstate),
    khist_ok g h = true ->
    taint_safe g (run_khist cmd g (init_hstate g) h) = true ->
    build cmd g (run_khist cmd g (init_hstate g) h) T = Some st' ->
    forall n : node, reach g T n -> content_of st' n = clean_of cmd g st' n.
Proof. exact HistCrashProofs.C07_kill_recovery_proof. Qed.
Print Assumptions C07_kill_recovery.

(* the weakest hypothesis found: ninja's dirty test is per STATEMENT, so it is enough that the
   statement of every half-written output has a reason of its own to run among ALL its outputs: a
   stale log entry (none / other command hash / older than an input) or a missing file *)
Theorem C07_kill_recovery_stmt :
  forall (cmd : edge -> N -> snapshot -> node -> content) (g : graph),
    wf_spec g -> wf_graph g -> frag_AB g = true -> topo_ordered g = true ->
    (forall (e : edge) (h h' : N) (S : snapshot) (o : node),
       ei_generator (g_edge g e) = true -> cmd e h S o = cmd e h' S o) ->
  forall (h : list kstep) (T : list node) (st' : hstate),
    khist_ok g h = true ->
    taint_safe_stmt g (run_khist cmd g (init_hstate g) h) = true ->
    build cmd g (run_khist cmd g (init_hstate g) h) T = Some st' ->
    forall n : node, reach g T n -> content_of st' n = clean_of cmd g st' n.
Proof. exact HistCrashProofs.C07_kill_recovery_stmt_proof. Qed.
Print Assumptions C07_kill_recovery_stmt.

Theorem taint_safe_stmt_weaker :
  forall (g : graph) (st : hstate), taint_safe g st = true -> taint_safe_stmt g st = true.
Proof. exact HistCrashProofs.taint_safe_stmt_weaker_proof. Qed.
Print Assumptions taint_safe_stmt_weaker.

(* the hypothesis on the HISTORY: every kill hit a statement whose touched outputs had no log entry
   that could validate them later (none, or older than an input; for outputs that were written
   completely -- KLogged -- also: an entry with the same command hash); interrupts are always benign *)
Theorem C07_kill_recovery_benign :
  forall (cmd : edge -> N -> snapshot -> node -> content) (g : graph),
    wf_spec g -> wf_graph g -> frag_AB g = true -> topo_ordered g = true ->
    (forall (e : edge) (h h' : N) (S : snapshot) (o : node),
       ei_generator (g_edge g e) = true -> cmd e h S o = cmd e h' S o) ->
  forall (h : list kstep) (T : list node) (st' : hstate),
    khist_ok g h = true ->
    khist_benign cmd g (init_hstate g) h = true ->
    build cmd g (run_khist cmd g (init_hstate g) h) T = Some st' ->
    forall n : node, reach g T n -> content_of st' n = clean_of cmd g st' n.
Proof. exact HistCrashProofs.C07_kill_recovery_benign_proof. Qed.
Print Assumptions C07_kill_recovery_benign.

(* one kill where the old entries are stale, then one build *)
Theorem C07_kill_then_build :
  forall (cmd : edge -> N -> snapshot -> node -> content) (g : graph),
    wf_spec g -> wf_graph g -> frag_AB g = true -> topo_ordered g = true ->
    (forall (e : edge) (h h' : N) (S : snapshot) (o : node),
       ei_generator (g_edge g e) = true -> cmd e h S o = cmd e h' S o) ->
  forall (st : hstate) (T : list node) (cp : crash_point) (st1 : hstate)
         (r : option (edge * crash_at * hstate)) (T' : list node) (st2 : hstate),
    GoodK cmd g st -> taint_robust g st = true ->
    buildK_full cmd g st T cp = Some (st1, r) ->
    match r with Some (e, a, stk) => kill_benign g stk e a = true | None => True end ->
    build cmd g st1 T' = Some st2 ->
    forall n : node, reach g T' n -> content_of st2 n = clean_of cmd g st2 n.
Proof. exact HistCrashProofs.C07_kill_then_build_proof. Qed.
Print Assumptions C07_kill_then_build.

(* the first run of a statement (no log entry yet, not a generator rule) can be killed anywhere *)
Theorem kill_benign_no_entry :
  forall (g : graph) (stk : hstate) (e : edge) (a : crash_at),
    ei_generator (g_edge g e) = false ->
    (forall o : node, In o (ei_outs (g_edge g e)) -> h_blog stk o = None) ->
    kill_benign g stk e a = true.
Proof. exact HistCrashProofs.kill_benign_no_entry_proof. Qed.
Print Assumptions kill_benign_no_entry.

(* WITHOUT the hypothesis the statement is FALSE of the model *)
Theorem C07_kill_recovery_refuted :
  ~ (forall (cmd : edge -> N -> snapshot -> node -> content) (g : graph),
       wf_spec g -> wf_graph g -> frag_AB g = true -> topo_ordered g = true ->
       (forall (e : edge) (h h' : N) (S : snapshot) (o : node),
          ei_generator (g_edge g e) = true -> cmd e h S o = cmd e h' S o) ->
     forall (h : list kstep) (T : list node) (st' : hstate),
       khist_ok g h = true ->
       build cmd g (run_khist cmd g (init_hstate g) h) T = Some st' ->
       forall n : node, reach g T n -> content_of st' n = clean_of cmd g st' n).
Proof. exact HistCrashProofs.C07_kill_recovery_refuted_proof. Qed.
Print Assumptions C07_kill_recovery_refuted.

(* the witness: graph  build out: cc src ; history  src := 5 ; ninja out (ok) ; rm out ; ninja out
   KILLED when the command has half written out (999).  The state satisfies GoodK, not [taint_safe];
   the next  ninja out  is accepted, starts nothing, exits successfully; out holds 999, clean is 2 *)
Theorem C07_kill_half_written_accepted_refuted :
  exists (g : graph) (h : list kstep) (T : list node) (st' : hstate) (n : node),
    frag_AB g && topo_ordered g && no_inputless_phony g && khist_ok g h = true /\
    GoodK Ex.cmd g (run_khist Ex.cmd g (init_hstate g) h) /\
    taint_safe g (run_khist Ex.cmd g (init_hstate g) h) = false /\
    build Ex.cmd g (run_khist Ex.cmd g (init_hstate g) h) T = Some st' /\
    trace_delta (run_khist Ex.cmd g (init_hstate g) h) st' = [] /\
    reach g T n /\
    content_of st' n = Some 999%N /\ clean_of Ex.cmd g st' n = Some 2%N.
Proof. exact HistCrashProofs.C07_kill_half_written_accepted_refuted_proof. Qed.
Print Assumptions C07_kill_half_written_accepted_refuted.

Example C07_kill_witness_history :
  ExKill.hist4 =
    [KStep (Plain (Edit 0 5)); KStep (Plain (Build [1%nat])); KStep (Plain (Delete 1));
     BuildK [1%nat] (mkCP 0 (KWrote 1 ExKill.garbage))] /\
  h_blog ExKill.st4 1%nat = Some (7%N, 2) /\ h_disk ExKill.st4 1%nat = Some (5, 999%N) /\
  tainted ExKill.st4 1%nat = true /\ taint_safe ExKill.g ExKill.st4 = false /\
  taint_safe_stmt ExKill.g ExKill.st4 = false /\
  build Ex.cmd ExKill.g ExKill.st4 [1%nat] = Some ExKill.st4.
Proof. vm_compute. repeat split; reflexivity. Qed.

(* the same history with the kill AFTER the command finished (file complete, old entry describes it),
   with an INTERRUPT instead of the kill (Cleanup removes out), and with an edited source instead of
   the deleted output (old entry older than src): all recover *)
Example C07_kill_witness_variants :
  (let st := run_khist Ex.cmd ExKill.g (init_hstate ExKill.g) ExKill.hist4w in
   tainted st 1%nat = false /\ taint_safe ExKill.g st = true /\
   build Ex.cmd ExKill.g st [1%nat] = Some st /\
   content_of st 1%nat = clean_of Ex.cmd ExKill.g st 1%nat) /\
  (let st := run_khist Ex.cmd ExKill.g (init_hstate ExKill.g) ExKill.hist4i in
   let st' := apply_kstep Ex.cmd ExKill.g st (KStep (Plain (Build [1%nat]))) in
   h_disk st 1%nat = None /\ h_trace st' = [0; 0; 0]%nat /\
   content_of st' 1%nat = clean_of Ex.cmd ExKill.g st' 1%nat) /\
  (let b := run_khist Ex.cmd ExKill.g (init_hstate ExKill.g) ExKill.hist_edit in
   khist_benign Ex.cmd ExKill.g (init_hstate ExKill.g) ExKill.hist_edit = true /\
   h_trace b = [0; 0; 0]%nat /\ content_of b 1%nat = clean_of Ex.cmd ExKill.g b 1%nat).
Proof. vm_compute. repeat split; reflexivity. Qed.

(* ---- (3) the killed statement runs again as soon as the LOG gives a reason for one output that
        did not get a new entry; the outputs that did get one play no role *)
Theorem C07_killed_statement_reruns :
  forall (cmd : edge -> N -> snapshot -> node -> content) (g : graph),
    wf_spec g -> wf_graph g -> frag_AB g = true -> topo_ordered g = true ->
  forall (st : hstate) (T : list node) (cp : crash_point) (st1 : hstate) (e : edge)
         (a : crash_at) (stk st2 : hstate),
    GoodK cmd g st ->
    buildK_full cmd g st T cp = Some (st1, Some (e, a, stk)) ->
    (exists o : node, In o (unrecorded_outs g e a) /\ StaleEntry g true stk e o) ->
    build cmd g st1 T = Some st2 ->
    In e (trace_delta st1 st2).
Proof. exact HistCrashProofs.C07_killed_statement_reruns_proof. Qed.
Print Assumptions C07_killed_statement_reruns.

(* a kill between the log entries of a multi-output statement (BuildLog::RecordCommand writes one
   entry per output): the first j outputs carry the new entry, the others the entry they had before
   the invocation, every output is completely written; an output without new entry whose old entry
   is stale is dirty in the next scan and the next accepted invocation runs the statement again *)
Theorem C07_partial_log_entries :
  forall (cmd : edge -> N -> snapshot -> node -> content) (g : graph),
    wf_spec g -> wf_graph g -> frag_AB g = true -> topo_ordered g = true ->
  forall (st : hstate) (T : list node) (cp : crash_point) (st1 : hstate) (e : edge)
         (j : nat) (stk : hstate),
    GoodK cmd g st ->
    buildK_full cmd g st T cp = Some (st1, Some (e, KLogged j, stk)) ->
    (j < length (ei_outs (g_edge g e)))%nat ->
    (exists m : Z, h_clock stk < m /\
       (forall o : node, In o (logged_outs g e j) -> h_blog st1 o = Some (h_hash stk e, m))) /\
    (forall o : node, In o (unlogged_outs g e j) -> h_blog st1 o = h_blog st o) /\
    (forall o : node, In o (ei_outs (g_edge g e)) ->
       exists mo : Z, h_disk st1 o = Some (mo, cmd e (h_hash stk e) (reads g stk e) o)) /\
    (forall o : node, In o (unlogged_outs g e j) -> StaleEntry g true stk e o ->
       must_dirty (graph_of g st1) (world_of st1) o /\
       (forall st2 : hstate, build cmd g st1 T = Some st2 -> In e (trace_delta st1 st2))).
Proof. exact HistCrashProofs.C07_partial_log_entries_proof. Qed.
Print Assumptions C07_partial_log_entries.

(* ---- (4) interrupts.  What an interrupted invocation leaves: exit status 130; the statement that
        was running is the last one started; the outputs it had modified are removed, its other
        outputs are as the scan saw them; its log entries are the ones from before the invocation;
        everything else is as the successful prefix left it; no output becomes tainted *)
Theorem C07_interrupt_cleanup_hist :
  forall (cmd : edge -> N -> snapshot -> node -> content) (g : graph),
    wf_spec g -> topo_ordered g = true ->
  forall (st : hstate) (T : list node) (ip : intr_point) (st1 : hstate) (e : edge) (stk : hstate),
    GoodK cmd g st ->
    buildI_full cmd g st T ip = Some (st1, Some (e, stk)) ->
    buildI cmd g st T ip = Some (st1, 130%N) /\
    e = ip_pos ip /\
    (exists l : list edge, trace_delta st st1 = e :: l) /\
    (forall o : node, In o (firstn (ip_k ip) (ei_outs (g_edge g e))) -> h_disk st1 o = None) /\
    (forall o : node, In o (ei_outs (g_edge g e)) ->
       ~ In o (firstn (ip_k ip) (ei_outs (g_edge g e))) -> h_disk st1 o = h_disk st o) /\
    (forall o : node, In o (ei_outs (g_edge g e)) -> h_blog st1 o = h_blog st o) /\
    (forall n : node, ~ In n (ei_outs (g_edge g e)) ->
       h_disk st1 n = h_disk stk n /\ h_blog st1 n = h_blog stk n /\ h_ghost st1 n = h_ghost stk n) /\
    (forall o : node, tainted st1 o = true -> tainted stk o = true).
Proof. exact HistCrashProofs.C07_interrupt_cleanup_hist_proof. Qed.
Print Assumptions C07_interrupt_cleanup_hist.

(* an interrupted invocation keeps even the invariant of histories without failures *)
Theorem good_buildI :
  forall (cmd : edge -> N -> snapshot -> node -> content) (g : graph),
    wf_spec g -> topo_ordered g = true ->
  forall (st : hstate) (T : list node) (ip : intr_point) (st' : hstate) (code : N),
    Good cmd g st -> buildI cmd g st T ip = Some (st', code) -> Good cmd g st'.
Proof. exact HistCrashProofs.good_buildI_proof. Qed.
Print Assumptions good_buildI.

(* recovery after interrupts needs NO side condition: histories of edits, deletions, command-line
   changes, successful and INTERRUPTED invocations (and failures that leave no written file) *)
Theorem C07_interrupt_recovery :
  forall (cmd : edge -> N -> snapshot -> node -> content) (g : graph),
    wf_spec g -> wf_graph g -> frag_AB g = true -> topo_ordered g = true ->
    (forall (e : edge) (h h' : N) (S : snapshot) (o : node),
       ei_generator (g_edge g e) = true -> cmd e h S o = cmd e h' S o) ->
  forall (h : list kstep) (T : list node) (st' : hstate),
    khist_ok g h = true -> forallb clean_stop h = true ->
    build cmd g (run_khist cmd g (init_hstate g) h) T = Some st' ->
    forall n : node, reach g T n -> content_of st' n = clean_of cmd g st' n.
Proof. exact HistCrashProofs.C07_interrupt_recovery_proof. Qed.
Print Assumptions C07_interrupt_recovery.

(* ... and in a state that contains tainted outputs an interrupt never makes the hypothesis of
   recovery false *)
Theorem C07_interrupt_then_build :
  forall (cmd : edge -> N -> snapshot -> node -> content) (g : graph),
    wf_spec g -> wf_graph g -> frag_AB g = true -> topo_ordered g = true ->
    (forall (e : edge) (h h' : N) (S : snapshot) (o : node),
       ei_generator (g_edge g e) = true -> cmd e h S o = cmd e h' S o) ->
  forall (st : hstate) (T : list node) (ip : intr_point) (st1 : hstate) (code : N)
         (T' : list node) (st2 : hstate),
    GoodK cmd g st -> taint_robust g st = true ->
    buildI cmd g st T ip = Some (st1, code) ->
    build cmd g st1 T' = Some st2 ->
    forall n : node, reach g T' n -> content_of st2 n = clean_of cmd g st2 n.
Proof. exact HistCrashProofs.C07_interrupt_then_build_proof. Qed.
Print Assumptions C07_interrupt_then_build.

(* ---- (5) the build after the recovery build finds nothing to do -- after ANY history, without side
        condition (convergence is about the log and the mtimes, not about the contents) *)
Theorem C07_converges_after_recovery :
  forall (cmd : edge -> N -> snapshot -> node -> content) (g : graph),
    wf_spec g -> wf_graph g -> frag_AB g = true -> topo_ordered g = true ->
  forall (h : list kstep) (T : list node) (st' : hstate),
    khist_ok g h = true -> no_inputless_phony g = true ->
    build cmd g (run_khist cmd g (init_hstate g) h) T = Some st' ->
    (exists (s : sstate) (p : plan),
       scan (graph_of g st') (world_of st') T = ScanOk s p /\
       (forall e : edge, p_want p e <> Some WantToStart)) /\
    build cmd g st' T = Some st'.
Proof. exact HistCrashProofs.C07_converges_after_recovery_proof. Qed.
Print Assumptions C07_converges_after_recovery.

(* C02 for one invocation from any state satisfying the invariant *)
Theorem C02F_converges :
  forall (cmd : edge -> N -> snapshot -> node -> content) (g : graph),
    wf_spec g -> wf_graph g -> frag_AB g = true -> topo_ordered g = true ->
  forall (st : hstate) (T : list node) (st' : hstate),
    GoodF cmd g st -> no_inputless_phony g = true -> build cmd g st T = Some st' ->
    exists (s : sstate) (p : plan),
      scan (graph_of g st') (world_of st') T = ScanOk s p /\
      (forall e : edge, p_want p e <> Some WantToStart).
Proof. exact HistCrashProofs.C02F_converges_proof. Qed.
Print Assumptions C02F_converges.

Theorem C02F_second_build_idle :
  forall (cmd : edge -> N -> snapshot -> node -> content) (g : graph),
    wf_spec g -> wf_graph g -> frag_AB g = true -> topo_ordered g = true ->
  forall (st : hstate) (T : list node) (st' : hstate),
    GoodF cmd g st -> no_inputless_phony g = true -> build cmd g st T = Some st' ->
    build cmd g st' T = Some st'.
Proof. exact HistCrashProofs.C02F_second_build_idle_proof. Qed.
Print Assumptions C02F_second_build_idle.

(* ---- (6) non-vacuity: the project HistCrashDefs.ExK
          e0  build gen.h     : halve a.src      restat = 1
          e1  build x.o x.map : cc b.src | gen.h          (two outputs)
          e2  build app       : link x.o x.map
          e3  build all       : phony app
        after a full build and an edit of b.src ([ExK.st4]) *)
Theorem C07_kill_recovery_nonvacuous :
  let h := ExK.pre ++ [BuildK ExK.T ExK.cp1] in
  khist_ok ExK.g h = true /\
  tainted (run_khist ExK.cmd ExK.g ExK.st0 h) 3%nat = true /\
  taint_safe ExK.g (run_khist ExK.cmd ExK.g ExK.st0 h) = true /\
  khist_benign ExK.cmd ExK.g ExK.st0 h = true /\
  exists st', build ExK.cmd ExK.g (run_khist ExK.cmd ExK.g ExK.st0 h) ExK.T = Some st' /\
              reach ExK.g ExK.T 3%nat /\ content_of st' 3%nat = clean_of ExK.cmd ExK.g st' 3%nat.
Proof. exact HistCrashProofs.C07_kill_recovery_nonvacuous_proof. Qed.
Print Assumptions C07_kill_recovery_nonvacuous.

Theorem C07_kill_recovery_stmt_nonvacuous :
  let h := ExK.pre ++ [BuildK ExK.T ExK.cp2; BuildK ExK.T (mkCP 1 (KWrote 2 ExK.garbage))] in
  khist_ok ExK.g h = true /\
  tainted (run_khist ExK.cmd ExK.g ExK.st0 h) 3%nat = true /\
  taint_safe ExK.g (run_khist ExK.cmd ExK.g ExK.st0 h) = false /\
  taint_safe_stmt ExK.g (run_khist ExK.cmd ExK.g ExK.st0 h) = true /\
  exists st', build ExK.cmd ExK.g (run_khist ExK.cmd ExK.g ExK.st0 h) ExK.T = Some st' /\
              reach ExK.g ExK.T 3%nat /\ content_of st' 3%nat = clean_of ExK.cmd ExK.g st' 3%nat.
Proof. exact HistCrashProofs.C07_kill_recovery_stmt_nonvacuous_proof. Qed.
Print Assumptions C07_kill_recovery_stmt_nonvacuous.

Theorem C07_kill_then_build_nonvacuous :
  exists st1 stk st2,
    GoodK ExK.cmd ExK.g ExK.st4 /\ taint_robust ExK.g ExK.st4 = true /\
    buildK_full ExK.cmd ExK.g ExK.st4 ExK.T ExK.cp1 = Some (st1, Some (1%nat, KWrote 1 ExK.garbage, stk)) /\
    kill_benign ExK.g stk 1%nat (KWrote 1 ExK.garbage) = true /\
    build ExK.cmd ExK.g st1 ExK.T = Some st2.
Proof. exact HistCrashProofs.C07_kill_then_build_nonvacuous_proof. Qed.
Print Assumptions C07_kill_then_build_nonvacuous.

Theorem C07_partial_log_entries_nonvacuous :
  exists st1 stk st2,
    GoodK ExK.cmd ExK.g ExK.st4 /\
    buildK_full ExK.cmd ExK.g ExK.st4 ExK.T ExK.cp2 = Some (st1, Some (1%nat, KLogged 1, stk)) /\
    (1 < length (ei_outs (g_edge ExK.g 1%nat)))%nat /\
    In 3%nat (logged_outs ExK.g 1%nat 1) /\ In 4%nat (unlogged_outs ExK.g 1%nat 1) /\
    In 4%nat (unrecorded_outs ExK.g 1%nat (KLogged 1)) /\
    StaleEntry ExK.g true stk 1%nat 4%nat /\
    build ExK.cmd ExK.g st1 ExK.T = Some st2 /\ In 1%nat (trace_delta st1 st2).
Proof. exact HistCrashProofs.C07_partial_log_entries_nonvacuous_proof. Qed.
Print Assumptions C07_partial_log_entries_nonvacuous.

Theorem C07_interrupt_nonvacuous :
  exists st1 stk st2,
    Good ExK.cmd ExK.g ExK.st4 /\ taint_robust ExK.g ExK.st4 = true /\
    buildI_full ExK.cmd ExK.g ExK.st4 ExK.T ExK.ip1 = Some (st1, Some (1%nat, stk)) /\
    buildI ExK.cmd ExK.g ExK.st4 ExK.T ExK.ip1 = Some (st1, 130%N) /\
    h_disk st1 3%nat = None /\ h_disk st1 4%nat = h_disk ExK.st4 4%nat /\
    build ExK.cmd ExK.g st1 ExK.T = Some st2 /\
    content_of st2 3%nat = clean_of ExK.cmd ExK.g st2 3%nat.
Proof. exact HistCrashProofs.C07_interrupt_nonvacuous_proof. Qed.
Print Assumptions C07_interrupt_nonvacuous.

Theorem C07_histories_nonvacuous :
  let hi := ExK.pre ++ [BuildI ExK.T ExK.ip1] in
  let hk := ExK.pre ++ [BuildK ExK.T ExK.cp2] in
  khist_ok ExK.g hi = true /\ forallb clean_stop hi = true /\
  (exists st', build ExK.cmd ExK.g (run_khist ExK.cmd ExK.g ExK.st0 hi) ExK.T = Some st') /\
  khist_ok ExK.g hk = true /\ no_inputless_phony ExK.g = true /\
  (exists st', build ExK.cmd ExK.g (run_khist ExK.cmd ExK.g ExK.st0 hk) ExK.T = Some st' /\
               build ExK.cmd ExK.g st' ExK.T = Some st').
Proof. exact HistCrashProofs.C07_histories_nonvacuous_proof. Qed.
Print Assumptions C07_histories_nonvacuous.

(* kills at three different crash points and an interrupt, by computation (traces are newest first;
   nodes 2 gen.h, 3 x.o, 4 x.map, 5 app) *)
Example C07_kill_while_writing :          (* KWrote 1: x.o half written, x.map untouched *)
  content_of ExK.k1 3%nat = Some 903%N /\ content_of ExK.k1 4%nat = content_of ExK.st4 4%nat /\
  ExK.blogs ExK.k1 = ExK.blogs ExK.st4 /\ ExK.taints ExK.k1 = [false; true; false; false] /\
  h_trace ExK.k1 = [1; 2; 1; 0]%nat /\ taint_safe ExK.g ExK.k1 = true /\
  h_trace ExK.r1 = [2; 1; 1; 2; 1; 0]%nat /\ ExK.contents ExK.r1 = ExK.cleans ExK.r1 /\
  apply_kstep ExK.cmd ExK.g ExK.r1 (KStep (Plain (Build ExK.T))) = ExK.r1.
Proof. vm_compute. repeat split; reflexivity. Qed.

Example C07_kill_between_log_entries :    (* KLogged 1: x.o new entry, x.map old entry *)
  h_blog ExK.st4 3%nat = Some (101%N, 5) /\ h_blog ExK.st4 4%nat = Some (101%N, 5) /\
  h_blog ExK.k2 3%nat = Some (101%N, 11) /\ h_blog ExK.k2 4%nat = Some (101%N, 5) /\
  ExK.taints ExK.k2 = [false; false; false; false] /\
  h_trace ExK.r2 = [2; 1; 1; 2; 1; 0]%nat /\ ExK.contents ExK.r2 = ExK.cleans ExK.r2.
Proof. vm_compute. repeat split; reflexivity. Qed.

Example C07_kill_restat_before_log :      (* KWritten on the restat statement that left gen.h alone *)
  h_disk ExK.k3 2%nat = h_disk ExK.st5 2%nat /\ ExK.blogs ExK.k3 = ExK.blogs ExK.st5 /\
  h_trace ExK.k3 = 0%nat :: h_trace ExK.st5 /\
  h_trace ExK.r3 = 0%nat :: h_trace ExK.k3 /\ ExK.contents ExK.r3 = ExK.cleans ExK.r3.
Proof. vm_compute. repeat split; reflexivity. Qed.

Example C07_interrupt_example :           (* x.o rewritten, interrupt: x.o removed, x.map kept, 130 *)
  (match buildI ExK.cmd ExK.g ExK.st4 ExK.T ExK.ip1 with
   | Some (st', code) => st' = ExK.i1 /\ code = 130%N | None => False end) /\
  content_of ExK.i1 3%nat = None /\ h_disk ExK.i1 4%nat = h_disk ExK.st4 4%nat /\
  ExK.blogs ExK.i1 = ExK.blogs ExK.st4 /\ ExK.taints ExK.i1 = [false; false; false; false] /\
  h_trace ExK.ri1 = [2; 1; 1; 2; 1; 0]%nat /\ ExK.contents ExK.ri1 = ExK.cleans ExK.ri1.
Proof. vm_compute. repeat split; reflexivity. Qed.
