(* C02: convergence -- the part carried by a theorem.  PARTIAL: "immediately after a successful build the
   scan finds nothing dirty" needs the history-level LogSound invariant (not proved; decided by the
   convergence oracle of the check on every successful build of every history).  Proved: the scan is a
   FUNCTION of (graph, disk, logs) whose result is exactly [must_dirty]; hence every later run agrees with
   the first one until one of them changes. *)
From NinjaV Require Import Base.Bytes Engine.ScanDefs Engine.ScanSpec Engine.ScanProofs.
Local Open Scope Z_scope.

Theorem C02_scan_deterministic_partial :
  forall (g : graph) (w : world) (targets : list node) r1 r2,
    scan g w targets = r1 -> scan g w targets = r2 -> r1 = r2.
Proof. intros g w t r1 r2 H1 H2. rewrite <- H1. exact H2. Qed.
Print Assumptions C02_scan_deterministic_partial.

Theorem C02_dirty_iff_must_dirty_partial :
  forall (g : graph) (w : world), wf_spec g ->
  forall (targets : list node) (s : sstate) (p : plan),
    scan g w targets = ScanOk s p ->
    forall n, n_known (st_node s n) = true ->
      (ns_dirty (st_node s n) = true <-> must_dirty g w n).
Proof. intros g w Hw t s p Hs n Hk. exact (proj1 (scan_dirty_spec g w Hw t s p Hs n Hk)). Qed.
Print Assumptions C02_dirty_iff_must_dirty_partial.
