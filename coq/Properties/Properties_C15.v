(* C15 — depfiles written by compilers are read back as the same file names;
   C13 (depfile part) — the depfile scanner is total and index-safe.
   Only restatements: every theorem is closed by [exact <lemma of DepfileProofs>]. *)
From Coq Require Import Strings.String Strings.Byte.
From NinjaV Require Import Base.Bytes Depfile.DepfileDefs Depfile.DepfileEnc Depfile.DepfileProofs.
Local Open Scope N_scope.

(* string literal -> bytes, for readable examples only *)
Local Definition B (s : string) : bytes := map Byte.to_N (list_byte_of_string s).

(* ------------------------------------------------------------------------------------------ *)
(* C15: round trip of one rule, every layout *)

Theorem C15_roundtrip : forall (l : layout) (ts ds : list bytes),
  ts <> [] ->
  Forall (fun x => wf_name x = true) ts ->
  Forall (fun x => wf_name x = true) ds ->
  parse_depfile (render l ts ds) = DOk (dedup ts) (dedup ds).
Proof. exact DepfileProofs.C15_roundtrip. Qed.
Print Assumptions C15_roundtrip.

(* what [dedup] is: each name once, in order of first occurrence *)
Theorem C15_dedup_meaning : forall l : list bytes,
  NoDup (dedup l) /\ (forall x, In x (dedup l) <-> In x l) /\ (NoDup l -> dedup l = l).
Proof.
  intros l. split; [exact (dedup_NoDup l)|]. split; [intros x; exact (dedup_In x l)|exact (dedup_id l)].
Qed.
Print Assumptions C15_dedup_meaning.

(* the same when ':' is written "\:" (larger class of names) *)
Theorem C15_roundtrip_colon : forall (l : layout) (ts ds : list bytes),
  ts <> [] ->
  Forall (fun x => wf_name_colon x = true) ts ->
  Forall (fun x => wf_name_colon x = true) ds ->
  parse_depfile (render_colon l ts ds) = DOk (dedup ts) (dedup ds).
Proof. exact DepfileProofs.C15_roundtrip_colon. Qed.
Print Assumptions C15_roundtrip_colon.

Example C15_roundtrip_nonvacuous :
  let ts := [B "foo.o"; B "C:\out\foo.d"] in
  let ds := [B "foo.c"; B "my file.h"; B "dir/x#y.h"; B "z$.h"; B "a\ b\\"; B "foo.c";
             [195; 169; 46; 104]; B "k:v%=@"] in
  ts <> [] /\ Forall (fun x => wf_name x = true) ts /\ Forall (fun x => wf_name x = true) ds
  /\ dedup ds = [B "foo.c"; B "my file.h"; B "dir/x#y.h"; B "z$.h"; B "a\ b\\";
                 [195; 169; 46; 104]; B "k:v%=@"]
  /\ render (Crlf (TrailBlank ContPerName)) [B "foo.o"] [B "foo.c"; B "my file.h"]
     = B "foo.o: \" ++ [13; 10] ++ B " foo.c \" ++ [13; 10] ++ B " my\ file.h " ++ [13; 10].
Proof.
  cbv zeta. split; [discriminate|]. split; [repeat constructor|]. split; [repeat constructor|].
  split; vm_compute; reflexivity.
Qed.

(* a realistic depfile, read directly:
     foo.o: foo.c my\ file.h dir/x\#y.h \
       z$$.h                                     *)
Example C15_sample_depfile :
  parse_depfile (B "foo.o: foo.c my\ file.h dir/x\#y.h \" ++ [10] ++ B "  z$$.h" ++ [10])
  = DOk [B "foo.o"] [B "foo.c"; B "my file.h"; B "dir/x#y.h"; B "z$.h"].
Proof. vm_compute. reflexivity. Qed.

(* ------------------------------------------------------------------------------------------ *)
(* C15: several rules.  The parser computes exactly [rules_sem] (DepfileEnc.v). *)

Theorem C15_rules : forall (esc_colon : bool) (l : layout) (rules : list (list bytes * list bytes)),
  Forall (wf_rule esc_colon) rules ->
  parse_depfile (render_rules_gen esc_colon l rules) = rules_sem rules.
Proof. exact DepfileProofs.parse_render_rules_gen. Qed.
Print Assumptions C15_rules.

Theorem C15_multi_rule : forall (l : layout) (rules : list (list bytes * list bytes)),
  Forall (wf_rule false) rules ->
  (* no target of a rule is a dependency of an earlier rule *)
  (forall pre r post, rules = pre ++ r :: post ->
     forall t, In t (fst r) -> ~ In t (concat (map snd pre))) ->
  parse_depfile (render_rules l rules)
  = DOk (dedup (concat (map fst rules))) (dedup (concat (map snd rules))).
Proof. exact DepfileProofs.C15_multi_rule. Qed.
Print Assumptions C15_multi_rule.

Example C15_multi_rule_nonvacuous :
  let rules := [([B "a.o"], [B "a.c"; B "x.h"]); ([B "b.o"; B "a.o"], [B "x.h"; B "b.c"])] in
  Forall (wf_rule false) rules
  /\ (forall pre r post, rules = pre ++ r :: post ->
        forall t, In t (fst r) -> ~ In t (concat (map snd pre)))
  /\ parse_depfile (render_rules OneLine rules)
     = DOk [B "a.o"; B "b.o"] [B "a.c"; B "x.h"; B "b.c"].
Proof.
  cbv zeta. split; [|split].
  - repeat constructor; discriminate.
  - intros pre r post E t Ht Hin.
    destruct pre as [|p1 pre]; [exact Hin|].
    injection E as E1 E2. subst p1.
    destruct pre as [|p2 pre].
    + injection E2 as E2 E3. subst r post. cbn in Ht, Hin.
      destruct Ht as [Ht|[Ht|[]]]; subst t; destruct Hin as [Hin|[Hin|[]]]; discriminate.
    + injection E2 as E2 E3. destruct pre; discriminate.
  - vm_compute. reflexivity.
Qed.

(* ------------------------------------------------------------------------------------------ *)
(* C15: rejections *)

Theorem C15_rejects_no_colon : forall names : list bytes,
  names <> [] -> Forall (fun x => wf_name x = true) names ->
  parse_depfile (join_sp (map enc_name names) ++ [10]) = DErr ErrNoColon.
Proof. exact DepfileProofs.C15_rejects_no_colon. Qed.
Print Assumptions C15_rejects_no_colon.

Example C15_rejects_no_colon_nonvacuous :
  [B "foo.o"; B "foo.c"; B "a:b"] <> []
  /\ Forall (fun x => wf_name x = true) [B "foo.o"; B "foo.c"; B "a:b"]
  /\ join_sp (map enc_name [B "foo.o"; B "foo.c"; B "a:b"]) ++ [10] = B "foo.o foo.c a:b" ++ [10].
Proof. split; [discriminate|]. split; [repeat constructor|vm_compute; reflexivity]. Qed.

Theorem C15_rejects_inputs_have_inputs :
  forall (l : layout) (pre : list (list bytes * list bytes)) (ts ds : list bytes)
         (post : list (list bytes * list bytes)) (t d : bytes),
  Forall (wf_rule false) (pre ++ (ts, ds) :: post) ->
  In t ts -> In t (concat (map snd pre)) ->       (* a target that was a dependency before ... *)
  In d ds -> ~ In d (concat (map snd pre)) ->     (* ... with a dependency not seen before *)
  parse_depfile (render_rules l (pre ++ (ts, ds) :: post)) = DErr ErrInputsHaveInputs.
Proof. exact DepfileProofs.C15_rejects_inputs_have_inputs. Qed.
Print Assumptions C15_rejects_inputs_have_inputs.

(* "a: b\nb: c\n" *)
Example C15_rejects_inputs_have_inputs_nonvacuous :
  Forall (wf_rule false) ([([B "a"], [B "b"])] ++ ([B "b"], [B "c"]) :: [])
  /\ In (B "b") [B "b"] /\ In (B "b") (concat (map snd [([B "a"], [B "b"])]))
  /\ In (B "c") [B "c"] /\ ~ In (B "c") (concat (map snd [([B "a"], [B "b"])]))
  /\ render_rules OneLine ([([B "a"], [B "b"])] ++ ([B "b"], [B "c"]) :: [])
     = B "a: b" ++ [10] ++ B "b: c" ++ [10]
  /\ parse_depfile (B "a: b" ++ [10] ++ B "b: c" ++ [10]) = DErr ErrInputsHaveInputs.
Proof.
  split; [repeat constructor; discriminate|]. split; [left; reflexivity|].
  split; [left; reflexivity|]. split; [left; reflexivity|].
  split; [intros [H|[]]; discriminate|]. split; vm_compute; reflexivity.
Qed.

(* ------------------------------------------------------------------------------------------ *)
(* C15: the quantifier "printable ASCII" is not fully covered — finding *)

Theorem plain_or_escapable_table : forall c : byte, 32 <= c <= 126 ->
  allowed c = negb (mem_byte c [42; 59; 60; 62; 94; 96; 124])        (*  * ; < > ^ ` |  *)
  /\ allowed c = (is_plain c || mem_byte c [32; 35; 36; 92])          (*  SP # $ BS      *)
  /\ is_plain c = negb (mem_byte c [42; 59; 60; 62; 94; 96; 124] || mem_byte c [32; 35; 36; 92]).
Proof. exact DepfileProofs.plain_or_escapable_table. Qed.
Print Assumptions plain_or_escapable_table.

Theorem C15_refuted_unlisted_punct : forall c : byte, In c [42; 59; 60; 62; 94; 96; 124] ->
  parse_depfile (render OneLine [[116]] [[97; c; 98]]) = DOk [[116]] [[97]; [98]].
Proof. exact DepfileProofs.C15_refuted_unlisted_punct. Qed.
Print Assumptions C15_refuted_unlisted_punct.

Theorem C15_roundtrip_printable_refuted :
  ~ (forall l ts ds, ts <> [] ->
       Forall (fun x => x <> [] /\ forallb printable x = true) ts ->
       Forall (fun x => x <> [] /\ forallb printable x = true) ds ->
       parse_depfile (render l ts ds) = DOk (dedup ts) (dedup ds)).
Proof. exact DepfileProofs.C15_roundtrip_printable_refuted. Qed.
Print Assumptions C15_roundtrip_printable_refuted.

(* ------------------------------------------------------------------------------------------ *)
(* C13, depfile part *)

Theorem C13_depfile_bounds : forall s : bytes, (snd (parse_depfile_idx s) <= length s)%nat.
Proof. exact DepfileProofs.C13_depfile_bounds. Qed.
Print Assumptions C13_depfile_bounds.

Theorem C13_depfile_idx_same : forall s : bytes, fst (parse_depfile_idx s) = parse_depfile s.
Proof. exact DepfileProofs.parse_depfile_idx_fst. Qed.
Print Assumptions C13_depfile_idx_same.

Theorem C13_depfile_total : forall s : bytes,
  (exists outs ins, parse_depfile s = DOk outs ins) \/ (exists e, parse_depfile s = DErr e).
Proof. exact DepfileProofs.C13_depfile_total. Qed.
Print Assumptions C13_depfile_total.

Theorem parse_fuel_sufficient : forall s : bytes, parse_depfile s <> DOutOfFuel.
Proof. exact DepfileProofs.parse_fuel_sufficient. Qed.
Print Assumptions parse_fuel_sufficient.

Theorem C13_depfile_write_behind : forall (buf fn rest : bytes) (nl : bool),
  tokR buf [] = Some (fn, rest, nl) ->
  (length fn + length rest <= length buf)%nat /\ (buf <> [] -> length rest < length buf)%nat.
Proof. exact DepfileProofs.C13_depfile_write_behind. Qed.
Print Assumptions C13_depfile_write_behind.

(* the bound is attained: "\:" at the very end makes the scanner inspect (and step over) the
   terminating NUL at index 2 = length *)
Example C13_depfile_bounds_tight : parse_depfile_idx [92; 58] = (DOk [[92]] [], 2%nat).
Proof. vm_compute. reflexivity. Qed.
