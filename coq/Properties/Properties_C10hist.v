(* C10 at HISTORY level: discovered dependencies count exactly like declared implicit inputs.
   Fragment ABD = fragment AB (explicit/implicit/order-only inputs, multiple outputs, phony, restat,
   generator) + statements with [deps = gcc] (deps log).  Model: Engine/HistDepsDefs.v (HistDefs' state
   plus the deps log; every deps statement has HIDDEN READS [hid e] as ground truth; ScanDefs.scan on
   the world WITH the deps log decides; Plan::CleanNode re-evaluates with the inputs the scan left
   in the edge, [graph_now]); proofs: Engine/HistDepsProofs.v.  Every theorem is restated in full.

   [inline g hid] is the manifest with every hidden read declared as an implicit input and no deps
   binding; it lies in fragment AB, where HistProofs applies (C01hist / C02hist).

   Premises, all about the manifest [g], the hidden reads [hid] and the command function:
     wf_spec g, wf_graph g                 as in C01hist
     frag_ABD g hid = true                 the fragment (checkable)
     topo_ordered (inline g hid) = true    the edge order is topological for manifest inputs AND hidden reads
     hidden_reads_ordered g hid = true     a GENERATED hidden read of a statement is also a manifest input of it
                                           (the "order-only + depfile" idiom); excludes finding dirty-edge-deps-not-loaded
     no_restat_upstream_of_deps g hid = true  no deps statement reads, directly or transitively, from a restat
                                           statement; excludes finding restat-prune-ignores-recorded-deps
     no_inputless_phony g = true           the documented always-dirty case (as in C02hist)
     hist_present ... h = true             whenever a build is requested, every hidden read that is a SOURCE exists and
                                           the targets are manifest nodes (a missing recorded dependency is the one
                                           place where the two manifests differ by design: theorem (5)); under it the
                                           two manifests accept or refuse a request together, theorem (8)
     hist_side ... h = true                the alternative: neither manifest refuses a requested build. *)
From NinjaV Require Import Engine.CrashDefs.
From NinjaV Require Import Base.Bytes Engine.ScanDefs Engine.ScanSpec Engine.ScanProofs Engine.HistDefs Engine.HistProofs Engine.HistDepsDefs Engine.HistDepsProofs.
Local Open Scope Z_scope.

(* ---- (1) invariant: after ANY history from the empty tree, every record of the deps log belongs to
        an output of a deps statement and lists exactly its hidden reads (= the reads of its last
        successful run), and an output of a deps statement that has a build-log entry has a record that
        is not older than the file.  (Dependencies are recorded only for successful commands, before
        the build-log entry.) *)
Theorem C10_records_invariant :
  forall (cmd : edge -> N -> snapshot -> node -> content) (g : graph) (hid : edge -> list node),
    wf_spec g -> frag_ABD g hid = true -> topo_ordered (inline g hid) = true ->
  forall h : list hstep, hist_ok g h = true ->
    let ds := drun_hist cmd g hid (init_dstate g) h in
    (forall (o : node) (dm : Z) (l : list node), d_deps ds o = Some (dm, l) ->
       0 <= dm /\ exists e : edge, In o (ei_outs (g_edge g e)) /\ ei_deps (g_edge g e) = DepsLog /\ l = hid e) /\
    (forall (e : edge) (o : node), ei_deps (g_edge g e) = DepsLog -> In o (ei_outs (g_edge g e)) ->
       h_blog (d_h ds) o <> None ->
       exists dm : Z, d_deps ds o = Some (dm, hid e) /\ mtime_of (d_h ds) o <= dm).
Proof. exact C10_records_invariant_proof. Qed.
Print Assumptions C10_records_invariant.

(* ... together with HistDefs' invariant Good (StateOk + LogSound) for the inlined manifest: the build
   log describes what the commands really read, hidden reads included *)
Theorem C10_good_hist :
  forall (cmd : edge -> N -> snapshot -> node -> content) (g : graph) (hid : edge -> list node),
    wf_spec g -> frag_ABD g hid = true -> topo_ordered (inline g hid) = true ->
  forall h : list hstep, hist_ok g h = true ->
    Good cmd (inline g hid) (d_h (drun_hist cmd g hid (init_dstate g) h)) /\
    DepsOk g hid (drun_hist cmd g hid (init_dstate g) h).
Proof. exact C10_good_hist_proof. Qed.
Print Assumptions C10_good_hist.

(* one command of the deps manifest is one command of the inlined manifest *)
Theorem C10_one_command :
  forall (cmd : edge -> N -> snapshot -> node -> content) (g : graph) (hid : edge -> list node),
    frag_ABD g hid = true ->
  forall (ds : dstate) (e : nat), (e < g_nedges g)%nat ->
    d_h (drun_edge cmd g hid ds e) = run_edge cmd (inline g hid) (d_h ds) e.
Proof. exact C10_one_command_proof. Qed.
Print Assumptions C10_one_command.

(* ---- (2) what an accepted scan of a manifest WITH deps statements means for the plan (HistProofs'
        scan_want_sound / scan_want_complete, for fragment D = AB + deps log): kWantToStart only for
        statements reachable from the targets through manifest inputs or recorded deps, with an output
        that must be remade; every statement reached through the inputs the scan LEFT in the edges
        ([reachS]: recorded deps only where the scan spliced them) with such an output is kWantToStart,
        and its inputs are in the plan *)
Theorem C10_scan_want_sound :
  forall (g : graph) (w : world), wf_spec g -> wf_graph g -> frag_D g = true ->
  forall (T : list node) (s : sstate) (p : plan), scan g w T = ScanOk s p ->
  forall e : edge, p_want p e = Some WantToStart ->
    neededP g w T e /\ es_mark (st_edge s e) = VisitDone /\ es_ready (st_edge s e) = false /\
    (exists o : node, In o (ei_outs (g_edge g e)) /\ must_dirty g w o).
Proof. exact C10_scan_want_sound_proof. Qed.
Print Assumptions C10_scan_want_sound.

Theorem C10_scan_want_complete :
  forall (g : graph) (w : world), wf_spec g -> wf_graph g -> frag_D g = true ->
  forall (T : list node) (s : sstate) (p : plan), scan g w T = ScanOk s p ->
  forall e : edge,
    (exists n : node, reachS g T s n /\ g_producer g n = Some e) ->
    (exists o : node, In o (ei_outs (g_edge g e)) /\ must_dirty g w o) ->
    ~ (ei_phony (g_edge g e) = true /\ ei_ins (g_edge g e) = []) ->
    p_want p e = Some WantToStart /\ closed_atD g s p e.
Proof. exact C10_scan_want_complete_proof. Qed.
Print Assumptions C10_scan_want_complete.

(* what the scan did with the record of a finished statement: either its inputs are the manifest
   inputs (and then it is dirty for a reason of its own, or its record is unusable: deps_missing_),
   or the usable record was spliced in before the order-only block; deps_missing_ exactly when the
   record is missing or older than the output *)
Theorem C10_scan_record_use :
  forall (g : graph) (w : world), wf_spec g -> wf_graph g -> frag_D g = true ->
  forall (T : list node) (s : sstate) (p : plan), scan g w T = ScanOk s p ->
  forall e : edge, es_mark (st_edge s e) = VisitDone ->
    ((es_ins (st_edge s e) = ei_ins (g_edge g e) /\
      (es_deps_missing (st_edge s e) = true \/ own_dirty g w e)) \/
     (exists l, spec_load g w e = LdOk l /\
                es_ins (st_edge s e) = splice (ei_ins (g_edge g e)) (ei_noo (g_edge g e)) l /\
                es_deps_missing (st_edge s e) = false)) /\
    (spec_load g w e = LdFail <-> es_deps_missing (st_edge s e) = true).
Proof. exact C10_scan_record_use_proof. Qed.
Print Assumptions C10_scan_record_use.

(* ---- (3) a real statement the targets need, an output of which must be remade at scan time, and
        which reads from no restat statement (directly or transitively), is RUN by the build: what
        was dirty at the scan is still dirty for Plan::CleanNode's test when its turn comes *)
Theorem C10_dirty_persists :
  forall (cmd : edge -> N -> snapshot -> node -> content) (g : graph) (hid : edge -> list node),
    wf_spec g -> wf_graph g -> frag_ABD g hid = true -> topo_ordered (inline g hid) = true ->
  forall (ds : dstate) (T : list node) (ds' : dstate) (e : nat),
    GoodD cmd g hid ds -> (e < g_nedges g)%nat -> ei_phony (g_edge g e) = false ->
    reads_tainted g hid e = false ->
    (exists n, reach g T n /\ g_producer g n = Some e) ->
    (exists o, In o (ei_outs (g_edge g e)) /\ must_dirty (graph_of g (d_h ds)) (world_of_d ds) o) ->
    dbuild cmd g hid ds T = Some ds' ->
    In e (ran_since (d_h ds) (d_h ds')).
Proof. exact C10_dirty_persists_proof. Qed.
Print Assumptions C10_dirty_persists.

(* ---- (4) "a change of one re-runs the statement": after a source that is a hidden read of a deps
        statement has been edited, the next successful build that needs the statement runs it *)
Theorem C10_changed_dep_reruns :
  forall (cmd : edge -> N -> snapshot -> node -> content) (g : graph) (hid : edge -> list node),
    wf_spec g -> wf_graph g -> frag_ABD g hid = true -> topo_ordered (inline g hid) = true ->
  forall (ds : dstate) (i : node) (c : content) (T : list node) (ds' : dstate) (e : nat),
    GoodD cmd g hid ds -> no_restat_upstream_of_deps g hid = true ->
    (e < g_nedges g)%nat -> ei_deps (g_edge g e) = DepsLog -> In i (hid e) -> is_source g i = true ->
    (exists n : node, reach g T n /\ g_producer g n = Some e) ->
    dbuild cmd g hid (dapply_step cmd g hid ds (Edit i c)) T = Some ds' ->
    In e (ran_since (d_h (dapply_step cmd g hid ds (Edit i c))) (d_h ds')).
Proof. exact C10_changed_dep_reruns_proof. Qed.
Print Assumptions C10_changed_dep_reruns.

(* ---- (5) "a missing one (that has no rule) makes the statement dirty rather than being an error":
        the scan never says "missing and no known rule" about a recorded dependency the manifest
        does not mention, and a successful build runs the statement *)
Theorem C10_missing_dep_dirty :
  forall (cmd : edge -> N -> snapshot -> node -> content) (g : graph) (hid : edge -> list node),
    wf_spec g -> wf_graph g -> frag_ABD g hid = true -> topo_ordered (inline g hid) = true ->
  forall (ds : dstate) (T : list node) (e : nat) (i : node),
    GoodD cmd g hid ds -> no_restat_upstream_of_deps g hid = true ->
    (e < g_nedges g)%nat -> ei_deps (g_edge g e) = DepsLog -> In i (hid e) -> is_source g i = true ->
    h_disk (d_h ds) i = None -> g_byloader g i = true ->
    (exists n : node, reach g T n /\ g_producer g n = Some e) ->
    (forall d : option node, dscan g ds T <> ScanMissing i d) /\
    (forall ds' : dstate, dbuild cmd g hid ds T = Some ds' -> In e (ran_since (d_h ds) (d_h ds'))).
Proof. exact C10_missing_dep_dirty_proof. Qed.
Print Assumptions C10_missing_dep_dirty.

(* ---- (6) "a statement whose record is missing or older than its output is re-run": in ANY state
        (no invariant needed), whatever the rest of the graph *)
Theorem C10_stale_record_reruns :
  forall (cmd : edge -> N -> snapshot -> node -> content) (g : graph) (hid : edge -> list node),
    wf_spec g -> wf_graph g -> frag_ABD g hid = true ->
  forall (ds : dstate) (T : list node) (ds' : dstate) (e : nat) (o0 : node) (os : list node),
    (e < g_nedges g)%nat -> ei_deps (g_edge g e) = DepsLog -> ei_outs (g_edge g e) = o0 :: os ->
    (d_deps ds o0 = None \/
     exists (dm : Z) (l : list node), d_deps ds o0 = Some (dm, l) /\ dm < mtime_of (d_h ds) o0) ->
    (exists n : node, reach g T n /\ g_producer g n = Some e) ->
    dbuild cmd g hid ds T = Some ds' ->
    In e (ran_since (d_h ds) (d_h ds')).
Proof. exact C10_stale_record_reruns_proof. Qed.
Print Assumptions C10_stale_record_reruns.

(* ---- (7) the declarative dirty state ([must_dirty], what the scan's flags equal) is the same for
        the deps manifest with its deps log and for the inlined manifest, in every state that
        satisfies the invariants of (1) *)
Theorem C10_dirty_state_same :
  forall (cmd : edge -> N -> snapshot -> node -> content) (g : graph) (hid : edge -> list node),
    wf_spec g -> wf_graph g -> frag_ABD g hid = true ->
  forall (ds : dstate) (n : node), GoodD cmd g hid ds ->
    (must_dirty (graph_of g (d_h ds)) (world_of_d ds) n <->
     must_dirty (graph_of (inline g hid) (d_h ds)) (world_of (d_h ds)) n).
Proof. exact C10_dirty_state_same_proof. Qed.
Print Assumptions C10_dirty_state_same.

(* ... and when both scans are accepted they want the same statements *)
Theorem C10_same_plan :
  forall (cmd : edge -> N -> snapshot -> node -> content) (g : graph) (hid : edge -> list node),
    wf_spec g -> wf_graph g -> frag_ABD g hid = true ->
    hidden_reads_ordered g hid = true -> no_inputless_phony g = true ->
  forall (ds : dstate) (T : list node) (s : sstate) (p : plan) (si : sstate) (pi : plan),
    GoodD cmd g hid ds -> dscan g ds T = ScanOk s p ->
    scan (graph_of (inline g hid) (d_h ds)) (world_of (d_h ds)) T = ScanOk si pi ->
    forall e : edge, want_start p e = want_start pi e.
Proof. exact C10_same_plan_proof. Qed.
Print Assumptions C10_same_plan.

(* ---- (8) the two manifests accept or refuse a request together, when the hidden source reads
        exist and the targets are manifest nodes (no cycle, no load error, and "missing and no known
        rule" for the one exactly when for the other) *)
Theorem C10_accept_equiv :
  forall (cmd : edge -> N -> snapshot -> node -> content) (g : graph) (hid : edge -> list node),
    wf_spec g -> wf_graph g -> frag_ABD g hid = true -> topo_ordered (inline g hid) = true ->
    hidden_reads_ordered g hid = true -> no_inputless_phony g = true ->
  forall (ds : dstate) (T : list node), GoodD cmd g hid ds ->
    hidden_srcs_present g hid (d_h ds) = true -> targets_known g T = true ->
    ((exists s p, dscan g ds T = ScanOk s p) <->
     (exists si pi, scan (graph_of (inline g hid) (d_h ds)) (world_of (d_h ds)) T = ScanOk si pi)).
Proof. exact C10_accept_equiv_proof. Qed.
Print Assumptions C10_accept_equiv.

(* C10_equiv, one invocation: from a common state, if both manifests accept the request,
        the two builds run the same commands in the same order and end in the same state (disk,
        clock, build log, trace) *)
Theorem C10_equiv_build :
  forall (cmd : edge -> N -> snapshot -> node -> content) (g : graph) (hid : edge -> list node),
    wf_spec g -> wf_graph g -> frag_ABD g hid = true -> topo_ordered (inline g hid) = true ->
    hidden_reads_ordered g hid = true -> no_restat_upstream_of_deps g hid = true ->
    no_inputless_phony g = true ->
  forall (ds : dstate) (T : list node) (ds' : dstate) (st' : hstate),
    GoodD cmd g hid ds ->
    dbuild cmd g hid ds T = Some ds' -> build cmd (inline g hid) (d_h ds) T = Some st' ->
    d_h ds' = st'.
Proof. exact C10_equiv_build_proof. Qed.
Print Assumptions C10_equiv_build.

(* ---- (9) C10_equiv over histories (Edit/Delete of files, SetCmd, Build) from the empty state: the
        deps manifest and the inlined manifest go through the SAME states; in particular every build
        runs the same commands (first runs and re-runs alike) and the contents are the same *)
Theorem C10_equiv :
  forall (cmd : edge -> N -> snapshot -> node -> content) (g : graph) (hid : edge -> list node),
    wf_spec g -> wf_graph g -> frag_ABD g hid = true -> topo_ordered (inline g hid) = true ->
    hidden_reads_ordered g hid = true -> no_restat_upstream_of_deps g hid = true ->
    no_inputless_phony g = true ->
  forall h : list hstep,
    hist_ok g h = true -> hist_present cmd g hid (init_dstate g) h = true ->
    d_h (drun_hist cmd g hid (init_dstate g) h) =
    run_hist cmd (inline g hid) (init_hstate (inline g hid)) h.
Proof. exact C10_equiv_present_proof. Qed.
Print Assumptions C10_equiv.

(* the same under the alternative side condition "neither manifest refuses a build" *)
Theorem C10_equiv_both_accept :
  forall (cmd : edge -> N -> snapshot -> node -> content) (g : graph) (hid : edge -> list node),
    wf_spec g -> wf_graph g -> frag_ABD g hid = true -> topo_ordered (inline g hid) = true ->
    hidden_reads_ordered g hid = true -> no_restat_upstream_of_deps g hid = true ->
    no_inputless_phony g = true ->
  forall h : list hstep,
    hist_ok g h = true ->
    hist_side cmd g hid (init_dstate g) (init_hstate (inline g hid)) h = true ->
    d_h (drun_hist cmd g hid (init_dstate g) h) =
    run_hist cmd (inline g hid) (init_hstate (inline g hid)) h.
Proof. exact C10_equiv_proof. Qed.
Print Assumptions C10_equiv_both_accept.

Theorem C10_same_commands :
  forall (cmd : edge -> N -> snapshot -> node -> content) (g : graph) (hid : edge -> list node),
    wf_spec g -> wf_graph g -> frag_ABD g hid = true -> topo_ordered (inline g hid) = true ->
    hidden_reads_ordered g hid = true -> no_restat_upstream_of_deps g hid = true ->
    no_inputless_phony g = true ->
  forall h : list hstep,
    hist_ok g h = true -> hist_present cmd g hid (init_dstate g) h = true ->
    h_trace (d_h (drun_hist cmd g hid (init_dstate g) h)) =
    h_trace (run_hist cmd (inline g hid) (init_hstate (inline g hid)) h) /\
    forall n, content_of (d_h (drun_hist cmd g hid (init_dstate g) h)) n =
              content_of (run_hist cmd (inline g hid) (init_hstate (inline g hid)) h) n.
Proof. exact C10_same_commands_proof. Qed.
Print Assumptions C10_same_commands.

(* ---- (10) hence C01 carries over: after a history that ends with a build both manifests accept,
        every node the targets need (through manifest inputs and hidden reads) holds what a clean
        build of the ground truth produces *)
Theorem C10_C01 :
  forall (cmd : edge -> N -> snapshot -> node -> content) (g : graph) (hid : edge -> list node),
    wf_spec g -> wf_graph g -> frag_ABD g hid = true -> topo_ordered (inline g hid) = true ->
    hidden_reads_ordered g hid = true -> no_restat_upstream_of_deps g hid = true ->
    no_inputless_phony g = true ->
  forall (h : list hstep) (T : list node) (ds' : dstate),
    (forall (e : edge) (hh hh' : N) (S : snapshot) (o : node),
       ei_generator (g_edge g e) = true -> cmd e hh S o = cmd e hh' S o) ->
    hist_ok g h = true -> hist_present cmd g hid (init_dstate g) (h ++ [Build T]) = true ->
    dbuild cmd g hid (drun_hist cmd g hid (init_dstate g) h) T = Some ds' ->
    forall n : node, reach (inline g hid) T n ->
      content_of (d_h ds') n = clean_of_d cmd g hid ds' n.
Proof. exact C10_C01_present_proof. Qed.
Print Assumptions C10_C01.

Theorem C10_C01_both_accept :
  forall (cmd : edge -> N -> snapshot -> node -> content) (g : graph) (hid : edge -> list node),
    wf_spec g -> wf_graph g -> frag_ABD g hid = true -> topo_ordered (inline g hid) = true ->
    hidden_reads_ordered g hid = true -> no_restat_upstream_of_deps g hid = true ->
    no_inputless_phony g = true ->
  forall (h : list hstep) (T : list node),
    (forall (e : edge) (hh hh' : N) (S : snapshot) (o : node),
       ei_generator (g_edge g e) = true -> cmd e hh S o = cmd e hh' S o) ->
    hist_ok g (h ++ [Build T]) = true ->
    hist_side cmd g hid (init_dstate g) (init_hstate (inline g hid)) (h ++ [Build T]) = true ->
    let ds' := drun_hist cmd g hid (init_dstate g) (h ++ [Build T]) in
    forall n : node, reach (inline g hid) T n ->
      content_of (d_h ds') n = clean_of_d cmd g hid ds' n.
Proof. exact C10_C01_proof. Qed.
Print Assumptions C10_C01_both_accept.

(* ---- (11) ... and C02: right after a build both manifests accepted, an accepted scan of the deps
        manifest wants nothing, and a second build runs no command and changes nothing *)
Theorem C10_C02 :
  forall (cmd : edge -> N -> snapshot -> node -> content) (g : graph) (hid : edge -> list node),
    wf_spec g -> wf_graph g -> frag_ABD g hid = true -> topo_ordered (inline g hid) = true ->
    hidden_reads_ordered g hid = true -> no_restat_upstream_of_deps g hid = true ->
    no_inputless_phony g = true ->
  forall (ds : dstate) (T : list node) (ds' : dstate) (st' : hstate),
    GoodD cmd g hid ds ->
    dbuild cmd g hid ds T = Some ds' -> build cmd (inline g hid) (d_h ds) T = Some st' ->
    (forall (s : sstate) (p : plan), dscan g ds' T = ScanOk s p ->
       forall e : edge, p_want p e <> Some WantToStart) /\
    (forall ds'' : dstate, dbuild cmd g hid ds' T = Some ds'' -> ds'' = ds').
Proof. exact C10_C02_proof. Qed.
Print Assumptions C10_C02.

(* ---- (12) the two listed findings of the real tree, at history level.  [C10_equiv_full a b] /
        [C10_C01_full a b] are statements (9) / (10) with the premise [hidden_reads_ordered] only if
        a = true and the premise [no_restat_upstream_of_deps] only if b = true. *)
Theorem C10_equiv_full_both : C10_equiv_full true true /\ C10_C01_full true true.
Proof. exact (conj C10_equiv_full_proof C10_C01_full_proof). Qed.
Print Assumptions C10_equiv_full_both.

(* id=restat-prune-ignores-recorded-deps: a deps statement downstream of a restat statement is dirty
   at scan time through its input, so its record is only probed; the restat command leaves its
   output untouched; CleanNode re-evaluates the deps statement against its MANIFEST inputs and
   prunes it although a recorded dependency is newer; the build succeeds with a stale output and
   the next build re-runs the statement.  Witness: HistDepsDefs.ExRestatPrune (by computation). *)
Theorem C10_restat_prune_refuted : ~ C10_C01_full true false /\ ~ C10_equiv_full true false.
Proof. exact C10_restat_prune_refuted_proof. Qed.
Print Assumptions C10_restat_prune_refuted.

Theorem C10_restat_prune_witness :
  exists (cmd : edge -> N -> snapshot -> node -> content) (g : graph) (hid : edge -> list node)
         (h : list hstep) (T : list node) (n : node),
    wf_spec g /\ wf_graph g /\ frag_ABD g hid = true /\ topo_ordered (inline g hid) = true /\
    hidden_reads_ordered g hid = true /\ no_restat_upstream_of_deps g hid = false /\
    no_inputless_phony g = true /\
    hist_ok g (h ++ [Build T]) = true /\
    hist_present cmd g hid (init_dstate g) (h ++ [Build T]) = true /\
    hist_side cmd g hid (init_dstate g) (init_hstate (inline g hid)) (h ++ [Build T]) = true /\
    reach (inline g hid) T n /\
    (exists ds', dbuild cmd g hid (drun_hist cmd g hid (init_dstate g) h) T = Some ds' /\
                 content_of (d_h ds') n <> clean_of_d cmd g hid ds' n) /\
    (exists st', build cmd (inline g hid) (run_hist cmd (inline g hid) (init_hstate (inline g hid)) h) T = Some st' /\
                 content_of st' n = clean_of cmd (inline g hid) st' n).
Proof. exact C10_restat_prune_witness_proof. Qed.
Print Assumptions C10_restat_prune_witness.

(* id=dirty-edge-deps-not-loaded: the recorded deps of a statement that is already dirty for its own
   reason are only probed, so a GENERATED recorded dependency whose producer is reachable only
   through the record is neither visited nor wanted: the consumer runs against the stale header
   and the build succeeds.  Witness: HistDepsDefs.ExNotLoaded (by computation). *)
Theorem C10_dirty_edge_deps_not_loaded_refuted : ~ C10_C01_full false true /\ ~ C10_equiv_full false true.
Proof. exact C10_dirty_edge_deps_not_loaded_refuted_proof. Qed.
Print Assumptions C10_dirty_edge_deps_not_loaded_refuted.

Theorem C10_dirty_edge_deps_not_loaded_witness :
  exists (cmd : edge -> N -> snapshot -> node -> content) (g : graph) (hid : edge -> list node)
         (h : list hstep) (T : list node) (n : node),
    wf_spec g /\ wf_graph g /\ frag_ABD g hid = true /\ topo_ordered (inline g hid) = true /\
    hidden_reads_ordered g hid = false /\ no_restat_upstream_of_deps g hid = true /\
    no_inputless_phony g = true /\
    hist_ok g (h ++ [Build T]) = true /\
    hist_present cmd g hid (init_dstate g) (h ++ [Build T]) = true /\
    hist_side cmd g hid (init_dstate g) (init_hstate (inline g hid)) (h ++ [Build T]) = true /\
    reach (inline g hid) T n /\
    (exists ds', dbuild cmd g hid (drun_hist cmd g hid (init_dstate g) h) T = Some ds' /\
                 content_of (d_h ds') n <> clean_of_d cmd g hid ds' n) /\
    (exists st', build cmd (inline g hid) (run_hist cmd (inline g hid) (init_hstate (inline g hid)) h) T = Some st' /\
                 content_of st' n = clean_of cmd (inline g hid) st' n).
Proof. exact C10_dirty_edge_deps_not_loaded_witness_proof. Qed.
Print Assumptions C10_dirty_edge_deps_not_loaded_witness.

(* what happens in the two witnesses, step by step *)
Example C10_restat_prune_details :
  (* the last build is accepted, runs the restat statement only, leaves b.o stale *)
  dbuild ExRestatPrune.cmd ExRestatPrune.g ExRestatPrune.hid ExRestatPrune.ds_before [3%nat] = Some ExRestatPrune.ds_end /\
  ran_since (d_h ExRestatPrune.ds_before) (d_h ExRestatPrune.ds_end) = [0%nat] /\
  (* the scan had not loaded the valid record: the inputs of e1 are [gen.h] *)
  match dscan ExRestatPrune.g ExRestatPrune.ds_before [3%nat] with
  | ScanOk s p => es_ins (st_edge s 1%nat) = [2%nat] /\ es_deps_missing (st_edge s 1%nat) = false /\
                  p_want p 1%nat = Some WantToStart
  | _ => False
  end /\
  (* the next build re-runs e1 *)
  match dbuild ExRestatPrune.cmd ExRestatPrune.g ExRestatPrune.hid ExRestatPrune.ds_end [3%nat] with
  | Some ds' => ran_since (d_h ExRestatPrune.ds_end) (d_h ds') = [1%nat]
  | None => False
  end.
Proof. vm_compute. repeat split; reflexivity. Qed.

Example C10_dirty_edge_deps_not_loaded_details :
  dbuild ExNotLoaded.cmd ExNotLoaded.g ExNotLoaded.hid ExNotLoaded.ds_before [3%nat] = Some ExNotLoaded.ds_end /\
  (* only the consumer ran; gen.h itself is stale as well *)
  ran_since (d_h ExNotLoaded.ds_before) (d_h ExNotLoaded.ds_end) = [1%nat] /\
  content_of (d_h ExNotLoaded.ds_end) 2%nat <> clean_of_d ExNotLoaded.cmd ExNotLoaded.g ExNotLoaded.hid ExNotLoaded.ds_end 2%nat /\
  (* gen.h's statement was neither visited nor put in the plan *)
  match dscan ExNotLoaded.g ExNotLoaded.ds_before [3%nat] with
  | ScanOk s p => es_mark (st_edge s 0%nat) = VisitNone /\ p_want p 0%nat = None /\
                  es_ins (st_edge s 1%nat) = [1%nat]
  | _ => False
  end.
Proof. vm_compute. split; [reflexivity|split; [reflexivity|split; [discriminate|repeat split; reflexivity]]]. Qed.

(* ================================================================== non-vacuity *)
(* the project HistDepsDefs.ExD (a generator of a header; a compile statement with deps = gcc that
   reads the generated header -- also an order-only input: the idiom -- and a source header the
   manifest does not mention; a link statement) satisfies every premise *)
Example C10_premises_nonvacuous :
  wf_spec ExD.g /\ wf_graph ExD.g /\ frag_ABD ExD.g ExD.hid = true /\ frag_D ExD.g = true /\
  topo_ordered (inline ExD.g ExD.hid) = true /\ hidden_reads_ordered ExD.g ExD.hid = true /\
  no_restat_upstream_of_deps ExD.g ExD.hid = true /\ no_inputless_phony ExD.g = true /\
  (forall (e : edge) (hh hh' : N) (S : snapshot) (o : node),
     ei_generator (g_edge ExD.g e) = true -> ExD.cmd e hh S o = ExD.cmd e hh' S o) /\
  hist_ok ExD.g ExD.hist = true /\
  hist_present ExD.cmd ExD.g ExD.hid ExD.ds0 ExD.hist = true /\
  hist_side ExD.cmd ExD.g ExD.hid ExD.ds0 (init_hstate ExD.gi) ExD.hist = true /\
  ExD.hist = firstn 8 ExD.hist ++ [Build [4%nat]] /\
  (* four builds; the second one re-runs the compile statement because of the source header *)
  h_trace (d_h (drun_hist ExD.cmd ExD.g ExD.hid ExD.ds0 ExD.hist)) = [2; 1; 0; 2; 1; 2; 1; 0]%nat.
Proof.
  split; [exact ExD_wf_spec|]. split; [exact ExD_wf_graph|].
  repeat (split; [vm_compute; reflexivity|]).
  split; [apply (Ex_cmd_gen ExD.g); intros [|[|[|e]]]; reflexivity|].
  repeat (split; [vm_compute; reflexivity|]). vm_compute. reflexivity.
Qed.

Example ExD_built_good : GoodD ExD.cmd ExD.g ExD.hid ExD.built.
Proof.
  apply (goodd_hist ExD.cmd ExD.g ExD.hid ExD_wf_spec); [vm_compute; reflexivity|vm_compute; reflexivity|apply goodd_init|vm_compute; reflexivity].
Qed.

Example ExD_reach_obj : exists n : node, reach ExD.g [4%nat] n /\ g_producer ExD.g n = Some 1%nat.
Proof.
  exists 3%nat. split; [|reflexivity].
  apply (reach_step ExD.g (manifest_ins ExD.g) [4%nat] 4%nat 3%nat); [apply reach_target; left; reflexivity|].
  exists 2%nat. split; [reflexivity|left; reflexivity].
Qed.

(* (1): a record exists after the history and is what the theorem says *)
Example C10_records_invariant_nonvacuous :
  let ds := drun_hist ExD.cmd ExD.g ExD.hid ExD.ds0 ExD.hist in
  d_deps ds 3%nat = Some (19, [2%nat; 5%nat]) /\ ExD.hid 1%nat = [2%nat; 5%nat] /\
  h_blog (d_h ds) 3%nat <> None /\ mtime_of (d_h ds) 3%nat = 19.
Proof. vm_compute. split; [reflexivity|split; [reflexivity|split; [discriminate|reflexivity]]]. Qed.

(* (4): util.h (node 5) is edited after a build: the premises hold, the build succeeds, b.o is re-run *)
Example C10_changed_dep_reruns_nonvacuous :
  GoodD ExD.cmd ExD.g ExD.hid ExD.built /\ (1 < g_nedges ExD.g)%nat /\
  ei_deps (g_edge ExD.g 1%nat) = DepsLog /\ In 5%nat (ExD.hid 1%nat) /\ is_source ExD.g 5%nat = true /\
  (exists n : node, reach ExD.g [4%nat] n /\ g_producer ExD.g n = Some 1%nat) /\
  match dbuild ExD.cmd ExD.g ExD.hid (dapply_step ExD.cmd ExD.g ExD.hid ExD.built (Edit 5 31)) [4%nat] with
  | Some ds' => ran_since (d_h (dapply_step ExD.cmd ExD.g ExD.hid ExD.built (Edit 5 31))) (d_h ds') = [2; 1]%nat
  | None => False
  end.
Proof.
  split; [exact ExD_built_good|]. split; [cbn; lia|]. split; [reflexivity|].
  split; [right; left; reflexivity|]. split; [reflexivity|]. split; [exact ExD_reach_obj|].
  vm_compute. reflexivity.
Qed.

(* (5): util.h is deleted: it is no manifest node (g_byloader), the deps manifest rebuilds b.o, the
   inlined manifest refuses *)
Example C10_missing_dep_dirty_nonvacuous :
  let ds := dapply_step ExD.cmd ExD.g ExD.hid ExD.built (Delete 5) in
  GoodD ExD.cmd ExD.g ExD.hid ds /\ h_disk (d_h ds) 5%nat = None /\ g_byloader ExD.g 5%nat = true /\
  match dbuild ExD.cmd ExD.g ExD.hid ds [4%nat] with
  | Some ds' => ran_since (d_h ds) (d_h ds') = [2; 1]%nat
  | None => False
  end /\
  scan (graph_of ExD.gi (d_h ds)) (world_of (d_h ds)) [4%nat] = ScanMissing 5%nat (Some 3%nat).
Proof.
  split.
  - apply (goodd_step ExD.cmd ExD.g ExD.hid ExD_wf_spec); [vm_compute; reflexivity|vm_compute; reflexivity|exact ExD_built_good|reflexivity].
  - vm_compute. repeat split; reflexivity.
Qed.

(* (6): the record is dropped, resp. the output is touched by hand: re-run *)
Example C10_stale_record_reruns_nonvacuous :
  ei_outs (g_edge ExD.g 1%nat) = [3%nat] /\
  d_deps (drop_deps ExD.built 3%nat) 3%nat = None /\
  match dbuild ExD.cmd ExD.g ExD.hid (drop_deps ExD.built 3%nat) [4%nat] with
  | Some ds' => ran_since (d_h ExD.built) (d_h ds') = [2; 1]%nat
  | None => False
  end /\
  (let ds := touch_output ExD.built 3%nat 999%N in
   (exists dm l, d_deps ds 3%nat = Some (dm, l) /\ dm < mtime_of (d_h ds) 3%nat) /\
   match dbuild ExD.cmd ExD.g ExD.hid ds [4%nat] with
   | Some ds' => ran_since (d_h ds) (d_h ds') = [2; 1]%nat
   | None => False
   end).
Proof.
  split; [reflexivity|]. split; [reflexivity|]. split; [vm_compute; reflexivity|].
  split; [eexists; eexists; split; [vm_compute; reflexivity|vm_compute; reflexivity]|vm_compute; reflexivity].
Qed.

(* (8): in the built state both accept; with the declared source b.c deleted both refuse with the
   same message; with the undeclared header deleted the side condition fails (and they differ) *)
Example C10_accept_equiv_nonvacuous :
  hidden_srcs_present ExD.g ExD.hid (d_h ExD.built) = true /\ targets_known ExD.g [4%nat] = true /\
  both_accept ExD.g ExD.hid ExD.built (d_h ExD.built) [4%nat] = true /\
  (let ds := dapply_step ExD.cmd ExD.g ExD.hid ExD.built (Delete 1) in
   hidden_srcs_present ExD.g ExD.hid (d_h ds) = true /\
   dscan ExD.g ds [4%nat] = ScanMissing 1%nat (Some 3%nat) /\
   scan (graph_of ExD.gi (d_h ds)) (world_of (d_h ds)) [4%nat] = ScanMissing 1%nat (Some 3%nat)) /\
  hidden_srcs_present ExD.g ExD.hid (d_h (dapply_step ExD.cmd ExD.g ExD.hid ExD.built (Delete 5))) = false.
Proof. vm_compute. repeat split; reflexivity. Qed.

(* (8), (11): both manifests accept a build from the built state, and nothing runs *)
Example C10_equiv_build_nonvacuous :
  exists ds' st',
    dbuild ExD.cmd ExD.g ExD.hid ExD.built [4%nat] = Some ds' /\
    build ExD.cmd ExD.gi (d_h ExD.built) [4%nat] = Some st' /\ d_h ds' = st' /\ ds' = ExD.built.
Proof.
  destruct (dbuild ExD.cmd ExD.g ExD.hid ExD.built [4%nat]) as [ds'|] eqn:Hd; [|vm_compute in Hd; discriminate].
  destruct (build ExD.cmd ExD.gi (d_h ExD.built) [4%nat]) as [st'|] eqn:Hi; [|vm_compute in Hi; discriminate].
  exists ds', st'. split; [reflexivity|]. split; [reflexivity|].
  assert (Hord : hidden_reads_ordered ExD.g ExD.hid = true) by (vm_compute; reflexivity).
  assert (Hnr : no_restat_upstream_of_deps ExD.g ExD.hid = true) by (vm_compute; reflexivity).
  assert (Hnip : no_inputless_phony ExD.g = true) by (vm_compute; reflexivity).
  assert (Hf : frag_ABD ExD.g ExD.hid = true) by (vm_compute; reflexivity).
  assert (Ht : topo_ordered (inline ExD.g ExD.hid) = true) by (vm_compute; reflexivity).
  split; [apply (C10_equiv_build ExD.cmd ExD.g ExD.hid ExD_wf_spec ExD_wf_graph Hf Ht Hord Hnr Hnip ExD.built [4%nat] ds' st' ExD_built_good Hd Hi)|].
  assert (Hdd : dbuild ExD.cmd ExD.g ExD.hid (drun_hist ExD.cmd ExD.g ExD.hid ExD.ds0 (firstn 3 ExD.hist)) [4%nat] = Some ExD.built) by (vm_compute; reflexivity).
  assert (HG3 : GoodD ExD.cmd ExD.g ExD.hid (drun_hist ExD.cmd ExD.g ExD.hid ExD.ds0 (firstn 3 ExD.hist))).
  { apply (goodd_hist ExD.cmd ExD.g ExD.hid ExD_wf_spec Hf Ht); [apply goodd_init|vm_compute; reflexivity]. }
  destruct (build ExD.cmd ExD.gi (d_h (drun_hist ExD.cmd ExD.g ExD.hid ExD.ds0 (firstn 3 ExD.hist))) [4%nat]) as [st3|] eqn:Hi3;
    [|vm_compute in Hi3; discriminate].
  apply (proj2 (C10_C02 ExD.cmd ExD.g ExD.hid ExD_wf_spec ExD_wf_graph Hf Ht Hord Hnr Hnip _ [4%nat] ExD.built st3 HG3 Hdd Hi3) ds' Hd).
Qed.

(* (10): every node of the closure of {app} through manifest inputs and hidden reads *)
Example C10_C01_reach_nonvacuous : forall n, In n [4; 3; 1; 2; 5; 0]%nat -> reach (inline ExD.g ExD.hid) [4%nat] n.
Proof.
  set (gi := inline ExD.g ExD.hid).
  assert (R4 : reach gi [4%nat] 4%nat) by (apply reach_target; left; reflexivity).
  assert (R3 : reach gi [4%nat] 3%nat).
  { apply (reach_step gi (manifest_ins gi) [4%nat] 4%nat 3%nat R4). exists 2%nat. split; [reflexivity|left; reflexivity]. }
  assert (R1 : reach gi [4%nat] 1%nat).
  { apply (reach_step gi (manifest_ins gi) [4%nat] 3%nat 1%nat R3). exists 1%nat. split; [reflexivity|vm_compute; left; reflexivity]. }
  assert (R2 : reach gi [4%nat] 2%nat).
  { apply (reach_step gi (manifest_ins gi) [4%nat] 3%nat 2%nat R3). exists 1%nat. split; [reflexivity|vm_compute; right; left; reflexivity]. }
  assert (R5 : reach gi [4%nat] 5%nat).
  { apply (reach_step gi (manifest_ins gi) [4%nat] 3%nat 5%nat R3). exists 1%nat. split; [reflexivity|vm_compute; right; right; left; reflexivity]. }
  assert (R0 : reach gi [4%nat] 0%nat).
  { apply (reach_step gi (manifest_ins gi) [4%nat] 2%nat 0%nat R2). exists 0%nat. split; [reflexivity|left; reflexivity]. }
  intros n [<-|[<-|[<-|[<-|[<-|[<-|[]]]]]]]; assumption.
Qed.

Example C10_C01_contents_nonvacuous :
  let ds := drun_hist ExD.cmd ExD.g ExD.hid ExD.ds0 ExD.hist in
  ExD.contents ds = ExD.cleans ds /\ ExD.contents ds = [Some 12; Some 20; Some 6; Some 276; Some 935; Some 31]%N.
Proof. vm_compute. split; reflexivity. Qed.
