(* C17 — dependency cycles are always diagnosed, and only real ones.
   Model: Engine/ScanDefs.v (DependencyScan + Builder::AddTarget), relation: Engine/ScanSpec.v.
   Every theorem is restated in full and closed by [exact]; proofs are in Engine/ScanProofs.v. *)
From NinjaV Require Import Base.Bytes Engine.ScanDefs Engine.ScanSpec Engine.ScanProofs.

(* (1) Soundness: a reported "dependency cycle: p0 -> ... -> p0" is a closed walk of the relation
   "y is an input of the statement producing x" over manifest inputs (explicit, implicit,
   order-only) and recorded deps (deps log / depfile): >= 1 hop, every hop real, first = last. *)
Theorem C17_sound :
  forall (g : graph) (w : world) (targets c : list node),
    scan g w targets = ScanCycle c -> closed_walk g w c.
Proof. exact C17_sound. Qed.
Print Assumptions C17_sound.

Example C17_sound_nonvacuous :
  scan CycleExample.g CycleExample.w [0] = ScanCycle [0; 1; 0].
Proof. exact CycleExample.reported. Qed.

(* (2) No false positive: an acyclic relation is never rejected as cyclic ... *)
Theorem C17_no_false_positive :
  forall (g : graph) (w : world) (targets : list node),
    acyclic g w -> forall c, scan g w targets <> ScanCycle c.
Proof. exact C17_no_false_positive. Qed.
Print Assumptions C17_no_false_positive.

(* ... a ranking of the statements is a sufficient witness of acyclicity ... *)
Theorem C17_ranked_acyclic :
  forall (g : graph) (ins : edge -> list node) (rank : edge -> nat),
    ranked_via g ins rank -> acyclic_via g ins.
Proof. exact ranked_acyclic. Qed.
Print Assumptions C17_ranked_acyclic.

(* ... and a validation target depending on the statement that requests it IS acyclic and IS
   accepted (both statements scanned and wanted). *)
Example C17_no_false_positive_nonvacuous : acyclic ValidationExample.g ValidationExample.w.
Proof. exact ValidationExample.acyc. Qed.

Example C17_validation_requester_accepted :
  match scan ValidationExample.g ValidationExample.w [0] with
  | ScanOk s p =>
    es_mark (st_edge s 0) = VisitDone /\ es_mark (st_edge s 1) = VisitDone /\
    p_want p 0 = Some WantToStart /\ p_want p 1 = Some WantToStart /\ p_wanted p = 2
  | _ => False
  end.
Proof. exact ValidationExample.accepted. Qed.

(* (3) Completeness.  What an accepted scan has established: the Done statements are ranked by
   finish order along their FINAL inputs (spliced deps included) — so that relation is acyclic —,
   they contain the producers of all targets, and no manifest input was dropped. *)
Theorem C17_complete_final :
  forall (g : graph) (w : world) (targets : list node) (s : sstate) (p : plan),
    scan g w targets = ScanOk s p ->
    (exists rank K, ranked_by g rank K s) /\
    (forall t, In t targets -> done_of g t s) /\
    (forall e, incl (ei_ins (g_edge g e)) (es_ins (st_edge s e))).
Proof. exact C17_complete_final. Qed.
Print Assumptions C17_complete_final.

(* Hence: a cycle of the manifest relation (all three input kinds, multi-output statements:
   the relation is on statements) reachable from the targets NOT through validations is never
   accepted ... *)
Theorem C17_complete :
  forall (g : graph) (w : world) (targets c : list node),
    closed_walk_via g (manifest_ins g) c ->
    (forall x, hd_error c = Some x -> reach_via g (manifest_ins g) targets x) ->
    forall s p, scan g w targets <> ScanOk s p.
Proof. exact C17_complete. Qed.
Print Assumptions C17_complete.

(* ... nor is a cycle among what the VALIDATION targets of the statements met need (validation
   nodes are extra roots; a validation edge itself is not part of the cycle relation) ... *)
Theorem C17_complete_validations :
  forall (g : graph) (w : world) (targets c : list node),
    closed_walk_via g (manifest_ins g) c ->
    (forall x, hd_error c = Some x -> reach_val g targets x) ->
    forall s p, scan g w targets <> ScanOk s p.
Proof. exact C17_complete_validations. Qed.
Print Assumptions C17_complete_validations.

Example C17_complete_validations_nonvacuous :
  closed_walk_via ValidationCycleExample.g (manifest_ins ValidationCycleExample.g) [1; 2; 1] /\
  reach_val ValidationCycleExample.g [0] 1 /\
  scan ValidationCycleExample.g ValidationCycleExample.w [0] = ScanCycle [1; 2; 1].
Proof.
  split; [exact ValidationCycleExample.cyc|]. split; [exact ValidationCycleExample.reach|].
  exact ValidationCycleExample.reported.
Qed.

(* ... the scan always ends in one of the three diagnoses (never "out of fuel") ... *)
Theorem C17_complete_kinds :
  forall (g : graph) (w : world) (targets c : list node),
    wf_graph g ->
    closed_walk_via g (manifest_ins g) c ->
    (forall x, hd_error c = Some x -> reach_via g (manifest_ins g) targets x) ->
    match scan g w targets with
    | ScanCycle _ | ScanLoadErr _ | ScanMissing _ _ => True
    | _ => False
    end.
Proof. exact C17_complete_kinds. Qed.
Print Assumptions C17_complete_kinds.

(* ... and for one target it is the cycle diagnosis (or a broken depfile met first). *)
Theorem C17_complete_single :
  forall (g : graph) (w : world) (t : node) (c : list node),
    wf_graph g ->
    closed_walk_via g (manifest_ins g) c ->
    (forall x, hd_error c = Some x -> reach_via g (manifest_ins g) [t] x) ->
    (exists c', scan g w [t] = ScanCycle c') \/ (exists e, scan g w [t] = ScanLoadErr e).
Proof. exact C17_complete_single. Qed.
Print Assumptions C17_complete_single.

Example C17_complete_nonvacuous :
  wf_graph CycleExample.g /\
  closed_walk_via CycleExample.g (manifest_ins CycleExample.g) [0; 1; 0] /\
  reach_via CycleExample.g (manifest_ins CycleExample.g) [0] 0.
Proof.
  split; [exact CycleExample.wf|]. split; [exact CycleExample.cyc|].
  apply reach_target. left; reflexivity.
Qed.

(* (4) Termination: the fuel is never the reason for a result.  Nesting depth <= #statements
   (every frame holds a different statement InStack), the validation queue is bounded by the
   total number of validation entries, Plan::AddSubTarget by the statements not yet in want_. *)
Theorem C17_terminates :
  forall (g : graph) (w : world),
    wf_graph g -> forall targets : list node, scan g w targets <> ScanOutOfFuel.
Proof. exact scan_fuel_sufficient. Qed.
Print Assumptions C17_terminates.

Example C17_terminates_nonvacuous : wf_graph ValidationExample.g.
Proof. exact ValidationExample.wf. Qed.

(* (5) The caveat, REFUTED in full generality: completeness over the relation that includes the
   recorded deps is false of the faithful model.  Deps recorded for a statement that is already
   dirty are only probed (LoadDepsTry), never spliced, so a cycle closed only by such a record is
   invisible: the scan accepts, and the build runs the cycle's statements in whatever order the
   manifest alone implies.  Witness (DirtyDepsCycle): o (deps=gcc, log says it read x) with a
   newer source, x built from o; requested x. *)
Theorem C17_dirty_edge_deps_cycle_refuted : ~ C17_complete_recorded_full.
Proof. exact C17_dirty_edge_deps_cycle_refuted. Qed.
Print Assumptions C17_dirty_edge_deps_cycle_refuted.

Example C17_dirty_edge_deps_cycle_witness :
  closed_walk DirtyDepsCycle.g DirtyDepsCycle.w [0; 1; 0] /\
  match scan DirtyDepsCycle.g DirtyDepsCycle.w [1] with
  | ScanOk s p => p_want p 0 = Some WantToStart /\ p_want p 1 = Some WantToStart /\
                  es_ins (st_edge s 0) = [2]
  | _ => False
  end /\
  scan DirtyDepsCycle.g DirtyDepsCycle.w_clean [1] = ScanCycle [1; 0; 1].
Proof.
  split; [exact DirtyDepsCycle.cyc|]. split; [exact DirtyDepsCycle.accepted|].
  exact DirtyDepsCycle.diagnosed_when_clean.
Qed.
