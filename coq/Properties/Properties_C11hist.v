(* C11 at SCHEDULE / HISTORY level: dyndep information behaves as if written in the manifest.
   (The FILE level -- parser, loader, "loading = inlining on the graph", invalid files -- is Properties_C11.v.)
   Fragment ABY = fragment AB (explicit/implicit/order-only inputs, multiple outputs, phony, restat, generator)
   + dyndep bindings.  Model: Engine/HistDyndepDefs.v: ground truth [dyninfo] (per statement: its dyndep FILE
   node, and the implicit inputs / implicit outputs / restat the file gives it; a dyndep file is a source or
   the output of a statement); [load_for g y L] = the graph with the files in [L] loaded
   (DyndepLoader::UpdateEdge); [inline_y g y] = everything written into the manifest; one invocation [ybuild]:
   scan-time loads (sources, and files whose producer is ready), then the statements in edge order with
   HistDefs' restat pruning by re-evaluation ([dirty_now]); when the producer of pending files has had its
   turn they are loaded, the current world is re-scanned on the new graph, its wants are added, and the pass
   restarts; FinishCommand uses restat AFTER the load; RecomputeNodeDirty's revisit_dirty for restat that
   comes late ([yc_sticky]).  Proofs: Engine/HistDyndepProofs.v.  Every theorem is restated in full.

   Premises, all about the manifest [g], the ground truth [y] and the command function:
     wf_spec g, wf_graph g                   as in C01hist
     wf_y g y                                y_prod and y_outs say the same
     frag_ABY g y = true                     the fragment (checkable): a bound statement is real and lists its file
                                             among its inputs; a dyndep output is a node no statement produces, no
                                             manifest input and no dyndep file; a dyndep input that is a dyndep output
                                             comes from a statement bound to the SAME file
     frag_AB / topo_ordered / no_inputless_phony (inline_y g y) = true
                                             the inlined manifest is a fragment-AB manifest in topological order
                                             (C01hist / C02hist apply to it); the documented always-dirty case excluded
     dd_ins_ordered g y = true               the "order-only + dyndep" idiom: the producer of a dyndep input of a
                                             statement also produces a manifest input of it (a load makes nothing
                                             newly needed)
     no_late_restat g y = true               a statement gets restat ONLY from its dyndep file just when that file is a
                                             source; excludes the listed finding dyndep-restat-known-late
     hist_present_y ... h = true             whenever a build is requested, every source some statement reads exists
                                             (this keeps a source dyndep file in existence) and the targets are outputs
                                             the manifest declares; then BOTH manifests accept every request (1'). *)
From NinjaV Require Import Engine.CrashDefs.
From NinjaV Require Import Base.Bytes Engine.ScanDefs Engine.ScanSpec Engine.ScanProofs Engine.HistDefs Engine.HistProofs Engine.HistDyndepDefs Engine.HistDyndepProofs.
Require Import Coq.Sorting.Sorted.
Local Open Scope nat_scope.

(* ---- (1) equivalence.  Over any history of source edits, deletions, command-line changes and builds from
        the empty tree, the dyndep manifest and the inlined manifest are in the SAME state: files and mtimes,
        clock, build log, and the trace (the same commands, in the same order, in every build) -- whether the
        dyndep file exists when a build starts or is produced during it; and every request is accepted by both
        and ends in the same state. *)
Theorem C11_equiv :
  forall (cmd : edge -> N -> snapshot -> node -> content) (g : graph) (y : dyninfo),
    wf_spec g -> wf_graph g -> wf_y g y -> frag_ABY g y = true ->
    frag_AB (inline_y g y) = true -> topo_ordered (inline_y g y) = true ->
    dd_ins_ordered g y = true -> no_inputless_phony (inline_y g y) = true -> no_late_restat g y = true ->
  forall h : list hstep,
    hist_ok (inline_y g y) h = true ->
    hist_present_y cmd g y (init_hstate (inline_y g y)) h = true ->
    let sy := yrun_hist cmd g y (init_hstate (inline_y g y)) h in
    sy = run_hist cmd (inline_y g y) (init_hstate (inline_y g y)) h /\
    forall T : list node, srcs_present g y sy = true -> targets_produced g T = true ->
      exists st' : hstate,
        ybuild cmd g y sy T = YDone st' /\ build cmd (inline_y g y) sy T = Some st'.
Proof. exact HistDyndepProofs.C11_equiv_proof. Qed.
Print Assumptions C11_equiv.

(* (1') one request from any state that satisfies HistDefs' invariant for the inlined manifest *)
Theorem C11_build_equiv :
  forall (cmd : edge -> N -> snapshot -> node -> content) (g : graph) (y : dyninfo),
    wf_spec g -> wf_graph g -> wf_y g y -> frag_ABY g y = true ->
    frag_AB (inline_y g y) = true -> topo_ordered (inline_y g y) = true ->
    dd_ins_ordered g y = true -> no_inputless_phony (inline_y g y) = true -> no_late_restat g y = true ->
  forall (st : hstate) (T : list node),
    Good cmd (inline_y g y) st -> srcs_present g y st = true -> targets_produced g T = true ->
    exists st' : hstate,
      ybuild cmd g y st T = YDone st' /\ build cmd (inline_y g y) st T = Some st'.
Proof. exact HistDyndepProofs.C11_build_equiv_proof. Qed.
Print Assumptions C11_build_equiv.

(* (1'') every dyndep file a source: no side condition about restat *)
Theorem C11_equiv_sources :
  forall (cmd : edge -> N -> snapshot -> node -> content) (g : graph) (y : dyninfo),
    wf_spec g -> wf_graph g -> wf_y g y -> frag_ABY g y = true ->
    frag_AB (inline_y g y) = true -> topo_ordered (inline_y g y) = true ->
    dd_ins_ordered g y = true -> no_inputless_phony (inline_y g y) = true -> all_dd_sources g y = true ->
  forall h : list hstep,
    hist_ok (inline_y g y) h = true ->
    hist_present_y cmd g y (init_hstate (inline_y g y)) h = true ->
    yrun_hist cmd g y (init_hstate (inline_y g y)) h
    = run_hist cmd (inline_y g y) (init_hstate (inline_y g y)) h.
Proof. exact HistDyndepProofs.C11_equiv_sources_proof. Qed.
Print Assumptions C11_equiv_sources.

(* ---- (2) C01 and C02 for the dyndep manifest.  After any such history a requested build succeeds and every
        node the targets need -- through inputs of every kind, dyndep inputs included -- has the content a
        from-scratch build of the INLINED manifest gives it; and repeating the build changes nothing. *)
Theorem C11_C01 :
  forall (cmd : edge -> N -> snapshot -> node -> content) (g : graph) (y : dyninfo),
    wf_spec g -> wf_graph g -> wf_y g y -> frag_ABY g y = true ->
    frag_AB (inline_y g y) = true -> topo_ordered (inline_y g y) = true ->
    dd_ins_ordered g y = true -> no_inputless_phony (inline_y g y) = true -> no_late_restat g y = true ->
    (forall (e : edge) (h h' : N) (S : snapshot) (o : node),
       ei_generator (g_edge (inline_y g y) e) = true -> cmd e h S o = cmd e h' S o) ->
  forall (h : list hstep) (T : list node),
    hist_ok (inline_y g y) h = true ->
    hist_present_y cmd g y (init_hstate (inline_y g y)) h = true ->
    let s := yrun_hist cmd g y (init_hstate (inline_y g y)) h in
    srcs_present g y s = true -> targets_produced g T = true ->
    exists st' : hstate,
      ybuild cmd g y s T = YDone st' /\
      forall n : node, reach (inline_y g y) T n -> content_of st' n = clean_of cmd (inline_y g y) st' n.
Proof. exact HistDyndepProofs.C11_C01_proof. Qed.
Print Assumptions C11_C01.

Theorem C11_C02 :
  forall (cmd : edge -> N -> snapshot -> node -> content) (g : graph) (y : dyninfo),
    wf_spec g -> wf_graph g -> wf_y g y -> frag_ABY g y = true ->
    frag_AB (inline_y g y) = true -> topo_ordered (inline_y g y) = true ->
    dd_ins_ordered g y = true -> no_inputless_phony (inline_y g y) = true -> no_late_restat g y = true ->
  forall (h : list hstep) (T : list node) (st' : hstate),
    hist_ok (inline_y g y) h = true ->
    hist_present_y cmd g y (init_hstate (inline_y g y)) h = true ->
    let s := yrun_hist cmd g y (init_hstate (inline_y g y)) h in
    srcs_present g y s = true -> targets_produced g T = true ->
    ybuild cmd g y s T = YDone st' -> ybuild cmd g y st' T = YDone st'.
Proof. exact HistDyndepProofs.C11_C02_proof. Qed.
Print Assumptions C11_C02.

(* ---- (3) order.  The commands of one build of the dyndep manifest (most recent first) are in strictly
        decreasing statement order; a statement that ran did so after the producer of each of its dyndep-added
        inputs and after the producer of its dyndep file, whenever those ran ([before l x e]: x ran before e). *)
Theorem C11_order :
  forall (cmd : edge -> N -> snapshot -> node -> content) (g : graph) (y : dyninfo),
    wf_spec g -> wf_graph g -> wf_y g y -> frag_ABY g y = true ->
    frag_AB (inline_y g y) = true -> topo_ordered (inline_y g y) = true ->
    dd_ins_ordered g y = true -> no_inputless_phony (inline_y g y) = true -> no_late_restat g y = true ->
  forall (h : list hstep) (T : list node) (st' : hstate),
    hist_ok (inline_y g y) h = true ->
    hist_present_y cmd g y (init_hstate (inline_y g y)) h = true ->
    let s := yrun_hist cmd g y (init_hstate (inline_y g y)) h in
    srcs_present g y s = true -> targets_produced g T = true ->
    ybuild cmd g y s T = YDone st' ->
    let l := ran_since s st' in
    StronglySorted (fun a b : nat => b < a) l /\
    forall e : edge, In e l ->
      (forall (i : node) (x : edge), In i (y_ins y e) -> g_producer (inline_y g y) i = Some x ->
         x < e /\ (In x l -> before l x e)) /\
      (forall (dd : node) (p : edge), y_bind y e = Some dd -> g_producer g dd = Some p ->
         p < e /\ (In p l -> before l p e)).
Proof. exact HistDyndepProofs.C11_order_proof. Qed.
Print Assumptions C11_order.

(* ---- (4) the listed finding dyndep-restat-known-late (restat = 1 supplied by a dyndep file that is itself
        rebuilt in this invocation).  A witness inside the fragment, every premise of (1) but [no_late_restat]
        true: both manifests run the same commands up to the last build, the last build is accepted by both, the
        dyndep manifest runs a command the inlined manifest skips, the contents agree.  Hence (1) with the side
        condition switched off is FALSE of the model ([C11_equiv_full false]; [C11_equiv_full true] holds).
        The model also reproduces the real replay /verif/findings/C11/dyndep-restat-known-late.scn build for
        build (HistDyndepDefs.ExReplay). *)
Theorem C11_late_restat_witness :
  exists (cmd : edge -> N -> snapshot -> node -> content) (g : graph) (y : dyninfo) (h : list hstep) (T : list node),
    wf_spec g /\ wf_graph g /\ wf_y g y /\
    frag_ABY g y && frag_AB (inline_y g y) && topo_ordered (inline_y g y) && dd_ins_ordered g y
    && no_inputless_phony (inline_y g y) && hist_ok (inline_y g y) (h ++ [Build T])
    && hist_present_y cmd g y (init_hstate (inline_y g y)) (h ++ [Build T]) = true /\
    no_late_restat g y = false /\
    let sy := yrun_hist cmd g y (init_hstate (inline_y g y)) h in
    let si := run_hist cmd (inline_y g y) (init_hstate (inline_y g y)) h in
    h_trace sy = h_trace si /\
    exists sy' si' e,
      ybuild cmd g y sy T = YDone sy' /\ build cmd (inline_y g y) si T = Some si' /\
      In e (ran_since sy sy') /\ ~ In e (ran_since si si') /\
      forall n, content_of sy' n = content_of si' n.
Proof. exact HistDyndepProofs.C11_late_restat_witness_proof. Qed.
Print Assumptions C11_late_restat_witness.

Theorem C11_equiv_switch :
  (forall (cmd : edge -> N -> snapshot -> node -> content) (g : graph) (y : dyninfo),
    wf_spec g -> wf_graph g -> wf_y g y -> frag_ABY g y = true ->
    frag_AB (inline_y g y) = true -> topo_ordered (inline_y g y) = true ->
    dd_ins_ordered g y = true -> no_inputless_phony (inline_y g y) = true ->
    (true = true -> no_late_restat g y = true) ->
  forall h : list hstep,
    hist_ok (inline_y g y) h = true ->
    hist_present_y cmd g y (init_hstate (inline_y g y)) h = true ->
    h_trace (yrun_hist cmd g y (init_hstate (inline_y g y)) h)
    = h_trace (run_hist cmd (inline_y g y) (init_hstate (inline_y g y)) h)).
Proof. exact HistDyndepProofs.C11_equiv_full_proof. Qed.
Print Assumptions C11_equiv_switch.

Theorem C11_late_restat_refuted :
  ~ (forall (cmd : edge -> N -> snapshot -> node -> content) (g : graph) (y : dyninfo),
    wf_spec g -> wf_graph g -> wf_y g y -> frag_ABY g y = true ->
    frag_AB (inline_y g y) = true -> topo_ordered (inline_y g y) = true ->
    dd_ins_ordered g y = true -> no_inputless_phony (inline_y g y) = true ->
    (false = true -> no_late_restat g y = true) ->
  forall h : list hstep,
    hist_ok (inline_y g y) h = true ->
    hist_present_y cmd g y (init_hstate (inline_y g y)) h = true ->
    h_trace (yrun_hist cmd g y (init_hstate (inline_y g y)) h)
    = h_trace (run_hist cmd (inline_y g y) (init_hstate (inline_y g y)) h)).
Proof. exact HistDyndepProofs.C11_late_restat_refuted_proof. Qed.
Print Assumptions C11_late_restat_refuted.

(* ---- (5) the dyndep file as a source that exists when the build starts, and as a file produced during the
        build: the project ExY in both forms satisfies every premise of (1), and over the same history (plus the
        step that creates the source file) every node but the dyndep file itself (2) and the stand-in output of
        the statement that would produce it (7) has the same content at the end. *)
Theorem C11_existing_vs_produced :
  let gp := ExY.g in let gs := ExY.gs in let y := ExY.y in
  (forall b, wf_spec (ExY.mk b) /\ wf_graph (ExY.mk b) /\ wf_y (ExY.mk b) y /\
     frag_ABY (ExY.mk b) y && frag_AB (inline_y (ExY.mk b) y) && topo_ordered (inline_y (ExY.mk b) y)
     && dd_ins_ordered (ExY.mk b) y && no_inputless_phony (inline_y (ExY.mk b) y)
     && no_late_restat (ExY.mk b) y = true) /\
  all_dd_sources gp y = false /\ all_dd_sources gs y = true /\
  hist_ok (inline_y gp y) ExY.hist && hist_present_y ExY.cmd gp y (init_hstate (inline_y gp y)) ExY.hist
  && hist_ok (inline_y gs y) ExY.hist_s && hist_present_y ExY.cmd gs y (init_hstate (inline_y gs y)) ExY.hist_s = true /\
  forall n, n <> 2%nat -> n <> 7%nat ->
    content_of (yrun_hist ExY.cmd gp y (init_hstate (inline_y gp y)) ExY.hist) n
    = content_of (yrun_hist ExY.cmd gs y (init_hstate (inline_y gs y)) ExY.hist_s) n.
Proof. exact HistDyndepProofs.C11_existing_vs_produced_proof. Qed.
Print Assumptions C11_existing_vs_produced.

(* ---- (6) non-vacuity: the project ExY (dyndep file PRODUCED in the build; it gives e2 the implicit input x.h,
        produced by e1, and the implicit output tmp.imp, which it gives e3 as an implicit input) satisfies every
        premise of (1), (2), (3) with a history of 8 steps; its first build loads the file mid-build (all four
        commands, e3 after e2 after e1 and e0), its second at scan time. *)
Theorem C11_nonvacuous :
  let g := ExY.g in let y := ExY.y in let gi := inline_y g y in
  wf_spec g /\ wf_graph g /\ wf_y g y /\
  (forall e h h' S o, ei_generator (g_edge gi e) = true -> ExY.cmd e h S o = ExY.cmd e h' S o) /\
  frag_ABY g y && frag_AB gi && topo_ordered gi && dd_ins_ordered g y && no_inputless_phony gi
  && no_late_restat g y && hist_ok gi ExY.hist && hist_present_y ExY.cmd g y (init_hstate gi) ExY.hist = true /\
  g_producer g 2%nat = Some 0%nat /\ y_bind y 2%nat = Some 2%nat /\ y_bind y 3%nat = Some 2%nat /\
  y_ins y 2%nat = [3%nat] /\ g_producer g 3%nat = Some 1%nat /\
  y_outs y 2%nat = [5%nat] /\ y_ins y 3%nat = [5%nat] /\ g_producer gi 5%nat = Some 2%nat /\
  (let st := run_hist ExY.cmd gi (init_hstate gi) (firstn 2 ExY.hist) in
   scan_loads g y st = [] /\
   match ybuild ExY.cmd g y st [6%nat] with
   | YDone st' => ran_since st st' = [3; 2; 1; 0]%nat /\ content_of st' 5%nat <> None /\
                  scan_loads g y st' = [2%nat]
   | _ => False
   end) /\
  h_trace (yrun_hist ExY.cmd g y (init_hstate gi) ExY.hist) = [0; 3; 2; 1; 3; 2; 1; 0]%nat.
Proof. exact HistDyndepProofs.C11_nonvacuous_proof. Qed.
Print Assumptions C11_nonvacuous.
