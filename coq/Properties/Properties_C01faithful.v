(* C01/C02 at HISTORY level for the FAITHFUL build loop (Engine/HistFaithful.v): the loop that prunes
   the plan the way ninja does -- dirty FLAGS and cached mtimes from the scan, Plan::CleanNode
   triggered from Builder::FinishCommand for a restat command that left an output untouched --
   instead of HistDefs.build's re-scan of the current world ([dirty_now]).
   Proofs: Engine/HistFaithfulProofs.v.  Every theorem is restated in full.

   (1) With no input-less phony statement the two loops are the SAME function on states satisfying
       the invariant, so every history theorem about [build] holds verbatim for [build_f].
   (2) Without that hypothesis (the documented always-dirty case), [build_f] runs a SUBSEQUENCE of
       the commands [build] runs and every node ends with the same content: the precise form of
       "HistDefs.build re-runs a superset below an always-dirty statement, the contents agree".
   (3) The two cases the correspondence tool found, by computation: [build_f] runs `gen` only where
       [build] runs `gen` and `out`. *)
From NinjaV Require Import Engine.CrashDefs.
From NinjaV Require Import Base.Bytes Engine.ScanDefs Engine.ScanSpec Engine.ScanProofs Engine.HistDefs Engine.HistProofs Engine.HistRun Engine.HistFaithful Engine.HistFaithfulProofs Engine.HistDepsDefs Engine.HistDepsFaithful.
Local Open Scope Z_scope.

(* ---- (0) CleanNode's recursion never exhausts its fuel: an accepted scan is a finished build *)
Theorem build_f_never_out_of_fuel :
  forall (cmd : edge -> N -> snapshot -> node -> content) (g : graph),
    wf_spec g -> wf_graph g -> frag_AB g = true -> topo_ordered g = true ->
  forall (st : hstate) (T : list node) (s : sstate) (p : plan),
    Good cmd g st -> scan (graph_of g st) (world_of st) T = ScanOk s p ->
    exists st' : hstate, build_f cmd g st T = Some st'.
Proof. exact build_f_never_out_of_fuel. Qed.
Print Assumptions build_f_never_out_of_fuel.

(* ---- (1) the two loops coincide *)
Theorem build_f_eq_build :
  forall (cmd : edge -> N -> snapshot -> node -> content) (g : graph),
    wf_spec g -> wf_graph g -> frag_AB g = true -> topo_ordered g = true ->
  forall (st : hstate) (T : list node),
    Good cmd g st -> no_inputless_phony g = true ->
    build_f cmd g st T = build cmd g st T.
Proof. exact build_f_eq_build. Qed.
Print Assumptions build_f_eq_build.

Theorem run_hist_f_eq :
  forall (cmd : edge -> N -> snapshot -> node -> content) (g : graph),
    wf_spec g -> wf_graph g -> frag_AB g = true -> topo_ordered g = true ->
  forall (h : list hstep) (st : hstate),
    Good cmd g st -> no_inputless_phony g = true -> hist_ok g h = true ->
    run_hist_f cmd g st h = run_hist cmd g st h.
Proof. exact run_hist_f_eq. Qed.
Print Assumptions run_hist_f_eq.

(* hence: C01 over histories, for the faithful loop *)
Theorem C01_history_f :
  forall (cmd : edge -> N -> snapshot -> node -> content) (g : graph),
    wf_spec g -> wf_graph g -> frag_AB g = true -> topo_ordered g = true ->
  forall (h : list hstep) (T : list node) (st' : hstate),
    (forall (e : edge) (h1 h2 : N) (S : snapshot) (o : node),
       ei_generator (g_edge g e) = true -> cmd e h1 S o = cmd e h2 S o) ->
    hist_ok g h = true -> no_inputless_phony g = true ->
    build_f cmd g (run_hist_f cmd g (init_hstate g) h) T = Some st' ->
    forall n : node, reach g T n -> content_of st' n = clean_of cmd g st' n.
Proof. exact C01_history_f. Qed.
Print Assumptions C01_history_f.

(* ... and C02: a second faithful build succeeds and changes nothing *)
Theorem C02_second_build_idle_f :
  forall (cmd : edge -> N -> snapshot -> node -> content) (g : graph),
    wf_spec g -> wf_graph g -> frag_AB g = true -> topo_ordered g = true ->
  forall (st : hstate) (T : list node) (st' : hstate),
    Good cmd g st -> no_inputless_phony g = true ->
    build_f cmd g st T = Some st' -> build_f cmd g st' T = Some st'.
Proof. exact C02_second_build_idle_f. Qed.
Print Assumptions C02_second_build_idle_f.

(* ---- (2) without the hypothesis: same acceptance, a subsequence of the commands, same contents.
        [h_trace] is most recent first; both traces extend the trace of the common start state *)
Theorem build_f_trace_subset :
  forall (cmd : edge -> N -> snapshot -> node -> content) (g : graph),
    wf_spec g -> wf_graph g -> frag_AB g = true -> topo_ordered g = true ->
  forall (st : hstate) (T : list node),
    (forall (e : edge) (h1 h2 : N) (S : snapshot) (o : node),
       ei_generator (g_edge g e) = true -> cmd e h1 S o = cmd e h2 S o) ->
    Good cmd g st ->
    (build_f cmd g st T = None <-> build cmd g st T = None) /\
    (forall stf stu : hstate,
       build_f cmd g st T = Some stf -> build cmd g st T = Some stu ->
       (exists lf lu : list edge,
          h_trace stf = lf ++ h_trace st /\ h_trace stu = lu ++ h_trace st /\ subseq lf lu) /\
       (forall n : node, content_of stf n = content_of stu n)).
Proof. exact build_f_trace_subset. Qed.
Print Assumptions build_f_trace_subset.

(* ---- (3) the two deviations of HistDefs.build the tool found, and what the faithful loop does *)
(* build always: phony / build gen: r1 always src (restat) / build out: r2 gen.  Second invocation:
   build runs gen and out, build_f runs gen only; same contents *)
Example faithful_prunes_below_always_dirty :
  frag_AB ExF.g && topo_ordered ExF.g = true /\ no_inputless_phony ExF.g = false /\
  h_trace ExF.st1 = [2; 1]%nat /\ h_trace ExF.st1f = [2; 1]%nat /\
  h_trace (apply_step Ex.cmd ExF.g ExF.st1 (Build [3%nat])) = [2; 1; 2; 1]%nat /\
  h_trace (apply_step_f Ex.cmd ExF.g ExF.st1f (Build [3%nat])) = [1; 2; 1]%nat /\
  map (content_of (apply_step Ex.cmd ExF.g ExF.st1 (Build [3%nat]))) [0; 1; 2; 3]%nat
  = map (content_of (apply_step_f Ex.cmd ExF.g ExF.st1f (Build [3%nat]))) [0; 1; 2; 3]%nat.
Proof. exact ExF.faithful_prunes_below_always_dirty. Qed.

(* the same under the concrete command function of HistRun (the instance the tool runs) *)
Example faithful_ExAlwaysRestat :
  let g := ExAlwaysRestat.g in
  let st1 := run_hist_f (hcmd g) g (init_hstate g) [Edit 0 1; Build [3%nat]] in
  let st2 := apply_step_f (hcmd g) g st1 (Build [3%nat]) in
  st1 = run_hist (hcmd g) g (init_hstate g) [Edit 0 1; Build [3%nat]] /\
  HistRun.trace_delta (init_hstate g) st1 = [1; 2]%nat /\
  HistRun.trace_delta st1 st2 = [1%nat] /\
  HistRun.trace_delta st1 (apply_step (hcmd g) g st1 (Build [3%nat])) = [1; 2]%nat /\
  forallb (is_clean g st2) (seq 0 4) = true.
Proof. exact faithful_ExAlwaysRestat. Qed.

(* build gen: r0 src (restat, deps = gcc, hidden read h) / build out: r1 gen; build, remove h,
   build, build: the third invocation runs gen and out in HistDepsDefs.dbuild, gen only in dbuild_f *)
Example faithful_prunes_below_missing_dep :
  frag_ABD ExDF.g ExDF.hid = true /\
  h_trace (d_h ExDF.ds2) = [1; 0; 1; 0]%nat /\ h_trace (d_h ExDF.ds2f) = [1; 0; 1; 0]%nat /\
  h_trace (d_h (dapply_step Ex.cmd ExDF.g ExDF.hid ExDF.ds2 (Build [3%nat]))) = [1; 0; 1; 0; 1; 0]%nat /\
  h_trace (d_h (dapply_step_f Ex.cmd ExDF.g ExDF.hid ExDF.ds2f (Build [3%nat]))) = [0; 1; 0; 1; 0]%nat /\
  map (content_of (d_h (dapply_step Ex.cmd ExDF.g ExDF.hid ExDF.ds2 (Build [3%nat])))) [0; 1; 2; 3]%nat
  = map (content_of (d_h (dapply_step_f Ex.cmd ExDF.g ExDF.hid ExDF.ds2f (Build [3%nat])))) [0; 1; 2; 3]%nat.
Proof. exact ExDF.faithful_prunes_below_missing_dep. Qed.

(* ---- non-vacuity *)
(* (1): the project of HistDefs.Ex satisfies every premise incl. no_inputless_phony; the state after
   its 9-step history satisfies the invariant; the faithful build after it is accepted; and,
   computed independently of the theorem, the two histories end in the same trace and contents *)
Example build_f_eq_build_nonvacuous :
  wf_spec Ex.g /\ wf_graph Ex.g /\ frag_AB Ex.g = true /\ topo_ordered Ex.g = true /\
  no_inputless_phony Ex.g = true /\ hist_ok Ex.g Ex.hist9 = true /\
  Good Ex.cmd Ex.g (run_hist Ex.cmd Ex.g Ex.st0 Ex.hist9) /\
  (exists st', build_f Ex.cmd Ex.g (run_hist Ex.cmd Ex.g Ex.st0 Ex.hist9) [5%nat] = Some st') /\
  h_trace (run_hist_f Ex.cmd Ex.g Ex.st0 Ex.hist9) = h_trace (run_hist Ex.cmd Ex.g Ex.st0 Ex.hist9) /\
  h_trace (run_hist_f Ex.cmd Ex.g Ex.st0 Ex.hist5) = [0; 2; 1; 0]%nat.
Proof.
  split; [exact Ex_wf_spec|]. split; [exact Ex_wf_graph|].
  split; [vm_compute; reflexivity|]. split; [vm_compute; reflexivity|].
  split; [vm_compute; reflexivity|]. split; [vm_compute; reflexivity|].
  split.
  { apply (good_hist Ex.cmd Ex.g Ex_wf_spec); [vm_compute; reflexivity|apply good_init|vm_compute; reflexivity]. }
  split; [vm_compute; eexists; reflexivity|]. split; vm_compute; reflexivity.
Qed.

(* (2): the graph of ExF satisfies every premise of build_f_trace_subset and NOT
   no_inputless_phony; from the state after the first build both loops accept, and the subsequence
   is proper: build_f adds [1] (gen) to the trace, build adds [2; 1] (out, gen) *)
Example build_f_trace_subset_nonvacuous :
  wf_spec ExF.g /\ wf_graph ExF.g /\ frag_AB ExF.g = true /\ topo_ordered ExF.g = true /\
  no_inputless_phony ExF.g = false /\
  (forall (e : edge) (h1 h2 : N) (S : snapshot) (o : node),
     ei_generator (g_edge ExF.g e) = true -> Ex.cmd e h1 S o = Ex.cmd e h2 S o) /\
  Good Ex.cmd ExF.g ExF.st1 /\
  (exists stf stu, build_f Ex.cmd ExF.g ExF.st1 [3%nat] = Some stf /\ build Ex.cmd ExF.g ExF.st1 [3%nat] = Some stu /\
     h_trace stf = [1%nat] ++ h_trace ExF.st1 /\ h_trace stu = [2; 1]%nat ++ h_trace ExF.st1).
Proof.
  split; [exact ExF_wf_spec|]. split; [exact ExF_wf_graph|].
  split; [vm_compute; reflexivity|]. split; [vm_compute; reflexivity|]. split; [vm_compute; reflexivity|].
  split; [exact ExF_gen|]. split.
  { apply (good_hist Ex.cmd ExF.g ExF_wf_spec); [vm_compute; reflexivity|apply good_init|vm_compute; reflexivity]. }
  vm_compute. eexists. eexists. repeat split; reflexivity.
Qed.
