(* C06 -- concurrency limits hold, single execution, progress, never "stuck".
   PART served by the plan / build-loop model (Engine/PlanDefs.v; it contains the CONCRETE pool
   bookkeeping of the code: current_use_ is raised when an edge is queued, released in EdgeFinished
   only `if (directly_wanted)`, delayed_ re-examined on every finish).  Quantification as in
   Properties_C04.v; in addition ALL priority orders for Pool::RetrieveReadyEdges at every step.
   Dyndep loads during the build are part of the model (Plan::DyndepsLoaded and friends; see PlanDefs.v).
   The jobserver is the exclusive token pool of the harness (implicit slot + n tokens); real FIFOs,
   load limits, and the error paths of StartEdge/FinishCommand are not in this model. *)
From NinjaV Require Import Base.Bytes Engine.PlanDefs Engine.PlanProofs.

(* pool_inv is part of the plan invariant: per pool of depth d > 0,
     current_use = |ready in pool| + |running in pool| <= d,   delayed <> {} -> current_use = d. *)
Theorem C06_pool_inv : forall g cfg loads rank, wf_graph g rank -> 0 < c_k cfg -> 0 < c_j cfg ->
  forall s, reachable g cfg loads s -> s_phase s = PhBuild -> plan_inv g cfg s.
Proof. exact plan_inv_reachable. Qed.
Print Assumptions C06_pool_inv.

(* In EVERY reachable state (any phase): at most -j commands run, at most depth(pool) per pool
   (console = depth 1), at most 1 + n with a jobserver of n tokens. *)
Theorem C06_limits : forall g cfg loads rank, wf_graph g rank -> 0 < c_k cfg -> 0 < c_j cfg ->
  forall s, reachable g cfg loads s ->
  length (s_running s) <= c_j cfg /\
  (forall q, 0 < depth g q -> cnt g q (s_running s) <= depth g q) /\
  (forall n, c_jobserver cfg = Some n -> length (s_running s) <= S n).
Proof. exact limits. Qed.
Print Assumptions C06_limits.

(* The slots held are exactly the running commands; all are back on every return of Build(). *)
Theorem C06_tokens_held : forall g cfg loads rank, wf_graph g rank -> 0 < c_k cfg -> 0 < c_j cfg ->
  forall s, reachable g cfg loads s -> s_phase s = PhBuild ->
  p_tokens (s_plan s) = match c_jobserver cfg with None => 0 | Some _ => length (s_running s) end.
Proof. exact tokens_held. Qed.
Print Assumptions C06_tokens_held.

Theorem C06_tokens_returned : forall g cfg loads rank, wf_graph g rank -> 0 < c_k cfg -> 0 < c_j cfg ->
  forall s code m s', reachable g cfg loads s -> step g cfg loads s (EvExit code m) = Some s' ->
  m <> MInterrupted -> p_tokens (s_plan s') = 0.
Proof. exact tokens_at_exit. Qed.
Print Assumptions C06_tokens_returned.

(* (interrupt path: Cleanup -> the runner's abort returns the slots of the killed commands -- the real
   runner's ClearJobTokens, which the model takes as given) *)
Theorem C06_tokens_returned_interrupt : forall g cfg loads rank, wf_graph g rank -> 0 < c_k cfg -> 0 < c_j cfg ->
  forall s s', reachable g cfg loads s -> step g cfg loads s EvInterrupt = Some s' ->
  p_tokens (s_plan s') = 0 /\ s_running s' = [].
Proof. exact tokens_after_interrupt. Qed.
Print Assumptions C06_tokens_returned_interrupt.

(* No edge is started twice in an accepted trace. *)
Theorem C06_once : forall g cfg loads rank, wf_graph g rank -> 0 < c_k cfg -> 0 < c_j cfg ->
  forall prio sn evs1 e pr evs2 s, wf_snap g sn ->
  run g cfg loads prio sn (evs1 ++ EvStart e pr :: evs2) = Some s ->
  forall pr', ~ In (EvStart e pr') evs2.
Proof. exact started_once. Qed.
Print Assumptions C06_once.

(* Build() never returns "stuck [this is a bug]": from no reachable state is that exit accepted. *)
Theorem C06_never_stuck : forall g cfg loads rank, wf_graph g rank -> 0 < c_k cfg -> 0 < c_j cfg ->
  forall s code, reachable g cfg loads s -> step g cfg loads s (EvExit code MStuck) = None.
Proof. exact never_stuck. Qed.
Print Assumptions C06_never_stuck.

(* WaitForCommand is only called when the start loop could not start anything: budget 0, capacity
   0, nothing ready, or no token.  (What the code guarantees; "no ready edge" includes edges parked
   in a full pool's delayed set.) *)
Theorem C06_progress : forall g cfg loads, 0 < c_k cfg -> 0 < c_j cfg ->
  forall s s', step g cfg loads s EvWait = Some s' ->
  can_start cfg s = false /\
  (s_fa s = 0 \/ c_j cfg <= length (s_running s) \/ p_ready (s_plan s) = [] \/
   token_ok cfg (s_plan s) = false).
Proof. exact wait_only_when_no_start. Qed.
Print Assumptions C06_progress.

(* The recursion EdgeFinished -> NodeFinished -> EdgeMaybeReady -> EdgeFinished terminates within
   #edges + 1 levels: the model's fuel is never exhausted in a reachable state. *)
Theorem C06_fuel_sufficient : forall g cfg loads rank, wf_graph g rank -> 0 < c_k cfg -> 0 < c_j cfg ->
  forall s ev, reachable g cfg loads s -> step_res g cfg loads s ev <> OutOfFuel.
Proof. exact step_res_fuel_sufficient. Qed.
Print Assumptions C06_fuel_sufficient.

(* ---- non-vacuity on the example: commands 0 and 1 share a pool of depth 1 ---- *)
Example C06_reachable_nonvacuous :
  wf_graph ex_graph ex_rank /\ wf_snap ex_graph ex_snap /\ 0 < c_k ex_cfg_js /\ 0 < c_j ex_cfg_js /\
  (exists s, run ex_graph ex_cfg_js no_loads ex_prio ex_snap ex_trace_ok = Some s) /\
  depth ex_graph 1 = 1 /\ c_jobserver ex_cfg_js = Some 1.
Proof.
  split; [exact ex_wf_graph|]. split; [exact ex_wf_snap|]. split; [cbn; lia|]. split; [cbn; lia|].
  split; [apply is_some_run; vm_compute; reflexivity|]. split; reflexivity.
Qed.

(* the pool really delays: after ScheduleInitialEdges 0 is ready, 1 is delayed, current_use = 1;
   starting 1 while 0 runs is rejected although -j2 would allow it *)
Example C06_pool_delays :
  let s := init_state ex_graph ex_cfg ex_prio ex_snap in
  p_ready (s_plan s) = [0] /\ p_delayed (s_plan s) = [1] /\ p_use (s_plan s) 1 = 1 /\
  is_some (run ex_graph ex_cfg no_loads ex_prio ex_snap [EvStart 0 ex_prio; EvStart 1 ex_prio]) = false.
Proof. vm_compute. repeat split; reflexivity. Qed.

Example C06_once_nonvacuous :
  is_some (run ex_graph ex_cfg no_loads ex_prio ex_snap ([] ++ EvStart 0 ex_prio :: skipn 1 ex_trace_ok)) = true /\
  is_some (run ex_graph ex_cfg no_loads ex_prio ex_snap
             ([EvStart 0 ex_prio; EvWait; EvFinish 0 0 ex_prio] ++ [EvStart 0 ex_prio])) = false.
Proof. split; vm_compute; reflexivity. Qed.

(* an accepted Wait and an accepted (non-stuck) error exit *)
Example C06_progress_nonvacuous :
  exists s s', reachable ex_graph ex_cfg no_loads s /\ step ex_graph ex_cfg no_loads s EvWait = Some s'.
Proof.
  destruct (run_snoc_split ex_graph ex_cfg no_loads ex_prio ex_snap [EvStart 0 ex_prio] EvWait) as [s [s' [H1 H2]]];
    [vm_compute; reflexivity|].
  exists s, s'. split; [apply (run_reachable _ _ _ _ _ _ _ ex_wf_snap H1)|exact H2].
Qed.

Example C06_wait_with_startable_rejected :
  (* two independent commands, -j2: waiting after the first start is refused, the second must be started *)
  let g2 := mkGraph [mkEdge [] [] 0 false None []; mkEdge [] [] 0 false None []] [] in
  let sn2 := mkSnap (fun e => if e <? 2 then Some WToStart else None) (fun _ => false) 2 2 in
  is_some (run g2 ex_cfg no_loads [] sn2 [EvStart 0 []; EvWait]) = false /\
  is_some (run g2 ex_cfg no_loads [] sn2 [EvStart 0 []; EvStart 1 []; EvWait]) = true.
Proof. split; vm_compute; reflexivity. Qed.

(* ---- the OLD Plan::ScheduleInitialEdges (before "fix: mark initially pool-delayed edges as scheduled"):
   an initially ready edge of a depth-limited pool kept want_ = kWantToStart while it sat in ready_;
   once started, a dyndep load that walks over it (AddSubTarget: want != kWantToFinish) made
   EdgeMaybeReady schedule it again: the SAME command started twice.  [run_old] = the same model with
   [schedule_initial_plan_old]; the witness is [dd_graph] of PlanDefs.v. ---- *)
Definition C06_once_old : Prop :=
  forall g cfg loads rank, wf_graph g rank -> 0 < c_k cfg -> 0 < c_j cfg ->
  forall prio sn evs1 e pr evs2 s, wf_snap g sn ->
  run_old g cfg loads prio sn (evs1 ++ EvStart e pr :: evs2) = Some s ->
  forall pr', ~ In (EvStart e pr') evs2.

Lemma dd_wf_graph6 : wf_graph dd_graph (fun e => e).
Proof. apply wf_graph_b_sound. vm_compute. reflexivity. Qed.
Lemma dd_wf_snap6 : wf_snap dd_graph dd_snap.
Proof.
  apply wf_snap_b_sound; [|vm_compute; reflexivity].
  intros e He. change (n_edges dd_graph) with 4 in He. unfold dd_snap. cbn [sn_want sn_oready].
  destruct (Nat.ltb_spec e 4); [lia|]. split; reflexivity.
Qed.

Theorem C06_once_old_refuted : ~ C06_once_old.
Proof.
  intros H.
  destruct (run_old dd_graph dd_cfg dd_loads [] dd_snap dd_trace_twice) as [s|] eqn:E; [|vm_compute in E; discriminate].
  apply (H dd_graph dd_cfg dd_loads (fun e => e) dd_wf_graph6 ltac:(cbn; lia) ltac:(cbn; lia)
           [] dd_snap [] 1 [] [EvStart 0 []; EvWait; EvFinish 0 0 []; EvStart 1 []] s dd_wf_snap6 E []).
  right. right. right. left. reflexivity.
Qed.
Print Assumptions C06_once_old_refuted.

(* the fixed model rejects the second start of that very trace, and [C06_once] above covers traces
   with dyndep loads: its premises hold for this graph, snapshot and payload *)
Example C06_once_dyndep_nonvacuous :
  is_some (run dd_graph dd_cfg dd_loads [] dd_snap dd_trace) = true /\
  is_some (run dd_graph dd_cfg dd_loads [] dd_snap dd_trace_twice) = false.
Proof. split; vm_compute; reflexivity. Qed.

(* ---- the OLD Plan::RefreshDyndepDependents (before "fix: schedule validation targets discovered by a
   mid-build dyndep load"): a validation target met by the re-scan after a dyndep load was inserted into
   want_ by AddTarget and was not on dyndep_walk; when all its inputs were ready nobody called
   EdgeMaybeReady for it and Build() ended with "stuck [this is a bug]", exit status 0.  [accepts_old] /
   [step_res_old] = the same model with [apply_load_old] (the guard "every edge that became ready is
   visited" not enforced) and the stuck exit status of that time (exit_code_, i.e. 0); the witness is [vs_graph] of PlanDefs.v. ---- *)
Definition C06_never_stuck_old : Prop :=
  forall g cfg loads rank, wf_graph g rank -> 0 < c_k cfg -> 0 < c_j cfg ->
  forall prio sn evs s code, wf_snap g sn ->
  accepts_old g cfg loads (init_state g cfg prio sn) evs = Some s ->
  forall s', step_res_old g cfg loads s (EvExit code MStuck) <> Ok s'.

Lemma vs_wf_graph : wf_graph vs_graph (fun e => e).
Proof. apply wf_graph_b_sound. vm_compute. reflexivity. Qed.
Lemma vs_wf_snap : wf_snap vs_graph vs_snap.
Proof.
  apply wf_snap_b_sound; [|vm_compute; reflexivity].
  intros e He. change (n_edges vs_graph) with 4 in He. unfold vs_snap. cbn [sn_want sn_oready].
  destruct e as [|[|[|[|e]]]]; try lia. split; reflexivity.
Qed.

Theorem C06_never_stuck_old_refuted : ~ C06_never_stuck_old.
Proof.
  intros H.
  destruct (accepts_old vs_graph vs_cfg vs_loads_old (init_state vs_graph vs_cfg [] vs_snap) vs_trace_old) as [s|] eqn:E;
    [|vm_compute in E; discriminate].
  destruct (step_res_old vs_graph vs_cfg vs_loads_old s (EvExit 0 MStuck)) as [s'| |] eqn:E2.
  - apply (H vs_graph vs_cfg vs_loads_old (fun e => e) vs_wf_graph ltac:(cbn; lia) ltac:(cbn; lia)
             [] vs_snap vs_trace_old s 0 vs_wf_snap E s' E2).
  - pose proof vs_old_stuck as W. rewrite E, E2 in W. discriminate.
  - pose proof vs_old_stuck as W. rewrite E, E2 in W. discriminate.
Qed.
Print Assumptions C06_never_stuck_old_refuted.

(* the fixed model refuses that walk, accepts the one with the validation target on it, and
   [C06_never_stuck] above covers it: its premises hold for this graph, snapshot and payload *)
Example C06_never_stuck_dyndep_nonvacuous :
  is_some (run vs_graph vs_cfg vs_loads_old [] vs_snap [EvStart 2 []; EvWait; EvFinish 2 0 []]) = false /\
  exists s, reachable vs_graph vs_cfg vs_loads_new s /\ s_phase s = PhBuild /\
            step vs_graph vs_cfg vs_loads_new s (EvExit 0 MStuck) = None.
Proof.
  split; [vm_compute; reflexivity|].
  destruct (is_some_run vs_graph vs_cfg vs_loads_new [] vs_snap [EvStart 2 []; EvWait; EvFinish 2 0 []]) as [s Hs];
    [vm_compute; reflexivity|].
  exists s. split; [apply (run_reachable _ _ _ _ _ _ _ vs_wf_snap Hs)|].
  vm_compute in Hs. injection Hs as <-. split; vm_compute; reflexivity.
Qed.
