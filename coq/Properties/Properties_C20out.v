(* C20 -- progress and command output are reported once, whole and consistent: the OUTPUT part.
   (The counters of the plan / build loop are in Properties_C20.v.)

   Model: Status/StatusDefs.v, a transliteration of StatusPrinter + LinePrinter (+ ElideMiddleInPlace,
   StripAnsiEscapeCodes) that is compared byte for byte with the real classes by tools/props/c20.py.
   [render cfg calls] = the bytes written to stdout for the sequence [calls] of Status calls.

   Everything below is about DUMB-terminal mode ([smart cfg = false]: ninja's stdout is a pipe or a
   file, or TERM=dumb, or -v / --quiet), verbosity other than QUIET, a format string without unknown
   placeholders ([format_ok]).  Outputs are arbitrary byte strings (NUL, ESC, no final newline, empty).
   Calls may come in ANY order: no validity assumption is needed beyond what each theorem names.

   Spec vocabulary (Status/StatusProofs.v):
     plain c           the call does not involve a console-pool edge (and is not a bare lock call)
     sline_direct      the status line as printed: printf("%s\n") of format . description
     body cfg owed ..  [FAILED line . command line] . output (ANSI-stripped unless colour is supported),
                       preceded by ONE "\n" when [owed]; returns also the new [owed]
     u_owed            "the last text that went through PrintOnNewLine did not end in a newline"
     upiece / upieces  what one plain call / a list of plain calls prints while the console is free
     tidy              the same without the [owed] bookkeeping: status line . [FAILED block] . output
     lpiece / lrun     what calls do while a console-pool command owns the terminal (buffer, pending line)
     window_out        what a whole window  Started(console) ; calls ; Finished(console)  prints
     item / parse      a call sequence cut into plain calls and such windows *)
From NinjaV Require Import Base.Bytes Status.StatusDefs Status.StatusProofs.
Local Open Scope N_scope.

(* ---- C20_blocks ------------------------------------------------------------------------------------
   No console-pool commands.  What reaches stdout is the concatenation, in the order of the calls (so:
   in the order the commands finish), of one block per finished command
        status line . [FAILED: [code=N] outputs \n . command \n] . output
   plus the Info() lines; nothing else.  Each command's output therefore occurs once, in one piece,
   directly after its status line (and FAILED block).  Exact rule: a successful command without
   output prints only its status line; an output that is empty AFTER ANSI stripping prints nothing.
   Hypothesis [terminated]: every (shown) output is empty or ends in a newline -- see C20_tidy_refuted
   and C20_blocks_general for the others. *)
Theorem C20_blocks : forall cfg cs,
  smart cfg = false -> c_verb cfg <> VQuiet -> format_ok cfg ->
  forallb plain cs = true -> forallb (terminated cfg) cs = true ->
  render cfg cs = concat (tidy cfg cn0 O cs).
Proof. exact blocks_tidy. Qed.
Print Assumptions C20_blocks.

(* The general form, for ALL outputs: the same blocks, except that a newline owed by an output that
   did not end in one is printed in front of the NEXT text that goes through PrintOnNewLine (a FAILED
   block, an output, or the end of the build) -- not in front of the next status line. *)
Theorem C20_blocks_general : forall cfg cs,
  smart cfg = false -> c_verb cfg <> VQuiet -> format_ok cfg ->
  forallb plain cs = true ->
  render cfg cs = concat (upieces cfg u0 cs).
Proof. exact blocks_general. Qed.
Print Assumptions C20_blocks_general.

(* Exactly once, contiguous: the bytes before a command's block are the rendering of the earlier
   calls (output is append-only), the block is  status line . body,  the rest is the rendering of the
   later calls from the state after it (it depends on the output only through [u_owed]). *)
Theorem C20_output_once : forall cfg pre e code out post,
  smart cfg = false -> c_verb cfg <> VQuiet -> format_ok cfg ->
  forallb plain (pre ++ Finished e code out :: post) = true ->
  let u := urun cfg u0 pre in
  render cfg (pre ++ Finished e code out :: post) =
  render cfg pre ++
  (sline_direct cfg (length pre) (cn_print (counters_of pre)) e ++
   fst (body cfg (u_owed u) e code out)) ++
  concat (upieces cfg (snd (upiece cfg u (Finished e code out))) post).
Proof. exact output_once. Qed.
Print Assumptions C20_output_once.

(* The tidy statement is FALSE without [terminated] (candidate finding): an output without a final
   newline gets the next command's status line glued onto it. *)
Theorem C20_tidy_refuted :
  exists cfg cs,
    smart cfg = false /\ c_verb cfg <> VQuiet /\ format_ok cfg /\ forallb plain cs = true /\
    render cfg cs <> concat (tidy cfg cn0 O cs).
Proof. exact tidy_refuted. Qed.
Print Assumptions C20_tidy_refuted.

(* the witness, spelled out: commands "a" (prints abc) and "b" (prints x\n), default format:
   stdout = "[1/2] a\n" "abc" "[2/2] b\n" "\n" "x\n" *)
Theorem C20_glue_witness :
  render wit_cfg wit_calls =
  [91;49;47;50;93;32;97;10] ++ [97;98;99] ++ [91;50;47;50;93;32;98;10] ++ [10] ++ [120;10].
Proof. exact wit_render. Qed.
Print Assumptions C20_glue_witness.

(* ---- C20_failed_header -----------------------------------------------------------------------------
   For a failed command the body is: [owed newline] . "FAILED: [code=N] " . outputs (each followed by
   a space) . "\n" . command . "\n" . output -- the header precedes the output, inside the block.
   (With colour support the words FAILED: [code=N] are wrapped in ESC[31m ... ESC[0m.) *)
Theorem C20_failed_header : forall cfg owed e code out,
  code <> 0%Z -> c_color cfg = false ->
  fst (body cfg owed e code out) =
  (if owed then [b_lf] else []) ++
  (l_failed ++ dec_Z code ++ l_close ++ outputs_text e ++ [b_lf]) ++
  (e_cmd e ++ [b_lf]) ++
  shown_output cfg out.
Proof. exact failed_header. Qed.
Print Assumptions C20_failed_header.

(* ---- C20_counters_in_lines -------------------------------------------------------------------------
   Default format: the line printed for a finishing command is "[f/t] description" where f and t are
   the model counters at that call: t = additions - removals so far, f = commands finished since
   BuildStarted including this one. *)
Theorem C20_counters_in_lines : forall cfg pre e code out post,
  smart cfg = false -> shows_status cfg = true ->
  c_eval cfg = None -> c_format cfg = default_format ->
  forallb plain (pre ++ Finished e code out :: post) = true ->
  let cn := counters_of pre in
  let u := urun cfg u0 pre in
  render cfg (pre ++ Finished e code out :: post) =
  render cfg pre ++
  (cstr ([91] ++ dec_Z (n_finished cn + 1) ++ [47] ++ dec_Z (n_total cn) ++ [93; 32] ++
         description_of cfg e) ++ [b_lf] ++
   fst (body cfg (u_owed u) e code out)) ++
  concat (upieces cfg (snd (upiece cfg u (Finished e code out))) post).
Proof. exact counters_in_lines. Qed.
Print Assumptions C20_counters_in_lines.

(* ---- C20_console -----------------------------------------------------------------------------------
   Call sequences with console-pool commands, cut into plain calls and windows
        Started e (console) ; calls of other commands ; Finished e' (console).
   [window_out] says what a window prints:
     at its start   the console command's status line, then the newline owed so far;
     while it runs  nothing at all, except Info() lines (C20_locked_direct);
     at its end     ["\n" if the held-back text does not end in a newline -- IN FRONT of it] .
                    the held-back blocks in order (C20_locked_buffer, C20_locked_block: every command
                    that failed or produced output keeps its whole block) .
                    the one pending progress line (C20_locked_silent: a silent successful command only
                    replaces the pending line by its own -- the coalescing) .
                    the console command's own FAILED block / output. *)
Theorem C20_console : forall cfg its,
  smart cfg = false -> c_verb cfg <> VQuiet -> format_ok cfg ->
  forallb item_ok its = true ->
  render cfg (flat_map item_calls its) = concat (items_out cfg u0 its).
Proof. exact console_items. Qed.
Print Assumptions C20_console.

(* every call sequence accepted by [parse] is of that form *)
Theorem C20_console_parsed : forall cfg fuel cs its,
  smart cfg = false -> c_verb cfg <> VQuiet -> format_ok cfg ->
  parse fuel cs = Some its ->
  render cfg cs = concat (items_out cfg u0 its).
Proof. exact console_parsed. Qed.
Print Assumptions C20_console_parsed.

Theorem C20_locked_direct : forall cfg seg u line,
  lr_direct (lrun cfg u line seg) = concat (map info_out seg).
Proof. exact locked_direct. Qed.
Print Assumptions C20_locked_direct.

Theorem C20_locked_buffer : forall cfg seg u line,
  lr_buf (lrun cfg u line seg) = concat (lbufs cfg u line seg).
Proof. exact locked_buffer. Qed.
Print Assumptions C20_locked_buffer.

Theorem C20_locked_block : forall cfg u line e code out,
  shows_status cfg = true -> prints code out = true ->
  fst (fst (fst (lpiece cfg u line (Finished e code out)))) =
  (let l := sline cfg (u_idx u) (cn_print (u_cn u)) e in if is_empty l then [] else l ++ [b_lf]) ++
  fst (body cfg (u_owed u) e code out)
  /\ snd (lpiece cfg u line (Finished e code out)) = [].
Proof. exact locked_block. Qed.
Print Assumptions C20_locked_block.

Theorem C20_locked_silent : forall cfg u line e code out,
  shows_status cfg = true -> prints code out = false ->
  fst (fst (fst (lpiece cfg u line (Finished e code out)))) = [] /\
  snd (lpiece cfg u line (Finished e code out)) = sline cfg (u_idx u) (cn_print (u_cn u)) e.
Proof. exact locked_silent. Qed.
Print Assumptions C20_locked_silent.

(* ---- ANSI stripping: without colour support no ESC byte of a command's output reaches stdout ---- *)
Theorem C20_no_esc : forall cfg out, c_color cfg = false -> has_esc (shown_output cfg out) = false.
Proof. exact shown_output_no_esc. Qed.
Print Assumptions C20_no_esc.

(* ---- QUIET verbosity (tests and tools only; `--quiet` on the command line is NO_STATUS_UPDATE, which is
   covered by the theorems above): nothing but Info() lines -- not even a failed command's output. ---- *)
Theorem C20_quiet : forall cfg cs,
  c_verb cfg = VQuiet -> forallb plain cs = true ->
  render cfg cs = concat (map info_out cs).
Proof. exact quiet_silent. Qed.
Print Assumptions C20_quiet.

(* ---- smart terminal (a tty, NORMAL verbosity), console free: the same blocks, with overprinting status
   lines "\r" line "ESC[K" (elided to the width) at every start and finish; each FAILED block / output
   begins with the newline that ends the status line ([body] with owed = true). ---- *)
Theorem C20_smart_blocks : forall cfg cs,
  smart cfg = true -> format_ok cfg -> forallb plain cs = true ->
  render cfg cs = concat (spieces cfg u0 cs).
Proof. exact smart_blocks. Qed.
Print Assumptions C20_smart_blocks.

(* ---- non-vacuity -------------------------------------------------------------------------------- *)
(* hypotheses of C20_blocks: default configuration on a pipe; three commands, one fails, one prints
   NUL bytes, one prints a colour sequence; the rendering is the expected transcript *)
Definition ex_e1 : edge := mkEdge [67;67;32;97] [99;109;100;49] false [[97;46;111]].        (* "CC a" cmd1 -> a.o *)
Definition ex_e2 : edge := mkEdge [] [99;109;100;50] false [[98]; [99]].                    (* no description, cmd2 -> b c *)
Definition ex_e3 : edge := mkEdge [76] [99;109;100;51] false [[100]].                       (* "L" cmd3 -> d *)
Definition ex_calls : list call :=
  [Added ex_e1; Added ex_e2; Added ex_e3; BuildStarted;
   Started ex_e1; Started ex_e2;
   Finished ex_e2 2 [111;0;112;10];                       (* fails, prints o NUL p \n *)
   Finished ex_e1 0 [27;91;51;49;109;114;27;91;48;109;10];  (* prints ESC[31m r ESC[0m \n *)
   Started ex_e3; Finished ex_e3 0 [];
   BuildFinished; Info [100;111;110;101]].
Example C20_blocks_nonvacuous :
  smart wit_cfg = false /\ c_verb wit_cfg <> VQuiet /\ format_ok wit_cfg /\
  forallb plain ex_calls = true /\ forallb (terminated wit_cfg) ex_calls = true /\
  render wit_cfg ex_calls =
    [91;49;47;51;93;32;99;109;100;50;10] ++                                   (* [1/3] cmd2 *)
    [70;65;73;76;69;68;58;32;91;99;111;100;101;61;50;93;32;98;32;99;32;10] ++ (* FAILED: [code=2] b c  *)
    [99;109;100;50;10] ++ [111;0;112;10] ++                                   (* cmd2, o NUL p *)
    [91;50;47;51;93;32;67;67;32;97;10] ++ [114;10] ++                         (* [2/3] CC a, r *)
    [91;51;47;51;93;32;76;10] ++                                              (* [3/3] L *)
    [110;105;110;106;97;58;32;100;111;110;101;10].                            (* ninja: done *)
Proof.
  destruct wit_cfg_ok as [H1 [H2 H3]].
  split; [exact H1|]. split; [exact H2|]. split; [exact H3|].
  split; [reflexivity|]. split; [vm_compute; reflexivity|]. vm_compute. reflexivity.
Qed.

(* hypotheses of C20_console_parsed: a console command (description "K") runs while command 1
   finishes with output, command 2 silently, command 3 silently; after the unlock: the block of 1,
   then only the LAST progress line ([4/4] L), the line of 2 is gone. *)
Definition ex_k : edge := mkEdge [75] [107] true [[107]].
Definition ex_calls2 : list call :=
  [Added ex_e1; Added ex_e2; Added ex_e3; Added ex_k; BuildStarted;
   Started ex_k; Started ex_e1; Started ex_e2;
   Finished ex_e1 0 [104;105;10];            (* prints hi\n *)
   Finished ex_e2 0 [];
   Started ex_e3; Finished ex_e3 0 [];
   Finished ex_k 0 [];
   BuildFinished].
Example C20_console_nonvacuous :
  exists its, parse (length ex_calls2) ex_calls2 = Some its /\
    forallb item_ok its = true /\
    render wit_cfg ex_calls2 =
      [91;48;47;52;93;32;75;10] ++                             (* [0/4] K     (at the start) *)
      [91;49;47;52;93;32;67;67;32;97;10] ++ [104;105;10] ++    (* [1/4] CC a, hi   (after the unlock) *)
      [91;51;47;52;93;32;76;10].                               (* [3/4] L ; "[2/4] cmd2" was overwritten *)
Proof.
  eexists. split; [vm_compute; reflexivity|]. split; vm_compute; reflexivity.
Qed.

(* hypotheses of C20_failed_header / C20_counters_in_lines / C20_output_once are those of C20_blocks
   (ex_calls contains a failing command at position 6) *)
Example C20_output_once_nonvacuous :
  exists pre e code out post, ex_calls = pre ++ Finished e code out :: post /\ code <> 0%Z /\
    forallb plain (pre ++ Finished e code out :: post) = true /\
    shows_status wit_cfg = true /\ c_eval wit_cfg = None /\ c_format wit_cfg = default_format /\
    c_color wit_cfg = false.
Proof.
  exists [Added ex_e1; Added ex_e2; Added ex_e3; BuildStarted; Started ex_e1; Started ex_e2],
         ex_e2, 2%Z, [111;0;112;10],
         [Finished ex_e1 0 [27;91;51;49;109;114;27;91;48;109;10]; Started ex_e3; Finished ex_e3 0 [];
          BuildFinished; Info [100;111;110;101]].
  split; [reflexivity|]. split; [discriminate|]. repeat split; reflexivity.
Qed.

(* hypotheses of C20_smart_blocks: an 80-column terminal; of C20_quiet: the same calls, QUIET *)
Definition ex_smart_cfg : config := mkConfig true VNormal true 80%nat default_format None (fun _ _ => []).
Definition ex_quiet_cfg : config := mkConfig false VQuiet false O default_format None (fun _ _ => []).
Example C20_smart_nonvacuous :
  smart ex_smart_cfg = true /\ format_ok ex_smart_cfg /\ forallb plain ex_calls = true /\
  c_verb ex_quiet_cfg = VQuiet /\
  render ex_quiet_cfg ex_calls = [110;105;110;106;97;58;32;100;111;110;101;10].      (* only "ninja: done" *)
Proof.
  split; [reflexivity|]. split; [apply format_ok_default; reflexivity|].
  split; [reflexivity|]. split; [reflexivity|]. vm_compute. reflexivity.
Qed.
