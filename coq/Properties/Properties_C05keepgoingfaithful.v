(* C05 with -k N at HISTORY level for the FAITHFUL build loop (Engine/HistFailKFaithful.v): keep-going
   invocations run the way ninja prunes its plan (want map + Plan::CleanNode from the restat loop of
   Builder::FinishCommand; a failed command: Plan::EdgeFinished(kEdgeFailed) leaves want_ alone, no
   restat loop; blocked / budget logic unchanged) -- the loop the correspondence tool runs against the
   real engine -- next to HistFailKDefs.buildFK, about which Properties_C05keepgoing.v speaks.
   Proofs: Engine/HistFailKFaithfulProofs.v.  Every theorem is restated in full.

   Premises: those of Properties_C05keepgoing.v (wf_spec g, wf_graph g, frag_AB g, topo_ordered g,
   the invariant [GoodF] of all histories with failures) and
     no_inputless_phony g = true     the documented always-dirty case.
   RESULT (FULL, nothing partial): under these premises [buildFK_f] and [buildFK] are the same
   function, for every budget ([buildFK_f_eq]; histories: [run_khist_f_eq]); so every theorem of
   Properties_C05keepgoing.v transfers: [C05K_dependents_not_started_f], [C05K_budget_f],
   [C05K_independent_run_f] are stated.  With budget Some 1 the faithful keep-going loop IS
   HistFailFaithful.buildF_full_f, without any premise ([buildFK_f_budget1]).
   What had to be shown beyond Properties_C05faithful.v: after a failure the loop goes on, in states
   that are not states of the fault-free loop, and the cascade of a later restat command (which knows
   nothing about failures) may walk into blocked statements; the invariant that ties flags and want
   map to the disk is therefore kept for the statements OUTSIDE the blocked set only
   ([step_by_step]; HistFailKFaithful.ExKFrestat is such a run).  With an input-less phony statement
   the loops differ ([C05K_faithful_differs_with_inputless_phony]). *)
From NinjaV Require Import Engine.CrashDefs.
From NinjaV Require Import Base.Bytes Engine.ScanDefs Engine.ScanSpec Engine.ScanProofs Engine.HistDefs Engine.HistProofs Engine.HistFaithful Engine.HistFaithfulProofs Engine.HistFailDefs Engine.HistFailProofs Engine.HistFailFaithful Engine.HistFailFaithfulProofs Engine.HistFailKDefs Engine.HistFailKProofs Engine.HistFailKFaithful Engine.HistFailKFaithfulProofs.
Local Open Scope Z_scope.

(* ---- (0) the two loops step by step: the same loop state after every statement; while the budget
        lasts the invariants hold relative to the blocked set of the statements that failed so far *)
Theorem step_by_step :
  forall (cmd : edge -> N -> snapshot -> node -> content) (g : graph),
    wf_spec g -> wf_graph g -> frag_AB g = true -> topo_ordered g = true ->
    no_inputless_phony g = true ->
  forall (fs : faults) (p : plan) (b : option nat) (st0 : hstate) (T : list node) (s0 : sstate),
    GoodF cmd g st0 -> scan (graph_of g st0) (world_of st0) T = ScanOk s0 p ->
  forall k : nat, (k <= g_nedges g)%nat ->
    exists x : cst,
      build_uptoK_f cmd g fs s0 p b k st0 = Some (build_uptoK cmd g fs p b k st0, x) /\
      (budget_out (k_budget (build_uptoK cmd g fs p b k st0)) = false ->
       GK.HInv cmd g st0 (blocked_of g (failed_edges (build_uptoK cmd g fs p b k st0))) k
               (k_st (build_uptoK cmd g fs p b k st0)) /\
       GK.CInv g st0 T s0 p (blocked_of g (failed_edges (build_uptoK cmd g fs p b k st0))) k
               (k_st (build_uptoK cmd g fs p b k st0)) x [] [] GK.noN).
Proof. exact uptoK_f_eq. Qed.
Print Assumptions step_by_step.

(* ---- (1) one keep-going invocation: same state, same failures, same blocked statements, same budget *)
Theorem buildFK_f_eq :
  forall (cmd : edge -> N -> snapshot -> node -> content) (g : graph),
    wf_spec g -> wf_graph g -> frag_AB g = true -> topo_ordered g = true ->
    no_inputless_phony g = true ->
  forall (st : hstate) (T : list node) (fs : faults) (b : option nat),
    GoodF cmd g st -> buildFK_f cmd g st T fs b = buildFK cmd g st T fs b.
Proof. exact HistFailKFaithfulProofs.buildFK_f_eq. Qed.
Print Assumptions buildFK_f_eq.

(* ---- (2) histories *)
Theorem run_khist_f_eq :
  forall (cmd : edge -> N -> snapshot -> node -> content) (g : graph),
    wf_spec g -> wf_graph g -> frag_AB g = true -> topo_ordered g = true ->
    no_inputless_phony g = true ->
  forall (h : list kstep) (st : hstate),
    GoodF cmd g st -> khist_ok g h = true -> run_khist_f cmd g st h = run_khist cmd g st h.
Proof. exact HistFailKFaithfulProofs.run_khist_f_eq. Qed.
Print Assumptions run_khist_f_eq.

(* ---- (3) -k 1 is the faithful loop of HistFailFaithful.v: the two programs coincide, no premise *)
Theorem buildFK_f_budget1 :
  forall (cmd : edge -> N -> snapshot -> node -> content) (g : graph) (st : hstate) (T : list node)
         (fs : faults),
    match buildFK_f cmd g st T fs (Some 1%nat) with Some a => Some (facc_of a) | None => None end =
    buildF_full_f cmd g st T fs.
Proof. exact HistFailKFaithfulProofs.buildFK_f_budget1. Qed.
Print Assumptions buildFK_f_budget1.

(* ---- (4) theorems of Properties_C05keepgoing.v, for the faithful loop *)
(* no statement that depends on ANY failed one is started; its outputs and log entries are untouched *)
Theorem C05K_dependents_not_started_f :
  forall (cmd : edge -> N -> snapshot -> node -> content) (g : graph),
    wf_spec g -> wf_graph g -> frag_AB g = true -> topo_ordered g = true ->
    no_inputless_phony g = true ->
  forall (st : hstate) (T : list node) (fs : faults) (b : option nat) (a : kacc),
    GoodF cmd g st -> buildFK_f cmd g st T fs b = Some a ->
    forall f d : edge, In f (failed_edges a) -> depends_on g f d ->
      ~ In d (HistFailDefs.trace_delta st (k_st a)) /\
      (forall o : node, In o (ei_outs (g_edge g d)) ->
         h_disk (k_st a) o = h_disk st o /\ h_blog (k_st a) o = h_blog st o).
Proof. exact HistFailKFaithfulProofs.C05K_dependents_not_started_f. Qed.
Print Assumptions C05K_dependents_not_started_f.

(* with -k N at most N commands fail, and the N-th failure is the last command started *)
Theorem C05K_budget_f :
  forall (cmd : edge -> N -> snapshot -> node -> content) (g : graph),
    wf_spec g -> wf_graph g -> frag_AB g = true -> topo_ordered g = true ->
    no_inputless_phony g = true ->
  forall (st : hstate) (T : list node) (fs : faults) (N : nat) (a : kacc),
    GoodF cmd g st -> buildFK_f cmd g st T fs (Some N) = Some a ->
    (length (k_failed a) <= N)%nat /\
    k_budget a = Some (N - length (k_failed a))%nat /\
    (length (k_failed a) = N ->
     forall (f : edge) (kd : fail_kind) (sf : hstate) (rest : list (edge * fail_kind * hstate)),
       k_failed a = (f, kd, sf) :: rest ->
       exists lr : list edge, HistFailDefs.trace_delta st (k_st a) = f :: lr).
Proof. exact HistFailKFaithfulProofs.C05K_budget_f. Qed.
Print Assumptions C05K_budget_f.

(* while the budget lasts, what is independent of the failures ends up as in a from-scratch build *)
Theorem C05K_independent_run_f :
  forall (cmd : edge -> N -> snapshot -> node -> content) (g : graph),
    wf_spec g -> wf_graph g -> frag_AB g = true -> topo_ordered g = true ->
    no_inputless_phony g = true ->
  forall (st : hstate) (T : list node) (fs : faults) (b : option nat) (a : kacc),
    (forall (e : edge) (h h' : N) (S : snapshot) (o : node),
       ei_generator (g_edge g e) = true -> cmd e h S o = cmd e h' S o) ->
    GoodF cmd g st -> TaintOk g true st -> buildFK_f cmd g st T fs b = Some a ->
    budget_out (k_budget a) = false ->
    forall n : node, reach g T n ->
      (forall e : edge, g_producer g n = Some e -> independent g a e) ->
      content_of (k_st a) n = clean_of cmd g (k_st a) n.
Proof. exact HistFailKFaithfulProofs.C05K_independent_run_f. Qed.
Print Assumptions C05K_independent_run_f.

(* ---- (5) non-vacuity *)
(* the project HistFailKDefs.ExChains satisfies the premises, the invocation of
   Properties_C05keepgoing.v (-k 0, e0 fails, the other chain is built) with the FAITHFUL loop *)
Example C05K_faithful_nonvacuous :
  wf_spec ExChains.g /\ wf_graph ExChains.g /\
  frag_AB ExChains.g && topo_ordered ExChains.g && no_inputless_phony ExChains.g = true /\
  GoodF ExChains.cmd ExChains.g ExChains.st2 /\ TaintOk ExChains.g true ExChains.st2 /\
  exists a : kacc,
    buildFK_f ExChains.cmd ExChains.g ExChains.st2 [6%nat] ExChains.fs None = Some a /\
    budget_out (k_budget a) = false /\ failed_edges a = [0%nat] /\
    HistFailDefs.trace_delta ExChains.st2 (k_st a) = [3; 2; 0]%nat /\
    depends_on ExChains.g 0%nat 1%nat /\ independent ExChains.g a 3%nat /\ reach ExChains.g [6%nat] 5%nat.
Proof.
  destruct C05K_nonvacuous_proof as [a [A [B [C [D [E [_ [F [G [H [_ [_ [I [_ J]]]]]]]]]]]]]].
  split; [exact ExChains_wf_spec|]. split; [exact ExChains_wf_graph|]. split; [exact C|]. split; [exact A|]. split; [exact B|].
  exists a. split; [|split; [exact E|split; [exact F|split; [exact G|split; [exact H|split; [exact I|exact J]]]]]].
  rewrite <- D. apply (HistFailKFaithfulProofs.buildFK_f_eq ExChains.cmd ExChains.g ExChains_wf_spec ExChains_wf_graph);
    [vm_compute; reflexivity|vm_compute; reflexivity|vm_compute; reflexivity|exact A].
Qed.

(* computed independently of the theorems: the examples of HistFailKDefs *)
Example C05K_faithful_same_on_examples :
  buildFK_f ExChains.cmd ExChains.g ExChains.st2 [6%nat] ExChains.fs (budget_of_k 0) =
  buildFK ExChains.cmd ExChains.g ExChains.st2 [6%nat] ExChains.fs (budget_of_k 0) /\
  buildFK_f ExChains.cmd ExChains.g ExChains.st2 [6%nat] ExChains.fs (budget_of_k 1) =
  buildFK ExChains.cmd ExChains.g ExChains.st2 [6%nat] ExChains.fs (budget_of_k 1) /\
  buildFK_f ExChains.cmd ExChains.g ExChains.st2 [6%nat] ExChains.fs2 (budget_of_k 2) =
  buildFK ExChains.cmd ExChains.g ExChains.st2 [6%nat] ExChains.fs2 (budget_of_k 2) /\
  ExChains.summary (buildFK_f ExChains.cmd ExChains.g ExChains.st2 [6%nat] ExChains.fs (budget_of_k 0)) =
  Some ([3; 2; 0]%nat, [0%nat], [4; 1; 0]%nat, None, true, [Some 999%N; None; Some 77%N; Some 250%N]).
Proof. exact ExKF.same_on_ExChains. Qed.

(* a run in which the cascade of a restat command walks into a blocked statement: the project
   ExKFrestat (gen: restat; x fails; out: gen || x is blocked; side: gen) satisfies the premises, the
   start state the invariant; both loops: gen runs, x fails, nothing else *)
Example C05K_faithful_cascade_into_blocked :
  wf_spec ExKFrestat.g /\ wf_graph ExKFrestat.g /\
  frag_AB ExKFrestat.g && topo_ordered ExKFrestat.g && no_inputless_phony ExKFrestat.g = true /\
  GoodF Ex.cmd ExKFrestat.g ExKFrestat.st1 /\
  buildFK_f Ex.cmd ExKFrestat.g ExKFrestat.st1 ExKFrestat.T [(1%nat, FailUntouched)] None =
  buildFK Ex.cmd ExKFrestat.g ExKFrestat.st1 ExKFrestat.T [(1%nat, FailUntouched)] None /\
  match buildFK_f Ex.cmd ExKFrestat.g ExKFrestat.st1 ExKFrestat.T [(1%nat, FailUntouched)] None with
  | Some a => HistFailDefs.trace_delta ExKFrestat.st1 (k_st a) = [1; 0]%nat /\ failed_edges a = [1%nat] /\
              k_blocked a = [2; 1]%nat
  | None => False
  end.
Proof.
  destruct ExKFrestat.cascade_into_blocked as [A [B _]].
  split; [exact ExKFrestat_wf_spec|]. split; [exact ExKFrestat_wf_graph|]. split; [exact ExKFrestat.premises|].
  split; [apply goodF_of_good; exact ExKFrestat_good|]. split; [exact A|exact B].
Qed.

(* the hypothesis no_inputless_phony cannot be dropped: HistFaithful.ExF (build always: phony /
   build gen: r1 always src, restat / build out: r2 gen), second build, a fault on [out], -k 0: the
   original loop starts out and fails; ninja prunes out and never starts it: no failure *)
Example C05K_faithful_differs_with_inputless_phony :
  frag_AB ExKFdiff.g && topo_ordered ExKFdiff.g = true /\ no_inputless_phony ExKFdiff.g = false /\
  match buildFK Ex.cmd ExKFdiff.g ExKFdiff.st1 [3%nat] [(2%nat, FailUntouched)] None with
  | Some a => HistFailDefs.trace_delta ExKFdiff.st1 (k_st a) = [2; 1]%nat /\ failed_edges a = [2%nat] /\ exit_failedK a = true
  | None => False
  end /\
  match buildFK_f Ex.cmd ExKFdiff.g ExKFdiff.st1 [3%nat] [(2%nat, FailUntouched)] None with
  | Some a => HistFailDefs.trace_delta ExKFdiff.st1 (k_st a) = [1%nat] /\ failed_edges a = [] /\ exit_failedK a = false
  | None => False
  end.
Proof. exact ExKFdiff.keep_going_differs_with_inputless_phony. Qed.
