(* C09, abstract side: the byte-level deps log REFINES the abstract deps log of the history-level
   models (Engine/HistDepsDefs.v: [d_deps : node -> option (Z * list node)], one atomic record per
   output of a deps statement, the loader yields the latest record per output).

   Definitions: Log/DepsLogAbs.v.  Proofs: Log/DepsLogAbsProofs.v (on top of DepsLogProofs.v).
     alog                 bytes -> option (Z * list bytes): the abstract log over PATHS
     alog_upd / alog_op / alog_apply   d_deps := upd d_deps out (mtime, ins); a sequence of them
     alog_restrict live   recompaction: dead outputs disappear
     aeq                  pointwise equality of abstract logs
     abs_deps file        what DepsLog::Load (current code) + GetDeps give for the file content
     loaded_file file     what Load leaves on disk (truncation / unlink)
     wlog f s             f is a log as ninja writes it (clean: header + whole records, every record
                          boundary reached in a well-formed state) and s the tables after loading it
     emitted s ops        the bytes a sequence of RecordDeps calls appends from tables s
     fits s ops           the ops are well-formed (wf_op) and the ids stay below INT_MAX
     edge_ops outs mt ins the calls of one command: RecordDeps(o, mt o, ins) for each output o
   Section Nodes: an injective naming [name : nat -> bytes] transports everything to
   [nlog = nat -> option (Z * list nat)] (the type of HistDepsDefs.d_deps) with
   [nlog_upd dl outs mt hid] = the update HistDepsDefs.record_deps performs.
   Everything is proved at full strength: nothing partial. *)
From NinjaV Require Import Base.Bytes Log.DepsLogDefs Log.DepsLogProofs
                           Log.DepsLogAbs Log.DepsLogAbsProofs.
Local Open Scope N_scope.

(* ------------------------------------------------------------------------------------ *)
(* 1. abs_deps is the loader's view; on ninja's own files it is the abstract history     *)

(* the GetDeps view of the loaded tables is exactly the image of abs_deps (no dangling id, the
   default of abs_of_state is never used) *)
Theorem C09abs_faithful : forall f s tr nr,
  load_deps f = DOk s tr nr -> forall o, view s o = spec_view (abs_deps f o).
Proof. exact abs_deps_faithful. Qed.
Print Assumptions C09abs_faithful.

(* [alog_apply] is the history function [abstract_ops] of the byte-level theorems *)
Theorem C09abs_apply_is_abstract_ops : forall ops (l : alog) o,
  alog_apply l ops o = match abstract_ops ops o with Some x => Some x | None => l o end.
Proof. exact alog_apply_abstract. Qed.
Print Assumptions C09abs_apply_is_abstract_ops.

Theorem C09abs_roundtrip : forall ops,
  wf_ops ops -> aeq (abs_deps (apply_ops [] ops)) (alog_apply alog_empty ops).
Proof. exact abs_roundtrip. Qed.
Print Assumptions C09abs_roundtrip.

Theorem C09abs_sessions : forall live first rest,
  wf_ops (concat (first :: rest)) ->
  (forall out m ins, In (RecordDeps out m ins) (concat (first :: rest)) -> live out = true) ->
  aeq (abs_deps (run_sessions live [] (first :: rest)))
      (alog_apply alog_empty (concat (first :: rest))).
Proof. exact abs_sessions. Qed.
Print Assumptions C09abs_sessions.

(* the files ninja writes are writer logs: the premise [wlog] below is satisfiable by every
   history of sessions *)
Theorem C09abs_wlog_reachable : forall live first rest,
  wf_ops (concat (first :: rest)) ->
  (forall out m ins, In (RecordDeps out m ins) (concat (first :: rest)) -> live out = true) ->
  exists s, wlog (run_sessions live [] (first :: rest)) s /\
            nlen (d_paths s) <= N.of_nat (mentions (concat (first :: rest))).
Proof. exact wlog_run_sessions. Qed.
Print Assumptions C09abs_wlog_reachable.

(* ------------------------------------------------------------------------------------ *)
(* 2. abs_record: RecordDeps refines  d_deps := upd d_deps out (mtime, ins)              *)

Theorem C09abs_record : forall f s op,
  wlog f s -> fits s [op] ->
  exists s' w,
    record_deps s op = (s', w, true) /\
    wlog (f ++ w) s' /\ extends s s' /\
    nlen (d_paths s') <= nlen (d_paths s) + N.of_nat (mentions [op]) /\
    aeq (abs_deps (f ++ w)) (alog_op (abs_deps f) op).
Proof. exact abs_record. Qed.
Print Assumptions C09abs_record.

(* "unchanged => no write": the abstract update is then the identity, and nothing is appended *)
Theorem C09abs_record_unchanged : forall f s out m ins,
  wlog f s -> abs_deps f out = Some (m, ins) ->
  record_deps s (RecordDeps out m ins) = (s, [], true).
Proof. exact abs_record_unchanged. Qed.
Print Assumptions C09abs_record_unchanged.

(* any sequence of calls *)
Theorem C09abs_run_ops : forall f s ops,
  wlog f s -> fits s ops ->
  exists s',
    run_ops s ops = (s', emitted s ops, true) /\
    wlog (f ++ emitted s ops) s' /\ extends s s' /\
    nlen (d_paths s') <= nlen (d_paths s) + N.of_nat (mentions ops) /\
    aeq (abs_deps (f ++ emitted s ops)) (alog_apply (abs_deps f) ops).
Proof. exact abs_run_ops. Qed.
Print Assumptions C09abs_run_ops.

(* a command with several outputs = several calls: the update of HistDepsDefs.record_deps *)
Theorem C09abs_record_edge : forall f s outs mt ins,
  wlog f s -> fits s (edge_ops outs mt ins) ->
  exists s',
    run_ops s (edge_ops outs mt ins) = (s', emitted s (edge_ops outs mt ins), true) /\
    wlog (f ++ emitted s (edge_ops outs mt ins)) s' /\
    forall o, abs_deps (f ++ emitted s (edge_ops outs mt ins)) o
              = if mem_bytes o outs then Some (mt o, ins) else abs_deps f o.
Proof. exact abs_record_edge. Qed.
Print Assumptions C09abs_record_edge.

(* ------------------------------------------------------------------------------------ *)
(* 3. abs_torn: a kill during the appends                                               *)

(* For EVERY number j of appended bytes that reached the disk: with n = the number of calls whose
   bytes are completely within j (the bytes of call n+1 are not), the next Load sees the abstract
   log with exactly the first n updates, in order; the file it leaves on disk is a writer log
   with the same abstract content.  Path records of the interrupted call may survive: they are
   invisible to the abstract log.  So "appends are atomic per record" is justified. *)
Theorem C09abs_torn : forall ops f s,
  wlog f s -> fits s ops ->
  forall j, (j <= length (emitted s ops))%nat ->
  exists n t,
    (n <= length ops)%nat /\
    (length (emitted s (firstn n ops)) <= j)%nat /\
    ((n < length ops)%nat -> (j < length (emitted s (firstn (S n) ops)))%nat) /\
    aeq (abs_deps (f ++ firstn j (emitted s ops))) (alog_apply (abs_deps f) (firstn n ops)) /\
    (exists tr nr, load_deps (f ++ firstn j (emitted s ops)) = DOk t tr nr) /\
    wlog (loaded_file (f ++ firstn j (emitted s ops))) t /\
    aeq (abs_deps (loaded_file (f ++ firstn j (emitted s ops))))
        (alog_apply (abs_deps f) (firstn n ops)) /\
    extends s t /\
    nlen (d_paths t) <= nlen (d_paths s) + N.of_nat (mentions ops).
Proof. exact abs_torn. Qed.
Print Assumptions C09abs_torn.

(* next-session clause: the session after the kill refines the abstract updates on that log *)
Theorem C09abs_torn_next_session : forall f s ops ops2,
  wlog f s -> forallb wf_op ops = true -> forallb wf_op ops2 = true ->
  nlen (d_paths s) + N.of_nat (mentions ops) + N.of_nat (mentions ops2) < kMaxIds ->
  forall j, (j <= length (emitted s ops))%nat ->
  exists n t',
    (n <= length ops)%nat /\
    (length (emitted s (firstn n ops)) <= j)%nat /\
    ((n < length ops)%nat -> (j < length (emitted s (firstn (S n) ops)))%nat) /\
    wlog (apply_ops (f ++ firstn j (emitted s ops)) ops2) t' /\
    aeq (abs_deps (apply_ops (f ++ firstn j (emitted s ops)) ops2))
        (alog_apply (alog_apply (abs_deps f) (firstn n ops)) ops2).
Proof. exact abs_torn_next_session. Qed.
Print Assumptions C09abs_torn_next_session.

(* a whole session (Load with truncation, Recompact if asked, the calls, Close) on any file whose
   Load leaves a writer log behind *)
Theorem C09abs_session : forall live G t tr nr ops,
  load_deps G = DOk t tr nr -> wlog (loaded_file G) t -> fits t ops ->
  exists t',
    wlog (session live G ops) t' /\
    aeq (abs_deps (session live G ops))
        (alog_apply (if nr then alog_restrict live (abs_deps G) else abs_deps G) ops).
Proof. exact abs_session. Qed.
Print Assumptions C09abs_session.

(* ------------------------------------------------------------------------------------ *)
(* 4. abs_recompact                                                                     *)

Theorem C09abs_recompact : forall live f s,
  wlog f s -> nlen (d_paths s) < kMaxIds ->
  exists s2,
    wlog (recompact_file live f) s2 /\ recompact_file live f = recompact live s /\
    aeq (abs_deps (recompact_file live f)) (alog_restrict live (abs_deps f)).
Proof. exact abs_recompact. Qed.
Print Assumptions C09abs_recompact.

(* ------------------------------------------------------------------------------------ *)
(* Nodes                                                                                *)

Theorem C09abs_refines_record_edge :
  forall (name : nat -> bytes), (forall a b, name a = name b -> a = b) ->
  forall f s (dl : nlog) outs (mt : nat -> Z) (mtp : bytes -> Z) hid,
  (forall n, mtp (name n) = mt n) ->
  refines name f dl -> wlog f s ->
  fits s (edge_ops (map name outs) mtp (map name hid)) ->
  exists s',
    wlog (f ++ emitted s (edge_ops (map name outs) mtp (map name hid))) s' /\
    refines name (f ++ emitted s (edge_ops (map name outs) mtp (map name hid)))
            (nlog_upd dl outs mt hid).
Proof. exact refines_record_edge. Qed.
Print Assumptions C09abs_refines_record_edge.

Theorem C09abs_refines_torn_edge :
  forall (name : nat -> bytes), (forall a b, name a = name b -> a = b) ->
  forall f s (dl : nlog) outs (mt : nat -> Z) (mtp : bytes -> Z) hid,
  (forall n, mtp (name n) = mt n) ->
  refines name f dl -> wlog f s ->
  fits s (edge_ops (map name outs) mtp (map name hid)) ->
  forall j, (j <= length (emitted s (edge_ops (map name outs) mtp (map name hid))))%nat ->
  exists n t,
    (n <= length outs)%nat /\
    wlog (loaded_file (f ++ firstn j (emitted s (edge_ops (map name outs) mtp (map name hid))))) t /\
    refines name (f ++ firstn j (emitted s (edge_ops (map name outs) mtp (map name hid))))
            (nlog_upd dl (firstn n outs) mt hid) /\
    refines name (loaded_file (f ++ firstn j (emitted s (edge_ops (map name outs) mtp (map name hid)))))
            (nlog_upd dl (firstn n outs) mt hid).
Proof. exact refines_torn_edge. Qed.
Print Assumptions C09abs_refines_torn_edge.

(* ------------------------------------------------------------------------------------ *)
(* 5. Non-vacuity, by computation                                                       *)

(* a first build: outputs "o" and "pq" of two deps statements *)
Definition xa_ops : list dop :=
  [RecordDeps [111] 5 [[97]; [98; 99]]; RecordDeps [112; 113] 4294967301 [[97]]].
Definition xa_file : bytes := apply_ops [] xa_ops.
Definition xa_state : dstate :=
  match load_deps xa_file with DOk s _ _ => s | _ => d_empty end.
(* a second build: "o" again (new mtime, new input "d"), a command with the two outputs "r","s",
   and "pq" unchanged (no write) *)
Definition xb_ops : list dop :=
  RecordDeps [111] 9 [[100]]
  :: edge_ops [[114]; [115]] (fun p => match p with [114] => 21%Z | _ => 22%Z end) [[97]; [111]]
  ++ [RecordDeps [112; 113] 4294967301 [[97]]].

Example C09abs_wlog_nonvacuous : wlog xa_file xa_state /\ fits xa_state xb_ops.
Proof.
  split.
  - destruct (wlog_apply_ops xa_ops) as (s & Hw & _); [split; vm_compute; reflexivity|].
    destruct (wlog_load _ _ Hw) as [nr Hl]. fold xa_file in Hl, Hw.
    replace xa_state with s; [exact Hw|]. unfold xa_state. rewrite Hl. reflexivity.
  - split; vm_compute; reflexivity.
Qed.

Example C09abs_deps_example :
  abs_deps xa_file [111] = Some (5%Z, [[97]; [98; 99]]) /\
  abs_deps xa_file [112; 113] = Some (4294967301%Z, [[97]]) /\
  abs_deps xa_file [97] = None /\
  abs_deps (xa_file ++ emitted xa_state xb_ops) [111] = Some (9%Z, [[100]]) /\
  abs_deps (xa_file ++ emitted xa_state xb_ops) [115] = Some (22%Z, [[97]; [111]]) /\
  length (emitted xa_state xb_ops) = 104%nat /\
  length (emitted xa_state [RecordDeps [112; 113] 4294967301 [[97]]]) = 0%nat.
Proof.
  split; [vm_compute; reflexivity|]. split; [vm_compute; reflexivity|].
  split; [vm_compute; reflexivity|]. split; [vm_compute; reflexivity|].
  split; [vm_compute; reflexivity|]. split; vm_compute; reflexivity.
Qed.

(* a kill 30 bytes into the second build's appends: the path record of "d" (12 bytes) is complete,
   the deps record of "o" (4 + 16 bytes) is not: Load truncates to the path record and the abstract
   log is the one of the first build; at 32 bytes the record is complete and visible *)
Example C09abs_torn_example :
  loaded_file (xa_file ++ firstn 30 (emitted xa_state xb_ops))
    = xa_file ++ firstn 12 (emitted xa_state xb_ops) /\
  abs_deps (xa_file ++ firstn 30 (emitted xa_state xb_ops)) [111] = Some (5%Z, [[97]; [98; 99]]) /\
  abs_deps (xa_file ++ firstn 32 (emitted xa_state xb_ops)) [111] = Some (9%Z, [[100]]) /\
  abs_deps (xa_file ++ firstn 32 (emitted xa_state xb_ops)) [114] = None /\
  abs_deps (apply_ops (xa_file ++ firstn 30 (emitted xa_state xb_ops)) [RecordDeps [116] 1 [[100]]])
           [116] = Some (1%Z, [[100]]).
Proof.
  split; [vm_compute; reflexivity|]. split; [vm_compute; reflexivity|].
  split; [vm_compute; reflexivity|]. split; vm_compute; reflexivity.
Qed.

Example C09abs_recompact_example :
  let live := fun p : bytes => bytes_eqb p [111] in
  abs_deps (recompact_file live xa_file) [111] = Some (5%Z, [[97]; [98; 99]]) /\
  abs_deps (recompact_file live xa_file) [112; 113] = None /\
  nlen (d_paths xa_state) < kMaxIds.
Proof.
  split; [vm_compute; reflexivity|]. split; vm_compute; reflexivity.
Qed.

(* nodes named by one byte *)
Definition xname (n : nat) : bytes := [N.of_nat n].

Example C09abs_nodes_example :
  (forall a b, xname a = xname b -> a = b) /\
  abs_deps xa_file (xname 111) = Some (5%Z, [xname 97; [98; 99]]).
Proof.
  split.
  - intros a b H. unfold xname in H. inversion H. apply Nat2N.inj. assumption.
  - vm_compute. reflexivity.
Qed.

Definition xn_ops : list dop := [RecordDeps (xname 3) 7 [xname 1; xname 2]].
Definition xn_log : nlog := fun n => match n with 3%nat => Some (7%Z, [1%nat; 2%nat]) | _ => None end.

(* the premises of the node-level theorems are satisfiable *)
Example C09abs_refines_nonvacuous :
  refines xname (apply_ops [] xn_ops) xn_log /\
  exists s, wlog (apply_ops [] xn_ops) s.
Proof.
  assert (Hwf : wf_ops xn_ops) by (split; vm_compute; reflexivity).
  split.
  - intros n. rewrite (abs_roundtrip xn_ops Hwf (xname n)).
    unfold xn_ops, alog_apply, xn_log. cbn [fold_left alog_op]. unfold alog_upd, alog_empty.
    destruct (bytes_eqb_spec (xname n) (xname 3)) as [E|E].
    + unfold xname in E. inversion E as [E']. apply Nat2N.inj in E'. subst n. reflexivity.
    + destruct n as [|[|[|[|n]]]]; try reflexivity. exfalso. apply E. reflexivity.
  - destruct (wlog_apply_ops xn_ops Hwf) as (s & Hw & _). exists s. exact Hw.
Qed.
