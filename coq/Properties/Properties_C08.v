(* C08 — the build log (.ninja_log) survives torn writes, restarts and compaction.
   Model: Log/BuildLogDefs.v ([load_log] = BuildLog::Load on the file content, including the
   LineReader with its 256 KiB buffer, sscanf version detection, atoi/strtoll/strtoull prefix
   parsing; [render_entry] = WriteEntry; [record_append] = a recording session;
   [recompact], [restat_log]/[restat_file]; [session] = Load + Recompact-if-asked + appends).
   The model was compared with the real build_log.cc on 7 321 result lines (every truncation
   offset of a 4-record log, with and without appended records; malformed lines; other versions;
   lines around and beyond the 256 KiB buffer; 3 000 random files): no difference.
   Proofs: Log/BuildLogProofs.v.  [fits B e] := length (render_entry e) <= B; it follows from
   [length (e_out e) + 63 <= B] (C08_fits_by_name_length), i.e. names up to 262 081 bytes. *)
From NinjaV Require Import Base.Bytes Log.BuildLogDefs Log.BuildLogProofs.
Local Open Scope N_scope.

(* ------------------------------------------------------------------------------------------ *)
(* Round trip: a log written by ninja loads as the last record per output, in first-insertion
   order, and asks for recompaction iff  total > 100 /\ total > 3 * unique. *)
Theorem C08_roundtrip : forall es : list entry,
  Forall wf_entry es -> Forall (fits load_buf_size) es ->
  load_log (log_header ++ concat (map render_entry es)) =
  LOk (last_wins es)
      (needs_recompaction_of (N.of_nat (length (last_wins es))) (N.of_nat (length es))).
Proof. exact BuildLogProofs.C08_roundtrip. Qed.
Print Assumptions C08_roundtrip.

Theorem C08_fits_by_name_length : forall (B : nat) (e : entry),
  wf_entry e -> (length (e_out e) + 63 <= B)%nat -> fits B e.
Proof. exact fits_name_length. Qed.
Print Assumptions C08_fits_by_name_length.

(* The same for every buffer size >= 15 (the result does not depend on the buffer as long as every
   line fits). *)
Theorem C08_roundtrip_any_buffer : forall (B : nat) (es : list entry),
  (15 <= B)%nat -> Forall wf_entry es -> Forall (fits B) es ->
  load_log_buf B (log_header ++ concat (map render_entry es)) =
  LOk (last_wins es)
      (needs_recompaction_of (N.of_nat (length (last_wins es))) (N.of_nat (length es))).
Proof. exact C08_roundtrip_buf. Qed.
Print Assumptions C08_roundtrip_any_buffer.

(* ------------------------------------------------------------------------------------------ *)
(* KEY: a write torn at ANY byte offset k.  Inside the signature line: k = 0 -> empty log;
   0 < k < 14 -> "version too old": the file is unlinked, LOAD_NOT_FOUND + warning;
   k = 14 ("# ninja log v7" without newline) -> accepted, empty.  From k = 15 on: exactly the
   records whose newline made it to disk, last one per output winning. *)
Theorem C08_torn : forall (es : list entry) (k : nat),
  Forall wf_entry es -> Forall (fits load_buf_size) es ->
  load_log (firstn k (log_header ++ concat (map render_entry es))) =
  if (k <? length log_header)%nat then
    (if (k =? 0)%nat then LOk [] false
     else if (k <? 14)%nat then LDiscard true true
     else LOk [] false)
  else LOk (last_wins (complete_prefix k es))
           (needs_recompaction_of (N.of_nat (length (last_wins (complete_prefix k es))))
                                  (N.of_nat (length (complete_prefix k es)))).
Proof. exact BuildLogProofs.C08_torn. Qed.
Print Assumptions C08_torn.

(* ------------------------------------------------------------------------------------------ *)
(* A later session appends to the torn file (k >= 15).  FIXED code (OpenForWriteIfNeeded reads the
   last byte and writes one '\n' first when it is not '\n'): the torn fragment becomes a line of its
   own, read as [fragment_entry]: nothing unless it has four tabs; all appended records intact. *)
Theorem C08_append_after_tear : forall (es : list entry) (k : nat) (es' : list entry),
  Forall wf_entry es -> Forall (fits load_buf_size) es ->
  Forall wf_entry es' -> Forall (fits load_buf_size) es' ->
  (length log_header <= k)%nat ->
  let ents := complete_prefix k es ++ fragment_entry (torn_fragment k es) ++ es' in
  load_log (record_append (firstn k (log_header ++ concat (map render_entry es))) es') =
  LOk (last_wins ents)
      (needs_recompaction_of (N.of_nat (length (last_wins ents))) (N.of_nat (length ents))).
Proof. exact BuildLogProofs.C08_append_after_tear. Qed.
Print Assumptions C08_append_after_tear.

(* fewer than four tabs in the fragment: the line is skipped *)
Theorem C08_fragment_few_tabs : forall frag : bytes,
  (count_tabs frag < 4)%nat -> fragment_entry frag = [].
Proof. exact fragment_entry_few_tabs. Qed.
Print Assumptions C08_fragment_few_tabs.

(* a fragment of a well-formed record: skipped, or (cut inside the hash field) the record itself
   with the value of a PREFIX of its hex hash digits *)
Theorem C08_fragment_of_record : forall (et : entry) (j : nat),
  wf_entry et ->
  fragment_entry (firstn j (render_body et)) = [] \/
  exists j', fragment_entry (firstn j (render_body et)) =
             [ {| e_out := e_out et; e_start := e_start et; e_end := e_end et;
                  e_mtime := e_mtime et;
                  e_hash := c_strtoull16 (firstn j' (print_hex_N (e_hash et))) |} ].
Proof. exact fragment_entry_of_record. Qed.
Print Assumptions C08_fragment_of_record.

(* ------------------------------------------------------------------------------------------ *)
(* Safe direction, FULL, for the fixed code — no side condition.  After a crash at any byte k >= 15
   and any later session, every entry of the loaded table is either the latest completely written
   record of its output, or the interrupted record [et] (the one following the complete prefix in
   [es]) with its genuine name/start/end/mtime and a hash read from a prefix of its genuine hex
   digits.  The command of [et] had completed when its record was being written, so for a generator
   output (hash ignored) the entry is as good as the genuine one, and for any other output a wrong
   hash can only make it look out of date. *)
Theorem C08_safe_direction : forall (es : list entry) (k : nat) (es' : list entry),
  Forall wf_entry es -> Forall (fits load_buf_size) es ->
  Forall wf_entry es' -> Forall (fits load_buf_size) es' ->
  (length log_header <= k)%nat ->
  exists ents needs,
    load_log (record_append (firstn k (log_header ++ concat (map render_entry es))) es')
      = LOk ents needs /\
    forall y, In y ents ->
      latest (e_out y) (complete_prefix k es ++ es') = Some y \/
      (exists et j rest, torn_record k es = Some et /\
                         es = complete_prefix k es ++ et :: rest /\ y = truncated_hash et j).
Proof. exact BuildLogProofs.C08_safe_direction. Qed.
Print Assumptions C08_safe_direction.

(* ------------------------------------------------------------------------------------------ *)
(* OLD code ([record_append_old]: fopen "ab", no newline before the first append) — kept to
   document the defect that was fixed.  The torn fragment and the first appended record form ONE
   line, which always yields exactly one entry ([merged_line_entry]). *)
Theorem C08_append_after_tear_old : forall (es : list entry) (k : nat) (e' : entry) (tl : list entry),
  Forall wf_entry es -> Forall (fits load_buf_size) es ->
  Forall wf_entry (e' :: tl) -> Forall (fits load_buf_size) tl ->
  (length (torn_fragment k es) + length (render_entry e') <= load_buf_size)%nat ->
  (length log_header <= k)%nat ->
  let ents := complete_prefix k es ++ merged_line_entry (torn_fragment k es) e' ++ tl in
  load_log (record_append_old (firstn k (log_header ++ concat (map render_entry es))) (e' :: tl)) =
  LOk (last_wins ents)
      (needs_recompaction_of (N.of_nat (length (last_wins ents))) (N.of_nat (length ents))).
Proof. exact BuildLogProofs.C08_append_after_tear_old. Qed.
Print Assumptions C08_append_after_tear_old.

Theorem C08_merged_line_parses : forall (frag : bytes) (e' : entry),
  no_byte 9 (e_out e') = true ->
  exists x, merged_line_entry frag e' = [x] /\ parse_line (frag ++ render_body e') = Some x.
Proof. exact merged_parse. Qed.
Print Assumptions C08_merged_line_parses.

Theorem C08_merged_boundary : forall e' : entry, wf_entry e' -> merged_line_entry [] e' = [e'].
Proof. exact merged_boundary. Qed.
Print Assumptions C08_merged_boundary.

Theorem C08_merged_0tabs : forall (frag : bytes) (e' : entry),
  wf_entry e' -> no_byte 9 frag = true ->
  merged_line_entry frag e' =
  [ {| e_out := e_out e'; e_start := c_atoi (frag ++ print_dec_Z (e_start e'));
       e_end := e_end e'; e_mtime := e_mtime e'; e_hash := e_hash e' |} ].
Proof. exact merged_0tabs. Qed.
Print Assumptions C08_merged_0tabs.

Theorem C08_merged_3tabs : forall (et : entry) (o1 : bytes) (e' : entry),
  no_byte 9 o1 = true ->
  in_int32 (e_start et) = true -> in_int32 (e_end et) = true -> in_int64 (e_mtime et) = true ->
  merged_line_entry
    (print_dec_Z (e_start et) ++ 9 :: print_dec_Z (e_end et) ++ 9 :: print_dec_Z (e_mtime et) ++
     9 :: o1) e' =
  [ {| e_out := o1 ++ print_dec_Z (e_start e'); e_start := e_start et; e_end := e_end et;
       e_mtime := e_mtime et;
       e_hash := c_strtoull16 (print_dec_Z (e_end e') ++ 9 :: print_dec_Z (e_mtime e') ++ 9 ::
                               c_str (e_out e') ++ 9 :: print_hex_N (e_hash e')) |} ].
Proof. exact merged_3tabs. Qed.
Print Assumptions C08_merged_3tabs.

Theorem C08_merged_4tabs : forall (et : entry) (h1 : bytes) (e' : entry),
  no_byte 9 (e_out et) = true -> no_byte 0 (e_out et) = true -> no_byte 9 h1 = true ->
  in_int32 (e_start et) = true -> in_int32 (e_end et) = true -> in_int64 (e_mtime et) = true ->
  merged_line_entry
    (print_dec_Z (e_start et) ++ 9 :: print_dec_Z (e_end et) ++ 9 :: print_dec_Z (e_mtime et) ++
     9 :: c_str (e_out et) ++ 9 :: h1) e' =
  [ {| e_out := e_out et; e_start := e_start et; e_end := e_end et; e_mtime := e_mtime et;
       e_hash := c_strtoull16 (h1 ++ print_dec_Z (e_start e') ++ 9 :: print_dec_Z (e_end e') ++ 9 ::
                               print_dec_Z (e_mtime e') ++ 9 :: c_str (e_out e') ++ 9 ::
                               print_hex_N (e_hash e')) |} ].
Proof. exact merged_4tabs. Qed.
Print Assumptions C08_merged_4tabs.

(* OLD code, partial safe direction: needed the side condition [no_collision]. *)
Theorem C08_safe_direction_old_partial :
  forall (live : bytes -> N -> bool) (es : list entry) (k : nat) (e' : entry) (tl : list entry),
  Forall wf_entry es -> Forall (fits load_buf_size) es ->
  Forall wf_entry (e' :: tl) -> Forall (fits load_buf_size) tl ->
  (length (torn_fragment k es) + length (render_entry e') <= load_buf_size)%nat ->
  (length log_header <= k)%nat ->
  (forall g, In g (merged_line_entry (torn_fragment k es) e') ->
             g = e' \/ live (e_out g) (e_hash g) = false) ->
  exists ents needs,
    load_log (record_append_old (firstn k (log_header ++ concat (map render_entry es))) (e' :: tl))
      = LOk ents needs /\
    forall y, In y ents -> live (e_out y) (e_hash y) = true ->
      (y = e' /\ merged_line_entry (torn_fragment k es) e' = [e']) \/
      latest (e_out y) (complete_prefix k es ++ tl) = Some y.
Proof. exact BuildLogProofs.C08_safe_direction_old_partial. Qed.
Print Assumptions C08_safe_direction_old_partial.

(* OLD code: the statement without the side condition was FALSE (replayed on the real binary before
   the fix): outputs "gen0" (hash 0x25) and "gen"; "gen"'s record torn right after its name; the next
   record starts at 0 ms, ends at 25 ms => gen0 gets its real hash with a never-recorded mtime. *)
Definition C08_safe_direction_old_full : Prop :=
  forall (live : bytes -> N -> bool) (es : list entry) (k : nat) (e' : entry) (tl : list entry),
  Forall wf_entry es -> Forall wf_entry (e' :: tl) -> (length log_header <= k)%nat ->
  forall ents needs,
    load_log (record_append_old (firstn k (log_header ++ concat (map render_entry es))) (e' :: tl))
      = LOk ents needs ->
    forall y, In y ents -> live (e_out y) (e_hash y) = true -> In y (es ++ e' :: tl).

Theorem C08_safe_direction_old_refuted :
  exists live es k e' tl,
    Forall wf_entry es /\ Forall wf_entry (e' :: tl) /\ (length log_header <= k)%nat /\
    exists ents needs y,
      load_log (record_append_old (firstn k (log_header ++ concat (map render_entry es))) (e' :: tl))
        = LOk ents needs /\
      In y ents /\ live (e_out y) (e_hash y) = true /\
      ~ In y (es ++ e' :: tl) /\
      latest (e_out y) (complete_prefix k es ++ tl) <> Some y /\
      (exists g, latest (e_out y) (es ++ e' :: tl) = Some g /\ e_hash g = e_hash y /\
                 (e_mtime g < e_mtime y)%Z).
Proof. exact BuildLogProofs.C08_safe_direction_old_refuted. Qed.
Print Assumptions C08_safe_direction_old_refuted.

Theorem C08_safe_direction_old_full_false : ~ C08_safe_direction_old_full.
Proof.
  intros Hfull.
  destruct BuildLogProofs.C08_safe_direction_old_refuted
    as (live & es & k & e' & tl & Hw & Hw' & Hk & ents & needs & y & Hl & Hy & Hlive & Hnot & _).
  exact (Hnot (Hfull live es k e' tl Hw Hw' Hk ents needs Hl y Hy Hlive)).
Qed.
Print Assumptions C08_safe_direction_old_full_false.

(* the same crash + append with the fixed code: gen0 keeps its genuine record *)
Example C08_old_witness_fixed :
  load_log (record_append
              (firstn wit_k (log_header ++ concat (map render_entry [wit_gen0; wit_gen]))) [wit_foo])
  = LOk [wit_gen0; wit_foo] false.
Proof. exact BuildLogProofs.C08_old_witness_fixed. Qed.

(* ------------------------------------------------------------------------------------------ *)
(* Any number of sessions appending to the same log (the first one creates it and writes the
   signature, the others do not). *)
Theorem C08_sessions : forall sessions : list (list entry),
  Forall wf_entry (concat sessions) -> Forall (fits load_buf_size) (concat sessions) ->
  load_log (fold_left record_append sessions []) =
  LOk (last_wins (concat sessions))
      (needs_recompaction_of (N.of_nat (length (last_wins (concat sessions))))
                             (N.of_nat (length (concat sessions)))).
Proof. exact BuildLogProofs.C08_sessions. Qed.
Print Assumptions C08_sessions.

(* Whole invocations ([session] = Load; Recompact if Load asked for it, dropping dead outputs;
   append), each with its own liveness oracle: the final log loads; every entry of the table is the
   latest record ever written for its output; an output that was live at every invocation has
   exactly its latest record. *)
Theorem C08_sessions_recompact :
  forall (ss : list ((bytes -> bool) * list entry)) (file : bytes),
  let all := concat (map snd ss) in
  runs ss [] file ->
  Forall wf_entry all -> Forall (fits load_buf_size) all ->
  exists ents b,
    load_log file = LOk ents b /\
    (forall y, In y ents -> latest (e_out y) all = Some y) /\
    (forall n, (forall s, In s ss -> fst s n = true) -> lookup_out n ents = latest n all).
Proof. exact BuildLogProofs.C08_sessions_recompact. Qed.
Print Assumptions C08_sessions_recompact.

(* A recompacted log holds exactly the live entries and does not ask for recompaction again. *)
Theorem C08_recompact : forall (live : bytes -> bool) (entries : list entry),
  Forall wf_entry entries -> Forall (fits load_buf_size) entries -> NoDup (map e_out entries) ->
  load_log (recompact live entries) = LOk (filter (fun e => live (e_out e)) entries) false.
Proof. exact BuildLogProofs.C08_recompact. Qed.
Print Assumptions C08_recompact.

(* -t restat changes only mtimes ... *)
Theorem C08_restat_only_mtime : forall (pick : bytes -> option Z) (entries : list entry),
  map e_out (restat_log pick entries) = map e_out entries /\
  map e_start (restat_log pick entries) = map e_start entries /\
  map e_end (restat_log pick entries) = map e_end entries /\
  map e_hash (restat_log pick entries) = map e_hash entries /\
  map e_mtime (restat_log pick entries) =
  map (fun e => match pick (e_out e) with Some m => m | None => e_mtime e end) entries.
Proof. exact BuildLogProofs.C08_restat_only_mtime. Qed.
Print Assumptions C08_restat_only_mtime.

(* ... and the rewritten file loads as the restat'ed table. *)
Theorem C08_restat_file : forall (pick : bytes -> option Z) (entries : list entry),
  Forall wf_entry entries -> NoDup (map e_out entries) ->
  (forall e m, In e entries -> pick (e_out e) = Some m -> in_int64 m = true) ->
  Forall (fits load_buf_size) (restat_log pick entries) ->
  load_log (restat_file pick entries) = LOk (restat_log pick entries) false.
Proof. exact BuildLogProofs.C08_restat_file. Qed.
Print Assumptions C08_restat_file.

(* Any other version in the signature line (whatever follows, lines of any length): the log is
   closed, unlinked, LOAD_NOT_FOUND is returned with a warning text; never LOAD_ERROR.  Since
   kOldestSupportedVersion = kCurrentVersion = 7 no older version is read and upgraded. *)
Theorem C08_version_discard : forall (B : nat) (v : Z) (rest : bytes),
  in_int32 v = true -> v <> current_version -> (length (version_line v) <= B)%nat ->
  load_log_buf B (version_line v ++ rest) = LDiscard (v <? oldest_supported_version)%Z true.
Proof. exact C08_version_discard_buf. Qed.
Print Assumptions C08_version_discard.

(* Load on ARBITRARY bytes terminates with LOAD_SUCCESS or the discard (the model's fuel is never
   exhausted), and the table has at most one entry per output. *)
Theorem C08_load_never_fails : forall file : bytes,
  load_log file <> LFuel /\
  (forall ents b, load_log file = LOk ents b -> NoDup (map e_out ents)).
Proof. exact BuildLogProofs.C08_load_never_fails. Qed.
Print Assumptions C08_load_never_fails.

(* ------------------------------------------------------------------------------------------ *)
(* Non-vacuity: a realistic log of three records (a.o built twice, gen once). *)
Definition ex_a1 : entry :=
  {| e_out := [111; 117; 116; 47; 97; 46; 111]; e_start := 0; e_end := 12;
     e_mtime := 1700000000123456789; e_hash := 16045690984503096884 |}.        (* out/a.o *)
Definition ex_gen : entry :=
  {| e_out := [103; 101; 110]; e_start := 5; e_end := 250;
     e_mtime := 1700000000223456789; e_hash := 703506 |}.                      (* gen *)
Definition ex_a2 : entry :=
  {| e_out := [111; 117; 116; 47; 97; 46; 111]; e_start := 260; e_end := 300;
     e_mtime := 1700000000323456789; e_hash := 81985529216486895 |}.           (* out/a.o again *)
Definition ex_lib : entry :=
  {| e_out := [108; 105; 98; 32; 120; 46; 97]; e_start := 7; e_end := 9;
     e_mtime := 1700000000423456789; e_hash := 18446744073709551615 |}.        (* "lib x.a" *)
Definition ex_log : list entry := [ex_a1; ex_gen; ex_a2].
Definition ex_file : bytes := log_header ++ concat (map render_entry ex_log).

Lemma ex_wf : Forall wf_entry (ex_lib :: ex_log).
Proof. repeat constructor. Qed.

Lemma ex_fits : Forall (fits load_buf_size) (ex_lib :: ex_log).
Proof.
  apply fits_names; [exact ex_wf|].
  unfold load_buf_size.
  repeat (apply Forall_cons || apply Forall_nil);
    cbn [length e_out ex_a1 ex_gen ex_a2 ex_lib]; lia.
Qed.

Example C08_roundtrip_nonvacuous :
  Forall wf_entry ex_log /\ Forall (fits load_buf_size) ex_log /\
  load_log ex_file = LOk [ex_a2; ex_gen] false.
Proof.
  split; [exact (Forall_inv_tail ex_wf)|]. split; [exact (Forall_inv_tail ex_fits)|].
  vm_compute. reflexivity.
Qed.

(* torn in the middle of the third record (byte 120 of 153): the first two records survive *)
Example C08_torn_nonvacuous :
  length ex_file = 153%nat /\
  load_log (firstn 120 ex_file) = LOk [ex_a1; ex_gen] false /\
  complete_prefix 120 ex_log = [ex_a1; ex_gen] /\
  load_log (firstn 7 ex_file) = LDiscard true true /\
  load_log (firstn 14 ex_file) = LOk [] false /\
  load_log (firstn 0 ex_file) = LOk [] false.
Proof. repeat split; vm_compute; reflexivity. Qed.

(* ... and a later session appends ex_lib.  Fixed code: the fragment "260\t300\t17000000003" is
   terminated, has 2 tabs, is skipped; ex_lib is read intact. *)
Example C08_append_after_tear_nonvacuous :
  (length log_header <= 120)%nat /\
  torn_record 120 ex_log = Some ex_a2 /\
  fragment_entry (torn_fragment 120 ex_log) = [] /\
  load_log (record_append (firstn 120 ex_file) [ex_lib]) = LOk [ex_a1; ex_gen; ex_lib] false.
Proof. split; [vm_compute; lia|]. repeat split; vm_compute; reflexivity. Qed.

(* cut inside the hash of the third record (byte 142: "...\t12345" of "123456789abcdef"): the
   interrupted record itself with the truncated hash 0x12345 *)
Example C08_safe_direction_nonvacuous :
  fragment_entry (torn_fragment 142 ex_log) = [truncated_hash ex_a2 5] /\
  load_log (record_append (firstn 142 ex_file) [ex_lib]) =
  LOk [truncated_hash ex_a2 5; ex_gen; ex_lib] false /\
  e_hash (truncated_hash ex_a2 5) = 74565.
Proof. repeat split; vm_compute; reflexivity. Qed.

(* a log torn after 14 bytes ("# ninja log v7") is healed by the next session's newline; torn
   after 13 bytes ("# ninja log v") sscanf's %d skips the new '\n' and reads the START TIME of the
   next record as the version (here 7: accepted; with ex_gen's 5: "too old"); shorter: discarded *)
Example C08_torn_header_healed :
  load_log (record_append (firstn 14 ex_file) [ex_lib]) = LOk [ex_lib] false /\
  load_log (record_append (firstn 13 ex_file) [ex_lib]) = LOk [ex_lib] false /\
  load_log (record_append (firstn 13 ex_file) [ex_gen]) = LDiscard true true /\
  load_log (record_append (firstn 12 ex_file) [ex_lib]) = LDiscard true true.
Proof. repeat split; vm_compute; reflexivity. Qed.

(* OLD code on the same tear: one merged line, an entry named "9" *)
Example C08_append_after_tear_old_nonvacuous :
  (length (torn_fragment 120 ex_log) + length (render_entry ex_lib) <= load_buf_size)%nat /\
  load_log (record_append_old (firstn 120 ex_file) [ex_lib]) =
  LOk (last_wins ([ex_a1; ex_gen] ++ merged_line_entry (torn_fragment 120 ex_log) ex_lib)) false /\
  merged_line_entry (torn_fragment 120 ex_log) ex_lib =
  [ {| e_out := [57]; e_start := 260; e_end := 300; e_mtime := 170000000037;
       e_hash := 18446744073709551615 |} ].
Proof.
  split; [replace (length (torn_fragment 120 ex_log) + length (render_entry ex_lib))%nat
            with 68%nat by (vm_compute; reflexivity); unfold load_buf_size; lia|].
  split; vm_compute; reflexivity.
Qed.

Example C08_safe_direction_old_partial_nonvacuous :
  forall g, In g (merged_line_entry (torn_fragment 120 ex_log) ex_lib) ->
    g = ex_lib \/
    (fun (out : bytes) (_ : N) => negb (bytes_eqb out [57])) (e_out g) (e_hash g) = false.
Proof.
  intros g Hg. right. vm_compute in Hg. destruct Hg as [<-|[]]. reflexivity.
Qed.

Example C08_sessions_nonvacuous :
  load_log (fold_left record_append [[ex_a1; ex_gen]; []; [ex_a2]] []) = LOk [ex_a2; ex_gen] false.
Proof. vm_compute. reflexivity. Qed.

Example C08_sessions_recompact_nonvacuous :
  exists file, runs [((fun _ => true), [ex_a1; ex_gen]); ((fun _ => true), [ex_a2])] [] file /\
               load_log file = LOk [ex_a2; ex_gen] false.
Proof.
  eexists. split; [apply runs_cons, runs_cons, runs_nil|]. vm_compute. reflexivity.
Qed.

Example C08_recompact_nonvacuous :
  NoDup (map e_out [ex_a2; ex_gen]) /\
  load_log (recompact (fun n => negb (bytes_eqb n [103; 101; 110])) [ex_a2; ex_gen]) =
  LOk [ex_a2] false.
Proof.
  split; [|vm_compute; reflexivity].
  repeat constructor; cbn [In map e_out ex_a2 ex_gen]; intuition discriminate.
Qed.

Example C08_restat_nonvacuous :
  load_log (restat_file (fun n => if bytes_eqb n [103; 101; 110] then Some 42%Z else None)
                        [ex_a2; ex_gen]) =
  LOk [ex_a2; {| e_out := [103; 101; 110]; e_start := 5; e_end := 250; e_mtime := 42;
                 e_hash := 703506 |}] false.
Proof. vm_compute. reflexivity. Qed.

Example C08_version_discard_nonvacuous :
  load_log (version_line 6 ++ render_entry ex_gen) = LDiscard true true /\
  load_log (version_line 8 ++ render_entry ex_gen) = LDiscard false true /\
  load_log (version_line 7 ++ render_entry ex_gen) = LOk [ex_gen] false.
Proof. repeat split; vm_compute; reflexivity. Qed.

(* the recompaction threshold is reachable: 101 records for one output *)
Example C08_needs_recompaction_nonvacuous :
  load_log (log_header ++ concat (map render_entry (repeat ex_gen 101))) = LOk [ex_gen] true /\
  load_log (log_header ++ concat (map render_entry (repeat ex_gen 100))) = LOk [ex_gen] false.
Proof. split; vm_compute; reflexivity. Qed.
