(* C08, refinement: the byte-level .ninja_log (Log/BuildLogDefs.v, theorems of Log/BuildLogProofs.v)
   refines the ABSTRACT build log of the history models:
     Engine/HistDefs.v       h_blog : node -> option (N * Z)   (command hash, recorded mtime)
                             record st e outs h m S            RecordCommand of a finished command
     Engine/HistCrashDefs.v  record_partial st e outs lg h m S the first outputs [lg] got the new
                             entry, the others keep the old one — "log appends are atomic per
                             record" was an explicit ASSUMPTION there; C08abs_torn discharges it.
   Abstraction function: Log/BuildLogAbs.v, [abs_log file name] = what BuildLog::Load ([load_log])
   leaves in entries_ for [name]: (hash, mtime) of the last complete record; a discarded log is
   empty.  Node ids are related to names by an arbitrary INJECTIVE naming [nm : node -> bytes]
   ([abs_nodes nm a n := a (nm n)]).
   Side conditions: [holds file R] = the file is absent/empty or is the signature line followed by
   the rendered records R, all well-formed and shorter than the 256 KiB line buffer
   (BuildLogProofs.holds; preserved by every operation, see the C08abs_holds theorems);  [wf_cmd names s e h m]
   = every name non-empty, free of NUL/tab/newline and at most 262 081 bytes long, s and e C ints,
   m an int64, h < 2^64.
   All equalities of abstract logs are pointwise (no functional extensionality). *)
From NinjaV Require Import Base.Bytes Log.BuildLogDefs Log.BuildLogProofs Log.BuildLogAbs.
From NinjaV Require Import Engine.ScanDefs Engine.HistDefs Engine.HistCrashDefs.
Local Open Scope N_scope.

(* ------------------------------------------------------------------------------------------ *)
(* The local restatement of the log component of [record] / [record_partial] IS that component. *)
Theorem C08abs_record_is_blog_record :
  forall (st : hstate) (e : edge) (outs : list node) (h : N) (m : Z) (S : snapshot) (n : node),
  h_blog (record st e outs h m S) n = blog_record (h_blog st) outs h m n.
Proof. reflexivity. Qed.
Print Assumptions C08abs_record_is_blog_record.

Theorem C08abs_record_partial_is_blog_record :
  forall (st : hstate) (e : edge) (outs lg : list node) (h : N) (m : Z) (S : snapshot) (n : node),
  h_blog (record_partial st e outs lg h m S) n = blog_record (h_blog st) lg h m n.
Proof. reflexivity. Qed.
Print Assumptions C08abs_record_partial_is_blog_record.

(* ------------------------------------------------------------------------------------------ *)
(* 1. The abstraction function on well-formed logs: latest record per output name. *)
Theorem C08abs_abs_log_latest : forall (file : bytes) (R : list entry) (n : bytes),
  holds file R ->
  abs_log file n =
  match latest n R with Some x => Some (e_hash x, e_mtime x) | None => None end.
Proof.
  intros file R n Hh. rewrite (abs_log_holds file R Hh). apply abs_entries_last_wins.
Qed.
Print Assumptions C08abs_abs_log_latest.

(* ------------------------------------------------------------------------------------------ *)
(* 2. abs_append.  Over names: *)
Theorem C08abs_append : forall (file : bytes) (R : list entry) (names : list bytes)
                               (s e : Z) (h : N) (m : Z),
  holds file R -> wf_cmd names s e h m ->
  forall n, abs_log (record_append file (records_of names s e h m)) n =
            upd_all (abs_log file) names (h, m) n.
Proof. exact abs_append. Qed.
Print Assumptions C08abs_append.

(* for an existing log, appending is literally concatenation *)
Theorem C08abs_append_concat : forall (R : list entry) (names : list bytes) (s e : Z) (h : N) (m : Z),
  Forall wf_entry R -> Forall (fits load_buf_size) R -> wf_cmd names s e h m ->
  let file := log_header ++ concat (map render_entry R) in
  forall n, abs_log (file ++ concat (map render_entry (records_of names s e h m))) n =
            upd_all (abs_log file) names (h, m) n.
Proof. exact abs_append_concat. Qed.
Print Assumptions C08abs_append_concat.

(* Over nodes, against the real HistDefs.record: if the file represents h_blog st, the file after
   RecordCommand represents h_blog (record st e outs h m S). *)
Theorem C08abs_append_record :
  forall (nm : node -> bytes), (forall a b, nm a = nm b -> a = b) ->
  forall (file : bytes) (R : list entry) (st : hstate) (e : edge) (outs : list node)
         (s t : Z) (h : N) (m : Z) (S : snapshot),
  holds file R -> wf_cmd (map nm outs) s t h m ->
  (forall n, abs_nodes nm (abs_log file) n = h_blog st n) ->
  forall n, abs_nodes nm (abs_log (record_append file (records_of (map nm outs) s t h m))) n =
            h_blog (record st e outs h m S) n.
Proof.
  intros nm Hinj file R st e outs s t h m S Hh Hc Hb n.
  rewrite C08abs_record_is_blog_record.
  apply (abs_append_nodes nm Hinj file R (h_blog st) outs s t h m Hh Hc Hb).
Qed.
Print Assumptions C08abs_append_record.

(* ------------------------------------------------------------------------------------------ *)
(* 3. abs_torn.  The process is killed after ANY number p of bytes of the command's records.
   Over names: *)
Theorem C08abs_torn : forall (R : list entry) (names : list bytes) (s e : Z) (h : N) (m : Z) (p : nat),
  Forall wf_entry R -> Forall (fits load_buf_size) R -> wf_cmd names s e h m ->
  let file := log_header ++ concat (map render_entry R) in
  let recs := records_of names s e h m in
  forall n, abs_log (file ++ firstn p (concat (map render_entry recs))) n =
            upd_all (abs_log file) (firstn (complete_count p recs) names) (h, m) n.
Proof. exact abs_torn. Qed.
Print Assumptions C08abs_torn.

(* Against the real HistCrashDefs.record_partial: the state of crash point KLogged j with
   j = number of complete records among the p bytes ([logged_outs g e j] = firstn j outs). *)
Theorem C08abs_torn_record_partial :
  forall (nm : node -> bytes), (forall a b, nm a = nm b -> a = b) ->
  forall (R : list entry) (st : hstate) (e : edge) (outs : list node)
         (s t : Z) (h : N) (m : Z) (S : snapshot) (p : nat),
  Forall wf_entry R -> Forall (fits load_buf_size) R -> wf_cmd (map nm outs) s t h m ->
  let file := log_header ++ concat (map render_entry R) in
  let recs := records_of (map nm outs) s t h m in
  (forall n, abs_nodes nm (abs_log file) n = h_blog st n) ->
  forall n, abs_nodes nm (abs_log (file ++ firstn p (concat (map render_entry recs)))) n =
            h_blog (record_partial st e outs (firstn (complete_count p recs) outs) h m S) n.
Proof.
  intros nm Hinj R st e outs s t h m S p Hw Hf Hc file recs Hb n.
  rewrite C08abs_record_partial_is_blog_record.
  apply (abs_torn_nodes nm Hinj R (h_blog st) outs s t h m p Hw Hf Hc Hb).
Qed.
Print Assumptions C08abs_torn_record_partial.

(* the same with the crash model's own spelling of the logged outputs *)
Theorem C08abs_logged_outs : forall (g : graph) (e : edge) (j : nat),
  logged_outs g e j = firstn j (ei_outs (g_edge g e)).
Proof. reflexivity. Qed.
Print Assumptions C08abs_logged_outs.

(* the number of logged outputs is at most the number of outputs, and every j in 0..length outs is
   produced by some kill offset (the end of the j-th record): the crash points KLogged j of the
   history model are exactly the observable ones *)
Theorem C08abs_complete_count_le : forall (p : nat) (recs : list entry),
  (complete_count p recs <= length recs)%nat.
Proof. exact complete_count_le. Qed.
Print Assumptions C08abs_complete_count_le.

Theorem C08abs_complete_count_reach : forall (recs : list entry) (j : nat),
  (j <= length recs)%nat ->
  complete_count (length (concat (map render_entry (firstn j recs)))) recs = j.
Proof. exact complete_count_reach. Qed.
Print Assumptions C08abs_complete_count_reach.

(* every p with all records complete is the finished append *)
Theorem C08abs_torn_all : forall (R : list entry) (names : list bytes) (s e : Z) (h : N) (m : Z) (p : nat),
  Forall wf_entry R -> Forall (fits load_buf_size) R -> wf_cmd names s e h m ->
  let file := log_header ++ concat (map render_entry R) in
  let recs := records_of names s e h m in
  (length (concat (map render_entry recs)) <= p)%nat ->
  forall n, abs_log (file ++ firstn p (concat (map render_entry recs))) n =
            upd_all (abs_log file) names (h, m) n.
Proof. exact abs_torn_all. Qed.
Print Assumptions C08abs_torn_all.

(* 3', the next session after the kill (current tree: a torn tail gets '\n' before the first
   append).  EXACT: between the complete records and the new command's records the terminated
   fragment contributes [fragment_entry] — nothing, or one entry. *)
Theorem C08abs_torn_next :
  forall (R : list entry) (names : list bytes) (s e : Z) (h : N) (m : Z) (p : nat)
         (names2 : list bytes) (s2 e2 : Z) (h2 : N) (m2 : Z),
  Forall wf_entry R -> Forall (fits load_buf_size) R ->
  wf_cmd names s e h m -> wf_cmd names2 s2 e2 h2 m2 ->
  let file := log_header ++ concat (map render_entry R) in
  let recs := records_of names s e h m in
  let torn := file ++ firstn p (concat (map render_entry recs)) in
  forall n,
    abs_log (record_append torn (records_of names2 s2 e2 h2 m2)) n =
    upd_all (upd_entries (upd_all (abs_log file) (firstn (complete_count p recs) names) (h, m))
                         (fragment_entry (torn_fragment_from p recs)))
            names2 (h2, m2) n.
Proof. exact abs_torn_next. Qed.
Print Assumptions C08abs_torn_next.

(* the fragment contributes nothing, or (cut inside the hash field of the interrupted record) an
   entry for THAT record's output — the (j+1)-th output of the command — with the command's mtime
   and the value of a prefix of the hex digits of its hash *)
Theorem C08abs_fragment_cases : forall (names : list bytes) (s e : Z) (h : N) (m : Z) (p : nat),
  wf_cmd names s e h m ->
  let recs := records_of names s e h m in
  fragment_entry (torn_fragment_from p recs) = [] \/
  exists o j', nth_error names (complete_count p recs) = Some o /\
    fragment_entry (torn_fragment_from p recs) =
    [ {| e_out := o; e_start := s; e_end := e; e_mtime := m;
         e_hash := c_strtoull16 (firstn j' (print_hex_N h)) |} ].
Proof. exact abs_fragment_cases. Qed.
Print Assumptions C08abs_fragment_cases.

(* first case: exactly record_partial for j outputs followed by record of the next command *)
Theorem C08abs_torn_next_record :
  forall (nm : node -> bytes), (forall a b, nm a = nm b -> a = b) ->
  forall (R : list entry) (st : hstate) (e e' : edge) (outs outs2 : list node)
         (s t : Z) (h : N) (m : Z) (S S2 : snapshot) (p : nat) (s2 t2 : Z) (h2 : N) (m2 : Z),
  Forall wf_entry R -> Forall (fits load_buf_size) R ->
  wf_cmd (map nm outs) s t h m -> wf_cmd (map nm outs2) s2 t2 h2 m2 ->
  let file := log_header ++ concat (map render_entry R) in
  let recs := records_of (map nm outs) s t h m in
  let torn := file ++ firstn p (concat (map render_entry recs)) in
  fragment_entry (torn_fragment_from p recs) = [] ->
  (forall n, abs_nodes nm (abs_log file) n = h_blog st n) ->
  forall n,
    abs_nodes nm (abs_log (record_append torn (records_of (map nm outs2) s2 t2 h2 m2))) n =
    h_blog (record (record_partial st e outs (firstn (complete_count p recs) outs) h m S)
                   e' outs2 h2 m2 S2) n.
Proof.
  intros nm Hinj R st e e' outs outs2 s t h m S S2 p s2 t2 h2 m2 Hw Hf Hc Hc2 file recs torn Hnil Hb n.
  rewrite C08abs_record_is_blog_record.
  exact (abs_torn_next_nodes nm Hinj R (h_blog st) outs s t h m p outs2 s2 t2 h2 m2
                             Hw Hf Hc Hc2 Hnil Hb n).
Qed.
Print Assumptions C08abs_torn_next_record.

(* second case: additionally the interrupted output carries (prefix-of-hash value, m) *)
Theorem C08abs_torn_next_truncated :
  forall (R : list entry) (names : list bytes) (s e : Z) (h : N) (m : Z) (p : nat)
         (names2 : list bytes) (s2 e2 : Z) (h2 : N) (m2 : Z) (o : bytes) (j' : nat),
  Forall wf_entry R -> Forall (fits load_buf_size) R ->
  wf_cmd names s e h m -> wf_cmd names2 s2 e2 h2 m2 ->
  let file := log_header ++ concat (map render_entry R) in
  let recs := records_of names s e h m in
  let torn := file ++ firstn p (concat (map render_entry recs)) in
  fragment_entry (torn_fragment_from p recs) =
    [ {| e_out := o; e_start := s; e_end := e; e_mtime := m;
         e_hash := c_strtoull16 (firstn j' (print_hex_N h)) |} ] ->
  forall n,
    abs_log (record_append torn (records_of names2 s2 e2 h2 m2)) n =
    upd_all (upd_all (upd_all (abs_log file) (firstn (complete_count p recs) names) (h, m))
                     [o] (c_strtoull16 (firstn j' (print_hex_N h)), m))
            names2 (h2, m2) n.
Proof. exact abs_torn_next_truncated. Qed.
Print Assumptions C08abs_torn_next_truncated.

(* ------------------------------------------------------------------------------------------ *)
(* 4. Recompaction: unchanged on live outputs, dead ones dropped; restat: only mtimes.
      restrict live a n      := if live n then a n else None
      restat_alog pick a n   := match a n with
                                | Some (h, m) => Some (h, match pick n with Some m' => m' | None => m end)
                                | None => None end
   (stated with these names on purpose: a conversion problem that makes Coq unfold [abs_log], hence
   [load_log] with its 262144-deep unary buffer size, overflows the stack). *)
Theorem C08abs_recompact : forall (file : bytes) (R : list entry) (live : bytes -> bool),
  holds file R ->
  forall n, abs_log (recompact live (last_wins R)) n = restrict live (abs_log file) n.
Proof. exact abs_recompact. Qed.
Print Assumptions C08abs_recompact.

Theorem C08abs_restat : forall (file : bytes) (R : list entry) (pick : bytes -> option Z),
  holds file R ->
  Forall (fun x => (length (e_out x) + 63 <= load_buf_size)%nat) R ->
  (forall n m, pick n = Some m -> in_int64 m = true) ->
  forall n, abs_log (restat_file pick (last_wins R)) n = restat_alog pick (abs_log file) n.
Proof. exact abs_restat. Qed.
Print Assumptions C08abs_restat.

(* a whole invocation: Load, Recompact when Load asked for it, RecordCommand *)
Theorem C08abs_session : forall (file : bytes) (R : list entry) (live : bytes -> bool)
                                (names : list bytes) (s e : Z) (h : N) (m : Z),
  holds file R -> wf_cmd names s e h m ->
  forall n,
    abs_log (session live file (records_of names s e h m)) n =
    upd_all (if needs_of R then restrict live (abs_log file) else abs_log file) names (h, m) n.
Proof. exact abs_session. Qed.
Print Assumptions C08abs_session.

(* the side condition [holds] is an invariant of all writers *)
Theorem C08abs_holds_append : forall (file : bytes) (R es : list entry),
  holds file R -> Forall wf_entry es -> Forall (fits load_buf_size) es ->
  holds (record_append file es) (R ++ es).
Proof. exact holds_append. Qed.
Print Assumptions C08abs_holds_append.

Theorem C08abs_holds_recompact : forall (file : bytes) (R : list entry) (live : bytes -> bool),
  holds file R ->
  holds (recompact live (last_wins R)) (filter (fun x => live (e_out x)) (last_wins R)).
Proof. exact holds_recompact. Qed.
Print Assumptions C08abs_holds_recompact.

(* ------------------------------------------------------------------------------------------ *)
(* Non-vacuity.  Earlier log: "old" (hash 0x11, mtime 5) and "a.d" (hash 0x22, mtime 6).  A command
   with the two outputs "a.o", "a.d" (hash 0xabcdef, mtime 99) finishes. *)
Definition xn_old : bytes := [111; 108; 100].
Definition xn_ao : bytes := [97; 46; 111].
Definition xn_ad : bytes := [97; 46; 100].
Definition xR : list entry :=
  [ {| e_out := xn_old; e_start := 0; e_end := 3; e_mtime := 5; e_hash := 17 |};
    {| e_out := xn_ad; e_start := 1; e_end := 4; e_mtime := 6; e_hash := 34 |} ].
Definition xfile : bytes := log_header ++ concat (map render_entry xR).
Definition xrecs : list entry := records_of [xn_ao; xn_ad] 10 20 11259375 99.

Lemma x_wf : Forall wf_entry xR /\ Forall (fits load_buf_size) xR /\
             wf_cmd [xn_ao; xn_ad] 10 20 11259375 99.
Proof.
  assert (Hw : Forall wf_entry xR) by (repeat constructor).
  split; [exact Hw|]. split.
  - apply fits_names; [exact Hw|]. unfold load_buf_size.
    repeat (apply Forall_cons || apply Forall_nil); cbn [length e_out xn_old xn_ad]; lia.
  - unfold wf_cmd. split; [|repeat split; reflexivity || lia].
    repeat (apply Forall_cons || apply Forall_nil); unfold wf_name, load_buf_size;
      (split; [discriminate|]); (split; [reflexivity|]); (split; [reflexivity|]);
      (split; [reflexivity|]); cbn [length xn_ao xn_ad]; lia.
Qed.

Example C08abs_append_nonvacuous :
  holds xfile xR /\
  abs_log xfile xn_ad = Some (34, 6%Z) /\ abs_log xfile xn_ao = None /\
  abs_log (record_append xfile xrecs) xn_ao = Some (11259375, 99%Z) /\
  abs_log (record_append xfile xrecs) xn_ad = Some (11259375, 99%Z) /\
  abs_log (record_append xfile xrecs) xn_old = Some (17, 5%Z).
Proof.
  destruct x_wf as (Hw & Hf & _).
  split; [split; [exact Hw|split; [exact Hf|right; reflexivity]]|].
  repeat split; vm_compute; reflexivity.
Qed.

(* the records are "10\t20\t99\ta.o\tabcdef\n" (20 bytes) twice; a kill after 31 bytes is inside the
   second record (after "10\t20\t99\ta."): exactly ONE output has the new entry *)
Example C08abs_torn_nonvacuous :
  length (concat (map render_entry xrecs)) = 40%nat /\
  complete_count 31 xrecs = 1%nat /\
  abs_log (xfile ++ firstn 31 (concat (map render_entry xrecs))) xn_ao = Some (11259375, 99%Z) /\
  abs_log (xfile ++ firstn 31 (concat (map render_entry xrecs))) xn_ad = Some (34, 6%Z) /\
  (* every number of complete records occurs: 0, 1 and 2 *)
  complete_count 19 xrecs = 0%nat /\ complete_count 20 xrecs = 1%nat /\
  complete_count 39 xrecs = 1%nat /\ complete_count 40 xrecs = 2%nat /\
  (* the next session (a command writing "old") after that kill: the fragment is skipped *)
  fragment_entry (torn_fragment_from 31 xrecs) = [] /\
  abs_log (record_append (xfile ++ firstn 31 (concat (map render_entry xrecs)))
                         (records_of [xn_old] 30 40 51 77)) xn_ad = Some (34, 6%Z) /\
  abs_log (record_append (xfile ++ firstn 31 (concat (map render_entry xrecs)))
                         (records_of [xn_old] 30 40 51 77)) xn_old = Some (51, 77%Z).
Proof. repeat split; vm_compute; reflexivity. Qed.

(* a kill after 36 bytes is inside the hash of the second record ("...\tabc"): the torn file still
   shows the old entry of a.d, but after the next session (even one that records nothing) a.d
   carries the truncated hash 0xabc with the new mtime 99 *)
Example C08abs_torn_truncated_nonvacuous :
  abs_log (xfile ++ firstn 36 (concat (map render_entry xrecs))) xn_ad = Some (34, 6%Z) /\
  fragment_entry (torn_fragment_from 36 xrecs) =
    [ {| e_out := xn_ad; e_start := 10; e_end := 20; e_mtime := 99; e_hash := 2748 |} ] /\
  abs_log (record_append (xfile ++ firstn 36 (concat (map render_entry xrecs))) []) xn_ad
    = Some (2748, 99%Z) /\
  abs_log (record_append (xfile ++ firstn 36 (concat (map render_entry xrecs))) []) xn_ao
    = Some (11259375, 99%Z).
Proof. repeat split; vm_compute; reflexivity. Qed.

Example C08abs_recompact_restat_nonvacuous :
  abs_log (recompact (fun n => negb (bytes_eqb n xn_old)) (last_wins xR)) xn_old = None /\
  abs_log (recompact (fun n => negb (bytes_eqb n xn_old)) (last_wins xR)) xn_ad = Some (34, 6%Z) /\
  abs_log (restat_file (fun n => if bytes_eqb n xn_ad then Some 1234%Z else None) (last_wins xR)) xn_ad
    = Some (34, 1234%Z) /\
  abs_log (restat_file (fun n => if bytes_eqb n xn_ad then Some 1234%Z else None) (last_wins xR)) xn_old
    = Some (17, 5%Z).
Proof. repeat split; vm_compute; reflexivity. Qed.

(* an injective naming exists (decimal digits of the node id would do; here: unary) *)
Example C08abs_naming_nonvacuous :
  exists nm : node -> bytes, forall a b, nm a = nm b -> a = b.
Proof.
  exists (fun n => repeat 120 n). intros a b H. apply (f_equal (@length _)) in H.
  rewrite !repeat_length in H. exact H.
Qed.
