(* C05, the -k N clause, at HISTORY level (fragment AB): "with -k N ninja keeps starting commands
   that do not depend on a failed one until N commands have failed (N = 0: no limit), and still exits
   non-zero; dependents of failed commands are never started".
   Model: Engine/HistFailKDefs.v = HistFailDefs.v + [buildFK st targets faults budget]
   (budget : option nat, None = -k 0, Some N = -k N; sequential in the edge order; a statement whose
   turn comes is skipped and BLOCKED when an input of any kind is produced by a blocked statement
   -- blocked = failed, or skipped for this reason: Plan::EdgeFinished(kEdgeFailed) never sets
   outputs_ready_, so Edge::AllInputsReady stays false below it --; a started statement with a fault
   fails ([fail_edge]) and decrements the budget; with 0 left nothing is started).
   Proofs: Engine/HistFailKProofs.v.  Every theorem is restated in full; premises about [g] and the
   command function as in Properties_C05hist.v.

   RESULT.  All clauses hold.  "Keeps starting commands that do not depend on a failed one" is proved
   in its semantic form: while the budget lasts (always with -k 0) every needed node whose statement
   neither failed nor depends on a failed one ends up with the clean-build content, is up to date,
   and holds what the fault-free invocation leaves there; a comparison of the SETS of commands run
   by the two invocations (it would need an order-isomorphism of the mtimes of the two runs) is not
   proved.  The recovery statements of Properties_C05hist.v carry over to several failures. *)
From NinjaV Require Import Base.Bytes Engine.ScanDefs Engine.ScanSpec Engine.ScanProofs Engine.HistDefs Engine.HistProofs Engine.HistFailDefs Engine.HistFailProofs Engine.HistFailKDefs Engine.HistFailKProofs.
Local Open Scope Z_scope.

(* ---- (0) -k 1 is the model of HistFailDefs ([facc_of]: the state and the only failure) *)
Theorem buildFK_budget1 :
  forall (cmd : edge -> N -> snapshot -> node -> content) (g : graph)
         (st : hstate) (T : list node) (fs : faults),
    match buildFK cmd g st T fs (Some 1%nat) with Some a => Some (facc_of a) | None => None end =
    buildF_full cmd g st T fs.
Proof. exact HistFailKProofs.buildFK_budget1_proof. Qed.
Print Assumptions buildFK_budget1.

(* ---- (1) dependents of failed commands are never started: no statement that depends on ANY failed
        one -- transitively, through inputs of every kind -- is in the trace of the invocation; its
        outputs and their log entries are as before *)
Theorem C05K_dependents_not_started :
  forall (cmd : edge -> N -> snapshot -> node -> content) (g : graph),
    wf_spec g -> topo_ordered g = true ->
  forall (st : hstate) (T : list node) (fs : faults) (b : option nat) (a : kacc),
    GoodF cmd g st -> buildFK cmd g st T fs b = Some a ->
    forall f d : edge, In f (failed_edges a) -> depends_on g f d ->
      ~ In d (trace_delta st (k_st a)) /\
      (forall o : node, In o (ei_outs (g_edge g d)) ->
         h_disk (k_st a) o = h_disk st o /\ h_blog (k_st a) o = h_blog st o).
Proof. exact HistFailKProofs.C05K_dependents_not_started_proof. Qed.
Print Assumptions C05K_dependents_not_started.

(* the statements the loop skipped are exactly the failed ones and those that depend on one *)
Theorem C05K_blocked_spec :
  forall (cmd : edge -> N -> snapshot -> node -> content) (g : graph),
    wf_spec g -> topo_ordered g = true ->
  forall (st : hstate) (T : list node) (fs : faults) (b : option nat) (a : kacc),
    GoodF cmd g st -> buildFK cmd g st T fs b = Some a ->
    forall e : edge, In e (k_blocked a) <->
      (e < g_nedges g)%nat /\
      (exists f : edge, In f (failed_edges a) /\ (f = e \/ depends_on g f e)).
Proof. exact HistFailKProofs.C05K_blocked_spec_proof. Qed.
Print Assumptions C05K_blocked_spec.

(* ---- (2) the independent part is built completely.  [independent g a e]: no failed statement is
        [e] or has [e] among its dependents.  Premise "budget_out (k_budget a) = false": fewer than N
        commands failed (with -k 0 always, [C05K_unlimited]). *)

(* every needed node whose statement is independent of the failures has the clean-build content *)
Theorem C05K_independent_run :
  forall (cmd : edge -> N -> snapshot -> node -> content) (g : graph),
    wf_spec g -> wf_graph g -> frag_AB g = true -> topo_ordered g = true ->
    (forall (e : edge) (h h' : N) (S : snapshot) (o : node),
       ei_generator (g_edge g e) = true -> cmd e h S o = cmd e h' S o) ->
  forall (st : hstate) (T : list node) (fs : faults) (b : option nat) (a : kacc),
    GoodF cmd g st -> TaintOk g true st -> buildFK cmd g st T fs b = Some a ->
    budget_out (k_budget a) = false ->
    forall n : node, reach g T n ->
      (forall e : edge, g_producer g n = Some e -> independent g a e) ->
      content_of (k_st a) n = clean_of cmd g (k_st a) n.
Proof. exact HistFailKProofs.C05K_independent_run_proof. Qed.
Print Assumptions C05K_independent_run.

(* ... it is up to date: ninja's scan of the state after the invocation does not find it dirty, so
   nothing independent of the failures was left undone *)
Theorem C05K_independent_uptodate :
  forall (cmd : edge -> N -> snapshot -> node -> content) (g : graph),
    wf_spec g -> wf_graph g -> frag_AB g = true -> topo_ordered g = true ->
  forall (st : hstate) (T : list node) (fs : faults) (b : option nat) (a : kacc),
    GoodF cmd g st -> no_inputless_phony g = true -> buildFK cmd g st T fs b = Some a ->
    budget_out (k_budget a) = false ->
    forall e : edge, needed g T e -> independent g a e ->
    forall o : node, In o (ei_outs (g_edge g e)) ->
      ~ must_dirty (graph_of g (k_st a)) (world_of (k_st a)) o.
Proof. exact HistFailKProofs.C05K_independent_uptodate_proof. Qed.
Print Assumptions C05K_independent_uptodate.

(* ... and it holds what the FAULT-FREE invocation from the same state leaves there: the successful
   part equals the fault-free build restricted to the statements independent of the failures *)
Theorem C05K_independent_as_fault_free :
  forall (cmd : edge -> N -> snapshot -> node -> content) (g : graph),
    wf_spec g -> wf_graph g -> frag_AB g = true -> topo_ordered g = true ->
    (forall (e : edge) (h h' : N) (S : snapshot) (o : node),
       ei_generator (g_edge g e) = true -> cmd e h S o = cmd e h' S o) ->
  forall (st : hstate) (T : list node) (fs : faults) (b : option nat) (a : kacc) (ok : hstate),
    Good cmd g st -> buildFK cmd g st T fs b = Some a -> budget_out (k_budget a) = false ->
    build cmd g st T = Some ok ->
    forall n : node, reach g T n ->
      (forall e : edge, g_producer g n = Some e -> independent g a e) ->
      content_of (k_st a) n = content_of ok n.
Proof. exact HistFailKProofs.C05K_independent_as_fault_free_proof. Qed.
Print Assumptions C05K_independent_as_fault_free.

(* a command that was started and did not fail got its log entry, with the current command hash *)
Theorem C05K_succeeded_recorded :
  forall (cmd : edge -> N -> snapshot -> node -> content) (g : graph),
    wf_spec g -> topo_ordered g = true ->
  forall (st : hstate) (T : list node) (fs : faults) (b : option nat) (a : kacc),
    GoodF cmd g st -> buildFK cmd g st T fs b = Some a ->
    forall e : edge, In e (trace_delta st (k_st a)) -> fault_of fs e = None ->
    forall o : node, In o (ei_outs (g_edge g e)) ->
      exists m : Z, h_blog (k_st a) o = Some (h_hash st e, m).
Proof. exact HistFailKProofs.C05K_succeeded_recorded_proof. Qed.
Print Assumptions C05K_succeeded_recorded.

(* ---- (3) the budget: with -k N at most N commands fail, the remaining budget is N minus the number
        of failures, and the N-th failure is the LAST command started in the invocation *)
Theorem C05K_budget :
  forall (cmd : edge -> N -> snapshot -> node -> content) (g : graph),
    wf_spec g -> topo_ordered g = true ->
  forall (st : hstate) (T : list node) (fs : faults) (N : nat) (a : kacc),
    GoodF cmd g st -> buildFK cmd g st T fs (Some N) = Some a ->
    (length (k_failed a) <= N)%nat /\
    k_budget a = Some (N - length (k_failed a))%nat /\
    (length (k_failed a) = N ->
     forall (f : edge) (kd : fail_kind) (sf : hstate) (rest : list (edge * fail_kind * hstate)),
       k_failed a = (f, kd, sf) :: rest ->
       exists lr : list edge, trace_delta st (k_st a) = f :: lr).
Proof. exact HistFailKProofs.C05K_budget_proof. Qed.
Print Assumptions C05K_budget.

Theorem C05K_unlimited :
  forall (cmd : edge -> N -> snapshot -> node -> content) (g : graph),
    wf_spec g -> topo_ordered g = true ->
  forall (st : hstate) (T : list node) (fs : faults) (a : kacc),
    GoodF cmd g st -> buildFK cmd g st T fs None = Some a -> k_budget a = None.
Proof. exact HistFailKProofs.C05K_unlimited_proof. Qed.
Print Assumptions C05K_unlimited.

(* ---- (4) never recorded as success, and reported *)
(* every failed command was started, had a fault, and leaves the log entries of its outputs as they
   were BEFORE the invocation; the entries that changed belong to commands that succeeded in it *)
Theorem C05K_failed_not_recorded :
  forall (cmd : edge -> N -> snapshot -> node -> content) (g : graph),
    wf_spec g -> topo_ordered g = true ->
  forall (st : hstate) (T : list node) (fs : faults) (b : option nat) (a : kacc),
    GoodF cmd g st -> buildFK cmd g st T fs b = Some a ->
    (forall f : edge, In f (failed_edges a) ->
       In f (trace_delta st (k_st a)) /\ fault_of fs f <> None /\
       (forall o : node, In o (ei_outs (g_edge g f)) -> h_blog (k_st a) o = h_blog st o)) /\
    (forall n : node,
       h_blog (k_st a) n = h_blog st n \/
       (exists j : edge, g_producer g n = Some j /\ In j (trace_delta st (k_st a)) /\
                         fault_of fs j = None)).
Proof. exact HistFailKProofs.C05K_failed_not_recorded_proof. Qed.
Print Assumptions C05K_failed_not_recorded.

(* the exit flag is "failed" iff a command with a fault was started (whatever the budget: "and still
   exits non-zero"); without one the invocation is the successful [build] *)
Theorem C05K_exit_failed :
  forall (cmd : edge -> N -> snapshot -> node -> content) (g : graph),
    wf_spec g -> topo_ordered g = true ->
  forall (st : hstate) (T : list node) (fs : faults) (b : option nat) (a : kacc),
    GoodF cmd g st -> buildFK cmd g st T fs b = Some a ->
    (exit_failedK a = true <->
       (exists e : edge, In e (trace_delta st (k_st a)) /\ fault_of fs e <> None)) /\
    (exit_failedK a = false -> budget_out b = false -> build cmd g st T = Some (k_st a)).
Proof. exact HistFailKProofs.C05K_exit_failed_proof. Qed.
Print Assumptions C05K_exit_failed.

(* ---- (5) the invariant and the recovery *)
Theorem goodF_buildFK :
  forall (cmd : edge -> N -> snapshot -> node -> content) (g : graph),
    wf_spec g -> topo_ordered g = true ->
  forall (st : hstate) (T : list node) (fs : faults) (b : option nat) (a : kacc),
    GoodF cmd g st -> buildFK cmd g st T fs b = Some a -> GoodF cmd g (k_st a).
Proof. exact HistFailKProofs.goodF_buildFK_proof. Qed.
Print Assumptions goodF_buildFK.

Theorem goodF_khist :
  forall (cmd : edge -> N -> snapshot -> node -> content) (g : graph),
    wf_spec g -> topo_ordered g = true ->
  forall (h : list kstep) (st : hstate),
    GoodF cmd g st -> khist_ok g h = true -> GoodF cmd g (run_khist cmd g st h).
Proof. exact HistFailKProofs.goodF_khist_proof. Qed.
Print Assumptions goodF_khist.

(* the next invocation for the same targets is accepted ... *)
Theorem C05K_next_invocation_accepted :
  forall (cmd : edge -> N -> snapshot -> node -> content) (g : graph),
    wf_spec g -> wf_graph g -> frag_AB g = true -> topo_ordered g = true ->
  forall (st : hstate) (T : list node) (fs : faults) (b : option nat) (a : kacc),
    GoodF cmd g st -> no_inputless_phony g = true -> buildFK cmd g st T fs b = Some a ->
    exists st2 : hstate, build cmd g (k_st a) T = Some st2.
Proof. exact HistFailKProofs.C05K_next_invocation_accepted_proof. Qed.
Print Assumptions C05K_next_invocation_accepted.

(* ... and starts EACH failed command again: FailUntouched and FailDeleted without further premise,
   FailWrote when the log gives a reason ([rerun_reason] of HistFailDefs; without it: the listed
   finding failed-cmd-rewrote-output, Properties_C05hist.v) *)
Theorem C05K_next_invocation_reruns :
  forall (cmd : edge -> N -> snapshot -> node -> content) (g : graph),
    wf_spec g -> wf_graph g -> frag_AB g = true -> topo_ordered g = true ->
  forall (st : hstate) (T : list node) (fs : faults) (b : option nat) (a : kacc)
         (f : edge) (kd : fail_kind) (sf st2 : hstate),
    GoodF cmd g st -> no_inputless_phony g = true -> buildFK cmd g st T fs b = Some a ->
    In (f, kd, sf) (k_failed a) ->
    (forall fw : node -> content, kd = FailWrote fw -> rerun_reason g sf f kd) ->
    build cmd g (k_st a) T = Some st2 ->
    In f (trace_delta (k_st a) st2).
Proof. exact HistFailKProofs.C05K_next_invocation_reruns_proof. Qed.
Print Assumptions C05K_next_invocation_reruns.

(* C01 for the next successful invocation (any targets), under the boolean hypothesis of
   Properties_C05hist.v on the state the -k N invocation left *)
Theorem C01K_next_build :
  forall (cmd : edge -> N -> snapshot -> node -> content) (g : graph),
    wf_spec g -> wf_graph g -> frag_AB g = true -> topo_ordered g = true ->
    (forall (e : edge) (h h' : N) (S : snapshot) (o : node),
       ei_generator (g_edge g e) = true -> cmd e h S o = cmd e h' S o) ->
  forall (st : hstate) (T : list node) (fs : faults) (b : option nat) (a : kacc)
         (T' : list node) (st2 : hstate),
    GoodF cmd g st -> buildFK cmd g st T fs b = Some a ->
    taint_safe g (k_st a) = true -> build cmd g (k_st a) T' = Some st2 ->
    forall n : node, reach g T' n -> content_of st2 n = clean_of cmd g st2 n.
Proof. exact HistFailKProofs.C01K_next_build_proof. Qed.
Print Assumptions C01K_next_build.

(* ---- (6) examples by computation and non-vacuity *)
(* two independent chains a.src -> a1 -> a2, b.src -> b1 -> b2, alias all; e0 (a1) rewrites its output
   and fails: -k 0 skips e1 and the alias and runs the other chain to the end, -k 1 stops *)
Example C05K_two_chains :
  ExChains.summary (buildFK ExChains.cmd ExChains.g ExChains.st2 [6%nat] ExChains.fs (budget_of_k 0)) =
    Some ([3; 2; 0]%nat, [0%nat], [4; 1; 0]%nat, None, true,
          [Some 999%N; None; Some 77%N; Some 250%N]) /\
  ExChains.summary (buildFK ExChains.cmd ExChains.g ExChains.st2 [6%nat] ExChains.fs (budget_of_k 1)) =
    Some ([0%nat], [0%nat], [4; 1; 0]%nat, Some 0%nat, true, [Some 999%N; None; None; None]) /\
  ExChains.summary (buildFK ExChains.cmd ExChains.g ExChains.st2 [6%nat] ExChains.fs2 (budget_of_k 2)) =
    Some ([2; 0]%nat, [2; 0]%nat, [4; 3; 2; 1; 0]%nat, Some 0%nat, true, [None; None; None; None]).
Proof.
  split; [exact ExChains.keep_going_unlimited|]. split; [exact ExChains.keep_going_1|exact ExChains.keep_going_2].
Qed.

(* a diamond src -> x -> {y, z} -> j: y's command fails, z is built, the join is skipped; the next
   plain build runs y and j only and everything is clean *)
Example C05K_diamond :
  match buildFK ExChains.cmd ExDiamond.g ExDiamond.st1 [4%nat] [(1%nat, FailDeleted)] None with
  | Some a =>
    h_trace (k_st a) = [2; 1; 0]%nat /\ failed_edges a = [1%nat] /\ k_blocked a = [3; 1]%nat /\
    exit_failedK a = true /\ content_of (k_st a) 4%nat = None /\
    match build ExChains.cmd ExDiamond.g (k_st a) [4%nat] with
    | Some st' => h_trace st' = [3; 1; 2; 1; 0]%nat /\
                  map (content_of st') [1; 2; 3; 4]%nat =
                  map (clean_of ExChains.cmd ExDiamond.g st') [1; 2; 3; 4]%nat
    | None => False
    end
  | None => False
  end.
Proof. exact ExDiamond.join_skipped. Qed.

(* the premises of (1)-(4) and of the theorems about the independent part *)
Example C05K_nonvacuous :
  exists a : kacc,
    GoodF ExChains.cmd ExChains.g ExChains.st2 /\ TaintOk ExChains.g true ExChains.st2 /\
    frag_AB ExChains.g && topo_ordered ExChains.g && no_inputless_phony ExChains.g = true /\
    buildFK ExChains.cmd ExChains.g ExChains.st2 [6%nat] ExChains.fs None = Some a /\
    budget_out (k_budget a) = false /\ exit_failedK a = true /\ failed_edges a = [0%nat] /\
    trace_delta ExChains.st2 (k_st a) = [3; 2; 0]%nat /\
    depends_on ExChains.g 0%nat 1%nat /\ depends_on ExChains.g 0%nat 4%nat /\
    independent ExChains.g a 2%nat /\ independent ExChains.g a 3%nat /\
    needed ExChains.g [6%nat] 3%nat /\ reach ExChains.g [6%nat] 5%nat.
Proof. exact HistFailKProofs.C05K_nonvacuous_proof. Qed.

Example C05K_budget_nonvacuous :
  exists a : kacc,
    buildFK ExChains.cmd ExChains.g ExChains.st2 [6%nat] ExChains.fs2 (budget_of_k 2) = Some a /\
    length (k_failed a) = 2%nat /\ k_budget a = Some 0%nat /\ failed_edges a = [2; 0]%nat /\
    trace_delta ExChains.st2 (k_st a) = [2; 0]%nat.
Proof. exact HistFailKProofs.C05K_budget_nonvacuous_proof. Qed.

(* the premises of the recovery theorems, and their conclusion *)
Example C05K_reruns_nonvacuous :
  exists (a : kacc) (sf st2 : hstate),
    GoodF ExChains.cmd ExDiamond.g ExDiamond.st1 /\ no_inputless_phony ExDiamond.g = true /\
    buildFK ExChains.cmd ExDiamond.g ExDiamond.st1 [4%nat] [(1%nat, FailDeleted)] None = Some a /\
    k_failed a = [(1%nat, FailDeleted, sf)] /\ k_blocked a = [3; 1]%nat /\
    build ExChains.cmd ExDiamond.g (k_st a) [4%nat] = Some st2 /\
    trace_delta (k_st a) st2 = [3; 1]%nat /\ taint_safe ExDiamond.g (k_st a) = true.
Proof. exact HistFailKProofs.C05K_reruns_nonvacuous_proof. Qed.

Example C05K_graphs_nonvacuous :
  wf_spec ExChains.g /\ wf_graph ExChains.g /\ wf_spec ExDiamond.g /\ wf_graph ExDiamond.g /\
  frag_AB ExDiamond.g && topo_ordered ExDiamond.g && no_inputless_phony ExDiamond.g = true /\
  (forall (e : edge) (h h' : N) (S : snapshot) (o : node),
     ei_generator (g_edge ExChains.g e) = true -> ExChains.cmd e h S o = ExChains.cmd e h' S o).
Proof.
  split; [exact ExChains_wf_spec|]. split; [exact ExChains_wf_graph|]. split; [exact ExDiamond_wf_spec|].
  split; [exact ExDiamond_wf_graph|]. split; [vm_compute; reflexivity|exact ExChains_gen].
Qed.
