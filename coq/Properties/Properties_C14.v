(* placeholder until CanonProofs lands *)
From NinjaV Require Import Base.Bytes Canon.CanonDefs.
Local Open Scope N_scope.
Example C14_sample : canon [97;47;46;47;98;47;46;46;47;99;47;47] = [97;47;99].
Proof. vm_compute. reflexivity. Qed.
