(* C14 — path canonicalisation identifies exactly the lexically equal paths.
   Model: Canon/CanonDefs.v ([canon], a transliteration of CanonicalizePath, src/util.cc, POSIX
   branch; [canon_spec], the reference on component lists).  Lexical equivalence: Canon/CanonSpec.v.
   All statements hold for ALL byte strings (no length bound, no "no NUL" or wf_bytes premise). *)
From NinjaV Require Import Base.Bytes Canon.CanonDefs Canon.CanonSpec Canon.CanonProofs.
From Coq Require Import Relations.
Local Open Scope N_scope.

(* The three-phase, byte-level routine computes the ten-line reference. *)
Theorem C14_canon_eq_spec : forall s : bytes, canon s = canon_spec s.
Proof. exact canon_eq_spec. Qed.
Print Assumptions C14_canon_eq_spec.

(* Two non-empty spellings get the same canonical string exactly when both are absolute or both
   relative and their component lists are related by the rewrites: drop ".", drop an empty
   component (repeated/trailing slash), cancel "x/.." for an ordinary x. *)
Theorem C14_exact : forall s t : bytes, s <> [] -> t <> [] ->
  (canon s = canon t <->
   fst (parse_path s) = fst (parse_path t) /\
   clos_refl_sym_trans (list bytes) rw (snd (parse_path s)) (snd (parse_path t))).
Proof. exact canon_exact. Qed.
Print Assumptions C14_exact.

(* The normaliser on component lists decides the generated equivalence. *)
Theorem C14_nf_complete : forall a b : list bytes,
  clos_refl_sym_trans (list bytes) rw a b <-> nf a = nf b.
Proof. exact nf_complete. Qed.
Print Assumptions C14_nf_complete.

Theorem C14_idempotent : forall s : bytes, canon (canon s) = canon s.
Proof. exact canon_idempotent. Qed.
Print Assumptions C14_idempotent.

Theorem C14_never_longer : forall s : bytes, (length (canon s) <= length s)%nat.
Proof. exact canon_never_longer. Qed.
Print Assumptions C14_never_longer.

Theorem C14_keeps_root : forall s : bytes, s <> [] ->
  (hd_error s = Some b_slash <-> hd_error (canon s) = Some b_slash).
Proof. exact canon_keeps_root. Qed.
Print Assumptions C14_keeps_root.

(* The result is: the unresolved ".." components, in front, then ordinary components only. *)
Theorem C14_keeps_leading_dotdot : forall s : bytes, s <> [] ->
  exists (k : nat) (l : list bytes),
    nf (snd (parse_path s)) = repeat [b_dot; b_dot] k ++ l /\
    Forall (fun c => ordinary c = true) l /\
    canon s = render (fst (parse_path s)) (repeat [b_dot; b_dot] k ++ l).
Proof. exact canon_keeps_leading_dotdot. Qed.
Print Assumptions C14_keeps_leading_dotdot.

(* ... and leading ".." components of the input are never resolved or dropped. *)
Theorem C14_leading_dotdot_kept : forall (k : nat) (a : list bytes),
  nf (repeat [b_dot; b_dot] k ++ a) = repeat [b_dot; b_dot] k ++ nf a.
Proof. exact nf_leading_dotdot. Qed.
Print Assumptions C14_leading_dotdot_kept.

Theorem C14_dot_iff_nothing : forall s : bytes, s <> [] ->
  (canon s = [b_dot] <-> fst (parse_path s) = false /\ nf (snd (parse_path s)) = []).
Proof. exact canon_dot_iff_nothing. Qed.
Print Assumptions C14_dot_iff_nothing.

Theorem C14_empty : canon [] = [].
Proof. exact canon_empty. Qed.
Print Assumptions C14_empty.

(* ---------------- non-vacuity / executable examples ---------------- *)
(* "a/./b/../c//" -> "a/c" *)
Example C14_sample : canon [97;47;46;47;98;47;46;46;47;99;47;47] = [97;47;99].
Proof. vm_compute. reflexivity. Qed.
(* "../../x" unchanged *)
Example C14_sample_dotdot : canon [46;46;47;46;46;47;120] = [46;46;47;46;46;47;120].
Proof. vm_compute. reflexivity. Qed.
(* "/.." unchanged *)
Example C14_sample_root_dotdot : canon [47;46;46] = [47;46;46].
Proof. vm_compute. reflexivity. Qed.
(* "a/.." -> "." *)
Example C14_sample_dot : canon [97;47;46;46] = [46].
Proof. vm_compute. reflexivity. Qed.

(* C14_exact, left to right, on real inputs: "a/./b" and "a//b/c/.." are lexically equal ... *)
Example C14_exact_nonvacuous_equal :
  lex_equiv [97;47;46;47;98] [97;47;47;98;47;99;47;46;46].
Proof. apply C14_exact; [discriminate|discriminate|vm_compute; reflexivity]. Qed.
(* ... the relation is inhabited by the rewrites themselves, not only through [canon] ... *)
Example C14_rw_nonvacuous :
  rw (snd (parse_path [97;47;46;47;98])) (snd (parse_path [97;47;98])).
Proof. apply (rw_dot [[97]] [[98]]). Qed.
Example C14_rw_dotdot_nonvacuous :
  rw (snd (parse_path [97;47;120;47;46;46;47;98])) (snd (parse_path [97;47;98])).
Proof. apply (rw_dotdot [[97]] [120] [[98]]). reflexivity. Qed.
(* ... and right to left it separates: "a" / "b", and "/a" / "a", are NOT lexically equal. *)
Example C14_exact_nonvacuous_distinct : ~ lex_equiv [97] [98].
Proof. intros H. apply C14_exact in H; [vm_compute in H|discriminate|discriminate]. discriminate H. Qed.
Example C14_exact_nonvacuous_root : ~ lex_equiv [47;97] [97].
Proof. intros H. apply C14_exact in H; [vm_compute in H|discriminate|discriminate]. discriminate H. Qed.
(* "/../a" is not "/a": ".." at the root is kept, as the code does. *)
Example C14_root_dotdot_not_cancelled : ~ lex_equiv [47;46;46;47;97] [47;97].
Proof. intros H. apply C14_exact in H; [vm_compute in H|discriminate|discriminate]. discriminate H. Qed.
(* the side condition of C14_exact is needed: "" and "." have the same components up to the
   rewrites, but the empty string is returned unchanged *)
Example C14_exact_needs_nonempty : lex_equiv [] [46] /\ canon [] <> canon [46].
Proof.
  split.
  - split; [reflexivity|]. apply rst_trans with (y := @nil bytes).
    + apply rst_step. apply (rw_empty [] []).
    + apply rst_sym, rst_step. apply (rw_dot [] []).
  - vm_compute. discriminate.
Qed.

(* C14_keeps_root, both directions are exercised *)
Example C14_keeps_root_nonvacuous :
  hd_error (canon [47;47;97;47;46;46]) = Some b_slash /\ hd_error (canon [97;47;47]) <> Some b_slash.
Proof. split; vm_compute; [reflexivity|discriminate]. Qed.

(* C14_dot_iff_nothing: the right-hand side is satisfiable ("a/b/../..") *)
Example C14_dot_iff_nothing_nonvacuous :
  fst (parse_path [97;47;98;47;46;46;47;46;46]) = false /\
  nf (snd (parse_path [97;47;98;47;46;46;47;46;46])) = [].
Proof. vm_compute. split; reflexivity. Qed.

(* C14_keeps_leading_dotdot on "../a/../../b": two ".." survive, in front *)
Example C14_keeps_leading_dotdot_sample :
  canon [46;46;47;97;47;46;46;47;46;46;47;98] = [46;46;47;46;46;47;98].
Proof. vm_compute. reflexivity. Qed.
