(* C17 with scan-time dyndep loads: a cycle of the inlined manifest is NOT always reported (faithful model). *)
From NinjaV Require Import Base.Bytes Engine.ScanDefs Engine.ScanDynDefs Engine.ScanDynProofs.

Theorem C17_scan_dyn_cycle_refuted : ~ (forall di g w targets c,
  dd_ok di g w = true ->
  scan (inline di g) w targets = ScanCycle c -> exists c', scan_dyn di g w targets = SdCycle c').
Proof. exact C17_scan_dyn_cycle_refuted. Qed.
Print Assumptions C17_scan_dyn_cycle_refuted.

(* without dyndep bindings cycle detection is ScanProofs' (C17 transfers) *)
Theorem C17_scan_dyn_cycle_conservative : forall di g w targets c,
  (forall e, di_dyndep di e = None) ->
  scan g w targets = ScanCycle c -> scan_dyn di g w targets = SdCycle c.
Proof. exact scan_dyn_cycle_conservative. Qed.
Print Assumptions C17_scan_dyn_cycle_conservative.
