(* C16 — file names reach commands intact (escaper part).
   Models: Shell/EscDefs.v (GetShellEscapedString, MakePathList), Shell/ShModel.v (sh words).
   Proofs: Shell/EscProofs.v.  The rspfile part of C16 is an engine (LTS) theorem elsewhere. *)
From NinjaV Require Import Base.Bytes Shell.EscDefs Shell.ShModel Shell.EscProofs.
Local Open Scope N_scope.

(* One non-empty, NUL-free name: the text substituted is read by sh as exactly one word equal to
   the name (no splitting, globbing, expansion, injection: any of those would be [None] or a
   different word list). *)
Theorem C16_one_word :
  forall name, name <> [] -> (forall b, In b name -> b <> 0) ->
    sh_words (shell_escape name) = Some [name].
Proof. exact EscProofs.C16_one_word. Qed.
Print Assumptions C16_one_word.

Example C16_one_word_nonvacuous :
  exists name, name <> [] /\ (forall b, In b name -> b <> 0) /\ needs_escaping name = true.
Proof.
  exists [36; 40; 114; 109; 32; 39; 42; 39; 41; 10; 200].      (* dollar, open paren, rm, space, quote, star, quote, close paren, LF, 0xC8 *)
  split; [discriminate|]. split; [|reflexivity].
  intros b Hb. cbn [In] in Hb.
  repeat (destruct Hb as [<-|Hb]; [discriminate|]). destruct Hb.
Qed.

(* FINDING: the empty name is emitted as NOTHING (StringNeedsShellEscaping("") is false), so the
   shell sees zero words instead of one empty word; '' would have worked. *)
Theorem C16_empty_name_no_word : sh_words (shell_escape []) = Some [].
Proof. exact EscProofs.C16_empty_name_no_word. Qed.
Print Assumptions C16_empty_name_no_word.

Theorem C16_empty_name_refuted :
  exists name, (forall b, In b name -> b <> 0) /\ sh_words (shell_escape name) <> Some [name].
Proof. exact EscProofs.C16_empty_name_refuted. Qed.
Print Assumptions C16_empty_name_refuted.

(* $in / $out (sep = 32) and $in_newline (sep = 10): the list is read back as exactly the names.
   Newlines (and anything else) INSIDE names are not excluded: they sit inside quotes. *)
Theorem C16_list :
  forall sep names, (sep = 32 \/ sep = 10) ->
    (forall n, In n names -> n <> [] /\ (forall b, In b n -> b <> 0)) ->
    sh_words (make_path_list sep names) = Some names.
Proof. exact EscProofs.C16_list. Qed.
Print Assumptions C16_list.

Example C16_list_nonvacuous :
  exists names, (forall n, In n names -> n <> [] /\ (forall b, In b n -> b <> 0)) /\
                length names = 3%nat /\
                sh_words (make_path_list 10 names) = Some names.
Proof.
  exists [[97; 10; 98]; [39]; [120; 46; 99]].                  (* a<LF>b  '  x.c *)
  split; [|split; reflexivity].
  intros n Hn. cbn [In] in Hn.
  destruct Hn as [<-|[<-|[<-|[]]]]; (split; [discriminate|]); intros b Hb; cbn [In] in Hb;
    repeat (destruct Hb as [<-|Hb]; [discriminate|]); destruct Hb.
Qed.

(* FINDING (same root cause): empty names vanish from the list. *)
Theorem C16_list_empty_name_refuted :
  exists sep names, (sep = 32 \/ sep = 10) /\
    (forall n, In n names -> forall b, In b n -> b <> 0) /\
    sh_words (make_path_list sep names) <> Some names.
Proof. exact EscProofs.C16_list_empty_name_refuted. Qed.
Print Assumptions C16_list_empty_name_refuted.

(* The model of MakePathList equals "escaped names joined by the separator" when no name is
   empty, and not in general (separator suppressed while the result is still empty). *)
Theorem C16_make_path_list_is_join :
  forall sep names, (forall n, In n names -> n <> []) ->
    make_path_list sep names = make_path_list_spec sep names.
Proof. exact EscProofs.make_path_list_is_spec. Qed.
Print Assumptions C16_make_path_list_is_join.

Theorem C16_make_path_list_is_join_refuted :
  exists sep names, make_path_list sep names <> make_path_list_spec sep names.
Proof. exact EscProofs.make_path_list_spec_refuted. Qed.
Print Assumptions C16_make_path_list_is_join_refuted.

(* Names that need no quoting are passed verbatim — and only those. *)
Theorem C16_verbatim :
  forall name, forallb shell_safe name = true -> shell_escape name = name.
Proof. exact EscProofs.C16_verbatim. Qed.
Print Assumptions C16_verbatim.

Example C16_verbatim_nonvacuous : forallb shell_safe [115; 114; 99; 47; 97; 45; 98; 95; 99; 43; 43; 46; 111] = true.
Proof. reflexivity. Qed.                                         (* src/a-b_c++.o *)

Theorem C16_verbatim_only :
  forall name, shell_escape name = name -> forallb shell_safe name = true.
Proof. exact EscProofs.C16_verbatim_only. Qed.
Print Assumptions C16_verbatim_only.

(* No unquoted metacharacter, for EVERY name / list (no hypothesis at all): outside quotes only
   safe bytes, the quote delimiters, backslash-quote, and (for lists) the separator. *)
Theorem C16_no_meta : forall name, no_meta false (shell_escape name) = true.
Proof. exact EscProofs.C16_no_meta. Qed.
Print Assumptions C16_no_meta.

Theorem C16_no_meta_list :
  forall sep names, (sep = 32 \/ sep = 10) -> no_meta true (make_path_list sep names) = true.
Proof. exact EscProofs.C16_no_meta_list. Qed.
Print Assumptions C16_no_meta_list.

(* ... which is the same as "sh_words returned Some": *)
Theorem C16_no_meta_sound :
  forall s, (forall b, In b s -> b <> 0) -> no_meta true s = true -> sh_words s <> None.
Proof. exact EscProofs.no_meta_sound. Qed.
Print Assumptions C16_no_meta_sound.

Example C16_no_meta_sound_nonvacuous :
  (forall b, In b [39; 59; 39; 32; 97] -> b <> 0) /\ no_meta true [39; 59; 39; 32; 97] = true.
Proof.
  split; [|reflexivity]. intros b Hb. cbn [In] in Hb.
  repeat (destruct Hb as [<-|Hb]; [discriminate|]). destruct Hb.
Qed.

Theorem C16_always_in_sublanguage :
  forall name, (forall b, In b name -> b <> 0) -> sh_words (shell_escape name) <> None.
Proof. exact EscProofs.C16_always_in_sublanguage. Qed.
Print Assumptions C16_always_in_sublanguage.

(* the scanner and the word model are not trivially permissive *)
Example C16_model_rejects_injection : sh_words [97; 59; 114; 109] = None /\ no_meta true [97; 59; 114; 109] = false.
Proof. split; reflexivity. Qed.                                  (* a;rm *)
Example C16_model_rejects_glob : sh_words [42; 46; 99] = None.   (* star dot c *)
Proof. reflexivity. Qed.
Example C16_model_rejects_dollar : sh_words [36; 72] = None.     (* $H *)
Proof. reflexivity. Qed.
