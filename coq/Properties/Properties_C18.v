(* C18 — cleaning removes only what ninja built, and all of it.
   Model: Clean/CleanDefs.v (Cleaner: CleanAll / CleanTargets / CleanRules / CleanDead with its
   removed_/cleaned_/count/status bookkeeping, over a graph that already contains what
   Cleaner::LoadDyndeps merged in).  Proofs: Clean/CleanProofs.v.  Every theorem is restated in full.

   Reading aid.  [c_report r] = the Report() calls = the files removed (with -n: that would be
   removed); [c_disk r] = the disk afterwards; disk kinds: FAbsent / FFile / FStuck (exists, cannot
   be removed).  [edge_paths e] = outputs ++ depfile ++ rspfile of a statement.
   Scopes (CleanProofs.v): all_scope gen g / target_scope g ts / rule_scope g rs / dead_scope g log. *)
From NinjaV Require Import Base.Bytes Clean.CleanDefs Clean.CleanProofs.

(* ------------------------------------------------------------------------------------------------ *)
(* C18_scope: every removed path is an output, depfile or rspfile of a statement in the scope; for
   cleandead a log entry whose node is absent or has neither producer nor consumer. *)
Theorem C18_scope_all :
  forall (dry gen : bool) (g : graph) (d : disk) (p : path),
    In p (c_report (clean_all dry gen g d)) ->
    exists e, In e (g_edges g) /\ e_phony e = false /\ (gen = true \/ e_generator e = false) /\
              In p (e_outs e ++ opt_list (e_depfile e) ++ opt_list (e_rspfile e)).
Proof. exact C18_scope_all. Qed.
Print Assumptions C18_scope_all.

Theorem C18_scope_targets :
  forall (dry : bool) (g : graph) (d : disk) (ts : list path) (r : cl) (p : path),
    clean_targets dry g d ts = Some r -> In p (c_report r) ->
    exists t, In t ts /\ node_exists g t = true /\
      exists n e, reach g t n /\ in_edge g n = Some e /\ e_phony e = false /\
                  In p (e_outs e ++ opt_list (e_depfile e) ++ opt_list (e_rspfile e)).
Proof. intros dry g d ts r p. exact (C18_scope_targets dry g d (default_fuel g) ts r p). Qed.
Print Assumptions C18_scope_targets.

Theorem C18_scope_rules :
  forall (dry : bool) (g : graph) (d : disk) (rs : list N) (p : path),
    In p (c_report (clean_rules dry g d rs)) ->
    exists r e, In r rs /\ In r (g_rules g) /\ In e (g_edges g) /\ e_phony e = false /\ e_rule e = r /\
                e_outs e <> [] /\ In p (e_outs e ++ opt_list (e_depfile e) ++ opt_list (e_rspfile e)).
Proof. exact C18_scope_rules. Qed.
Print Assumptions C18_scope_rules.

Theorem C18_scope_dead :
  forall (dry : bool) (g : graph) (d : disk) (entries : list path) (p : path),
    In p (c_report (clean_dead dry g d entries)) ->
    In p entries /\ (node_exists g p = false \/ (in_edge g p = None /\ has_out_edge g p = false)).
Proof. exact C18_scope_dead. Qed.
Print Assumptions C18_scope_dead.

(* ------------------------------------------------------------------------------------------------ *)
(* C18_complete: every EXISTING file in the scope is reported, exactly once (the report has no
   duplicates); a real run leaves exactly the reported files absent; -n leaves the disk alone. *)
Theorem C18_complete_all :
  forall (dry gen : bool) (g : graph) (d : disk),
    let r := clean_all dry gen g d in
    (forall p, all_scope gen g p -> d p = FFile -> In p (c_report r)) /\
    NoDup (c_report r) /\
    (dry = false -> (forall p, In p (c_report r) -> d p = FFile /\ c_disk r p = FAbsent) /\
                    (forall q, ~ In q (c_report r) -> c_disk r q = d q)) /\
    (dry = true -> forall q, c_disk r q = d q).
Proof. exact C18_complete_all. Qed.
Print Assumptions C18_complete_all.

Theorem C18_complete_targets :
  forall (dry : bool) (g : graph) (d : disk) (ts : list path) (r : cl),
    clean_targets dry g d ts = Some r ->
    (forall p, target_scope g ts p -> d p = FFile -> In p (c_report r)) /\
    NoDup (c_report r) /\
    (dry = false -> (forall p, In p (c_report r) -> d p = FFile /\ c_disk r p = FAbsent) /\
                    (forall q, ~ In q (c_report r) -> c_disk r q = d q)) /\
    (dry = true -> forall q, c_disk r q = d q).
Proof. intros dry g d ts r. exact (C18_complete_targets dry g d (default_fuel g) ts r). Qed.
Print Assumptions C18_complete_targets.

Theorem C18_complete_rules :
  forall (dry : bool) (g : graph) (d : disk) (rs : list N),
    let r := clean_rules dry g d rs in
    (forall p, rule_scope g rs p -> d p = FFile -> In p (c_report r)) /\
    NoDup (c_report r) /\
    (dry = false -> (forall p, In p (c_report r) -> d p = FFile /\ c_disk r p = FAbsent) /\
                    (forall q, ~ In q (c_report r) -> c_disk r q = d q)) /\
    (dry = true -> forall q, c_disk r q = d q).
Proof. exact C18_complete_rules. Qed.
Print Assumptions C18_complete_rules.

Theorem C18_complete_dead :
  forall (dry : bool) (g : graph) (d : disk) (entries : list path),
    let r := clean_dead dry g d entries in
    (forall p, dead_scope g entries p -> d p = FFile -> In p (c_report r)) /\
    NoDup (c_report r) /\
    (dry = false -> (forall p, In p (c_report r) -> d p = FFile /\ c_disk r p = FAbsent) /\
                    (forall q, ~ In q (c_report r) -> c_disk r q = d q)) /\
    (dry = true -> forall q, c_disk r q = d q).
Proof. exact C18_complete_dead. Qed.
Print Assumptions C18_complete_dead.

(* the by-target walk is TOTAL: DoCleanTarget inserts the node into cleaned_ before it recurses, so
   every recursive call consumes a fresh input name; default fuel = number of input occurrences + 1
   is enough on every graph, cyclic ones included (no acyclicity hypothesis) ... *)
Theorem C18_targets_total :
  forall (dry : bool) (g : graph) (d : disk) (ts : list path),
    exists r, clean_targets dry g d ts = Some r.
Proof. exact clean_targets_total. Qed.
Print Assumptions C18_targets_total.

Theorem C18_targets_fuel_sufficient :
  forall (dry : bool) (g : graph) (d : disk) (ts : list path) (fuel : nat),
    length (flat_map e_ins (g_edges g)) < fuel -> clean_targets_fuel fuel dry g d ts <> None.
Proof. exact clean_targets_fuel_sufficient. Qed.
Print Assumptions C18_targets_fuel_sufficient.

(* ... e.g. on `build 1: r 2`, `build 2: r 1` and the self loop `build 3: r 3` (before the fix of
   DoCleanTarget the C++ overflowed its stack here): all three outputs are cleaned, once *)
Example C18_cyclic_terminates :
  option_map result (clean_targets false Ex.gc Ex.d [Ex.p 1; Ex.p 3]) = Some ([Ex.p 1; Ex.p 2; Ex.p 3], 3, false).
Proof. exact Ex.cyclic_terminates. Qed.

Example C18_targets_nonvacuous :
  wf_graph_b Ex.g = true /\
  option_map result (clean_targets false Ex.g Ex.d [Ex.p 6])
  = Some ([Ex.p 4; Ex.p 21; Ex.p 2; Ex.p 12; Ex.p 20; Ex.p 1], 6, false).
Proof. split; [exact ex_wf | exact Ex.by_target]. Qed.

(* ------------------------------------------------------------------------------------------------ *)
(* C18_no_source_no_phony (under unique_producer — guaranteed by the manifest parser — and
   aux_paths_disjoint): no node without producer and no phony output is removed. *)
Theorem C18_no_source_no_phony_all :
  forall (dry gen : bool) (g : graph) (d : disk) (p : path),
    unique_producer g -> aux_paths_disjoint g ->
    In p (c_report (clean_all dry gen g d)) ->
    ~ (node_exists g p = true /\ in_edge g p = None) /\
    ~ (exists e, In e (g_edges g) /\ e_phony e = true /\ In p (e_outs e)).
Proof. exact C18_no_source_no_phony_all. Qed.
Print Assumptions C18_no_source_no_phony_all.

Theorem C18_no_source_no_phony_targets :
  forall (dry : bool) (g : graph) (d : disk) (ts : list path) (r : cl) (p : path),
    unique_producer g -> aux_paths_disjoint g ->
    clean_targets dry g d ts = Some r -> In p (c_report r) ->
    ~ (node_exists g p = true /\ in_edge g p = None) /\
    ~ (exists e, In e (g_edges g) /\ e_phony e = true /\ In p (e_outs e)).
Proof. intros dry g d ts r p. exact (C18_no_source_no_phony_targets dry g d (default_fuel g) ts r p). Qed.
Print Assumptions C18_no_source_no_phony_targets.

(* by rule: DoCleanRule skips phony statements, no side condition ... *)
Theorem C18_no_source_no_phony_rules :
  forall (dry : bool) (g : graph) (d : disk) (rs : list N) (p : path),
    unique_producer g -> aux_paths_disjoint g ->
    In p (c_report (clean_rules dry g d rs)) ->
    ~ (node_exists g p = true /\ in_edge g p = None) /\
    ~ (exists e, In e (g_edges g) /\ e_phony e = true /\ In p (e_outs e)).
Proof. exact C18_no_source_no_phony_rules. Qed.
Print Assumptions C18_no_source_no_phony_rules.

(* ... e.g. `-t clean -r phony` removes nothing: the existing source 5 declared by `build 5: phony`
   survives (before the fix of DoCleanRule it was deleted) *)
Example C18_rule_phony_removes_nothing :
  c_report (clean_rules false Ex.g Ex.d [0%N]) = [] /\ c_disk (clean_rules false Ex.g Ex.d [0%N]) (Ex.p 5) = FFile.
Proof. exact ex_rule_phony_removes_nothing. Qed.

(* cleandead: what it removes has no producer (hence is no phony name) and no consumer *)
Theorem C18_no_source_no_phony_dead :
  forall (dry : bool) (g : graph) (d : disk) (entries : list path) (p : path),
    In p (c_report (clean_dead dry g d entries)) ->
    in_edge g p = None /\ has_out_edge g p = false /\
    ~ (exists e, In e (g_edges g) /\ e_phony e = true /\ In p (e_outs e)).
Proof. exact C18_dead_unreferenced. Qed.
Print Assumptions C18_no_source_no_phony_dead.

(* the hypothesis aux_paths_disjoint is needed: a depfile binding that names a source deletes it *)
Theorem C18_aux_overlap_removes_source :
  exists g d p, (node_exists g p = true /\ in_edge g p = None) /\ In p (c_report (clean_all false false g d)).
Proof. exact C18_aux_overlap_removes_source. Qed.
Print Assumptions C18_aux_overlap_removes_source.

Example C18_wf_nonvacuous : unique_producer Ex.g /\ aux_paths_disjoint Ex.g /\ outputs_nonempty Ex.g.
Proof. exact (wf_graph_b_sound Ex.g ex_wf). Qed.

Example C18_rules_nonvacuous :
  result (clean_rules false Ex.g Ex.d [7%N; 8%N]) = ([Ex.p 2; Ex.p 20; Ex.p 12; Ex.p 4; Ex.p 21], 5, false).
Proof. vm_compute. reflexivity. Qed.

(* ------------------------------------------------------------------------------------------------ *)
(* C18_generator: without -g, `clean` (no arguments) removes no generator output ... *)
Theorem C18_generator :
  forall (dry : bool) (g : graph) (d : disk) (p : path),
    unique_producer g -> aux_paths_disjoint g ->
    In p (c_report (clean_all dry false g d)) ->
    ~ (exists e, In e (g_edges g) /\ e_generator e = true /\ In p (e_outs e)).
Proof. exact C18_generator_all. Qed.
Print Assumptions C18_generator.

(* ... with -g it does ... *)
Theorem C18_generator_g :
  forall (dry : bool) (g : graph) (d : disk) (e : edge) (p : path),
    In e (g_edges g) -> e_phony e = false -> In p (e_outs e) -> d p = FFile ->
    In p (c_report (clean_all dry true g d)).
Proof. exact C18_generator_all_g. Qed.
Print Assumptions C18_generator_g.

(* ... and by-target / by-rule cleaning have no generator test at all: REFUTED with a well-formed
   witness (`clean all` deletes the generator output 1).  (Finding: the manual says
   generator outputs are "not cleaned by default".) *)
Theorem C18_generator_by_target_refuted :
  exists g d ts r p,
    wf_graph_b g = true /\
    clean_targets false g d ts = Some r /\
    (exists e, In e (g_edges g) /\ e_generator e = true /\ In p (e_outs e)) /\ In p (c_report r).
Proof. exact C18_generator_by_target_refuted. Qed.
Print Assumptions C18_generator_by_target_refuted.

Theorem C18_generator_by_rule_refuted :
  exists g d rs p,
    wf_graph_b g = true /\
    (exists e, In e (g_edges g) /\ e_generator e = true /\ In p (e_outs e)) /\
    In p (c_report (clean_rules false g d rs)).
Proof. exact C18_generator_by_rule_refuted. Qed.
Print Assumptions C18_generator_by_rule_refuted.

(* ------------------------------------------------------------------------------------------------ *)
(* C18_count: cleaned_files_count() = number of Report() calls *)
Theorem C18_count_all :
  forall (dry gen : bool) (g : graph) (d : disk),
    c_count (clean_all dry gen g d) = length (c_report (clean_all dry gen g d)).
Proof. exact C18_count_all. Qed.
Print Assumptions C18_count_all.

Theorem C18_count_targets :
  forall (dry : bool) (g : graph) (d : disk) (ts : list path) (r : cl),
    clean_targets dry g d ts = Some r -> c_count r = length (c_report r).
Proof. intros dry g d ts r. exact (C18_count_targets dry g d (default_fuel g) ts r). Qed.
Print Assumptions C18_count_targets.

Theorem C18_count_rules :
  forall (dry : bool) (g : graph) (d : disk) (rs : list N),
    c_count (clean_rules dry g d rs) = length (c_report (clean_rules dry g d rs)).
Proof. exact C18_count_rules. Qed.
Print Assumptions C18_count_rules.

Theorem C18_count_dead :
  forall (dry : bool) (g : graph) (d : disk) (entries : list path),
    c_count (clean_dead dry g d entries) = length (c_report (clean_dead dry g d entries)).
Proof. exact C18_count_dead. Qed.
Print Assumptions C18_count_dead.

(* ------------------------------------------------------------------------------------------------ *)
(* C18_idempotent: the same clean again, on the disk the first real run left: nothing reported,
   count 0, disk unchanged *)
Theorem C18_idempotent_all :
  forall (gen : bool) (g : graph) (d : disk),
    let r1 := clean_all false gen g d in
    let r2 := clean_all false gen g (c_disk r1) in
    c_report r2 = [] /\ c_count r2 = 0 /\ forall q, c_disk r2 q = c_disk r1 q.
Proof. exact C18_idempotent_all. Qed.
Print Assumptions C18_idempotent_all.

Theorem C18_idempotent_targets :
  forall (g : graph) (d : disk) (ts : list path) (r1 r2 : cl),
    clean_targets false g d ts = Some r1 -> clean_targets false g (c_disk r1) ts = Some r2 ->
    c_report r2 = [] /\ c_count r2 = 0 /\ forall q, c_disk r2 q = c_disk r1 q.
Proof. intros g d ts r1 r2. exact (C18_idempotent_targets g d (default_fuel g) ts r1 r2). Qed.
Print Assumptions C18_idempotent_targets.

Theorem C18_idempotent_rules :
  forall (g : graph) (d : disk) (rs : list N),
    let r1 := clean_rules false g d rs in
    let r2 := clean_rules false g (c_disk r1) rs in
    c_report r2 = [] /\ c_count r2 = 0 /\ forall q, c_disk r2 q = c_disk r1 q.
Proof. exact C18_idempotent_rules. Qed.
Print Assumptions C18_idempotent_rules.

Theorem C18_idempotent_dead :
  forall (g : graph) (d : disk) (entries : list path),
    let r1 := clean_dead false g d entries in
    let r2 := clean_dead false g (c_disk r1) entries in
    c_report r2 = [] /\ c_count r2 = 0 /\ forall q, c_disk r2 q = c_disk r1 q.
Proof. exact C18_idempotent_dead. Qed.
Print Assumptions C18_idempotent_dead.

(* ------------------------------------------------------------------------------------------------ *)
(* -n reports exactly what the real run removes (same files, same count) unless something in the
   scope exists but cannot be removed (then -n counts it and the real run sets the status) *)
Theorem C18_dry_run_faithful_all :
  forall (gen : bool) (g : graph) (d : disk),
    (forall p, all_scope gen g p -> d p <> FStuck) ->
    (forall p, In p (c_report (clean_all true gen g d)) <-> In p (c_report (clean_all false gen g d))) /\
    c_count (clean_all true gen g d) = c_count (clean_all false gen g d).
Proof. exact C18_dry_run_faithful_all. Qed.
Print Assumptions C18_dry_run_faithful_all.

Theorem C18_dry_run_faithful_targets :
  forall (g : graph) (d : disk) (ts : list path) (rd rr : cl),
    clean_targets true g d ts = Some rd -> clean_targets false g d ts = Some rr ->
    (forall p, target_scope g ts p -> d p <> FStuck) ->
    (forall p, In p (c_report rd) <-> In p (c_report rr)) /\ c_count rd = c_count rr.
Proof. intros g d ts rd rr. exact (C18_dry_run_faithful_targets g d (default_fuel g) ts rd rr). Qed.
Print Assumptions C18_dry_run_faithful_targets.

Theorem C18_dry_run_faithful_rules :
  forall (g : graph) (d : disk) (rs : list N),
    (forall p, rule_scope g rs p -> d p <> FStuck) ->
    (forall p, In p (c_report (clean_rules true g d rs)) <-> In p (c_report (clean_rules false g d rs))) /\
    c_count (clean_rules true g d rs) = c_count (clean_rules false g d rs).
Proof. exact C18_dry_run_faithful_rules. Qed.
Print Assumptions C18_dry_run_faithful_rules.

Theorem C18_dry_run_faithful_dead :
  forall (g : graph) (d : disk) (entries : list path),
    (forall p, dead_scope g entries p -> d p <> FStuck) ->
    (forall p, In p (c_report (clean_dead true g d entries)) <-> In p (c_report (clean_dead false g d entries))) /\
    c_count (clean_dead true g d entries) = c_count (clean_dead false g d entries).
Proof. exact C18_dry_run_faithful_dead. Qed.
Print Assumptions C18_dry_run_faithful_dead.

Example C18_dry_run_nonvacuous : forall p, Ex.d p <> FStuck.
Proof. intro p. unfold Ex.d, disk_of. cbn [mem_bytes]. destruct (mem_bytes p Ex.all_files); discriminate. Qed.

Example C18_dead_nonvacuous :
  result (clean_dead false Ex.g Ex.d [Ex.p 4; Ex.p 0; Ex.p 30; Ex.p 5; Ex.p 20]) = ([Ex.p 20], 1, false).
Proof. exact Ex.dead. Qed.
