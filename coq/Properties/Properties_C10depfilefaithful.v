(* C10 at HISTORY level, depfile-only statements, for the FAITHFUL build loop [fbuild_f]
   (Engine/HistDepfileFaithful.v: want map + Plan::CleanNode from the restat loop of
   Builder::FinishCommand) -- the loop the correspondence tool runs against the real engine -- next
   to HistDepfileDefs.fbuild, about which Properties_C10depfile.v speaks.
   Proofs: Engine/HistDepfileFaithfulProofs.v.  Every theorem is restated in full.

   Route: Plan::CleanNode reads neither the deps log nor a depfile, so [fbuild_f] on (g, fs) runs in
   lockstep, with the SAME plan/node state, with HistDepsFaithful.dbuild_f on the deps-log reading
   (to_log g, ds), [Sim g fs ds] (HistDepfileProofs: a depfile "out0: l" = a valid record), and the
   theorems of Properties_C10faithful.v carry over.  [Sim g fs ds] with [GoodD cmd (to_log g) hid ds]
   is available for every state with [FInv] and [no_udel] (ds := tr g fs) and for every state
   reached by a history without DeleteDepfile (HistDepfileProofs.hist_sim).

   Premises: those of Properties_C10depfile.v (wf_spec g, wf_graph g, frag_ABF g hid,
   topo_ordered (inline g hid), hidden_reads_ordered_f, no_restat_upstream_of_depfile,
   no_inputless_phony, hidden sources present / hist_present_f) and
     no_restat_above_depfile g hid    := HistDepsFaithfulProofs.no_restat_above_deps (to_log g) hid:
                                      no depfile-only statement has an input of ANY kind
                                      (order-only included) that a restat statement can reach.
   (3) FULL     [fbuild_f_never_out_of_fuel], [fbuild_f_accepts_iff] (+ the two corollaries).
   (1) PARTIAL  [fbuild_f_eq_fbuild_partial], hence [frun_hist_f_eq], [C10df_equiv_f], [C10df_C01_f].
       Missing for [fbuild_f_eq_fbuild_full] (the same without no_restat_above_depfile): exactly
       what is missing for HistDepsFaithfulProofs.dbuild_f_eq_dbuild_full -- a depfile-only
       statement with an order-only input below a restat statement IS looked at by CleanNode and is
       tested against fewer inputs (depfile not loaded) than in the inlined manifest; that both
       leave it in the plan needs the flag invariant of HistFaithfulProofs Part C for manifests with
       discovered dependencies.  [ExFDF_needs_presence]: the presence of the hidden sources cannot
       be dropped (the ExDF case with a depfile, computed). *)
From NinjaV Require Import Engine.CrashDefs.
From NinjaV Require Import Base.Bytes Engine.ScanDefs Engine.ScanSpec Engine.ScanProofs Engine.HistDefs Engine.HistProofs Engine.HistFaithful Engine.HistFaithfulProofs Engine.HistDepsDefs Engine.HistDepsProofs Engine.HistDepsFaithful Engine.HistDepsFaithfulProofs Engine.HistDepfileDefs Engine.HistDepfileProofs Engine.HistDepfileFaithful Engine.HistDepfileFaithfulProofs.
Local Open Scope Z_scope.

(* ---- the lockstep: the two faithful loops carry the same plan/node state *)
Theorem fbuild_f_lockstep :
  forall (cmd : edge -> N -> snapshot -> node -> content) (g : graph) (hid : edge -> list node)
         (s : sstate) (p : plan) (fs : fstate) (ds : dstate),
    d_h ds = f_h fs ->
  forall k : nat,
    match fbuild_upto_f cmd g hid s p k fs, dbuild_upto_f cmd (to_log g) hid s p k ds with
    | Some (fs', x), Some (ds', x') => x = x' /\ d_h ds' = f_h fs'
    | None, None => True
    | _, _ => False
    end.
Proof. exact lock_fd. Qed.
Print Assumptions fbuild_f_lockstep.

(* ---- (3) Plan::CleanNode's recursion never exhausts its fuel *)
Theorem fbuild_f_never_out_of_fuel :
  forall (cmd : edge -> N -> snapshot -> node -> content) (g : graph) (hid : edge -> list node),
    wf_spec g -> wf_graph g -> frag_ABF g hid = true -> topo_ordered (inline g hid) = true ->
  forall (fs : fstate) (ds : dstate) (T : list node) (s : sstate) (p : plan),
    Sim g fs ds -> GoodD cmd (to_log g) hid ds -> fscan g fs T = ScanOk s p ->
    exists fs' : fstate, fbuild_f cmd g hid fs T = Some fs'.
Proof. exact HistDepfileFaithfulProofs.fbuild_f_never_out_of_fuel. Qed.
Print Assumptions fbuild_f_never_out_of_fuel.

(* ---- both loops accept or both refuse *)
Theorem fbuild_f_accepts_iff :
  forall (cmd : edge -> N -> snapshot -> node -> content) (g : graph) (hid : edge -> list node),
    wf_spec g -> wf_graph g -> frag_ABF g hid = true -> topo_ordered (inline g hid) = true ->
  forall (fs : fstate) (ds : dstate) (T : list node),
    Sim g fs ds -> GoodD cmd (to_log g) hid ds ->
    (fbuild_f cmd g hid fs T = None <-> fbuild cmd g hid fs T = None).
Proof. exact HistDepfileFaithfulProofs.fbuild_f_accepts_iff. Qed.
Print Assumptions fbuild_f_accepts_iff.

Theorem fbuild_f_accepts_iff_inv :
  forall (cmd : edge -> N -> snapshot -> node -> content) (g : graph) (hid : edge -> list node),
    wf_spec g -> wf_graph g -> frag_ABF g hid = true -> topo_ordered (inline g hid) = true ->
  forall (fs : fstate) (T : list node),
    FInv cmd g hid fs -> no_udel fs ->
    (fbuild_f cmd g hid fs T = None <-> fbuild cmd g hid fs T = None).
Proof. exact HistDepfileFaithfulProofs.fbuild_f_accepts_iff_inv. Qed.
Print Assumptions fbuild_f_accepts_iff_inv.

Theorem fbuild_f_accepts_iff_hist :
  forall (cmd : edge -> N -> snapshot -> node -> content) (g : graph) (hid : edge -> list node),
    wf_spec g -> wf_graph g -> frag_ABF g hid = true -> topo_ordered (inline g hid) = true ->
  forall (h : list hstep) (T : list node),
    hist_ok g h = true ->
    (fbuild_f cmd g hid (frun_hist cmd g hid (init_fstate g) (map FS h)) T = None <->
     fbuild cmd g hid (frun_hist cmd g hid (init_fstate g) (map FS h)) T = None).
Proof. exact HistDepfileFaithfulProofs.fbuild_f_accepts_iff_hist. Qed.
Print Assumptions fbuild_f_accepts_iff_hist.

(* ---- (1) the two loops coincide *)
Theorem fbuild_f_eq_fbuild_partial :
  forall (cmd : edge -> N -> snapshot -> node -> content) (g : graph) (hid : edge -> list node),
    wf_spec g -> wf_graph g -> frag_ABF g hid = true -> topo_ordered (inline g hid) = true ->
    hidden_reads_ordered_f g hid = true -> no_restat_upstream_of_depfile g hid = true ->
    no_inputless_phony g = true -> no_restat_above_depfile g hid = true ->
  forall (fs : fstate) (ds : dstate) (T : list node),
    Sim g fs ds -> GoodD cmd (to_log g) hid ds ->
    hidden_srcs_present g hid (f_h fs) = true -> targets_known g T = true ->
    fbuild_f cmd g hid fs T = fbuild cmd g hid fs T.
Proof. exact HistDepfileFaithfulProofs.fbuild_f_eq_fbuild_partial. Qed.
Print Assumptions fbuild_f_eq_fbuild_partial.

Theorem frun_hist_f_eq :
  forall (cmd : edge -> N -> snapshot -> node -> content) (g : graph) (hid : edge -> list node),
    wf_spec g -> wf_graph g -> frag_ABF g hid = true -> topo_ordered (inline g hid) = true ->
    hidden_reads_ordered_f g hid = true -> no_restat_upstream_of_depfile g hid = true ->
    no_inputless_phony g = true -> no_restat_above_depfile g hid = true ->
  forall (h : list hstep) (fs : fstate) (ds : dstate),
    Sim g fs ds -> GoodD cmd (to_log g) hid ds ->
    hist_ok g h = true -> hist_present_f cmd g hid fs h = true ->
    frun_hist_f cmd g hid fs (map FS h) = frun_hist cmd g hid fs (map FS h).
Proof. exact HistDepfileFaithfulProofs.frun_hist_f_eq. Qed.
Print Assumptions frun_hist_f_eq.

(* the C10 depfile theorems for the faithful loop: same states as the inlined manifest ... *)
Theorem C10df_equiv_f :
  forall (cmd : edge -> N -> snapshot -> node -> content) (g : graph) (hid : edge -> list node),
    wf_spec g -> wf_graph g -> frag_ABF g hid = true -> topo_ordered (inline g hid) = true ->
    hidden_reads_ordered_f g hid = true -> no_restat_upstream_of_depfile g hid = true ->
    no_inputless_phony g = true -> no_restat_above_depfile g hid = true ->
  forall h : list hstep,
    hist_ok g h = true -> hist_present_f cmd g hid (init_fstate g) h = true ->
    f_h (frun_hist_f cmd g hid (init_fstate g) (map FS h)) =
    run_hist cmd (inline g hid) (init_hstate (inline g hid)) h.
Proof. exact HistDepfileFaithfulProofs.C10df_equiv_f. Qed.
Print Assumptions C10df_equiv_f.

(* ... and C01: the contents of a clean build of the ground truth (hidden reads included) *)
Theorem C10df_C01_f :
  forall (cmd : edge -> N -> snapshot -> node -> content) (g : graph) (hid : edge -> list node),
    wf_spec g -> wf_graph g -> frag_ABF g hid = true -> topo_ordered (inline g hid) = true ->
    hidden_reads_ordered_f g hid = true -> no_restat_upstream_of_depfile g hid = true ->
    no_inputless_phony g = true -> no_restat_above_depfile g hid = true ->
  forall (h : list hstep) (T : list node) (fs' : fstate),
    (forall (e : edge) (hh hh' : N) (S : snapshot) (o : node),
       ei_generator (g_edge g e) = true -> cmd e hh S o = cmd e hh' S o) ->
    hist_ok g h = true ->
    hist_present_f cmd g hid (init_fstate g) (h ++ [Build T]) = true ->
    fbuild_f cmd g hid (frun_hist_f cmd g hid (init_fstate g) (map FS h)) T = Some fs' ->
    forall n : node, reach (inline g hid) T n ->
      content_of (f_h fs') n = clean_of_f cmd g hid fs' n.
Proof. exact HistDepfileFaithfulProofs.C10df_C01_f. Qed.
Print Assumptions C10df_C01_f.

(* ---- non-vacuity *)
(* (1): HistDepfileDefs.ExF (depfile-only compile statement with the order-only + depfile idiom)
   satisfies every checkable premise, its history is legal and keeps the hidden sources present, the
   reached state has a deps-log reading with the invariant, and -- computed independently of the
   theorem -- the two loops give the same disk/log state and the same depfile *)
Example fbuild_f_eq_fbuild_nonvacuous :
  wf_spec ExF.g /\ wf_graph ExF.g /\
  frag_ABF ExF.g ExF.hid && topo_ordered (inline ExF.g ExF.hid) && hidden_reads_ordered_f ExF.g ExF.hid
  && no_restat_upstream_of_depfile ExF.g ExF.hid && no_inputless_phony ExF.g
  && no_restat_above_depfile ExF.g ExF.hid = true /\
  hist_ok ExF.g ExF.hist0 = true /\ hist_present_f ExF.cmd ExF.g ExF.hid ExF.fs0 ExF.hist0 = true /\
  (exists ds : dstate, Sim ExF.g (frun_hist ExF.cmd ExF.g ExF.hid ExF.fs0 ExF.hist) ds /\
                       GoodD ExF.cmd (to_log ExF.g) ExF.hid ds) /\
  f_h (frun_hist_f ExF.cmd ExF.g ExF.hid ExF.fs0 ExF.hist) = f_h (frun_hist ExF.cmd ExF.g ExF.hid ExF.fs0 ExF.hist) /\
  f_df (frun_hist_f ExF.cmd ExF.g ExF.hid ExF.fs0 ExF.hist) 1%nat = f_df (frun_hist ExF.cmd ExF.g ExF.hid ExF.fs0 ExF.hist) 1%nat.
Proof.
  destruct ExF_premises as [A [B [C [D E]]]].
  split; [exact HistDepfileProofs.ExF_wf_spec|]. split; [exact HistDepfileProofs.ExF_wf_graph|].
  split; [exact A|]. split; [exact B|]. split; [exact C|]. split; [|split; [exact D|exact E]].
  destruct (hist_sim ExF.cmd ExF.g ExF.hid HistDepfileProofs.ExF_wf_spec HistDepfileProofs.ExF_wf_graph
              ltac:(vm_compute; reflexivity) ltac:(vm_compute; reflexivity)
              ExF.hist0 ExF.fs0 (init_dstate (to_log ExF.g)) (sim_init ExF.g) (goodd_init ExF.cmd (to_log ExF.g) ExF.hid) B)
    as [HS [HG _]].
  eexists. split; [exact HS|exact HG].
Qed.

(* the side condition of (1): HistDepfileFaithful.ExFDF -- build gen: r0 src (restat, depfile,
   hidden read h) / build out: r1 gen; build, remove h, build -- satisfies every premise of (1)
   EXCEPT the presence of the hidden sources; both loops accept the third build; fbuild_f runs gen
   only, fbuild runs gen and out; the contents agree *)
Example ExFDF_needs_presence :
  wf_spec ExFDF.g /\ wf_graph ExFDF.g /\
  frag_ABF ExFDF.g ExFDF.hid && topo_ordered (inline ExFDF.g ExFDF.hid) && hidden_reads_ordered_f ExFDF.g ExFDF.hid
  && no_restat_upstream_of_depfile ExFDF.g ExFDF.hid && no_inputless_phony ExFDF.g
  && no_restat_above_depfile ExFDF.g ExFDF.hid = true /\
  hist_ok ExFDF.g ExFDF.pre0 = true /\
  hidden_srcs_present ExFDF.g ExFDF.hid (f_h ExFDF.fs2) = false /\
  (exists fsf fsu, fbuild_f Ex.cmd ExFDF.g ExFDF.hid ExFDF.fs2 [3%nat] = Some fsf /\
                   fbuild Ex.cmd ExFDF.g ExFDF.hid ExFDF.fs2 [3%nat] = Some fsu /\
                   h_trace (f_h fsf) = [0%nat] ++ h_trace (f_h ExFDF.fs2) /\
                   h_trace (f_h fsu) = [1; 0]%nat ++ h_trace (f_h ExFDF.fs2) /\
                   map (content_of (f_h fsf)) [0; 1; 2; 3]%nat = map (content_of (f_h fsu)) [0; 1; 2; 3]%nat).
Proof.
  destruct HistDepfileFaithfulProofs.ExFDF_needs_presence as [A [B [C D]]].
  split; [exact ExFDF_wf_spec|]. split; [exact ExFDF_wf_graph|]. split; [exact A|]. split; [exact B|]. split; [exact C|exact D].
Qed.

(* the example of HistDepfileFaithful.v, as it is there *)
Example faithful_prunes_below_missing_dep :
  frag_ABF ExFDF.g ExFDF.hid = true /\ ExFDF.fs2f = ExFDF.fs2 /\
  h_trace (f_h ExFDF.fs2) = [1; 0; 1; 0]%nat /\ f_df ExFDF.fs2 0%nat = Some [1%nat] /\
  hidden_srcs_present ExFDF.g ExFDF.hid (f_h ExFDF.fs2) = false /\
  h_trace (f_h (fapply_step Ex.cmd ExFDF.g ExFDF.hid ExFDF.fs2 (FS (Build [3%nat])))) = [1; 0; 1; 0; 1; 0]%nat /\
  h_trace (f_h (fapply_step_f Ex.cmd ExFDF.g ExFDF.hid ExFDF.fs2 (FS (Build [3%nat])))) = [0; 1; 0; 1; 0]%nat /\
  map (content_of (f_h (fapply_step Ex.cmd ExFDF.g ExFDF.hid ExFDF.fs2 (FS (Build [3%nat]))))) [0; 1; 2; 3]%nat
  = map (content_of (f_h (fapply_step_f Ex.cmd ExFDF.g ExFDF.hid ExFDF.fs2 (FS (Build [3%nat]))))) [0; 1; 2; 3]%nat /\
  f_df (fapply_step Ex.cmd ExFDF.g ExFDF.hid ExFDF.fs2 (FS (Build [3%nat]))) 0%nat
  = f_df (fapply_step_f Ex.cmd ExFDF.g ExFDF.hid ExFDF.fs2 (FS (Build [3%nat]))) 0%nat.
Proof. exact ExFDF.faithful_prunes_below_missing_dep. Qed.
