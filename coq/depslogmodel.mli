
val negb : bool -> bool

type nat =
| O
| S of nat

val fst : ('a1 * 'a2) -> 'a1

val snd : ('a1 * 'a2) -> 'a2

val length : 'a1 list -> nat

val app : 'a1 list -> 'a1 list -> 'a1 list

type comparison =
| Eq
| Lt
| Gt

val compOpp : comparison -> comparison

val add : nat -> nat -> nat

val sub : nat -> nat -> nat

module Nat :
 sig
  val sub : nat -> nat -> nat

  val eqb : nat -> nat -> bool

  val divmod : nat -> nat -> nat -> nat -> nat * nat

  val modulo : nat -> nat -> nat
 end

val nth_error : 'a1 list -> nat -> 'a1 option

val rev : 'a1 list -> 'a1 list

val rev_append : 'a1 list -> 'a1 list -> 'a1 list

val map : ('a1 -> 'a2) -> 'a1 list -> 'a2 list

val flat_map : ('a1 -> 'a2 list) -> 'a1 list -> 'a2 list

val existsb : ('a1 -> bool) -> 'a1 list -> bool

val forallb : ('a1 -> bool) -> 'a1 list -> bool

val combine : 'a1 list -> 'a2 list -> ('a1 * 'a2) list

val firstn : nat -> 'a1 list -> 'a1 list

val repeat : 'a1 -> nat -> 'a1 list

type positive =
| XI of positive
| XO of positive
| XH

type n =
| N0
| Npos of positive

type z =
| Z0
| Zpos of positive
| Zneg of positive

module Pos :
 sig
  type mask =
  | IsNul
  | IsPos of positive
  | IsNeg
 end

module Coq_Pos :
 sig
  val succ : positive -> positive

  val add : positive -> positive -> positive

  val add_carry : positive -> positive -> positive

  val pred_double : positive -> positive

  type mask = Pos.mask =
  | IsNul
  | IsPos of positive
  | IsNeg

  val succ_double_mask : mask -> mask

  val double_mask : mask -> mask

  val double_pred_mask : positive -> mask

  val sub_mask : positive -> positive -> mask

  val sub_mask_carry : positive -> positive -> mask

  val mul : positive -> positive -> positive

  val compare_cont : comparison -> positive -> positive -> comparison

  val compare : positive -> positive -> comparison

  val eqb : positive -> positive -> bool

  val iter_op : ('a1 -> 'a1 -> 'a1) -> positive -> 'a1 -> 'a1

  val to_nat : positive -> nat

  val of_succ_nat : nat -> positive
 end

module N :
 sig
  val succ_double : n -> n

  val double : n -> n

  val succ : n -> n

  val add : n -> n -> n

  val sub : n -> n -> n

  val mul : n -> n -> n

  val compare : n -> n -> comparison

  val eqb : n -> n -> bool

  val leb : n -> n -> bool

  val ltb : n -> n -> bool

  val pos_div_eucl : positive -> n -> n * n

  val div_eucl : n -> n -> n * n

  val div : n -> n -> n

  val modulo : n -> n -> n

  val to_nat : n -> nat

  val of_nat : nat -> n
 end

module Z :
 sig
  val double : z -> z

  val succ_double : z -> z

  val pred_double : z -> z

  val pos_sub : positive -> positive -> z

  val add : z -> z -> z

  val opp : z -> z

  val sub : z -> z -> z

  val mul : z -> z -> z

  val compare : z -> z -> comparison

  val leb : z -> z -> bool

  val ltb : z -> z -> bool

  val eqb : z -> z -> bool

  val to_N : z -> n

  val of_N : n -> z

  val pos_div_eucl : positive -> z -> z * z

  val div_eucl : z -> z -> z * z

  val div : z -> z -> z

  val modulo : z -> z -> z
 end

type byte = n

type bytes = byte list

val bytes_eqb : bytes -> bytes -> bool

val mem_bytes : bytes -> bytes list -> bool

val two31 : n

val two32 : n

val le32 : n -> bytes

val rd32 : bytes -> (n * bytes) option

val s32 : n -> z

val u32 : z -> n

val lnot32 : n -> n

val s64 : n -> z

val mtime_lo : z -> n

val mtime_hi : z -> n

val deps_signature : bytes

val kCurrentVersion : n

val deps_header : bytes

val kMaxRecordSize : n

val padding : nat -> nat

val enc_path_record : n -> bytes -> bytes

val enc_deps_record : n -> z -> n list -> bytes

type dstate = { d_paths : bytes list; d_deps : (n * (z * n list)) list }

val d_empty : dstate

val add_path : dstate -> bytes -> dstate

val add_deps : dstate -> n -> z -> n list -> dstate

val lookup : n -> (n * (z * n list)) list -> (z * n list) option

val index_of : bytes -> bytes list -> n option

val nlen : 'a1 list -> n

type dload =
| DBadHeader
| DOk of dstate * nat option * bool
| DUnsafe of nat
| DFuel

val take : nat -> bytes -> (bytes * bytes) option

type frame_res =
| FEof
| FTorn
| FFail
| FRec of bool * n * bytes * bytes

val frame : bytes -> frame_res

val words_of : bytes -> n list

type ids_res =
| IdsOk
| IdsFail
| IdsUnsafe

val check_ids : n -> n list -> ids_res

val strip_step : bytes -> bytes option

val strip3 : bytes -> bytes option

val frev : bytes -> bytes

type dec_res =
| RFail
| RUnsafe of nat
| RPath of bytes
| RDeps of n * z * n list

type rmode =
| RdOld of bool
| RdCur

val decode_old : bool -> bytes list -> bool -> n -> bytes -> dec_res

val check_ids_cur : n -> n list -> bool

val decode_cur : bytes list -> bool -> n -> bytes -> dec_res

val decode : rmode -> bytes list -> bool -> n -> bytes -> dec_res

type lstate = { l_s : dstate; l_off : n; l_total : n; l_unique : n }

val l_add_path : lstate -> bytes -> n -> lstate

val l_add_deps : lstate -> n -> z -> n list -> n -> lstate

val needs_recompaction : n -> n -> bool

val load_loop : bool -> rmode -> nat -> lstate -> bytes -> dload

val l_init : lstate

val load_deps_ver : bool -> rmode -> bytes -> dload

val load_deps_gen : bool -> bytes -> dload

val load_deps : bytes -> dload

val load_deps_x86 : bytes -> dload

type dop =
| RecordDeps of bytes * z * bytes list

val record_id : dstate -> bytes -> (dstate * bytes) option

val ensure_ids :
  dstate -> bytes list -> bytes -> bool -> ((dstate * bytes) * bool) * bool

val ids_of : bytes list -> bytes list -> n list

val same_deps : (z * n list) -> (z * n list) -> bool

val record_deps : dstate -> dop -> (dstate * bytes) * bool

val run_ops : dstate -> dop list -> (dstate * bytes) * bool

val nseq : n -> nat -> n list

val resolve : bytes list -> n list -> bytes list option

type recompact_res =
| CUnsafe of nat
| CFail
| COk of dstate * bytes

val recompact_ops : (bytes -> bool) -> dstate -> n list -> dop list option

val recompact_r : (bytes -> bool) -> dstate -> recompact_res

val session_ver :
  bool -> rmode -> (bytes -> bool) -> bytes -> dop list -> bytes

val session_gen : bool -> (bytes -> bool) -> bytes -> dop list -> bytes

val session : (bytes -> bool) -> bytes -> dop list -> bytes

val apply_ops : bytes -> dop list -> bytes

val recompact_file : (bytes -> bool) -> bytes -> bytes

val view : dstate -> bytes -> (z * bytes option list) option

val abstract_ops : dop list -> bytes -> (z * bytes list) option

val spec_view : (z * bytes list) option -> (z * bytes option list) option

val wf_path : bytes -> bool

val wf_mtime : z -> bool

val wf_op : dop -> bool

val short_all_nul : bytes -> bool

val record_safe : bool -> ((bool * n) * bytes) -> bool

val frames_of : nat -> bytes -> ((bool * n) * bytes) list

val safe_file : bool -> bytes -> bool
