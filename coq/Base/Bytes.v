(* Shared conventions: a byte is an [N] below 256; strings of the code are byte lists. *)
From Coq Require Export List NArith ZArith Bool Lia.
Export ListNotations.
Local Open Scope N_scope.

Definition byte := N.
Definition bytes := list byte.

Definition wf_byte (b : byte) : bool := N.ltb b 256.
Definition wf_bytes (s : bytes) : bool := forallb wf_byte s.

Fixpoint bytes_eqb (a b : bytes) : bool :=
  match a, b with
  | [], [] => true
  | x :: a', y :: b' => N.eqb x y && bytes_eqb a' b'
  | _, _ => false
  end.

Lemma bytes_eqb_spec a b : reflect (a = b) (bytes_eqb a b).
Proof.
  revert b; induction a as [|x a IH]; intros [|y b]; cbn [bytes_eqb];
    try (constructor; congruence).
  destruct (N.eqb_spec x y) as [->|Hne]; cbn [andb].
  - destruct (IH b) as [->|Hne]; constructor; congruence.
  - constructor; congruence.
Qed.

Lemma bytes_eqb_eq a b : bytes_eqb a b = true <-> a = b.
Proof. destruct (bytes_eqb_spec a b); split; congruence. Qed.

Lemma bytes_eqb_refl a : bytes_eqb a a = true.
Proof. apply bytes_eqb_eq; reflexivity. Qed.

Definition bytes_eq_dec (a b : bytes) : {a = b} + {a <> b}.
Proof. destruct (bytes_eqb_spec a b); [left|right]; assumption. Defined.

Fixpoint mem_bytes (x : bytes) (l : list bytes) : bool :=
  match l with
  | [] => false
  | y :: l' => bytes_eqb x y || mem_bytes x l'
  end.

Lemma mem_bytes_In x l : mem_bytes x l = true <-> In x l.
Proof.
  induction l as [|y l IH]; cbn [mem_bytes In]; [split; [discriminate|tauto]|].
  rewrite orb_true_iff, IH, bytes_eqb_eq. split; intros [H|H]; auto.
Qed.

(* A few named byte values used across models. *)
Definition b_nul : byte := 0.
Definition b_tab : byte := 9.
Definition b_lf : byte := 10.
Definition b_cr : byte := 13.
Definition b_sp : byte := 32.
Definition b_slash : byte := 47.
Definition b_dot : byte := 46.
Definition b_bslash : byte := 92.
Definition b_colon : byte := 58.
Definition b_dollar : byte := 36.
Definition b_hash : byte := 35.
Definition b_squote : byte := 39.
Definition b_dquote : byte := 34.
