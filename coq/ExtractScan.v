(* Extraction of the dependency-scan model into its own OCaml module. *)
Require Import ExtrOcamlBasic.
From NinjaV Require Import Base.Bytes Engine.ScanDefs.
Extraction Language OCaml.
Set Extraction KeepSingleton.
Extraction "scanmodel.ml" Z.add N.add Nat.add scan.
