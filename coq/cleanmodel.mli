
val negb : bool -> bool

type nat =
| O
| S of nat

val length : 'a1 list -> nat

val app : 'a1 list -> 'a1 list -> 'a1 list

val rev : 'a1 list -> 'a1 list

val flat_map : ('a1 -> 'a2 list) -> 'a1 list -> 'a2 list

val fold_left : ('a1 -> 'a2 -> 'a1) -> 'a2 list -> 'a1 -> 'a1

val existsb : ('a1 -> bool) -> 'a1 list -> bool

val find : ('a1 -> bool) -> 'a1 list -> 'a1 option

type positive =
| XI of positive
| XO of positive
| XH

type n =
| N0
| Npos of positive

module Pos :
 sig
  val eqb : positive -> positive -> bool
 end

module N :
 sig
  val eqb : n -> n -> bool
 end

type byte = n

type bytes = byte list

val bytes_eqb : bytes -> bytes -> bool

val mem_bytes : bytes -> bytes list -> bool

type path = bytes

type edge = { e_outs : path list; e_ins : path list; e_vals : path list;
              e_phony : bool; e_generator : bool; e_rule : n;
              e_depfile : path option; e_rspfile : path option }

type graph = { g_edges : edge list; g_rules : n list;
               g_extra_nodes : path list }

type fkind =
| FAbsent
| FFile
| FStuck

type disk = path -> fkind

type cl = { c_removed : path list; c_cleaned : path list; c_count : nat;
            c_status : bool; c_disk : disk; c_report : path list }

val c_removed : cl -> path list

val c_cleaned : cl -> path list

val c_disk : cl -> disk

val reset : disk -> cl

val set_status : cl -> cl

val mark_cleaned : path -> cl -> cl

val disk_remove : disk -> path -> disk

val remove : bool -> path -> cl -> cl

val remove_opt : bool -> path option -> cl -> cl

val remove_edge_files : bool -> edge -> cl -> cl

val remove_list : bool -> path list -> cl -> cl

val clean_edge : bool -> edge -> cl -> cl

val in_edge : graph -> path -> edge option

val has_out_edge : graph -> path -> bool

val node_exists : graph -> path -> bool

val clean_all_edge : bool -> bool -> cl -> edge -> cl

val clean_all : bool -> bool -> graph -> disk -> cl

val clean_inputs : (path -> cl -> cl option) -> path list -> cl -> cl option

val do_clean_target : nat -> bool -> graph -> path -> cl -> cl option

val clean_targets_loop : nat -> bool -> graph -> path list -> cl -> cl option

val default_fuel : graph -> nat

val clean_targets_fuel :
  nat -> bool -> graph -> disk -> path list -> cl option

val clean_targets : bool -> graph -> disk -> path list -> cl option

val clean_rule_edge : bool -> n -> cl -> edge -> cl

val do_clean_rule : bool -> graph -> n -> cl -> cl

val mem_N : n -> n list -> bool

val clean_rules_step : bool -> graph -> cl -> n -> cl

val clean_rules : bool -> graph -> disk -> n list -> cl

val is_dead : graph -> path -> bool

val clean_dead_step : bool -> graph -> cl -> path -> cl

val clean_dead : bool -> graph -> disk -> path list -> cl

val disk_of : path list -> path list -> disk

val result : cl -> (path list * nat) * bool
