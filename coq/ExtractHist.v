(* Extraction of the history-level model (Engine/HistDefs.v) with the concrete command function of
   Engine/HistRun.v into its own OCaml module; driver: extract/hist_run.ml, tools/histmodel.py. *)
Require Import ExtrOcamlBasic.
From NinjaV Require Import Engine.CrashDefs.
From NinjaV Require Import Base.Bytes Engine.ScanDefs Engine.ScanSpec Engine.HistDefs Engine.HistRun.
Extraction Language OCaml.
Set Extraction KeepSingleton.
Extraction "histmodel.ml" Z.add N.add Nat.add hcmd init_hstate apply_step run_hist build step_run hist_ok frag_AB topo_ordered no_inputless_phony wf_b clean_of content_of is_clean opt_content_eqb h_trace trace_delta.
