(* Extraction of the history-level model (Engine/HistDefs.v) with the concrete command function of
   Engine/HistRun.v, of the dry-run model (Engine/HistDry.v) and of the failing-command model
   (Engine/HistFailDefs.v) into one OCaml module; driver: extract/hist_run.ml, tools/histmodel.py. *)
Require Import ExtrOcamlBasic.
From NinjaV Require Import Engine.CrashDefs.
From NinjaV Require Import Base.Bytes Engine.ScanDefs Engine.ScanSpec Engine.HistDefs Engine.HistRun Engine.HistDry Engine.HistFaithful Engine.HistFailDefs Engine.HistCrashDefs Engine.HistDepsDefs Engine.HistDepsFaithful Engine.HistParDefs Engine.HistParPoolDefs Engine.HistDepfileDefs Engine.HistFailFaithful Engine.HistDepfileFaithful Engine.HistFailKDefs Engine.HistDyndepDefs Engine.HistFailKFaithful Engine.HistDyndepFaithful.
Extraction Language OCaml.
Set Extraction KeepSingleton.
Extraction "histmodel.ml" Z.add N.add Nat.add hcmd init_hstate apply_step run_hist build step_run hist_ok frag_AB topo_ordered no_inputless_phony wf_b clean_of content_of is_clean opt_content_eqb h_trace HistRun.trace_delta dry_build buildF buildF_full taint_safe init_dstate dapply_step dbuild clean_of_d d_h d_deps frag_ABD inline hidden_reads_ordered no_restat_upstream_of_deps hist_present drop_deps build_f apply_step_f dbuild_f dapply_step_f buildK_full buildI_full taint_safe_stmt reads par_run par_accepted par_run_pool par_accepted_pool pool_of_list depth_of_list init_pcfg graph_of world_of scan init_fstate fapply_step fbuild f_ds f_df f_h clean_of_f frag_ABF to_log hist_present_f HistDepfileDefs.fhist_ok flift buildF_full_f buildK_full_f buildI_full_f fbuild_f buildFK HistFailKDefs.failed_edges ybuild ybuild_f inline_y scan_loads frag_ABY dd_ins_ordered no_late_restat all_dd_sources hist_present_y buildFK_f ybuild_ff.
