(* C14: proofs about the model of CanonicalizePath.
   Everything is Qed-closed; Print Assumptions (in Properties/Properties_C14.v) reports
   "Closed under the global context" for every property theorem. *)
From NinjaV Require Import Base.Bytes Canon.CanonDefs Canon.CanonSpec.
From Coq Require Import Relations.
Local Open Scope N_scope.

(* ------------------------------------------------------------------ *)
(** * Component classes *)

Lemma is_dot_true c : is_dot c = true <-> c = [b_dot].
Proof. unfold is_dot. apply bytes_eqb_eq. Qed.

Lemma is_dotdot_true c : is_dotdot c = true <-> c = dd.
Proof. unfold is_dotdot, dd. apply bytes_eqb_eq. Qed.

Lemma is_empty_true c : is_empty c = true <-> c = [].
Proof. destruct c as [|x c]; cbn [is_empty]; split; congruence. Qed.

Lemma ordinary_true c :
  ordinary c = true <-> is_empty c = false /\ is_dot c = false /\ is_dotdot c = false.
Proof.
  unfold ordinary. rewrite !andb_true_iff, !negb_true_iff. tauto.
Qed.

Lemma ordinary_nonempty c : ordinary c = true -> c <> [].
Proof.
  intros H ->. apply ordinary_true in H. destruct H as [H _]. discriminate H.
Qed.

Lemma is_empty_dd : is_empty dd = false. Proof. reflexivity. Qed.
Lemma is_dot_dd : is_dot dd = false. Proof. reflexivity. Qed.
Lemma is_dotdot_dd : is_dotdot dd = true. Proof. reflexivity. Qed.

(* the four-way case split every step function makes *)
Inductive comp_class (c : bytes) : Prop :=
| cc_empty : c = [] -> comp_class c
| cc_dot : c = [b_dot] -> comp_class c
| cc_dotdot : c = dd -> comp_class c
| cc_ord : is_empty c = false -> is_dot c = false -> is_dotdot c = false ->
           ordinary c = true -> comp_class c.

Lemma classify c : comp_class c.
Proof.
  destruct (is_empty c) eqn:He.
  { apply cc_empty. apply is_empty_true; exact He. }
  destruct (is_dot c) eqn:Hd.
  { apply cc_dot. apply is_dot_true; exact Hd. }
  destruct (is_dotdot c) eqn:Hdd.
  { apply cc_dotdot. apply is_dotdot_true; exact Hdd. }
  apply cc_ord; try assumption. apply ordinary_true. auto.
Qed.

(* ------------------------------------------------------------------ *)
(** * [nf_step] equations *)

Lemma nf_step_empty st : nf_step st [] = st.
Proof. reflexivity. Qed.

Lemma nf_step_dot st : nf_step st [b_dot] = st.
Proof. reflexivity. Qed.

Lemma nf_step_dd_nil : nf_step [] dd = [dd].
Proof. reflexivity. Qed.

Lemma nf_step_dd_cons t st :
  nf_step (t :: st) dd = if is_dotdot t then dd :: t :: st else st.
Proof. reflexivity. Qed.

Lemma nf_step_ord st c : ordinary c = true -> nf_step st c = c :: st.
Proof.
  intros H. apply ordinary_true in H. destruct H as (He & Hd & Hdd).
  unfold nf_step. rewrite He, Hd, Hdd. reflexivity.
Qed.

Lemma ordinary_not_dotdot c : ordinary c = true -> is_dotdot c = false.
Proof. intros H. apply ordinary_true in H. tauto. Qed.

(* ------------------------------------------------------------------ *)
(** * The rewrite relation and [nf] *)

Lemma nf_app a b : nf (a ++ b) = rev (fold_left nf_step b (fold_left nf_step a [])).
Proof. unfold nf. rewrite fold_left_app. reflexivity. Qed.

Lemma fold_nf_rw_invariant a b :
  rw a b -> forall st, fold_left nf_step a st = fold_left nf_step b st.
Proof.
  intros H st. destruct H as [l1 l2 | l1 l2 | l1 x l2 Hx].
  - rewrite !fold_left_app. reflexivity.
  - rewrite !fold_left_app. reflexivity.
  - rewrite !fold_left_app. cbn [fold_left].
    rewrite (nf_step_ord _ x Hx). rewrite nf_step_dd_cons.
    rewrite (ordinary_not_dotdot x Hx). reflexivity.
Qed.

Theorem nf_rw_invariant a b : rw a b -> nf a = nf b.
Proof. intros H. unfold nf. rewrite (fold_nf_rw_invariant a b H). reflexivity. Qed.

(* stacks the fold can reach contain no empty and no "." component *)
Definition live (c : bytes) : Prop := is_empty c = false /\ is_dot c = false.

Lemma live_dd : live dd.
Proof. split; reflexivity. Qed.

Lemma live_ord c : ordinary c = true -> live c.
Proof. intros H. apply ordinary_true in H. unfold live. tauto. Qed.

Lemma live_not_dotdot_ordinary t : live t -> is_dotdot t = false -> ordinary t = true.
Proof. intros [He Hd] Hdd. apply ordinary_true. auto. Qed.

Lemma nf_step_live st c : Forall live st -> Forall live (nf_step st c).
Proof.
  intros Hst. destruct (classify c) as [->| ->| ->|He Hd Hdd Ho].
  - exact Hst.
  - exact Hst.
  - destruct st as [|t st'].
    + rewrite nf_step_dd_nil. constructor; [exact live_dd|constructor].
    + rewrite nf_step_dd_cons. destruct (is_dotdot t).
      * constructor; [exact live_dd|exact Hst].
      * inversion Hst; assumption.
  - rewrite (nf_step_ord _ _ Ho). constructor; [apply live_ord; exact Ho|exact Hst].
Qed.

Lemma rw_to_fold a : forall st, Forall live st ->
  clos_refl_trans _ rw (rev st ++ a) (rev (fold_left nf_step a st)).
Proof.
  induction a as [|c a IH]; intros st Hst.
  - cbn [fold_left]. rewrite app_nil_r. apply rt_refl.
  - cbn [fold_left].
    assert (Hlive : Forall live (nf_step st c)) by (apply nf_step_live; exact Hst).
    apply rt_trans with (y := rev (nf_step st c) ++ a); [|apply IH; exact Hlive].
    destruct (classify c) as [->| ->| ->|He Hd Hdd Ho].
    + rewrite nf_step_empty. apply rt_step. apply (rw_empty (rev st) a).
    + rewrite nf_step_dot. apply rt_step. apply (rw_dot (rev st) a).
    + destruct st as [|t st'].
      * rewrite nf_step_dd_nil. apply rt_refl.
      * rewrite nf_step_dd_cons. destruct (is_dotdot t) eqn:Ht.
        -- cbn [rev]. rewrite <- !app_assoc. apply rt_refl.
        -- cbn [rev]. rewrite <- app_assoc. apply rt_step.
           apply (rw_dotdot (rev st') t a).
           apply live_not_dotdot_ordinary; [|exact Ht].
           inversion Hst; assumption.
    + rewrite (nf_step_ord _ _ Ho). cbn [rev]. rewrite <- app_assoc. apply rt_refl.
Qed.

Theorem rw_to_nf a : clos_refl_trans _ rw a (nf a).
Proof. apply (rw_to_fold a [] (Forall_nil _)). Qed.

Lemma crt_to_crst (a b : list bytes) :
  clos_refl_trans _ rw a b -> lex_equiv_comps a b.
Proof.
  intros H. induction H as [x y H|x|x y z _ IH1 _ IH2].
  - apply rst_step; exact H.
  - apply rst_refl.
  - apply rst_trans with y; assumption.
Qed.

Theorem nf_complete a b : lex_equiv_comps a b <-> nf a = nf b.
Proof.
  split.
  - intros H. induction H as [x y H|x|x y _ IH|x y z _ IH1 _ IH2].
    + apply nf_rw_invariant; exact H.
    + reflexivity.
    + symmetry; exact IH.
    + congruence.
  - intros H. apply rst_trans with (nf a).
    + apply crt_to_crst, rw_to_nf.
    + rewrite H. apply rst_sym. apply crt_to_crst, rw_to_nf.
Qed.

(* ------------------------------------------------------------------ *)
(** * Splitting and joining at '/' *)

Lemma split_slash_aux_hd_tl s : forall cur,
  split_slash_aux cur s = (rev cur ++ hd [] (split_slash s)) :: tl (split_slash s).
Proof.
  induction s as [|c s IH]; intros cur.
  - cbn. rewrite app_nil_r. reflexivity.
  - unfold split_slash. cbn [split_slash_aux].
    destruct (N.eqb c b_slash).
    + cbn. rewrite app_nil_r. reflexivity.
    + rewrite (IH (c :: cur)), (IH [c]). cbn [hd tl rev app].
      rewrite <- app_assoc. reflexivity.
Qed.

Lemma split_slash_nil : split_slash [] = [[]].
Proof. reflexivity. Qed.

Lemma split_slash_slash s : split_slash (b_slash :: s) = [] :: split_slash s.
Proof. reflexivity. Qed.

Lemma split_slash_other c s : c <> b_slash ->
  split_slash (c :: s) = (c :: hd [] (split_slash s)) :: tl (split_slash s).
Proof.
  intros Hc. unfold split_slash at 1. cbn [split_slash_aux].
  destruct (N.eqb_spec c b_slash) as [E|_]; [contradiction|].
  rewrite split_slash_aux_hd_tl. reflexivity.
Qed.

Lemma split_slash_nonempty s : split_slash s <> [].
Proof.
  destruct s as [|c s]; [discriminate|].
  destruct (N.eq_dec c b_slash) as [->|Hc].
  - rewrite split_slash_slash. discriminate.
  - rewrite (split_slash_other c s Hc). discriminate.
Qed.

Lemma split_slash_slashfree s : Forall slashfree (split_slash s).
Proof.
  induction s as [|c s IH].
  - constructor; [intros []|constructor].
  - destruct (N.eq_dec c b_slash) as [->|Hc].
    + rewrite split_slash_slash. constructor; [intros []|exact IH].
    + rewrite (split_slash_other c s Hc).
      destruct (split_slash s) as [|h t]; cbn [hd tl].
      * constructor; [|constructor]. intros [E|[]]. congruence.
      * inversion IH as [|h' t' Hh Ht]; subst. constructor; [|exact Ht].
        intros [E|Hin]; [congruence|exact (Hh Hin)].
Qed.

Lemma split_slash_comp c s : slashfree c ->
  split_slash (c ++ b_slash :: s) = c :: split_slash s.
Proof.
  induction c as [|x c IH]; intros Hc.
  - reflexivity.
  - cbn [app]. rewrite split_slash_other.
    + rewrite IH; [reflexivity|]. intros Hin. apply Hc. right. exact Hin.
    + intros ->. apply Hc. left. reflexivity.
Qed.

Lemma split_slash_single c : slashfree c -> split_slash c = [c].
Proof.
  induction c as [|x c IH]; intros Hc.
  - reflexivity.
  - rewrite split_slash_other.
    + rewrite IH; [reflexivity|]. intros Hin. apply Hc. right. exact Hin.
    + intros ->. apply Hc. left. reflexivity.
Qed.

Lemma join_slash_cons2 x l : l <> [] -> join_slash (x :: l) = x ++ b_slash :: join_slash l.
Proof. destruct l as [|y l]; [congruence|reflexivity]. Qed.

Lemma join_slash_head x c l : join_slash ((x :: c) :: l) = x :: join_slash (c :: l).
Proof. destruct l as [|y l]; reflexivity. Qed.

Lemma split_join n : n <> [] -> Forall slashfree n -> split_slash (join_slash n) = n.
Proof.
  induction n as [|c n IH]; intros Hn Hsf; [congruence|].
  inversion Hsf as [|c' n' Hc Hrest]; subst.
  destruct n as [|y n].
  - cbn [join_slash]. apply split_slash_single; exact Hc.
  - rewrite join_slash_cons2 by discriminate.
    rewrite split_slash_comp by exact Hc.
    rewrite IH; [reflexivity|discriminate|exact Hrest].
Qed.

(* total length, counting one separator per component *)
Fixpoint W (l : list bytes) : nat :=
  match l with [] => O | c :: l' => S (length c + W l') end.

Lemma W_app a b : W (a ++ b) = (W a + W b)%nat.
Proof. induction a as [|c a IH]; cbn [W app]; [reflexivity|rewrite IH; lia]. Qed.

Lemma W_rev a : W (rev a) = W a.
Proof.
  induction a as [|c a IH]; [reflexivity|].
  cbn [rev]. rewrite W_app, IH. cbn [W]. lia.
Qed.

Lemma W_split s : W (split_slash s) = S (length s).
Proof.
  induction s as [|c s IH]; [reflexivity|].
  destruct (N.eq_dec c b_slash) as [->|Hc].
  - rewrite split_slash_slash. cbn [W length]. rewrite IH. lia.
  - rewrite (split_slash_other c s Hc).
    pose proof (split_slash_nonempty s) as Hne.
    destruct (split_slash s) as [|h t]; [congruence|].
    cbn [hd tl W length] in *. lia.
Qed.

Lemma W_join l : l <> [] -> W l = S (length (join_slash l)).
Proof.
  induction l as [|c l IH]; intros Hne; [congruence|].
  destruct l as [|y l].
  - cbn [W join_slash]. lia.
  - rewrite join_slash_cons2 by discriminate.
    cbn [W] in *. rewrite app_length. cbn [length].
    rewrite <- IH by discriminate. cbn [W]. lia.
Qed.

Lemma W_nf_step st c : (W (nf_step st c) <= W st + S (length c))%nat.
Proof.
  destruct (classify c) as [->| ->| ->|He Hd Hdd Ho].
  - rewrite nf_step_empty. lia.
  - rewrite nf_step_dot. lia.
  - destruct st as [|t st'].
    + rewrite nf_step_dd_nil. cbn [W length dd]. lia.
    + rewrite nf_step_dd_cons. destruct (is_dotdot t); cbn [W length dd]; lia.
  - rewrite (nf_step_ord _ _ Ho). cbn [W]. lia.
Qed.

Lemma W_fold a : forall st, (W (fold_left nf_step a st) <= W st + W a)%nat.
Proof.
  induction a as [|c a IH]; intros st; cbn [fold_left W]; [lia|].
  pose proof (IH (nf_step st c)) as H1. pose proof (W_nf_step st c) as H2. lia.
Qed.

Lemma W_nf a : (W (nf a) <= W a)%nat.
Proof. unfold nf. rewrite W_rev. pose proof (W_fold a []) as H. cbn [W] in H. lia. Qed.

(* ------------------------------------------------------------------ *)
(** * The abstract stack: ordinary components on top of a run of ".." *)

Definition astate : Type := (list bytes * nat)%type.

Definition astep (a : astate) (c : bytes) : astate :=
  if is_empty c then a
  else if is_dot c then a
  else if is_dotdot c then
    match fst a with
    | _ :: o' => (o', snd a)
    | [] => ([], S (snd a))
    end
  else (c :: fst a, snd a).

Definition spec_state (k : nat) (a : astate) : list bytes :=
  fst a ++ repeat dd (snd a + k).

Definition aok (a : astate) : Prop := Forall (fun c => ordinary c = true) (fst a).
Definition asf (a : astate) : Prop := Forall slashfree (fst a).

Lemma astep_empty a : astep a [] = a. Proof. reflexivity. Qed.
Lemma astep_dot a : astep a [b_dot] = a. Proof. reflexivity. Qed.
Lemma astep_dd a : astep a dd =
  match fst a with _ :: o' => (o', snd a) | [] => ([], S (snd a)) end.
Proof. reflexivity. Qed.
Lemma astep_ord a c : ordinary c = true -> astep a c = (c :: fst a, snd a).
Proof.
  intros H. apply ordinary_true in H. destruct H as (He & Hd & Hdd).
  unfold astep. rewrite He, Hd, Hdd. reflexivity.
Qed.

Lemma astep_aok a c : aok a -> aok (astep a c).
Proof.
  unfold aok. intros Ha. destruct (classify c) as [->| ->| ->|He Hd Hdd Ho].
  - exact Ha.
  - exact Ha.
  - rewrite astep_dd. destruct (fst a) as [|t o']; cbn [fst].
    + constructor.
    + inversion Ha; assumption.
  - rewrite (astep_ord _ _ Ho). cbn [fst]. constructor; assumption.
Qed.

Lemma astep_asf a c : slashfree c -> asf a -> asf (astep a c).
Proof.
  unfold asf. intros Hc Ha. destruct (classify c) as [->| ->| ->|He Hd Hdd Ho].
  - exact Ha.
  - exact Ha.
  - rewrite astep_dd. destruct (fst a) as [|t o']; cbn [fst].
    + constructor.
    + inversion Ha; assumption.
  - rewrite (astep_ord _ _ Ho). cbn [fst]. constructor; assumption.
Qed.

Lemma nf_step_astep k a c : aok a -> nf_step (spec_state k a) c = spec_state k (astep a c).
Proof.
  unfold aok, spec_state. intros Ha. destruct (classify c) as [->| ->| ->|He Hd Hdd Ho].
  - reflexivity.
  - reflexivity.
  - rewrite astep_dd. destruct a as [ords j]. cbn [fst snd] in *.
    destruct ords as [|t o'].
    + cbn [app fst snd]. destruct (j + k)%nat as [|m] eqn:Ejk.
      * cbn [repeat]. replace (S j + k)%nat with 1%nat by lia. reflexivity.
      * cbn [repeat]. rewrite nf_step_dd_cons, is_dotdot_dd.
        replace (S j + k)%nat with (S (S m)) by lia. reflexivity.
    + cbn [app fst snd]. rewrite nf_step_dd_cons.
      inversion Ha as [|t' o'' Ht Ho']; subst.
      rewrite (ordinary_not_dotdot t Ht). reflexivity.
  - rewrite (nf_step_ord _ _ Ho), (astep_ord _ _ Ho). reflexivity.
Qed.

Lemma nf_fold_astep k l : forall a, aok a ->
  fold_left nf_step l (spec_state k a) = spec_state k (fold_left astep l a)
  /\ aok (fold_left astep l a).
Proof.
  induction l as [|c l IH]; intros a Ha; cbn [fold_left].
  - split; [reflexivity|exact Ha].
  - rewrite (nf_step_astep k a c Ha). apply IH. apply astep_aok; exact Ha.
Qed.

Lemma rev_repeat {A} (x : A) k : rev (repeat x k) = repeat x k.
Proof.
  induction k as [|k IH]; [reflexivity|].
  cbn [repeat rev]. rewrite IH. symmetry. apply repeat_cons.
Qed.

(* normal forms *)
Theorem nf_normal_comps a : normal_comps (nf a).
Proof.
  destruct (nf_fold_astep 0 a ([], 0%nat) (Forall_nil _)) as [Hf Hok].
  change (spec_state 0 ([], 0%nat)) with (@nil bytes) in Hf.
  unfold nf. rewrite Hf. unfold spec_state.
  destruct (fold_left astep a ([], 0%nat)) as [ords j]. cbn [fst snd] in *.
  exists (j + 0)%nat, (rev ords). split.
  - rewrite rev_app_distr, rev_repeat. reflexivity.
  - apply Forall_rev. exact Hok.
Qed.

Lemma fold_dd_run k : forall m,
  fold_left nf_step (repeat dd k) (repeat dd m) = repeat dd (k + m).
Proof.
  induction k as [|k IH]; intros m; [reflexivity|].
  cbn [repeat fold_left]. destruct m as [|m].
  - cbn [repeat]. rewrite nf_step_dd_nil. change [dd] with (repeat dd 1).
    rewrite (IH 1%nat).
    replace (k + 1)%nat with (S k + 0)%nat by lia. reflexivity.
  - cbn [repeat]. rewrite nf_step_dd_cons, is_dotdot_dd.
    change (dd :: dd :: repeat dd m) with (repeat dd (S (S m))).
    rewrite (IH (S (S m))). replace (k + S (S m))%nat with (S k + S m)%nat by lia.
    reflexivity.
Qed.

Lemma fold_over_dd_run a : forall st k,
  fold_left nf_step a (st ++ repeat dd k) = fold_left nf_step a st ++ repeat dd k.
Proof.
  induction a as [|c a IH]; intros st k; cbn [fold_left]; [reflexivity|].
  destruct (classify c) as [->| ->| ->|He Hd Hdd Ho].
  - rewrite !nf_step_empty. apply IH.
  - rewrite !nf_step_dot. apply IH.
  - destruct st as [|t st'].
    + cbn [app]. rewrite nf_step_dd_nil. destruct k as [|k].
      * cbn [repeat]. rewrite nf_step_dd_nil. apply (IH [dd] 0%nat).
      * cbn [repeat]. rewrite nf_step_dd_cons, is_dotdot_dd.
        apply (IH [dd] (S k)).
    + cbn [app]. rewrite !nf_step_dd_cons. destruct (is_dotdot t).
      * apply (IH (dd :: t :: st') k).
      * apply IH.
  - rewrite !(nf_step_ord _ _ Ho). apply (IH (c :: st) k).
Qed.

Theorem nf_leading_dotdot k a : nf (repeat dd k ++ a) = repeat dd k ++ nf a.
Proof.
  unfold nf. rewrite fold_left_app.
  change (@nil bytes) with (repeat dd 0) at 1.
  rewrite (fold_dd_run k 0). rewrite Nat.add_0_r.
  pose proof (fold_over_dd_run a [] k) as H. cbn [app] in H. rewrite H.
  rewrite rev_app_distr, rev_repeat. reflexivity.
Qed.

Lemma fold_ordinary l : Forall (fun c => ordinary c = true) l ->
  forall st, fold_left nf_step l st = rev l ++ st.
Proof.
  induction l as [|c l IH]; intros Hl st; [reflexivity|].
  inversion Hl as [|c' l' Hc Hrest]; subst.
  cbn [fold_left rev]. rewrite (nf_step_ord _ _ Hc), (IH Hrest).
  rewrite <- app_assoc. reflexivity.
Qed.

Theorem nf_of_normal n : normal_comps n -> nf n = n.
Proof.
  intros (k & l & -> & Hl). rewrite nf_leading_dotdot. f_equal.
  unfold nf. rewrite (fold_ordinary l Hl), app_nil_r. apply rev_involutive.
Qed.

Theorem nf_idempotent a : nf (nf a) = nf a.
Proof. apply nf_of_normal, nf_normal_comps. Qed.

Lemma normal_live n : normal_comps n -> Forall live n.
Proof.
  intros (k & l & -> & Hl). apply Forall_app. split.
  - apply Forall_forall. intros x Hx. apply repeat_spec in Hx. subst. exact live_dd.
  - apply Forall_forall. intros x Hx. apply live_ord.
    rewrite Forall_forall in Hl. apply Hl; exact Hx.
Qed.

Lemma nf_step_In st c x : In x (nf_step st c) -> In x st \/ x = c.
Proof.
  destruct (classify c) as [->| ->| ->|He Hd Hdd Ho].
  - rewrite nf_step_empty. auto.
  - rewrite nf_step_dot. auto.
  - destruct st as [|t st'].
    + rewrite nf_step_dd_nil. intros [E|[]]. auto.
    + rewrite nf_step_dd_cons. destruct (is_dotdot t).
      * intros [E|H]; auto.
      * intros H. left. right. exact H.
  - rewrite (nf_step_ord _ _ Ho). intros [E|H]; auto.
Qed.

Lemma fold_nf_In a x : forall st, In x (fold_left nf_step a st) -> In x st \/ In x a.
Proof.
  induction a as [|c a IH]; intros st H; cbn [fold_left] in H; [auto|].
  destruct (IH _ H) as [H1|H1].
  - destruct (nf_step_In _ _ _ H1) as [H2| ->]; [auto|right; left; reflexivity].
  - right; right; exact H1.
Qed.

Lemma nf_In a x : In x (nf a) -> In x a.
Proof.
  unfold nf. rewrite <- in_rev. intros H.
  destruct (fold_nf_In a x [] H) as [[]|H1]. exact H1.
Qed.

Lemma nf_slashfree a : Forall slashfree a -> Forall slashfree (nf a).
Proof.
  rewrite !Forall_forall. intros H x Hx. apply H. apply nf_In. exact Hx.
Qed.

(* ------------------------------------------------------------------ *)
(** * The byte-level output buffer *)

(* reversed buffer contents for a stack (top first): each component followed by '/' *)
Fixpoint flat (stk : list bytes) : bytes :=
  match stk with
  | [] => []
  | c :: r => b_slash :: rev c ++ flat r
  end.

Lemma flat_app a b : flat (a ++ b) = flat a ++ flat b.
Proof.
  induction a as [|c a IH]; [reflexivity|].
  cbn [app flat]. rewrite IH, <- app_assoc. reflexivity.
Qed.

Lemma flat_dd_run k : flat (repeat dd k) = dotdot_prefix_rev k.
Proof. induction k as [|k IH]; [reflexivity|]. cbn. rewrite IH. reflexivity. Qed.

Lemma flat_head stk : flat stk = [] \/ exists r, flat stk = b_slash :: r.
Proof. destruct stk as [|c r]; [left; reflexivity|right; eexists; reflexivity]. Qed.

Lemma backup_loop_cons dst0 c out' :
  backup_loop dst0 (c :: out') =
  if Nat.ltb dst0 (S (length out')) then
    if N.eqb c b_slash then c :: out' else backup_loop dst0 out'
  else c :: out'.
Proof. reflexivity. Qed.

Lemma backup_loop_stop out0 rest :
  rest = [] \/ (exists r, rest = b_slash :: r) ->
  backup_loop (length out0) (rest ++ out0) = rest ++ out0.
Proof.
  intros [->|[r ->]].
  - cbn [app]. destruct out0 as [|c o]; [reflexivity|].
    rewrite backup_loop_cons. cbn [length]. rewrite Nat.ltb_irrefl. reflexivity.
  - cbn [app]. rewrite backup_loop_cons.
    assert (H : Nat.ltb (length out0) (S (length (r ++ out0))) = true).
    { apply Nat.ltb_lt. rewrite app_length. lia. }
    rewrite H, N.eqb_refl. reflexivity.
Qed.

Lemma backup_loop_skip out0 rest r :
  ~ In b_slash r ->
  rest = [] \/ (exists r', rest = b_slash :: r') ->
  backup_loop (length out0) (r ++ rest ++ out0) = rest ++ out0.
Proof.
  intros Hr Hrest. induction r as [|x r IH].
  - cbn [app]. apply backup_loop_stop; exact Hrest.
  - cbn [app]. rewrite backup_loop_cons.
    assert (H : Nat.ltb (length out0) (S (length (r ++ rest ++ out0))) = true).
    { apply Nat.ltb_lt. rewrite !app_length. lia. }
    rewrite H. destruct (N.eqb_spec x b_slash) as [E|_].
    + exfalso. apply Hr. left. exact E.
    + apply IH. intros Hin. apply Hr. right. exact Hin.
Qed.

(* the back-up loop removes exactly the top component of the stack *)
Lemma backup_pops out0 t stk : slashfree t ->
  backup (length out0) (flat (t :: stk) ++ out0) = flat stk ++ out0.
Proof.
  intros Ht. unfold backup. cbn [flat app tl]. rewrite <- app_assoc.
  apply backup_loop_skip.
  - intros Hin. apply Ht. apply in_rev. exact Hin.
  - apply flat_head.
Qed.

(* ------------------------------------------------------------------ *)
(** * Simulation of the middle loop *)

Definition sim_state (out0 : bytes) (a : astate) : nat * bytes :=
  (length (fst a), flat (fst a ++ repeat dd (snd a)) ++ out0).

Lemma mid_step_pair dst0 count out c :
  mid_step dst0 (count, out) c =
  if is_empty c then (count, out)
  else if is_dot c then (count, out)
  else if is_dotdot c then
    match count with
    | S n => (n, backup dst0 out)
    | O => (O, b_slash :: b_dot :: b_dot :: out)
    end
  else (S count, b_slash :: rev c ++ out).
Proof. reflexivity. Qed.

Lemma last_step_pair dst0 count out c :
  last_step dst0 (count, out) c =
  if is_empty c then out
  else if is_dot c then out
  else if is_dotdot c then
    match count with
    | S _ => backup dst0 out
    | O => b_dot :: b_dot :: out
    end
  else rev c ++ out.
Proof. reflexivity. Qed.

Lemma mid_step_astep out0 a c : asf a ->
  mid_step (length out0) (sim_state out0 a) c = sim_state out0 (astep a c).
Proof.
  unfold asf, sim_state. intros Ha. rewrite mid_step_pair.
  destruct (classify c) as [->| ->| ->|He Hd Hdd Ho].
  - reflexivity.
  - reflexivity.
  - rewrite astep_dd. rewrite is_empty_dd, is_dot_dd, is_dotdot_dd.
    destruct a as [ords j]. cbn [fst snd] in *. destruct ords as [|t o'].
    + cbn [length fst snd app repeat flat]. reflexivity.
    + cbn [length fst snd]. f_equal.
      inversion Ha as [|t' o'' Ht Ho']; subst.
      change ((t :: o') ++ repeat dd j) with (t :: (o' ++ repeat dd j)).
      apply backup_pops. exact Ht.
  - rewrite He, Hd, Hdd. rewrite (astep_ord _ _ Ho). cbn [fst snd length app flat].
    rewrite <- app_assoc. reflexivity.
Qed.

Lemma sim_fold out0 k l : forall a, aok a -> asf a -> Forall slashfree l ->
  fold_left (mid_step (length out0)) l (sim_state out0 a)
    = sim_state out0 (fold_left astep l a)
  /\ fold_left nf_step l (spec_state k a) = spec_state k (fold_left astep l a)
  /\ aok (fold_left astep l a) /\ asf (fold_left astep l a).
Proof.
  induction l as [|c l IH]; intros a Hok Hsf Hl; cbn [fold_left].
  - auto.
  - inversion Hl as [|c' l' Hc Hrest]; subst.
    rewrite (mid_step_astep out0 a c Hsf), (nf_step_astep k a c Hok).
    apply IH; [apply astep_aok; exact Hok|apply astep_asf; assumption|exact Hrest].
Qed.

(* ------------------------------------------------------------------ *)
(** * The last component, the trailing separator and the "." fallback *)

Definition finish (dst_start : nat) (out1 : bytes) : bytes :=
  let out2 := match out1 with
              | c :: o' => if Nat.ltb dst_start (length out1) && N.eqb c b_slash then o' else out1
              | [] => out1
              end in
  match out2 with
  | [] => [b_dot]
  | _ => rev out2
  end.

Lemma finish_slash d o : (d < S (length o))%nat -> o <> [] ->
  finish d (b_slash :: o) = rev o.
Proof.
  intros Hd Ho. unfold finish. cbn [length].
  apply Nat.ltb_lt in Hd. rewrite Hd, N.eqb_refl. cbn [andb].
  destruct o as [|x o]; [congruence|reflexivity].
Qed.

Lemma finish_noslash d x o : x <> b_slash -> finish d (x :: o) = rev (x :: o).
Proof.
  intros Hx. unfold finish.
  destruct (N.eqb_spec x b_slash) as [E|_]; [contradiction|].
  rewrite andb_false_r. reflexivity.
Qed.

Lemma finish_comp d c y : c <> [] -> slashfree c -> finish d (rev c ++ y) = rev (rev c ++ y).
Proof.
  intros Hne Hsf.
  destruct (rev c) as [|x r] eqn:E.
  - exfalso. apply Hne. rewrite <- (rev_involutive c), E. reflexivity.
  - cbn [app]. apply finish_noslash. intros ->. apply Hsf.
    apply in_rev. rewrite E. left. reflexivity.
Qed.

(* every component followed by '/' *)
Fixpoint joinT (l : list bytes) : bytes :=
  match l with [] => [] | c :: r => c ++ b_slash :: joinT r end.

Lemma joinT_app a b : joinT (a ++ b) = joinT a ++ joinT b.
Proof.
  induction a as [|c a IH]; [reflexivity|].
  cbn [app joinT]. rewrite IH, <- app_assoc. reflexivity.
Qed.

Lemma rev_flat stk : rev (flat stk) = joinT (rev stk).
Proof.
  induction stk as [|c r IH]; [reflexivity|].
  cbn [flat rev]. rewrite rev_app_distr, rev_involutive, IH, joinT_app.
  cbn [joinT]. rewrite <- app_assoc. reflexivity.
Qed.

Lemma join_slash_snoc l c : join_slash (l ++ [c]) = joinT l ++ c.
Proof.
  induction l as [|x l IH]; [reflexivity|].
  cbn [app]. rewrite join_slash_cons2.
  - rewrite IH. cbn [joinT]. rewrite <- app_assoc. reflexivity.
  - destruct l; discriminate.
Qed.

Lemma rev_top_flat c stk : rev (rev c ++ flat stk) = join_slash (rev (c :: stk)).
Proof.
  rewrite rev_app_distr, rev_involutive, rev_flat. cbn [rev].
  symmetry. apply join_slash_snoc.
Qed.

Lemma render_true l : render true l = b_slash :: join_slash l.
Proof. reflexivity. Qed.

Lemma render_false_snoc l c : render false (l ++ [c]) = join_slash (l ++ [c]).
Proof. destruct l; reflexivity. Qed.

(* class A: the last component adds nothing; the buffer ends with a separator (or is at dst0) *)
Lemma finish_A_abs T : Forall (fun c => c <> []) T ->
  finish 1 (flat T ++ [b_slash]) = render true (rev T).
Proof.
  intros HT. destruct T as [|c T'].
  - reflexivity.
  - cbn [flat app]. rewrite finish_slash.
    + rewrite rev_app_distr. cbn [rev app].
      rewrite rev_top_flat. reflexivity.
    + rewrite !app_length. cbn [length]. lia.
    + destruct (rev c ++ flat T'); discriminate.
Qed.

Lemma finish_A_rel S : Forall (fun c => c <> []) S ->
  finish 0 (flat S) = render false (rev S).
Proof.
  intros HS. destruct S as [|c S'].
  - reflexivity.
  - inversion HS as [|c' S'' Hc Hrest]; subst.
    cbn [flat]. rewrite finish_slash.
    + rewrite rev_top_flat. cbn [rev]. symmetry. apply render_false_snoc.
    + lia.
    + destruct c as [|x c]; [congruence|].
      intros E. apply (f_equal (@length N)) in E. rewrite app_length, rev_length in E.
      cbn [length] in E. lia.
Qed.

(* class B: the last component is written without a separator *)
Lemma finish_B_abs c T : c <> [] -> slashfree c ->
  finish 1 (rev c ++ flat T ++ [b_slash]) = render true (rev (c :: T)).
Proof.
  intros Hne Hsf. rewrite finish_comp by assumption.
  rewrite app_assoc, rev_app_distr. cbn [rev app]. fold (rev (c :: T)).
  rewrite rev_top_flat. reflexivity.
Qed.

Lemma finish_B_rel c S : c <> [] -> slashfree c ->
  finish 0 (rev c ++ flat S) = render false (rev (c :: S)).
Proof.
  intros Hne Hsf. rewrite finish_comp by assumption.
  rewrite rev_top_flat. cbn [rev]. symmetry. apply render_false_snoc.
Qed.

Lemma spec_state_nonempty k a : aok a -> Forall (fun c => c <> []) (spec_state k a).
Proof.
  unfold aok, spec_state. intros Ha. apply Forall_app. split.
  - apply Forall_forall. intros x Hx. apply ordinary_nonempty.
    rewrite Forall_forall in Ha. apply Ha; exact Hx.
  - apply Forall_forall. intros x Hx. apply repeat_spec in Hx. subst. discriminate.
Qed.

Lemma dd_slashfree : slashfree dd.
Proof. intros [E|[E|[]]]; discriminate E. Qed.

Lemma dd_nonempty : dd <> [].
Proof. discriminate. Qed.

(* [last_step] either shows the buffer of the next abstract state (class A) or the buffer of
   the current one with the component in front (class B) *)
Lemma last_step_cases out0 a c : asf a ->
  (last_step (length out0) (sim_state out0 a) c
     = flat (fst (astep a c) ++ repeat dd (snd (astep a c))) ++ out0)
  \/ (c <> [] /\ forall k, spec_state k (astep a c) = c :: spec_state k a) /\
     last_step (length out0) (sim_state out0 a) c
       = rev c ++ flat (fst a ++ repeat dd (snd a)) ++ out0.
Proof.
  unfold asf, sim_state. intros Ha. rewrite last_step_pair.
  destruct (classify c) as [->| ->| ->|He Hd Hdd Ho].
  - left. reflexivity.
  - left. reflexivity.
  - rewrite is_empty_dd, is_dot_dd, is_dotdot_dd. rewrite astep_dd.
    destruct a as [ords j]. cbn [fst snd] in *. destruct ords as [|t o'].
    + right. split; [split|].
      * exact dd_nonempty.
      * intros k. reflexivity.
      * reflexivity.
    + left. cbn [length fst snd].
      inversion Ha as [|t' o'' Ht Ho']; subst.
      change ((t :: o') ++ repeat dd j) with (t :: (o' ++ repeat dd j)).
      apply backup_pops. exact Ht.
  - right. rewrite He, Hd, Hdd. rewrite (astep_ord _ _ Ho). split; [split|].
    + apply ordinary_nonempty; exact Ho.
    + intros k. reflexivity.
    + reflexivity.
Qed.

Lemma finish_last_abs a c : aok a -> asf a -> slashfree c ->
  finish 1 (last_step 1 (sim_state [b_slash] a) c)
  = render true (rev (spec_state 0 (astep a c))).
Proof.
  intros Hok Hsf Hc.
  destruct (last_step_cases [b_slash] a c Hsf) as [H|[[Hne Hst] H]];
    change (length [b_slash]) with 1%nat in H; rewrite H.
  - unfold spec_state. rewrite Nat.add_0_r. apply finish_A_abs.
    pose proof (spec_state_nonempty 0 (astep a c) (astep_aok a c Hok)) as Hn.
    unfold spec_state in Hn. rewrite Nat.add_0_r in Hn. exact Hn.
  - rewrite (Hst 0%nat). unfold spec_state. rewrite Nat.add_0_r.
    apply finish_B_abs; assumption.
Qed.

Lemma finish_last_rel k a c : aok a -> asf a -> slashfree c ->
  finish 0 (last_step (length (flat (repeat dd k))) (sim_state (flat (repeat dd k)) a) c)
  = render false (rev (spec_state k (astep a c))).
Proof.
  intros Hok Hsf Hc.
  destruct (last_step_cases (flat (repeat dd k)) a c Hsf) as [H|[[Hne Hst] H]]; rewrite H.
  - rewrite <- flat_app, <- app_assoc, <- repeat_app.
    apply (finish_A_rel (spec_state k (astep a c))).
    apply spec_state_nonempty. apply astep_aok; exact Hok.
  - rewrite (Hst k). rewrite <- flat_app, <- app_assoc, <- repeat_app.
    apply (finish_B_rel c (spec_state k a)); assumption.
Qed.

(* ------------------------------------------------------------------ *)
(** * The leading "../" run *)

Lemma split_slash_dotdot s : split_slash (b_dot :: b_dot :: b_slash :: s) = dd :: split_slash s.
Proof. reflexivity. Qed.

Lemma strip_dotdot_run_spec f : forall s k r,
  strip_dotdot_run f s = (k, r) -> split_slash s = repeat dd k ++ split_slash r.
Proof.
  induction f as [|f IH]; intros s k r H.
  - cbn [strip_dotdot_run] in H. inversion H; subst. reflexivity.
  - cbn [strip_dotdot_run] in H.
    destruct s as [|x [|y [|z s']]]; try (inversion H; subst; reflexivity).
    destruct (N.eqb x b_dot && N.eqb y b_dot && N.eqb z b_slash) eqn:E.
    + apply andb_true_iff in E. destruct E as [E Ez].
      apply andb_true_iff in E. destruct E as [Ex Ey].
      apply N.eqb_eq in Ex, Ey, Ez. subst x y z.
      destruct (strip_dotdot_run f s') as [k' r'] eqn:E'.
      inversion H; subst. rewrite split_slash_dotdot, (IH s' k' r E'). reflexivity.
    + inversion H; subst. reflexivity.
Qed.

(* ------------------------------------------------------------------ *)
(** * [canon] computes the specification *)

Lemma canon_abs s1 :
  canon (b_slash :: s1) =
  finish 1 (last_step 1
              (fold_left (mid_step 1) (removelast (split_slash s1)) (0%nat, [b_slash]))
              (last (split_slash s1) [])).
Proof. reflexivity. Qed.

Lemma canon_rel c0 s1 k r : c0 <> b_slash ->
  strip_dotdot_run (length (c0 :: s1)) (c0 :: s1) = (k, r) ->
  canon (c0 :: s1) =
  finish 0 (last_step (length (dotdot_prefix_rev k))
              (fold_left (mid_step (length (dotdot_prefix_rev k)))
                         (removelast (split_slash r)) (0%nat, dotdot_prefix_rev k))
              (last (split_slash r) [])).
Proof.
  intros Hc H. unfold canon.
  destruct (N.eqb_spec c0 b_slash) as [E|_]; [contradiction|].
  rewrite H. reflexivity.
Qed.

Lemma parse_path_abs s1 : parse_path (b_slash :: s1) = (true, split_slash s1).
Proof. reflexivity. Qed.

Lemma parse_path_rel c0 s1 : c0 <> b_slash ->
  parse_path (c0 :: s1) = (false, split_slash (c0 :: s1)).
Proof.
  intros Hc. unfold parse_path.
  destruct (N.eqb_spec c0 b_slash) as [E|_]; [contradiction|reflexivity].
Qed.

Lemma canon_spec_render s : s <> [] ->
  canon_spec s = render (fst (parse_path s)) (nf (snd (parse_path s))).
Proof.
  destruct s as [|c s]; [congruence|]. intros _.
  unfold canon_spec. destruct (parse_path (c :: s)); reflexivity.
Qed.

Lemma nf_snoc l c : nf (l ++ [c]) = rev (nf_step (fold_left nf_step l []) c).
Proof. unfold nf. rewrite fold_left_app. reflexivity. Qed.

Theorem canon_eq_spec : forall s, canon s = canon_spec s.
Proof.
  intros [|c0 s1]; [reflexivity|].
  rewrite canon_spec_render by discriminate.
  destruct (N.eq_dec c0 b_slash) as [->|Hc0].
  - (* absolute path *)
    rewrite canon_abs, parse_path_abs. cbn [fst snd].
    pose proof (split_slash_nonempty s1) as Hne.
    pose proof (split_slash_slashfree s1) as Hsf.
    rewrite (app_removelast_last [] Hne) in Hsf. apply Forall_app in Hsf.
    destruct Hsf as [Hsf1 Hsf2]. inversion Hsf2 as [|cl l' Hcl _]; subst.
    rewrite (app_removelast_last [] Hne) at 3. rewrite nf_snoc.
    destruct (sim_fold [b_slash] 0 (removelast (split_slash s1)) ([], 0%nat)
                (Forall_nil _) (Forall_nil _) Hsf1) as (Hmid & Hnf & Hok & Hasf).
    change (sim_state [b_slash] ([], 0%nat)) with (0%nat, [b_slash]) in Hmid.
    change (length [b_slash]) with 1%nat in Hmid.
    change (spec_state 0 ([], 0%nat)) with (@nil bytes) in Hnf.
    unfold bytes in *. rewrite Hmid, Hnf.
    rewrite (finish_last_abs _ _ Hok Hasf Hcl).
    rewrite (nf_step_astep 0 _ _ Hok). reflexivity.
  - (* relative path *)
    destruct (strip_dotdot_run (length (c0 :: s1)) (c0 :: s1)) as [k r] eqn:Hstrip.
    rewrite (canon_rel c0 s1 k r Hc0 Hstrip), (parse_path_rel c0 s1 Hc0). cbn [fst snd].
    rewrite (strip_dotdot_run_spec _ _ _ _ Hstrip).
    pose proof (split_slash_nonempty r) as Hne.
    pose proof (split_slash_slashfree r) as Hsf.
    rewrite (app_removelast_last [] Hne) in Hsf. apply Forall_app in Hsf.
    destruct Hsf as [Hsf1 Hsf2]. inversion Hsf2 as [|cl l' Hcl _]; subst.
    rewrite (app_removelast_last [] Hne) at 3.
    rewrite app_assoc, nf_snoc, fold_left_app.
    change (fold_left nf_step (repeat dd k) [])
      with (fold_left nf_step (repeat dd k) (repeat dd 0)).
    rewrite fold_dd_run, Nat.add_0_r.
    rewrite <- flat_dd_run.
    destruct (sim_fold (flat (repeat dd k)) k (removelast (split_slash r)) ([], 0%nat)
                (Forall_nil _) (Forall_nil _) Hsf1) as (Hmid & Hnf & Hok & Hasf).
    change (sim_state (flat (repeat dd k)) ([], 0%nat))
      with (0%nat, flat (repeat dd k)) in Hmid.
    change (spec_state k ([], 0%nat)) with (repeat dd k) in Hnf.
    unfold bytes in *. rewrite Hmid, Hnf.
    pose proof (finish_last_rel k _ _ Hok Hasf Hcl) as HF.
    pose proof (nf_step_astep k _ (last (split_slash r) []) Hok) as HN.
    unfold bytes in *. rewrite HF, HN. reflexivity.
Qed.

(* ------------------------------------------------------------------ *)
(** * Rendering a normal form and reading it back *)

Lemma parse_path_slashfree s : Forall slashfree (snd (parse_path s)).
Proof.
  destruct s as [|c s]; [apply split_slash_slashfree|].
  unfold parse_path. destruct (N.eqb c b_slash); apply split_slash_slashfree.
Qed.

Lemma parse_path_fst s : fst (parse_path s) = true <-> hd_error s = Some b_slash.
Proof.
  destruct s as [|c s].
  - cbn. split; discriminate.
  - unfold parse_path. cbn [hd_error]. destruct (N.eqb_spec c b_slash) as [->|Hc]; cbn [fst].
    + tauto.
    + split; [discriminate|]. intros E. inversion E. contradiction.
Qed.

(* what [nf] returns for the components of a real string *)
Definition out_comps (n : list bytes) : Prop := normal_comps n /\ Forall slashfree n.

Lemma nf_out_comps s : out_comps (nf (snd (parse_path s))).
Proof.
  split; [apply nf_normal_comps|apply nf_slashfree, parse_path_slashfree].
Qed.

Lemma live_nonempty c : live c -> c <> [].
Proof. intros [He _] ->. discriminate He. Qed.

Lemma out_comps_head c n : out_comps (c :: n) ->
  exists x c', c = x :: c' /\ x <> b_slash.
Proof.
  intros [Hn Hsf]. apply normal_live in Hn.
  inversion Hn as [|c1 n1 Hlive _]; subst. inversion Hsf as [|c2 n2 Hc _]; subst.
  destruct c as [|x c']; [exfalso; exact (live_nonempty _ Hlive eq_refl)|].
  exists x, c'. split; [reflexivity|]. intros ->. apply Hc. left. reflexivity.
Qed.

Lemma render_false_cons c n : render false (c :: n) = join_slash (c :: n).
Proof. reflexivity. Qed.

Lemma parse_render abs n : out_comps n -> n <> [] -> parse_path (render abs n) = (abs, n).
Proof.
  intros Hn Hne. destruct abs.
  - rewrite render_true, parse_path_abs. rewrite split_join; [reflexivity|exact Hne|apply Hn].
  - destruct n as [|c n']; [congruence|].
    destruct (out_comps_head c n' Hn) as (x & c' & -> & Hx).
    rewrite render_false_cons, join_slash_head, (parse_path_rel _ _ Hx).
    rewrite <- join_slash_head. rewrite split_join; [reflexivity|exact Hne|apply Hn].
Qed.

Lemma parse_render_nil abs :
  parse_path (render abs []) = (abs, [if abs then [] else [b_dot]]).
Proof. destruct abs; reflexivity. Qed.

Lemma render_inj abs n abs' n' : out_comps n -> out_comps n' ->
  render abs n = render abs' n' -> abs = abs' /\ n = n'.
Proof.
  intros Hn Hn' E. apply (f_equal parse_path) in E.
  assert (Hsingle : forall (a : bool) m, out_comps m -> m = [if a then [] else [b_dot]] -> False).
  { intros a m [Hm _] ->. apply normal_live in Hm.
    inversion Hm as [|c l [He Hd] _]; subst. destruct a; discriminate. }
  destruct n as [|c n]; destruct n' as [|c' n'].
  - rewrite !parse_render_nil in E. inversion E. auto.
  - rewrite parse_render_nil, (parse_render abs' (c' :: n') Hn') in E by discriminate.
    apply (f_equal snd) in E. cbn [snd] in E.
    exfalso. apply (Hsingle abs (c' :: n') Hn'). symmetry; exact E.
  - rewrite parse_render_nil, (parse_render abs (c :: n) Hn) in E by discriminate.
    apply (f_equal snd) in E. cbn [snd] in E.
    exfalso. apply (Hsingle abs' (c :: n) Hn). exact E.
  - rewrite (parse_render abs (c :: n) Hn), (parse_render abs' (c' :: n') Hn') in E
      by discriminate.
    inversion E. auto.
Qed.

Lemma render_nonempty abs n : out_comps n -> render abs n <> [].
Proof.
  intros Hn. destruct abs; [discriminate|].
  destruct n as [|c n']; [discriminate|].
  destruct (out_comps_head c n' Hn) as (x & c' & -> & _).
  rewrite render_false_cons, join_slash_head. discriminate.
Qed.

Lemma canon_render s : s <> [] ->
  canon s = render (fst (parse_path s)) (nf (snd (parse_path s))).
Proof. intros Hs. rewrite canon_eq_spec. apply canon_spec_render; exact Hs. Qed.

(* ------------------------------------------------------------------ *)
(** * The property theorems *)

Theorem canon_empty : canon [] = [].
Proof. reflexivity. Qed.

Theorem canon_exact : forall s t, s <> [] -> t <> [] ->
  (canon s = canon t <-> lex_equiv s t).
Proof.
  intros s t Hs Ht. rewrite (canon_render s Hs), (canon_render t Ht). unfold lex_equiv. split.
  - intros E. apply render_inj in E; [|apply nf_out_comps|apply nf_out_comps].
    destruct E as [Ea En]. split; [exact Ea|]. apply nf_complete; exact En.
  - intros [Ea Ec]. apply nf_complete in Ec. rewrite Ea, Ec. reflexivity.
Qed.

Theorem canon_idempotent : forall s, canon (canon s) = canon s.
Proof.
  intros s. destruct s as [|c0 s1]; [reflexivity|].
  rewrite (canon_render (c0 :: s1)) by discriminate.
  set (abs := fst (parse_path (c0 :: s1))).
  pose proof (nf_out_comps (c0 :: s1)) as Hn.
  set (n := nf (snd (parse_path (c0 :: s1)))) in *.
  rewrite (canon_render (render abs n)) by (apply render_nonempty; exact Hn).
  destruct n as [|c n'] eqn:En.
  - rewrite parse_render_nil. cbn [fst snd]. destruct abs; reflexivity.
  - rewrite (parse_render abs (c :: n') Hn) by discriminate. cbn [fst snd].
    rewrite nf_of_normal; [reflexivity|apply Hn].
Qed.

Theorem canon_never_longer : forall s, (length (canon s) <= length s)%nat.
Proof.
  intros [|c0 s1]; [cbn; lia|].
  rewrite (canon_render (c0 :: s1)) by discriminate.
  destruct (N.eq_dec c0 b_slash) as [->|Hc0].
  - rewrite parse_path_abs. cbn [fst snd]. rewrite render_true. cbn [length].
    pose proof (W_nf (split_slash s1)) as HW. rewrite W_split in HW.
    destruct (nf (split_slash s1)) as [|c n'] eqn:En; [cbn; lia|].
    rewrite (W_join (c :: n')) in HW by discriminate. lia.
  - rewrite (parse_path_rel _ _ Hc0). cbn [fst snd].
    pose proof (W_nf (split_slash (c0 :: s1))) as HW. rewrite W_split in HW.
    destruct (nf (split_slash (c0 :: s1))) as [|c n'] eqn:En; [cbn; lia|].
    rewrite render_false_cons.
    rewrite (W_join (c :: n')) in HW by discriminate. lia.
Qed.

Theorem canon_keeps_root : forall s, s <> [] ->
  (hd_error s = Some b_slash <-> hd_error (canon s) = Some b_slash).
Proof.
  intros s Hs. rewrite (canon_render s Hs). rewrite <- parse_path_fst.
  pose proof (nf_out_comps s) as Hn.
  destruct (fst (parse_path s)).
  - rewrite render_true. cbn [hd_error]. tauto.
  - split; [discriminate|]. intros E. exfalso.
    destruct (nf (snd (parse_path s))) as [|c n'].
    + cbn in E. inversion E.
    + destruct (out_comps_head c n' Hn) as (x & c' & -> & Hx).
      rewrite render_false_cons, join_slash_head in E. cbn [hd_error] in E.
      inversion E. contradiction.
Qed.

Theorem canon_keeps_leading_dotdot : forall s, s <> [] ->
  exists k l,
    nf (snd (parse_path s)) = repeat dd k ++ l /\
    Forall (fun c => ordinary c = true) l /\
    canon s = render (fst (parse_path s)) (repeat dd k ++ l).
Proof.
  intros s Hs. destruct (nf_normal_comps (snd (parse_path s))) as (k & l & E & Hl).
  exists k, l. split; [exact E|]. split; [exact Hl|].
  rewrite (canon_render s Hs), E. reflexivity.
Qed.

Theorem canon_dot_iff_nothing : forall s, s <> [] ->
  (canon s = [b_dot] <-> fst (parse_path s) = false /\ nf (snd (parse_path s)) = []).
Proof.
  intros s Hs. rewrite (canon_render s Hs).
  pose proof (nf_out_comps s) as Hn. split.
  - intros E. change [b_dot] with (render false []) in E.
    apply render_inj in E; [exact E|exact Hn|].
    split; [exists 0%nat, []; split; [reflexivity|constructor]|constructor].
  - intros [-> ->]. reflexivity.
Qed.
