(* C14: model of CanonicalizePath (src/util.cc, POSIX branch) and its reference specification.
   Definitions only. *)
From NinjaV Require Import Base.Bytes.
Local Open Scope N_scope.

(* ---------- splitting at '/' (what the memchr loop does) ---------- *)
Fixpoint split_slash_aux (cur : bytes) (s : bytes) : list bytes :=
  match s with
  | [] => [rev cur]
  | c :: s' => if N.eqb c b_slash then rev cur :: split_slash_aux [] s'
               else split_slash_aux (c :: cur) s'
  end.
Definition split_slash (s : bytes) : list bytes := split_slash_aux [] s.

Fixpoint join_slash (l : list bytes) : bytes :=
  match l with
  | [] => []
  | [c] => c
  | c :: l' => c ++ b_slash :: join_slash l'
  end.

Definition is_dot (c : bytes) : bool := bytes_eqb c [b_dot].
Definition is_dotdot (c : bytes) : bool := bytes_eqb c [b_dot; b_dot].
Definition is_empty (c : bytes) : bool := match c with [] => true | _ => false end.

(* ---------- the code-shaped model ----------
   The output buffer [start,dst) is kept REVERSED in [out]; [dst0] is the length of the
   protected prefix (leading '/' or the leading run of "../"). *)

(* while (--dst > dst0 && dst[-1] != '/') {}   -- [out] reversed, so dst[-1] is its head *)
Fixpoint backup_loop (dst0 : nat) (out : bytes) : bytes :=
  match out with
  | [] => []
  | c :: out' =>
      if Nat.ltb dst0 (length out) then
        if N.eqb c b_slash then out else backup_loop dst0 out'
      else out
  end.
Definition backup (dst0 : nat) (out : bytes) : bytes := backup_loop dst0 (tl out).

(* leading run of "../" for relative paths: returns (number of runs, rest) *)
Fixpoint strip_dotdot_run (fuel : nat) (s : bytes) : nat * bytes :=
  match fuel with
  | O => (O, s)
  | S f =>
    match s with
    | a :: b :: c :: s' =>
        if N.eqb a b_dot && N.eqb b b_dot && N.eqb c b_slash
        then let (k, r) := strip_dotdot_run f s' in (S k, r)
        else (O, s)
    | _ => (O, s)
    end
  end.

Fixpoint dotdot_prefix_rev (k : nat) : bytes :=
  match k with O => [] | S k' => b_slash :: b_dot :: b_dot :: dotdot_prefix_rev k' end.

(* middle loop over all components except the last one; state = (count, out) *)
Definition mid_step (dst0 : nat) (st : nat * bytes) (c : bytes) : nat * bytes :=
  let (count, out) := st in
  if is_empty c then st
  else if is_dot c then st
  else if is_dotdot c then
    match count with
    | S n => (n, backup dst0 out)
    | O => (O, b_slash :: b_dot :: b_dot :: out)
    end
  else (S count, b_slash :: rev c ++ out).

Definition last_step (dst0 : nat) (st : nat * bytes) (c : bytes) : bytes :=
  let (count, out) := st in
  if is_empty c then out
  else if is_dot c then out
  else if is_dotdot c then
    match count with
    | S _ => backup dst0 out
    | O => b_dot :: b_dot :: out
    end
  else rev c ++ out.

Definition canon (s : bytes) : bytes :=
  match s with
  | [] => []
  | c0 :: s1 =>
    let '(dst_start, out0, rest) :=
      if N.eqb c0 b_slash then (1%nat, [b_slash], s1)
      else let (k, r) := strip_dotdot_run (length s) s in (0%nat, dotdot_prefix_rev k, r) in
    let dst0 := length out0 in
    let comps := split_slash rest in
    let st := fold_left (mid_step dst0) (removelast comps) (0%nat, out0) in
    let out1 := last_step dst0 st (last comps []) in
    let out2 := match out1 with
                | c :: o' => if Nat.ltb dst_start (length out1) && N.eqb c b_slash then o' else out1
                | [] => out1
                end in
    match out2 with
    | [] => [b_dot]
    | _ => rev out2
    end
  end.

(* ---------- reference specification on components ---------- *)
Definition parse_path (s : bytes) : bool * list bytes :=
  match s with
  | c :: s' => if N.eqb c b_slash then (true, split_slash s') else (false, split_slash s)
  | [] => (false, split_slash s)
  end.

Definition ordinary (c : bytes) : bool := negb (is_empty c) && negb (is_dot c) && negb (is_dotdot c).

(* stack is kept reversed (top first) *)
Definition nf_step (st : list bytes) (c : bytes) : list bytes :=
  if is_empty c then st
  else if is_dot c then st
  else if is_dotdot c then
    match st with
    | t :: st' => if is_dotdot t then c :: st else st'
    | [] => [c]
    end
  else c :: st.
Definition nf (comps : list bytes) : list bytes := rev (fold_left nf_step comps []).

Definition render (abs : bool) (l : list bytes) : bytes :=
  if abs then b_slash :: join_slash l
  else match l with [] => [b_dot] | _ => join_slash l end.

Definition canon_spec (s : bytes) : bytes :=
  match s with
  | [] => []
  | _ => let (abs, comps) := parse_path s in render abs (nf comps)
  end.
