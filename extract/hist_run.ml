(* Driver of the extracted history-level model (coq/Engine/HistDefs.v run with the command function
   hcmd of coq/Engine/HistRun.v; extracted by coq/ExtractHist.v into histmodel.ml).
   Usage: hist_run hist          one history per input line, one result line per history
          hist_run hist-direct   the same without the memo table (slow)
          hist_run histd         histories of the recorded-deps model (HistDepsDefs.v), see the end of this comment
          hist_run histf         histories of the depfile-only model (HistDepfileDefs.v), see the end of this comment
          hist_run histy         histories of the dyndep model (HistDyndepDefs.v), see the end of this comment

   [build], [apply_step], [clean_of] of HistDefs.v take the command function as a parameter.  `hist` passes a
   MEMOIZED [hcmd g] (a table from (statement, command hash, snapshot, output) to the hash value: the 64-bit arithmetic on
   binary positives dominates the run time, and [clean_of] recomputes the content of every ancestor of every node at every
   build); `hist-direct` calls [build_f (hcmd g)], [step_run] (for the other steps) and [is_clean], without the table.
   The two print the same lines
   (tools/histmodel.py compares them on a sample of every run).

   Input line (space-separated key=value fields, all numbers decimal):
     N=<number of nodes>                       nodes are 0 .. N-1
     E=<edge>;<edge>;...                       statements 0 .. in manifest order ("-" = none)
        edge = ins/nimp/noo/outs/vals/flags/deps/hash
               ins, outs, vals: node ids joined by '+' ("-" = none); ins = explicit ++ implicit ++ order-only,
               nimp / noo = how many of them are implicit / order-only (counted from the end: the last noo are
               order-only, the nimp before them implicit); outs = explicit ++ implicit outputs;
               flags = three characters 0/1: phony restat generator; deps = 0 none | 1 depfile | 2 deps log;
               hash = the command hash the manifest starts with
     L=<n>,<n>,...                             nodes created by a dependency loader ("-" = none)
     S=<step>,<step>,...                       the history:
        e<n>:<c>   Edit n c      file n is written with content c (a fresh tick)
        d<n>       Delete n      file n is removed
        c<e>:<h>   SetCmd e h    the command line of statement e changes: new command hash h
        b<t>+<t>.. Build         one invocation of ninja with these targets ("b" alone: no target)
        n<t>+<t>.. dry run       `ninja -n` with these targets (HistDry.dry_build): the state is left alone
        f<t>+<t>..@<e>:<kind>/<e>:<kind>..   an invocation -j1 -k1 in which commands may fail (HistFailDefs.buildF):
                   statement e fails when it is started; kind = u (outputs left alone) | d (outputs removed) |
                   w<c> (every output o rewritten with content c + o, fresh ticks)
        f<t>+<t>..@<e>:<kind>/..@k<N>   the same with -k N (N = 0: no limit), HistFailKDefs.buildFK: several commands may fail,
                   what depends on a failed statement is skipped, nothing is started once N commands have failed
        k<t>+<t>..@<pos>:<at>   an invocation KILLED at the crash point (HistCrashDefs.buildK): pos = statement number (>= the
                   number of statements: after the last one); at = b (KBefore) | l (KLocked: lock file written) |
                   w<k> (the first k outputs written completely, with the contents of a successful run) |
                   g<k>:<c> (the first k outputs half written: content c + o) | j<n> (command finished, n log entries written)
        p<t>+<t>..@<j>:<ev>/<ev>..   one invocation with -j <j> (0 = no limit) under a SCHEDULE (HistParDefs.par_run): ev = s<e>
                   (the command of statement e is started) | f<e> (it finishes), in the order they happened
        p<t>+<t>..@<j>:<ev>/..@<e>.<q>/<e>.<q>..:<q>.<d>/<q>.<d>..   the same under POOLS (HistParPoolDefs.par_run_pool): statement e
                   belongs to pool q (statements not listed: the default pool), pool q has depth d (0 = unlimited; the console
                   pool is a pool of depth 1); "-" = empty list.  Without this field: no pools (par_run_pool = par_run then,
                   HistParPoolProofs.par_run_nopool)
        i<t>+<t>..@<pos>:<k>:<c>   an invocation INTERRUPTED while statement pos runs, after k output writes (content c + o);
                   Builder::Cleanup removes what was modified (HistCrashDefs.buildI)

   Output line:
     wf=<0|1> frag=<0|1> topo=<0|1> nip=<0|1> hok=<0|1>      wf_b, frag_AB, topo_ordered, no_inputless_phony, hist_ok
     then for every Build / dry-run / failing-build step, in order:
      | B ok=<0|1> ts=<0|1> run=<e>+<e>.. oldok=<0|1> old=<e>+<e>.. nodes=<x><q>:<content>:<mtime>:<loghash>:<logmtime>,...
        A Build step is run by HistFaithful.build_f (HistDepsFaithful.dbuild_f in `histd`): the loop that follows
        Plan::CleanNode.  oldok / old = acceptance and commands of HistDefs.build (HistDepsDefs.dbuild) from the SAME state:
        they differ from ok / run exactly where [dirty_now]'s re-scan re-runs what CleanNode prunes.
        ok   the model accepted the build (scan = ScanOk); 0 = refused, nothing runs, the state is unchanged
        run  the statements whose command ran in this build, oldest first ("-" = none)   [h_trace delta]
        nodes, for node 0 .. N-1 AFTER the build: x = the file exists, q = content_of = clean_of (the C01 predicate),
             content in hex and mtime (the model's logical clock) in decimal ("-" = no file), then the node's build-log
             entry: command hash in hex, recorded mtime in decimal ("-:-" = no entry)
        ts   taint_safe of the state the invocation starts in (HistFailDefs: no output written by a failed command is
             validated by an old log entry; the hypothesis of C01 with failures)
      | N ok=<0|1> list=<e>+<e>.. nodes=...       dry run: ok = accepted, list = the commands it prints (HistDry.dry_list,
             statement order), nodes = the state after it (HistDry: the state before it)
      | F ok=<0|1> failed=<0|1> fe=<e> ts=<0|1> run=<e>+<e>.. nodes=...   failing build: ok = accepted by the scan,
             failed = exit flag "subcommand failed", fe = the statement that failed ("-" = none),
             run = the commands STARTED, oldest first (the failing one is the last)
             with @k<N> (run by HistFailKFaithful.buildFK_f; oldok= old= : HistFailKDefs.buildFK): fe = ALL failed statements, oldest first, joined by '+'; blk = the blocked statements (failed, or
             skipped because an input's statement is blocked); bud = failures still allowed at the end ("inf" = -k 0)
      | P res=<done|refused|invalid|incomplete|fuel> ok=<0|1> acc=<n> ts= run=.. bfok= bf=.. conf=<0|1> nodes=..
             a build under a schedule: res = HistParDefs.presult (done = a valid complete execution; the state goes on from
             it), acc = number of events accepted (par_accepted: the index of the first refused event), run = the commands
             in the order they FINISHED; bfok / bf = HistFaithful.build_f from the same state, conf = same contents as it
      (F, K and I steps are run by the CleanNode-faithful loops of HistFailFaithful.v -- buildF_full_f, buildK_full_f,
       buildI_full_f --; oldok= / old= on those lines are acceptance and commands of the original loop from the same state)
      | K ok=<0|1> hit=<0|1> ts= run=.. nodes=..   killed invocation (HistCrashDefs.buildK_full): hit = the kill fell into a
             statement that was started (otherwise between two statements / after the last); run = commands started
      | I ok=<0|1> hit=<0|1> exit=<130|0|1> ts= run=.. nodes=..   interrupted invocation (HistCrashDefs.buildI_full)
        (tss on B lines = HistCrashDefs.taint_safe_stmt, the weaker hypothesis of recovery)

   `histd` (HistDepsDefs.v, fragment ABD): the same input line plus
     H=<e>:<n>+<n>..;<e>:..     the hidden reads of statement e (what its command reads besides its non-order-only manifest
                                inputs and reports through the depfile); such a statement has deps kind 2 (deps = gcc);
                                L= lists the nodes the manifest does not mention (hidden-only sources)
   steps e / d / c / b, and x = the deps log is lost (all records dropped).  hok= and hp= are about the history without
   the x steps; an e step may write an OUTPUT here (a file tampered with by hand: then hok=0).  Output: wf= frag=<frag_ABD> topo=<topo_ordered (inline g hid)> fragi=<frag_AB (inline g hid)>
     hro=<hidden_reads_ordered> nru=<no_restat_upstream_of_deps> nip= hok= hp=<hist_present>, then per Build
      | B ok= ts=1 run=.. nodes=<x><q>:<content>:<mtime>:<loghash>:<logmtime>:<depsmtime>:<n>+<n>..
        q = content_of = clean_of_d (the clean build of the INLINED manifest); the last two fields are the node's deps-log
        record: its mtime and the recorded nodes ("-:-" = no record, "<m>:-" = a record with no nodes)

   `histf` (HistDepfileDefs.v): the `histd` line, where deps kind 1 is a DEPFILE-ONLY statement (depfile = X without deps =;
   its hidden reads in H= as well) next to kind 2 (deps = gcc); a Build step is HistDepfileFaithful.fbuild_f (CleanNode
   followed literally), with HistDepfileDefs.fbuild from the same state next to it (oldok= old=).  Additional step  D<e> = DeleteDepfile e (the
   user removes the depfile of statement e).  Header: frag=<frag_ABD (to_log g) hid> (what the definitions need)
   abf=<frag_ABF: no deps = gcc statement, where the theorems are> topo= fragi= hro= nru= (both on to_log g) nip=
   hok=<fhist_ok> hp=<hist_present_f of the plain steps>.  Per Build:
      | B ok= ts=1 run=.. df=<e>:<n>+<n>../<e>:.. nodes=(as histd)
        df = the depfiles that exist and the names each lists ("-" = none; "<e>:-" = a depfile without names)

   `histy` (HistDyndepDefs.v, fragment ABY): N= E= (the manifest WITHOUT dyndep information: a bound statement lists its dyndep
   file among its implicit or order-only inputs) L=- and
     Y=<dd>:<e>~<ins>~<outs>~<r>/<e>~..;<dd>:..    per dyndep file node, in dependency order, the statements bound to it and what
                   the file says about each: implicit inputs, implicit outputs (node ids joined by '+', "-" = none), restat 0/1
   steps e / d / c / b.  A dyndep file has a FIXED content (2000000000 + node), whatever its producer read.
   Header: wf= frag=<frag_ABY> fragi=<frag_AB (inline_y g y)> topo= nip= (both on the inlined graph) ddo=<dd_ins_ordered>
   nlr=<no_late_restat> ads=<all_dd_sources> hok= hp=<hist_present_y>.  Per Build:
      | B res=<done|failed|refused> ok= ts=1 run=.. oldres= old=.. sl=<n>+.. iok= irun=.. eqi=<0|1> nodes=..
        res / run: HistDyndepFaithful.ybuild_ff (CleanNode + Plan::DyndepsLoaded / RefreshDyndepDependents followed literally;
        "fuel" must not occur); failed = a mid-build load failed (the producer's outputs are written, NOT logged);
        oldres / old: HistDyndepDefs.ybuild_f, old2res / old2: ybuild, both from the same state; sl = the dyndep files loaded at scan time
        (scan_loads); iok / irun: HistFaithful.build_f of the INLINED manifest, which goes through the same history next to it;
        eqi = the two are in the same state (disk, build log, clock) after this build (C11_equiv); nodes as in `hist`, q =
        content_of = clean_of of the inlined manifest *)
open Histmodel

let rec pos_of_int n : positive =
  if n = 1 then XH else if n land 1 = 0 then XO (pos_of_int (n lsr 1)) else XI (pos_of_int (n lsr 1))
let n_of_int n : n = if n = 0 then N0 else Npos (pos_of_int n)
let rec nat_of_int n = if n <= 0 then O else S (nat_of_int (n - 1))
let rec int_of_nat = function O -> 0 | S n -> 1 + int_of_nat n
let rec int_of_pos = function XH -> 1 | XO p -> 2 * int_of_pos p | XI p -> 2 * int_of_pos p + 1
let int_of_z = function Z0 -> 0 | Zpos p -> int_of_pos p | Zneg p -> - (int_of_pos p)

(* hexadecimal of a binary positive of any size *)
let hex_of_n (x : n) : string =
  match x with
  | N0 -> "0"
  | Npos p ->
    let rec bits p acc = match p with          (* least significant first *)
      | XH -> List.rev (true :: acc)
      | XO q -> bits q (false :: acc)
      | XI q -> bits q (true :: acc) in
    let bs = Array.of_list (bits p []) in
    let nb = Array.length bs in
    let nd = (nb + 3) / 4 in
    let buf = Buffer.create nd in
    for d = nd - 1 downto 0 do
      let v = ref 0 in
      for k = 3 downto 0 do
        let i = 4 * d + k in
        v := 2 * !v + (if i < nb && bs.(i) then 1 else 0)
      done;
      Buffer.add_char buf "0123456789abcdef".[!v]
    done;
    Buffer.contents buf

let split_ws s = List.filter (fun x -> x <> "") (String.split_on_char ' ' s)
let ids sep s = if s = "-" || s = "" then [] else List.map int_of_string (String.split_on_char sep s)
let nids sep s = List.map nat_of_int (ids sep s)
let field kv k = try List.assoc k kv with Not_found -> "-"
let items sep s = if s = "-" || s = "" then [] else String.split_on_char sep s
let rest s = String.sub s 1 (String.length s - 1)

type xstep =
  | P of hstep
  | Dry of nat list
  | FB of nat list * (int * char * int) list * int option     (* targets, (statement, kind, content base), -k N (None: -k1 model) *)
  | KB of nat list * int * char * int * int      (* killed: targets, position, point b|l|w|g|j, count, content base *)
  | IB of nat list * int * int * int             (* interrupted: targets, position, writes, content base *)
  | PB of nat list * int * pevent list * (nat * nat) list * (nat * nat) list
      (* a build under a schedule: targets, job limit (0 = none), events, statement -> pool, pool -> depth *)

let parse_step (t : string) : xstep =
  let two s = match String.split_on_char ':' s with
    | [a; b] -> (int_of_string a, int_of_string b) | _ -> failwith ("bad step " ^ t) in
  match t.[0] with
  | 'e' -> let (n, c) = two (rest t) in P (Edit (nat_of_int n, n_of_int c))
  | 'd' -> P (Delete (nat_of_int (int_of_string (rest t))))
  | 'c' -> let (e, h) = two (rest t) in P (SetCmd (nat_of_int e, n_of_int h))
  | 'b' -> P (Build (nids '+' (rest t)))
  | 'n' -> Dry (nids '+' (rest t))
  | 'f' ->
    let faults fs = List.map (fun f -> match String.split_on_char ':' f with
        | [e; k] when k <> "" ->
          (int_of_string e, k.[0], if k.[0] = 'w' then int_of_string (String.sub k 1 (String.length k - 1)) else 0)
        | _ -> failwith ("bad fault " ^ f)) (items '/' fs) in
    (match String.split_on_char '@' (rest t) with
     | [ts; fs; bud] when bud <> "" && bud.[0] = 'k' -> FB (nids '+' ts, faults fs, Some (int_of_string (rest bud)))
     | [ts; fs] -> FB (nids '+' ts, faults fs, None)
     | [ts] -> FB (nids '+' ts, [], None)
     | _ -> failwith ("bad step " ^ t))
  | 'k' ->
    (match String.split_on_char '@' (rest t) with
     | [ts; cp] ->
       (match String.split_on_char ':' cp with
        | pos :: a :: more when a <> "" ->
          let cnt = if String.length a > 1 then int_of_string (String.sub a 1 (String.length a - 1)) else 0 in
          let base = match more with [c] -> int_of_string c | _ -> 0 in
          KB (nids '+' ts, int_of_string pos, a.[0], cnt, base)
        | _ -> failwith ("bad crash point " ^ cp))
     | _ -> failwith ("bad step " ^ t))
  | 'p' ->
    let sched sc = match String.split_on_char ':' sc with
      | [j; evs] ->
        (int_of_string j,
         List.map (fun x -> let e = nat_of_int (int_of_string (rest x)) in
                    match x.[0] with 's' -> Start e | 'f' -> Finish e | _ -> failwith ("bad event " ^ x))
           (items '/' evs))
      | _ -> failwith ("bad schedule " ^ sc) in
    let pairs s = List.map (fun x -> match String.split_on_char '.' x with
        | [a; b] -> (nat_of_int (int_of_string a), nat_of_int (int_of_string b))
        | _ -> failwith ("bad pool entry " ^ x)) (items '/' s) in
    (match String.split_on_char '@' (rest t) with
     | [ts; sc] -> let (j, evs) = sched sc in PB (nids '+' ts, j, evs, [], [])
     | [ts; sc; pl] ->
       let (j, evs) = sched sc in
       (match String.split_on_char ':' pl with
        | [po; dp] -> PB (nids '+' ts, j, evs, pairs po, pairs dp)
        | _ -> failwith ("bad pools " ^ pl))
     | _ -> failwith ("bad step " ^ t))
  | 'i' ->
    (match String.split_on_char '@' (rest t) with
     | [ts; ip] ->
       (match String.split_on_char ':' ip with
        | [pos; k; c] -> IB (nids '+' ts, int_of_string pos, int_of_string k, int_of_string c)
        | _ -> failwith ("bad interrupt point " ^ ip))
     | _ -> failwith ("bad step " ^ t))
  | _ -> failwith ("bad step " ^ t)

let parse_graph (l : string) =
  let kv = List.map (fun t -> match String.index_opt t '=' with
      | Some i -> (String.sub t 0 i, String.sub t (i + 1) (String.length t - i - 1))
      | None -> (t, "")) (split_ws l) in
  let nnodes = int_of_string (field kv "N") in
  let edges = Array.of_list (List.map (fun e ->
      match String.split_on_char '/' e with
      | [ins; nimp; noo; outs; vals; fl; deps; hash] ->
        { ei_ins = nids '+' ins; ei_nimp = nat_of_int (int_of_string nimp); ei_noo = nat_of_int (int_of_string noo);
          ei_outs = nids '+' outs; ei_vals = nids '+' vals;
          ei_phony = fl.[0] = '1'; ei_restat = fl.[1] = '1'; ei_generator = fl.[2] = '1';
          ei_deps = (match deps with "0" -> DepsNone | "1" -> DepsDepfile | _ -> DepsLog);
          ei_hash = n_of_int (int_of_string hash) }
      | _ -> failwith "bad edge") (items ';' (field kv "E"))) in
  let ne = Array.length edges in
  let dummy = { ei_ins = []; ei_nimp = O; ei_noo = O; ei_outs = []; ei_vals = []; ei_phony = false;
                ei_restat = false; ei_generator = false; ei_deps = DepsNone; ei_hash = N0 } in
  (* Node::in_edge(): the first statement that lists the node as an output *)
  let producer = Hashtbl.create 64 in
  Array.iteri (fun i e -> List.iter (fun o -> let o = int_of_nat o in
                                      if not (Hashtbl.mem producer o) then Hashtbl.add producer o i) e.ei_outs) edges;
  let byl = Hashtbl.create 16 in
  List.iter (fun n -> Hashtbl.replace byl n ()) (ids ',' (field kv "L"));
  let g = { g_nedges = nat_of_int ne;
            g_edge = (fun e -> let i = int_of_nat e in if i < ne then edges.(i) else dummy);
            g_producer = (fun n -> match Hashtbl.find_opt producer (int_of_nat n) with
                | Some e -> Some (nat_of_int e) | None -> None);
            g_byloader = (fun n -> Hashtbl.mem byl (int_of_nat n)) } in
  (kv, nnodes, ne, g)

let hist_line (direct : bool) (l : string) : string =
  let (kv, nnodes, ne, g) = parse_graph l in
  let steps = List.map parse_step (items ',' (field kv "S")) in
  let b x = if x then "1" else "0" in
  let js sep l = if l = [] then "-" else String.concat sep l in
  let buf = Buffer.create 256 in
  Buffer.add_string buf
    (Printf.sprintf "wf=%s frag=%s topo=%s nip=%s hok=%s" (b (wf_b g (nat_of_int nnodes))) (b (frag_AB g))
       (b (topo_ordered g)) (b (no_inputless_phony g))
       (b (hist_ok g (List.concat_map (function P s -> [s] | _ -> []) steps))));
  let nodes = List.init nnodes nat_of_int in
  let st = ref (init_hstate g) in
  let memo = Hashtbl.create 256 in
  let key e h sn o = String.concat "," (string_of_int (int_of_nat e) :: string_of_int (int_of_nat o) :: hex_of_n h ::
                      List.map (fun (i, c) -> match c with Some c -> hex_of_n c | None -> "-") sn) in
  let mcmd e h sn o =
    let k = key e h sn o in
    match Hashtbl.find_opt memo k with
    | Some v -> v
    | None -> let v = hcmd g e h sn o in Hashtbl.add memo k v; v in
  let cmdf = if direct then hcmd g else mcmd in
  (* a Build step is HistFaithful.build_f (Plan::CleanNode followed literally); HistDefs.build is run next to it from the
     same state and only its commands are reported (old=) *)
  let step st s =
    match s with
    | Build t -> (match build_f cmdf g st t with Some st' -> (true, st') | None -> (false, st))
    | _ -> if direct then step_run g st s else (true, apply_step mcmd g st s) in
  let old_build st t = match build cmdf g st t with
    | Some st' -> (true, trace_delta st st') | None -> (false, []) in
  let is_clean g st n =
    if direct then is_clean g st n else opt_content_eqb (content_of st n) (clean_of mcmd g st n) in
  let show_nodes st' =
    js "," (List.map (fun n ->
        let fl = match st'.h_disk n with
          | Some (m, c) -> Printf.sprintf "1%s:%s:%d" (b (is_clean g st' n)) (hex_of_n c) (int_of_z m)
          | None -> Printf.sprintf "0%s:-:-" (b (is_clean g st' n)) in
        let lg = match st'.h_blog n with
          | Some (h, m) -> Printf.sprintf "%s:%d" (hex_of_n h) (int_of_z m)
          | None -> "-:-" in
        fl ^ ":" ^ lg) nodes) in
  let es l = js "+" (List.map (fun e -> string_of_int (int_of_nat e)) l) in
  List.iter (fun s ->
      match s with
      | P hs ->
        let ts = match hs with Build _ -> taint_safe g !st | _ -> true in
        let tss = match hs with Build _ -> taint_safe_stmt g !st | _ -> true in
        let (ok, st') = step !st hs in
        (match hs with
         | Build t ->
           let (ook, orun) = old_build !st t in
           Buffer.add_string buf (Printf.sprintf " | B ok=%s ts=%s tss=%s run=%s oldok=%s old=%s nodes=%s" (b ok) (b ts) (b tss)
                                    (es (trace_delta !st st')) (b ook) (es orun) (show_nodes st'))
         | _ -> ());
        st := st'
      | Dry t ->
        (match dry_build g !st t with
         | Some (st', l) ->
           Buffer.add_string buf (Printf.sprintf " | N ok=1 list=%s nodes=%s" (es l) (show_nodes st')); st := st'
         | None -> Buffer.add_string buf (Printf.sprintf " | N ok=0 list=- nodes=%s" (show_nodes !st)))
      | FB (t, fs, Some kn) ->
        (* -k N (HistFailKDefs.buildFK; N = 0: unlimited): several commands may fail *)
        let ts = taint_safe g !st in
        let faults = List.map (fun (e, k, c) ->
            (nat_of_int e, match k with
              | 'u' -> FailUntouched | 'd' -> FailDeleted
              | 'w' -> FailWrote (fun o -> n_of_int (c + int_of_nat o))
              | _ -> failwith "bad fault kind")) fs in
        let budget = if kn <= 0 then None else Some (nat_of_int kn) in
        (* HistFailKFaithful.buildFK_f (CleanNode-faithful); HistFailKDefs.buildFK from the same state next to it (old=) *)
        let (ook, orun) = match buildFK cmdf g !st t faults budget with
          | Some a -> (true, trace_delta !st a.k_st) | None -> (false, []) in
        (match buildFK_f cmdf g !st t faults budget with
         | Some a ->
           let fe = List.rev (failed_edges a) in
           Buffer.add_string buf (Printf.sprintf " | F ok=1 failed=%s fe=%s ts=%s run=%s blk=%s bud=%s oldok=%s old=%s nodes=%s" (b (fe <> [])) (es fe) (b ts)
                                    (es (trace_delta !st a.k_st)) (es (List.rev a.k_blocked))
                                    (match a.k_budget with None -> "inf" | Some n -> string_of_int (int_of_nat n)) (b ook) (es orun) (show_nodes a.k_st));
           st := a.k_st
         | None ->
           Buffer.add_string buf (Printf.sprintf " | F ok=0 failed=0 fe=- ts=%s run=- blk=- bud=- oldok=%s old=%s nodes=%s" (b ts) (b ook) (es orun) (show_nodes !st)))
      | FB (t, fs, None) ->
        let ts = taint_safe g !st in
        let faults = List.map (fun (e, k, c) ->
            (nat_of_int e, match k with
              | 'u' -> FailUntouched | 'd' -> FailDeleted
              | 'w' -> FailWrote (fun o -> n_of_int (c + int_of_nat o))
              | _ -> failwith "bad fault kind")) fs in
        (* HistFailFaithful.buildF_full_f (CleanNode-faithful); HistFailDefs.buildF_full from the same state next to it (old=) *)
        let (ook, orun) = match buildF_full cmdf g !st t faults with
          | Some (st', _) -> (true, trace_delta !st st') | None -> (false, []) in
        (match buildF_full_f cmdf g !st t faults with
         | Some (st', r) ->
           let (failed, fe) = match r with Some ((e, _), _) -> (true, string_of_int (int_of_nat e)) | None -> (false, "-") in
           Buffer.add_string buf (Printf.sprintf " | F ok=1 failed=%s fe=%s ts=%s run=%s oldok=%s old=%s nodes=%s" (b failed) fe (b ts)
                                    (es (trace_delta !st st')) (b ook) (es orun) (show_nodes st'));
           st := st'
         | None ->
           Buffer.add_string buf (Printf.sprintf " | F ok=0 failed=0 fe=- ts=%s run=- oldok=%s old=%s nodes=%s" (b ts) (b ook) (es orun) (show_nodes !st)))
      | KB (t, pos, a, cnt, base) ->
        let ts = taint_safe g !st in
        let mk f = { cp_pos = nat_of_int pos;
                     cp_at = (match a with
                         | 'b' -> KBefore | 'l' -> KLocked | 'j' -> KLogged (nat_of_int cnt)
                         | 'w' | 'g' -> KWrote (nat_of_int cnt, f)
                         | _ -> failwith "bad crash point kind") } in
        let garbage o = n_of_int (base + int_of_nat o) in
        (* 'w': the killed command had written its first outputs COMPLETELY (the harness replaces files atomically): the
           contents are those of a successful run, i.e. cmd e h (reads stk e) for the state stk the statement is started in,
           which buildK_full itself reports (first pass with placeholder contents) *)
        let f = if a <> 'w' then garbage else
            match buildK_full_f cmdf g !st t (mk garbage) with
            | Some (_, Some ((e, _), stk)) -> let sn = reads g stk e in let h = stk.h_hash e in (fun o -> cmdf e h sn o)
            | _ -> garbage in
        let (ook, orun) = match buildK_full cmdf g !st t (mk f) with
          | Some (st', _) -> (true, trace_delta !st st') | None -> (false, []) in
        (match buildK_full_f cmdf g !st t (mk f) with
         | Some (st', r) ->
           Buffer.add_string buf (Printf.sprintf " | K ok=1 hit=%s ts=%s run=%s oldok=%s old=%s nodes=%s" (b (r <> None)) (b ts)
                                    (es (trace_delta !st st')) (b ook) (es orun) (show_nodes st'));
           st := st'
         | None -> Buffer.add_string buf (Printf.sprintf " | K ok=0 hit=0 ts=%s run=- oldok=%s old=%s nodes=%s" (b ts) (b ook) (es orun) (show_nodes !st)))
      | PB (t, j, sched, pol, dpl) ->
        (* one invocation under the schedule the engine's -j N run took (HistParDefs.par_run); next to it the sequential
           faithful loop from the same state: same commands, same contents (confluence).  The history goes on from the
           PARALLEL result. *)
        let ts = taint_safe g !st in
        let lim = if j <= 0 then None else Some (nat_of_int j) in
        let pof = pool_of_list pol and dep = depth_of_list dpl in
        let acc = match scan (graph_of g !st) (world_of !st) t with
          | ScanOk (s0, p0) -> int_of_nat (par_accepted_pool cmdf g pof dep lim sched (init_pcfg !st s0 p0))
          | _ -> 0 in
        let (bfok, bfrun, bfst) = match build_f cmdf g !st t with
          | Some st' -> (true, trace_delta !st st', Some st') | None -> (false, [], None) in
        let line res ok st' =
          let conf = match bfst with
            | Some sb -> List.for_all (fun n -> opt_content_eqb (content_of st' n) (content_of sb n)) nodes
            | None -> not ok in
          Buffer.add_string buf (Printf.sprintf " | P res=%s ok=%s acc=%d ts=%s run=%s bfok=%s bf=%s conf=%s nodes=%s" res (b ok) acc (b ts)
                                   (es (trace_delta !st st')) (b bfok) (es bfrun) (b conf) (show_nodes st')) in
        (match par_run_pool cmdf g pof dep lim !st t sched with
         | PDone c -> line "done" true c.p_st; st := c.p_st
         | PRefused -> line "refused" false !st
         | PInvalid -> line "invalid" false !st
         | PIncomplete _ -> line "incomplete" false !st
         | POutOfFuel -> line "fuel" false !st)
      | IB (t, pos, k, base) ->
        let ts = taint_safe g !st in
        let ip = { ip_pos = nat_of_int pos; ip_k = nat_of_int k; ip_f = (fun o -> n_of_int (base + int_of_nat o)) } in
        let (ook, orun) = match buildI_full cmdf g !st t ip with
          | Some (st', _) -> (true, trace_delta !st st') | None -> (false, []) in
        (match buildI_full_f cmdf g !st t ip with
         | Some (st', r) ->
           Buffer.add_string buf (Printf.sprintf " | I ok=1 hit=%s exit=%d ts=%s run=%s oldok=%s old=%s nodes=%s" (b (r <> None))
                                    (if r <> None then 130 else 0) (b ts) (es (trace_delta !st st')) (b ook) (es orun) (show_nodes st'));
           st := st'
         | None -> Buffer.add_string buf (Printf.sprintf " | I ok=0 hit=0 exit=1 ts=%s run=- oldok=%s old=%s nodes=%s" (b ts) (b ook) (es orun) (show_nodes !st))))
    steps;
  Buffer.contents buf


(* ---- the recorded-deps model (HistDepsDefs.v): fragment ABD, statements with deps = gcc (deps kind 2, deps log) and
   their hidden reads.  Steps e / d / c / b only. *)
let histd_line (l : string) : string =
  let (kv, nnodes, ne, g) = parse_graph l in
  let htab = Hashtbl.create 16 in
  List.iter (fun it -> match String.split_on_char ':' it with
      | [e; ns] -> Hashtbl.replace htab (int_of_string e) (nids '+' ns)
      | _ -> failwith "bad H") (items ';' (field kv "H"));
  let hid e = match Hashtbl.find_opt htab (int_of_nat e) with Some l -> l | None -> [] in
  (* x = the deps log is lost (every record dropped: HistDepsDefs.drop_deps for every node); no history step of the theorems *)
  let xsteps = List.map (fun t -> if t = "x" then None else
                            match parse_step t with P s -> Some s | _ -> failwith ("step outside histd: " ^ t))
      (items ',' (field kv "S")) in
  let steps = List.concat_map (function Some s -> [s] | None -> []) xsteps in
  let b x = if x then "1" else "0" in
  let js sep l = if l = [] then "-" else String.concat sep l in
  let memo = Hashtbl.create 256 in
  let key e h sn o = String.concat "," (string_of_int (int_of_nat e) :: string_of_int (int_of_nat o) :: hex_of_n h ::
                      List.map (fun (i, c) -> match c with Some c -> hex_of_n c | None -> "-") sn) in
  let mcmd e h sn o =
    let k = key e h sn o in
    match Hashtbl.find_opt memo k with
    | Some v -> v
    | None -> let v = hcmd g e h sn o in Hashtbl.add memo k v; v in
  let gi = inline g hid in
  let buf = Buffer.create 256 in
  Buffer.add_string buf
    (Printf.sprintf "wf=%s frag=%s topo=%s fragi=%s hro=%s nru=%s nip=%s hok=%s hp=%s"
       (b (wf_b g (nat_of_int nnodes))) (b (frag_ABD g hid)) (b (topo_ordered gi)) (b (frag_AB gi))
       (b (hidden_reads_ordered g hid)) (b (no_restat_upstream_of_deps g hid)) (b (no_inputless_phony g))
       (b (hist_ok g steps)) (b (hist_present mcmd g hid (init_dstate g) steps)));
  let nodes = List.init nnodes nat_of_int in
  let es l = js "+" (List.map (fun e -> string_of_int (int_of_nat e)) l) in
  let show ds =
    let st' = ds.d_h in
    js "," (List.map (fun n ->
        let cl = b (opt_content_eqb (content_of st' n) (clean_of_d mcmd g hid ds n)) in
        let fl = match st'.h_disk n with
          | Some (m, c) -> Printf.sprintf "1%s:%s:%d" cl (hex_of_n c) (int_of_z m)
          | None -> Printf.sprintf "0%s:-:-" cl in
        let lg = match st'.h_blog n with
          | Some (h, m) -> Printf.sprintf "%s:%d" (hex_of_n h) (int_of_z m)
          | None -> "-:-" in
        let dp = match ds.d_deps n with
          | Some (m, l) -> Printf.sprintf "%d:%s" (int_of_z m) (es l)
          | None -> "-:-" in
        fl ^ ":" ^ lg ^ ":" ^ dp) nodes) in
  let ds = ref (init_dstate g) in
  List.iter (fun s ->
      match s with
      | None -> ds := List.fold_left drop_deps !ds nodes
      | Some (Build t) ->
        let (ook, orun) = match dbuild mcmd g hid !ds t with
          | Some ds' -> (true, trace_delta !ds.d_h ds'.d_h) | None -> (false, []) in
        (match dbuild_f mcmd g hid !ds t with
         | Some ds' ->
           Buffer.add_string buf (Printf.sprintf " | B ok=1 ts=1 run=%s oldok=%s old=%s nodes=%s" (es (trace_delta !ds.d_h ds'.d_h))
                                    (b ook) (es orun) (show ds'));
           ds := ds'
         | None -> Buffer.add_string buf (Printf.sprintf " | B ok=0 ts=1 run=- oldok=%s old=%s nodes=%s" (b ook) (es orun) (show !ds)))
      | Some s -> ds := dapply_step mcmd g hid !ds s) xsteps;
  Buffer.contents buf


(* ---- the depfile-only model (HistDepfileDefs.v): statements with deps kind 1 (depfile = X, no deps =) next to deps = gcc
   ones; the depfiles on disk are part of the state.  Steps e / d / c / b, x (deps log lost), D<e> (DeleteDepfile e). *)
let histf_line (l : string) : string =
  let (kv, nnodes, ne, g) = parse_graph l in
  let htab = Hashtbl.create 16 in
  List.iter (fun it -> match String.split_on_char ':' it with
      | [e; ns] -> Hashtbl.replace htab (int_of_string e) (nids '+' ns)
      | _ -> failwith "bad H") (items ';' (field kv "H"));
  let hid e = match Hashtbl.find_opt htab (int_of_nat e) with Some l -> l | None -> [] in
  let xsteps = List.map (fun t ->
      if t = "x" then `X
      else if t.[0] = 'D' then `F (DeleteDepfile (nat_of_int (int_of_string (rest t))))
      else match parse_step t with P s -> `F (FS s) | _ -> failwith ("step outside histf: " ^ t))
      (items ',' (field kv "S")) in
  let fsteps = List.concat_map (function `F s -> [s] | `X -> []) xsteps in
  let hsteps = List.concat_map (function `F (FS s) -> [s] | _ -> []) xsteps in
  let b x = if x then "1" else "0" in
  let js sep l = if l = [] then "-" else String.concat sep l in
  let memo = Hashtbl.create 256 in
  let key e h sn o = String.concat "," (string_of_int (int_of_nat e) :: string_of_int (int_of_nat o) :: hex_of_n h ::
                      List.map (fun (i, c) -> match c with Some c -> hex_of_n c | None -> "-") sn) in
  let mcmd e h sn o =
    let k = key e h sn o in
    match Hashtbl.find_opt memo k with
    | Some v -> v
    | None -> let v = hcmd g e h sn o in Hashtbl.add memo k v; v in
  let gi = inline g hid in
  let buf = Buffer.create 256 in
  Buffer.add_string buf
    (Printf.sprintf "wf=%s frag=%s abf=%s topo=%s fragi=%s hro=%s nru=%s nip=%s hok=%s hp=%s"
       (b (wf_b g (nat_of_int nnodes))) (b (frag_ABD (to_log g) hid)) (b (frag_ABF g hid)) (b (topo_ordered gi)) (b (frag_AB gi))
       (b (hidden_reads_ordered (to_log g) hid)) (b (no_restat_upstream_of_deps (to_log g) hid)) (b (no_inputless_phony g))
       (b (fhist_ok g fsteps)) (b (hist_present_f mcmd g hid (init_fstate g) hsteps)));
  let nodes = List.init nnodes nat_of_int in
  let es l = js "+" (List.map (fun e -> string_of_int (int_of_nat e)) l) in
  let show fs =
    let ds = fs.f_ds in
    let st' = ds.d_h in
    let nd = js "," (List.map (fun n ->
        let cl = b (opt_content_eqb (content_of st' n) (clean_of_f mcmd g hid fs n)) in
        let fl = match st'.h_disk n with
          | Some (m, c) -> Printf.sprintf "1%s:%s:%d" cl (hex_of_n c) (int_of_z m)
          | None -> Printf.sprintf "0%s:-:-" cl in
        let lg = match st'.h_blog n with
          | Some (h, m) -> Printf.sprintf "%s:%d" (hex_of_n h) (int_of_z m)
          | None -> "-:-" in
        let dp = match ds.d_deps n with
          | Some (m, l) -> Printf.sprintf "%d:%s" (int_of_z m) (es l)
          | None -> "-:-" in
        fl ^ ":" ^ lg ^ ":" ^ dp) nodes) in
    let df = js "/" (List.concat_map (fun e -> match fs.f_df (nat_of_int e) with
        | Some l -> [Printf.sprintf "%d:%s" e (es l)] | None -> []) (List.init ne (fun i -> i))) in
    Printf.sprintf "df=%s nodes=%s" df nd in
  let fs = ref (init_fstate g) in
  List.iter (fun s ->
      match s with
      | `X -> fs := flift (fun ds -> List.fold_left drop_deps ds nodes) !fs
      | `F (FS (Build t)) ->
        let (ook, orun) = match fbuild mcmd g hid !fs t with
          | Some fs' -> (true, trace_delta !fs.f_ds.d_h fs'.f_ds.d_h) | None -> (false, []) in
        (match fbuild_f mcmd g hid !fs t with
         | Some fs' ->
           Buffer.add_string buf (Printf.sprintf " | B ok=1 ts=1 run=%s oldok=%s old=%s %s" (es (trace_delta !fs.f_ds.d_h fs'.f_ds.d_h)) (b ook) (es orun) (show fs'));
           fs := fs'
         | None -> Buffer.add_string buf (Printf.sprintf " | B ok=0 ts=1 run=- oldok=%s old=%s %s" (b ook) (es orun) (show !fs)))
      | `F s -> fs := fapply_step mcmd g hid !fs s) xsteps;
  Buffer.contents buf


(* ---- the dyndep model (HistDyndepDefs.v): fragment ABY.  The manifest graph carries NO dyndep information (a bound statement
   lists its dyndep file among its inputs); Y= is the ground truth of what the files say.  Steps e / d / c / b. *)
let histy_line (l : string) : string =
  let (kv, nnodes, ne, g) = parse_graph l in
  let bind = Hashtbl.create 16 and yins = Hashtbl.create 16 and youts = Hashtbl.create 16 and yrs = Hashtbl.create 16
  and yprod = Hashtbl.create 16 in
  let dds = List.map (fun it -> match String.split_on_char ':' it with
      | [dd; sts] ->
        let dd = int_of_string dd in
        List.iter (fun st -> match String.split_on_char '~' st with
            | [e; ins; outs; r] ->
              let e = int_of_string e in
              Hashtbl.replace bind e (nat_of_int dd);
              Hashtbl.replace yins e (nids '+' ins); Hashtbl.replace youts e (nids '+' outs);
              if r = "1" then Hashtbl.replace yrs e ();
              List.iter (fun o -> Hashtbl.replace yprod o (nat_of_int e)) (ids '+' outs)
            | _ -> failwith "bad Y statement") (items '/' sts);
        nat_of_int dd
      | _ -> failwith "bad Y") (items ';' (field kv "Y")) in
  let lk t e = match Hashtbl.find_opt t (int_of_nat e) with Some l -> l | None -> [] in
  let y = { y_dds = dds; y_bind = (fun e -> Hashtbl.find_opt bind (int_of_nat e));
            y_ins = lk yins; y_outs = lk youts; y_restat = (fun e -> Hashtbl.mem yrs (int_of_nat e));
            y_prod = (fun n -> Hashtbl.find_opt yprod (int_of_nat n)) } in
  let steps = List.map (fun t -> match parse_step t with P s -> s | _ -> failwith ("step outside histy: " ^ t))
      (items ',' (field kv "S")) in
  let b x = if x then "1" else "0" in
  let js sep l = if l = [] then "-" else String.concat sep l in
  let memo = Hashtbl.create 256 in
  let key e h sn o = String.concat "," (string_of_int (int_of_nat e) :: string_of_int (int_of_nat o) :: hex_of_n h ::
                      List.map (fun (i, c) -> match c with Some c -> hex_of_n c | None -> "-") sn) in
  let isdd = Hashtbl.create 8 in
  List.iter (fun dd -> Hashtbl.replace isdd (int_of_nat dd) ()) dds;
  (* the command function: hcmd, except that the text of a dyndep file is a function of the ground truth alone (the
     harness writes the same text whatever its producer read: ContentFor / ddtext): a fixed content per dyndep file *)
  let mcmd e h sn o =
    if Hashtbl.mem isdd (int_of_nat o) then n_of_int (2000000000 + int_of_nat o) else
    let k = key e h sn o in
    match Hashtbl.find_opt memo k with
    | Some v -> v
    | None -> let v = hcmd g e h sn o in Hashtbl.add memo k v; v in
  let gi = inline_y g y in
  let buf = Buffer.create 256 in
  Buffer.add_string buf
    (Printf.sprintf "wf=%s frag=%s fragi=%s topo=%s nip=%s ddo=%s nlr=%s ads=%s hok=%s hp=%s"
       (b (wf_b gi (nat_of_int nnodes))) (b (frag_ABY g y)) (b (frag_AB gi)) (b (topo_ordered gi)) (b (no_inputless_phony gi))
       (b (dd_ins_ordered g y)) (b (no_late_restat g y)) (b (all_dd_sources g y)) (b (hist_ok gi steps))
       (b (hist_present_y mcmd g y (init_hstate g) steps)));
  let nodes = List.init nnodes nat_of_int in
  let es l = js "+" (List.map (fun e -> string_of_int (int_of_nat e)) l) in
  let show st' =
    js "," (List.map (fun n ->
        let cl = b (opt_content_eqb (content_of st' n) (clean_of mcmd gi st' n)) in
        let fl = match st'.h_disk n with
          | Some (m, c) -> Printf.sprintf "1%s:%s:%d" cl (hex_of_n c) (int_of_z m)
          | None -> Printf.sprintf "0%s:-:-" cl in
        let lg = match st'.h_blog n with
          | Some (h, m) -> Printf.sprintf "%s:%d" (hex_of_n h) (int_of_z m)
          | None -> "-:-" in
        fl ^ ":" ^ lg) nodes) in
  let same a c = List.for_all (fun n -> a.h_disk n = c.h_disk n && a.h_blog n = c.h_blog n) nodes && a.h_clock = c.h_clock in
  let st = ref (init_hstate g) in
  let sti = ref (init_hstate gi) in          (* the inlined manifest through the same history (C11_equiv) *)
  List.iter (fun s ->
      match s with
      | Build t ->
        let res r = match r with YDone st' -> ("done", st') | YFailed st' -> ("failed", st') | YRefused -> ("refused", !st) in
        let sl = scan_loads g y !st in
        let (ores, ost) = res (ybuild_f mcmd g y !st t) in
        let (o2res, o2st) = res (ybuild mcmd g y !st t) in
        let (rs, st') = match ybuild_ff mcmd g y !st t with
          | FDone st' -> ("done", st') | FFailed st' -> ("failed", st') | FRefused -> ("refused", !st) | FOutOfFuel st' -> ("fuel", st') in
        let (iok, sti') = match build_f mcmd gi !sti t with Some x -> (true, x) | None -> (false, !sti) in
        Buffer.add_string buf (Printf.sprintf " | B res=%s ok=%s ts=1 run=%s oldres=%s old=%s old2res=%s old2=%s sl=%s iok=%s irun=%s eqi=%s nodes=%s"
                                 rs (b (rs <> "refused")) (es (trace_delta !st st')) ores (es (trace_delta !st ost)) o2res (es (trace_delta !st o2st)) (es sl)
                                 (b iok) (es (trace_delta !sti sti')) (b (same st' sti')) (show st'));
        st := st'; sti := sti'
      | _ -> st := apply_step mcmd g !st s; sti := apply_step mcmd gi !sti s) steps;
  Buffer.contents buf

let each_line f =
  try while true do
    let l = input_line stdin in
    print_string (f l); print_char '\n'
  done with End_of_file -> ()

let () = match Sys.argv.(1) with
  | "hist" -> each_line (hist_line false)
  | "hist-direct" -> each_line (hist_line true)
  | "histd" -> each_line histd_line
  | "histf" -> each_line histf_line
  | "histy" -> each_line histy_line
  | c -> prerr_endline ("unknown component " ^ c); exit 2
