(* Driver of the extracted status-reporting model (coq/Status/StatusDefs.v, see coq/Status/README.md).
   stdin: blocks
     script <id> tty=<0|1> verb=<0..3> color=<0|1> width=<n> fmt=<default|-|hex> eval=<none|-|Lhex,Vhex,...>
     edge <k> <console 0|1> <desc-hex> <cmd-hex> <out-hex,out-hex,...|->       (k = 0,1,2... in order)
     time <call-index> <key-hex> <text-hex>          (value of a time-dependent placeholder at that call)
     c added <k> | c removed <k> | c started <k> | c finished <k> <code> <output-hex>
     c buildstarted | c buildfinished | c lock <0|1> | c newline | c info <hex> | c warning <hex> | c error <hex>
     end
   stdout, one line per block:  result <id> dead=<0|1> out=<hex> err=<hex>
   Other entry points:  status_run elide  (lines "<width> <hex>" -> hex of ElideMiddleInPlace)
                        status_run strip  (lines "<hex>" -> hex of StripAnsiEscapeCodes) *)
open Statusmodel

let rec pos_of_int n = if n <= 1 then XH else if n land 1 = 0 then XO (pos_of_int (n lsr 1)) else XI (pos_of_int (n lsr 1))
let n_of_int n = if n <= 0 then N0 else Npos (pos_of_int n)
let rec int_of_pos = function XH -> 1 | XO p -> 2 * int_of_pos p | XI p -> 2 * int_of_pos p + 1
let int_of_n = function N0 -> 0 | Npos p -> int_of_pos p
let z_of_int n = if n = 0 then Z0 else if n > 0 then Zpos (pos_of_int n) else Zneg (pos_of_int (- n))
let rec nat_of_int n = if n <= 0 then O else S (nat_of_int (n - 1))
let rec int_of_nat = function O -> 0 | S n -> 1 + int_of_nat n

let hexval c = match c with
  | '0' .. '9' -> Char.code c - 48 | 'a' .. 'f' -> Char.code c - 87 | 'A' .. 'F' -> Char.code c - 55
  | _ -> failwith "bad hex"
let unhex s : n list =
  if s = "-" then [] else begin
    let r = ref [] in
    let i = ref (String.length s - 2) in
    while !i >= 0 do
      r := n_of_int (hexval s.[!i] * 16 + hexval s.[!i + 1]) :: !r; i := !i - 2
    done; !r end
let hex (l : n list) =
  if l = [] then "-" else begin
    let b = Buffer.create 256 in
    List.iter (fun x -> Buffer.add_string b (Printf.sprintf "%02x" (int_of_n x))) l;
    Buffer.contents b end

let words l = List.filter (fun x -> x <> "") (String.split_on_char ' ' l)
let kv w = List.filter_map (fun x -> match String.index_opt x '=' with
    | Some i -> Some (String.sub x 0 i, String.sub x (i + 1) (String.length x - i - 1))
    | None -> None) w

let script_main () =
  let cfg_tty = ref false and cfg_verb = ref VNormal and cfg_color = ref false and cfg_width = ref 0 in
  let cfg_fmt = ref default_format and cfg_eval = ref None in
  let sid = ref "" in
  let edges : edge list ref = ref [] in
  let times : ((int * n list) * n list) list ref = ref [] in
  let calls : call list ref = ref [] in
  let edge k = List.nth !edges (int_of_string k) in
  (try while true do
    let l = input_line stdin in
    match words l with
    | "script" :: id :: rest ->
      let m = kv rest in
      let a k = List.assoc k m in
      sid := id; edges := []; times := []; calls := [];
      cfg_tty := (a "tty" = "1");
      cfg_verb := (match a "verb" with "0" -> VQuiet | "1" -> VNoStatus | "2" -> VNormal | _ -> VVerbose);
      cfg_color := (a "color" = "1");
      cfg_width := int_of_string (a "width");
      cfg_fmt := (match a "fmt" with "default" -> default_format | h -> unhex h);
      cfg_eval := (match a "eval" with
          | "none" -> None
          | "-" -> Some []
          | s -> Some (List.map (fun t ->
              let body = String.sub t 1 (String.length t - 1) in
              ((t.[0] = 'V'), unhex body)) (String.split_on_char ',' s)))
    | [ "edge"; _k; con; d; c; outs ] ->
      let os = if outs = "-" then [] else List.map unhex (String.split_on_char ',' outs) in
      edges := !edges @ [ { e_desc = unhex d; e_cmd = unhex c; e_console = (con = "1"); e_outs = os } ]
    | [ "time"; idx; key; v ] -> times := ((int_of_string idx, unhex key), unhex v) :: !times
    | "c" :: rest ->
      let c = (match rest with
          | [ "added"; k ] -> Added (edge k)
          | [ "removed"; k ] -> Removed (edge k)
          | [ "started"; k ] -> Started (edge k)
          | [ "finished"; k; code; o ] -> Finished (edge k, z_of_int (int_of_string code), unhex o)
          | [ "buildstarted" ] -> BuildStarted
          | [ "buildfinished" ] -> BuildFinished
          | [ "lock"; b ] -> ConsoleLock (b = "1")
          | [ "newline" ] -> NewLine
          | [ "info"; h ] -> Info (unhex h)
          | [ "warning"; h ] -> Warning (unhex h)
          | [ "error"; h ] -> Error (unhex h)
          | _ -> failwith ("bad call: " ^ l)) in
      calls := c :: !calls
    | [ "end" ] ->
      let tbl = !times in
      let tm idx key = (try List.assoc (int_of_nat idx, key) tbl with Not_found -> unhex "3f3f") in
      let cfg = { c_tty = !cfg_tty; c_verb = !cfg_verb; c_color = !cfg_color; c_width = nat_of_int !cfg_width;
                  c_format = !cfg_fmt; c_eval = !cfg_eval; c_time = tm } in
      let ((st, out), err) = run cfg (List.rev !calls) in
      print_string (Printf.sprintf "result %s dead=%d out=%s err=%s\n" !sid (if st.s_dead then 1 else 0) (hex out) (hex err))
    | [] -> ()
    | _ -> failwith ("bad line: " ^ l)
  done with End_of_file -> ())

let elide_main () =
  (try while true do
    match words (input_line stdin) with
    | [ w; h ] -> print_string (hex (elide_middle (unhex h) (nat_of_int (int_of_string w))) ^ "\n")
    | _ -> print_string "?\n"
  done with End_of_file -> ())

let strip_main () =
  (try while true do
    match words (input_line stdin) with
    | [ h ] -> print_string (hex (strip_ansi (unhex h)) ^ "\n")
    | _ -> print_string "-\n"
  done with End_of_file -> ())

let () =
  match Array.to_list Sys.argv with
  | _ :: "elide" :: _ -> elide_main ()
  | _ :: "strip" :: _ -> strip_main ()
  | _ -> script_main ()
