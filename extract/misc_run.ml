(* Driver of the extracted models of the small readers (coq/Misc): one case per line on stdin, one result
   line per case.  Usage: misc_run clparser | makeflags | fdpair | mfargs | cllines *)
open Miscmodel

let rec pos_of_int n : positive =
  if n = 1 then XH else if n land 1 = 0 then XO (pos_of_int (n lsr 1)) else XI (pos_of_int (n lsr 1))
let n_of_int n : n = if n = 0 then N0 else Npos (pos_of_int n)
let rec int_of_pos = function XH -> 1 | XO p -> 2 * int_of_pos p | XI p -> 2 * int_of_pos p + 1
let int_of_n = function N0 -> 0 | Npos p -> int_of_pos p
let int_of_z = function Z0 -> 0 | Zpos p -> int_of_pos p | Zneg p -> - (int_of_pos p)

let hexval c = match c with
  | '0'..'9' -> Char.code c - 48 | 'a'..'f' -> Char.code c - 87 | 'A'..'F' -> Char.code c - 55
  | _ -> failwith "bad hex"
let bytes_of_hex (s : string) : n list =
  let s = if s = "-" then "" else s in
  let l = String.length s / 2 in
  List.init l (fun i -> n_of_int (hexval s.[2*i] * 16 + hexval s.[2*i+1]))
let hex_of_bytes (b : n list) : string =
  if b = [] then "-" else
  String.concat "" (List.map (fun x -> Printf.sprintf "%02x" (int_of_n x)) b)
let bytes_of_string (s : string) : n list = List.init (String.length s) (fun i -> n_of_int (Char.code s.[i]))

let each_line f =
  try while true do
    let l = input_line stdin in
    print_string (f l); print_char '\n'
  done with End_of_file -> ()

let split_ws s = List.filter (fun x -> x <> "") (String.split_on_char ' ' s)
let lst xs = if xs = [] then "-" else String.concat "," (List.map hex_of_bytes xs)

let mode_int = function ModeNone -> 0 | ModePipe -> 1 | ModePosixFifo -> 2 | ModeWin32Sem -> 3
let err_bytes = function
  | ENone -> []
  | EBadPair v -> bytes_of_string "Invalid file descriptor pair [" @ v @ bytes_of_string "]"
  | EPipe -> bytes_of_string "Pipe-based protocol is not supported!"
  | ESem -> bytes_of_string "Semaphore mode is not supported on Posix!"
let b01 b = if b then "1" else "0"

let () =
  match Sys.argv.(1) with
  | "clparser" -> each_line (fun l ->          (* <output-hex> [<prefix-hex>] *)
      let out, pre = match split_ws l with [o] -> o, "-" | o :: p :: _ -> o, p | [] -> "-", "-" in
      (match cl_parse (bytes_of_hex out) (bytes_of_hex pre) with
       | None -> "OUTOFFUEL"
       | Some st ->
         (* std::set order = bytewise order = order of the hex strings *)
         let incs = List.sort compare (List.map hex_of_bytes st.cs_incs) in
         "OK " ^ hex_of_bytes st.cs_out ^ " " ^ (if incs = [] then "-" else String.concat "," incs)))
  | "makeflags" -> each_line (fun l ->         (* <value-hex> *)
      let v = bytes_of_hex (String.trim l) in
      let r = parse_makeflags v and r2 = parse_native_makeflags v in
      Printf.sprintf "%s %s %d %s %s %s %d %s" (b01 r.r_ok) (b01 r2.r_ok) (mode_int r.r_cfg.cfg_mode)
        (hex_of_bytes r.r_cfg.cfg_path) (hex_of_bytes (err_bytes r.r_err)) (hex_of_bytes (err_bytes r2.r_err))
        (mode_int r2.r_cfg.cfg_mode) (hex_of_bytes r2.r_cfg.cfg_path))
  | "fdpair" -> each_line (fun l ->
      match fd_pair (bytes_of_hex (String.trim l)) with
      | None -> "none"
      | Some (a, b) -> Printf.sprintf "some %d %d" (int_of_z a) (int_of_z b))
  | "mfargs" -> each_line (fun l -> lst (mf_args (bytes_of_hex (String.trim l))))
  | "cllines" -> each_line (fun l -> lst (cl_lines (bytes_of_hex (String.trim l))))
  | c -> prerr_endline ("unknown component " ^ c); exit 2
