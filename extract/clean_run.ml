(* Driver of the extracted Cleaner model (coq/Clean/CleanDefs.v, property C18).
   stdin, one case = a block of lines:
     case <id> mode=all|targets|rules|dead dry=0|1 gen=0|1 [fuel=<n>]
     edge outs=<hex,..|-> ins=<..> vals=<..> phony=0|1 generator=0|1 rule=<int> depfile=<hex|-> rspfile=<hex|->
     rules <int,..|->        rule names LookupRule finds
     extra <hex,..|->        nodes no statement mentions
     files <hex,..|->        existing files        stuck <hex,..|->  existing, not removable
     args <..|->             targets (hex) / rule ids (int) / build-log entries (hex)
     run
   stdout per case:  result <id> ok|fuel removed=<hex,..|-> count=<n> status=<0|1> attempted=<hex,..|-> left=<hex,..|->
   (removed: Report() calls oldest first; attempted: removed_ oldest first; left: the `files` that still exist) *)
open Cleanmodel

let rec pos_of_int n : positive =
  if n = 1 then XH else if n land 1 = 0 then XO (pos_of_int (n lsr 1)) else XI (pos_of_int (n lsr 1))
let n_of_int n : n = if n = 0 then N0 else Npos (pos_of_int n)
let rec int_of_pos = function XH -> 1 | XO p -> 2 * int_of_pos p | XI p -> 2 * int_of_pos p + 1
let int_of_n = function N0 -> 0 | Npos p -> int_of_pos p
let rec nat_of_int n = if n <= 0 then O else S (nat_of_int (n - 1))
let rec int_of_nat = function O -> 0 | S n -> 1 + int_of_nat n
let hexval c = match c with
  | '0'..'9' -> Char.code c - 48 | 'a'..'f' -> Char.code c - 87 | 'A'..'F' -> Char.code c - 55
  | _ -> failwith "bad hex"
let bytes_of_hex (s : string) : n list =
  List.init (String.length s / 2) (fun i -> n_of_int (hexval s.[2*i] * 16 + hexval s.[2*i+1]))
let hex_of_bytes (b : n list) : string =
  String.concat "" (List.map (fun x -> Printf.sprintf "%02x" (int_of_n x)) b)
let split c s = if s = "-" || s = "" then [] else String.split_on_char c s
let paths s = List.map bytes_of_hex (split ',' s)
let show l = match l with [] -> "-" | _ -> String.concat "," (List.map hex_of_bytes l)
let kv w = List.filter_map (fun x -> match String.index_opt x '=' with
    | Some i -> Some (String.sub x 0 i, String.sub x (i + 1) (String.length x - i - 1))
    | None -> None) w
let opt s = if s = "-" then None else Some (bytes_of_hex s)

let () =
  let id = ref "" and mode = ref "" and dry = ref false and gen = ref false and fuel = ref (-1) in
  let edges = ref [] and rules = ref [] and extra = ref [] and files = ref [] and stuck = ref [] in
  let args = ref "" in
  (try while true do
    let l = input_line stdin in
    match List.filter (fun x -> x <> "") (String.split_on_char ' ' l) with
    | "case" :: i :: rest ->
      let m = kv rest in
      id := i; mode := List.assoc "mode" m; dry := List.assoc "dry" m = "1"; gen := List.assoc "gen" m = "1";
      fuel := (match List.assoc_opt "fuel" m with Some f -> int_of_string f | None -> -1);
      edges := []; rules := []; extra := []; files := []; stuck := []; args := "-"
    | "edge" :: rest ->
      let m = kv rest in
      let a k = List.assoc k m in
      edges := !edges @ [ { e_outs = paths (a "outs"); e_ins = paths (a "ins"); e_vals = paths (a "vals");
                            e_phony = a "phony" = "1"; e_generator = a "generator" = "1";
                            e_rule = n_of_int (int_of_string (a "rule"));
                            e_depfile = opt (a "depfile"); e_rspfile = opt (a "rspfile") } ]
    | [ "rules"; r ] -> rules := List.map (fun x -> n_of_int (int_of_string x)) (split ',' r)
    | [ "extra"; p ] -> extra := paths p
    | [ "files"; p ] -> files := paths p
    | [ "stuck"; p ] -> stuck := paths p
    | [ "args"; a ] -> args := a
    | [ "run" ] ->
      let g = { g_edges = !edges; g_rules = !rules; g_extra_nodes = !extra } in
      let d = disk_of !files !stuck in
      let r = match !mode with
        | "all" -> Some (clean_all !dry !gen g d)
        | "targets" ->
          if !fuel >= 0 then clean_targets_fuel (nat_of_int !fuel) !dry g d (paths !args)
          else clean_targets !dry g d (paths !args)
        | "rules" -> Some (clean_rules !dry g d (List.map (fun x -> n_of_int (int_of_string x)) (split ',' !args)))
        | "dead" -> Some (clean_dead !dry g d (paths !args))
        | _ -> failwith "bad mode" in
      (match r with
       | None -> Printf.printf "result %s fuel\n" !id
       | Some s ->
         let ((rep, cnt), st) = result s in
         let left = List.filter (fun p -> match c_disk s p with FFile -> true | _ -> false) !files in
         Printf.printf "result %s ok removed=%s count=%d status=%d attempted=%s left=%s\n" !id (show rep)
           (int_of_nat cnt) (if st then 1 else 0) (show (List.rev (c_removed s))) (show left))
    | _ -> ()
  done with End_of_file -> ())
