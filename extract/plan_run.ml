(* Driver of the extracted plan/build-loop model (from coq/Engine/README_plan.md); one binary of its own
   because PlanDefs uses generic constant names (state, step, run ...). *)
open Planmodel

(* ---- model_run plan: stateful replay of one build per "plan ... end" block -------------------- *)
let plan_main () =
  let rec nat_of_int n = if n <= 0 then O else S (nat_of_int (n - 1)) in
  let rec int_of_nat = function O -> 0 | S n -> 1 + int_of_nat n in
  let split c s = if s = "-" || s = "" then [] else String.split_on_char c s in
  let ids s = List.map (fun x -> nat_of_int (int_of_string x)) (split ',' s) in
  (* graph entries: "3" is always there, "3@5" exists once the dyndep information of edge 5 is loaded *)
  let gids s = List.map (fun x -> match String.index_opt x '@' with
      | Some i -> (nat_of_int (int_of_string (String.sub x 0 i)),
                   Some (nat_of_int (int_of_string (String.sub x (i + 1) (String.length x - i - 1)))))
      | None -> (nat_of_int (int_of_string x), None)) (split ',' s) in
  let optid s = if s = "-" then None else Some (nat_of_int (int_of_string s)) in
  let kv w = List.filter_map (fun x -> match String.index_opt x '=' with
      | Some i -> Some (String.sub x 0 i, String.sub x (i + 1) (String.length x - i - 1))
      | None -> None) w in
  let show_ids l = match List.sort compare (List.map int_of_nat l) with
    | [] -> "-" | l -> String.concat "," (List.map string_of_int l) in
  let wchar = function WNothing -> "n" | WToStart -> "s" | WToFinish -> "f" in
  let show g (s : state) =
    let p = s.s_plan in
    let ws = List.filter_map (fun (e, w) -> match w with
        | None -> None | Some w -> Some (string_of_int (int_of_nat e) ^ ":" ^ wchar w)) (want_list g p) in
    let us = List.map (fun (q, u) -> string_of_int (int_of_nat q) ^ ":" ^ string_of_int (int_of_nat u)) (use_list g p) in
    let j = function [] -> "-" | l -> String.concat "," l in
    let edge_ids = List.map fst (want_list g p) in
    Printf.sprintf "want=%s oready=%s loaded=%s ready=%s delayed=%s use=%s wanted=%d commands=%d running=%s pending=%d fa=%d exit=%d total=%d started=%d finished=%d tokens=%d failed=%s waiting=%d phase=%s"
      (j ws) (show_ids (List.filter p.p_oready edge_ids)) (show_ids (List.filter p.p_loaded edge_ids))
      (show_ids p.p_ready) (show_ids p.p_delayed) (j us) (int_of_nat p.p_wanted)
      (int_of_nat p.p_commands) (show_ids s.s_running) (int_of_nat s.s_pending) (int_of_nat s.s_fa)
      (int_of_nat s.s_exit) (int_of_nat s.s_total) (int_of_nat s.s_started) (int_of_nat s.s_finished)
      (int_of_nat p.p_tokens) (show_ids s.s_failed) (if s.s_waiting then 1 else 0)
      (match s.s_phase with PhBuild -> "b" | PhInterrupted -> "i" | PhExited -> "x") in
  let cfg = ref { c_j = O; c_k = O; c_jobserver = None } in
  let pools = ref [] and edges = ref [] and wants = ref [] and oreadys = ref [] and ranks = ref [] in
  let snapw = ref 0 and snapc = ref 0 in
  let g = ref { g_edges = []; g_depths = [] } in
  let loadtbl : (int, load) Hashtbl.t = Hashtbl.create 7 in
  let loads e = Hashtbl.find_opt loadtbl (int_of_nat e) in
  let st : state option ref = ref None in          (* None = not initialised or rejected *)
  let dead = ref false in
  let out s = print_string s; print_char '\n' in
  let apply ev =
    if !dead then out "skip" else
    match !st with
    | None -> out "skip"
    | Some s ->
      (match step_res !g !cfg loads s ev with
       | Ok s' -> st := Some s'; out ("ok " ^ show !g s')
       | Forbidden -> dead := true; out "forbidden"
       | OutOfFuel -> dead := true; out "fuel") in
  (try while true do
    let l = input_line stdin in
    match List.filter (fun x -> x <> "") (String.split_on_char ' ' l) with
    | "plan" :: sid :: rest ->
      let m = kv rest in
      let geti k = int_of_string (List.assoc k m) in
      let t = geti "tokens" in
      cfg := { c_j = nat_of_int (geti "j"); c_k = nat_of_int (geti "k");
               c_jobserver = if t < 0 then None else Some (nat_of_int t) };
      pools := []; edges := []; wants := []; oreadys := []; ranks := []; st := None; dead := false;
      Hashtbl.reset loadtbl;
      out ("plan " ^ sid)
    | [ "pool"; _id; d ] -> pools := !pools @ [ nat_of_int (int_of_string d) ]
    | "edge" :: _id :: rest ->
      let m = kv rest in
      let a k = List.assoc k m in
      let ao k d = match List.assoc_opt k m with Some v -> v | None -> d in
      edges := !edges @ [ { ei_ins = gids (a "ins"); ei_cons = gids (a "cons");
                            ei_pool = nat_of_int (int_of_string (a "pool")); ei_phony = a "phony" = "1";
                            ei_ddprod = optid (ao "ddprod" "-"); ei_ddouts = ids (ao "ddouts" "-") } ];
      wants := !wants @ [ (match a "want" with "n" -> Some WNothing | "s" -> Some WToStart
                                              | "f" -> Some WToFinish | _ -> None) ];
      oreadys := !oreadys @ [ a "ready" = "1" ];
      ranks := !ranks @ [ nat_of_int (int_of_string (a "rank")) ]
    | [ "snapplan"; w; c ] -> snapw := int_of_string w; snapc := int_of_string c
    | "load" :: e :: rest ->
      (* load <edge whose EdgeFinished loads> dirty=<ids> ready=<ids> added=<id:s|id:n,..> walk=<ids> *)
      let m = kv rest in
      let a k = match List.assoc_opt k m with Some v -> v | None -> "-" in
      let added = List.map (fun x -> match String.split_on_char ':' x with
          | [ i; w ] -> (nat_of_int (int_of_string i), w = "s") | _ -> failwith "bad added") (split ',' (a "added")) in
      Hashtbl.replace loadtbl (int_of_string e)
        { ld_dirty = ids (a "dirty"); ld_ready = ids (a "ready"); ld_added = added; ld_walk = ids (a "walk") }
    | [ "init"; prio ] ->
      g := { g_edges = !edges; g_depths = !pools };
      let wa = Array.of_list !wants and oa = Array.of_list !oreadys and ra = Array.of_list !ranks in
      let at a d e = let i = int_of_nat e in if i < Array.length a then a.(i) else d in
      let sn = { sn_want = at wa None; sn_oready = at oa false;
                 sn_wanted = nat_of_int !snapw; sn_commands = nat_of_int !snapc } in
      let b x = if x then "1" else "0" in
      let s = init_state !g !cfg (ids prio) sn in
      st := Some s;
      out (Printf.sprintf "ok %s wfgraph=%s wfsnap=%s wfcfg=%s" (show !g s)
             (b (wf_graph_b !g (at ra O))) (b (wf_snap_b !g sn)) (b (wf_cfg_b !cfg)))
    | [ "start"; e; prio ] -> apply (EvStart (nat_of_int (int_of_string e), ids prio))
    | [ "auto"; allowed; prio ] ->
      if !dead then out "skip" else
      (match !st with
       | None -> out "skip"
       | Some s ->
         let evs, s' = auto_phony (plan_fuel !g) !g !cfg loads (ids prio) (ids allowed) s in
         st := Some s';
         out ("ok " ^ show !g s' ^ " auto=" ^
              show_ids (List.filter_map (function EvStart (e, _) -> Some e | _ -> None) evs)))
    | [ "wait" ] -> apply EvWait
    | [ "prune"; e ] -> apply (EvPrune (nat_of_int (int_of_string e)))
    | [ "finish"; e; c; prio ] ->
      apply (EvFinish (nat_of_int (int_of_string e), nat_of_int (int_of_string c), ids prio))
    | [ "interrupt" ] -> apply EvInterrupt
    | [ "exit"; c; m ] ->
      let m = match m with "success" -> MSuccess | "failed" -> MSubcommandFailed
                         | "noprogress" -> MCannotProgress | "stuck" -> MStuck | _ -> MInterrupted in
      apply (EvExit (nat_of_int (int_of_string c), m))
    | [ "end" ] -> out "end"
    | _ -> ()
  done with End_of_file -> ())

let () = plan_main ()
