(* Driver of the extracted build-log model (coq/Log/BuildLogDefs.v, property C08).
   One case per stdin line, one result line per case; the same protocol as harness/run_buildlog.cc.

   byte strings : lower-case hex, "-" = empty
   entry        : <name-hex>:<start>:<end>:<mtime>:<hash16>[:<cmd-hex>]   decimal start/end/mtime (signed),
                  hash in hex without prefix; the optional command text is for the C++ side only
   lists        : comma separated, "-" = empty list
   LOAD         : discard old|new warn=<0|1>  |  ok recompact=<0|1> <entries sorted by name-hex>...  |  fuel

   load <file>                          -> LOAD
   loadbuf <B> <file>                   -> LOAD with sizeof(buf_) = B (model only)
   append <file> <entries>              -> <file'> LOAD(file')    open for append (no Load) and record
   session <file> <dead-names> <entries>-> <file'> LOAD(file')    Load; Recompact if asked; record
   recompact <file> <dead-names>        -> <file'> LOAD(file')    ninja -t recompact: Load; Recompact unless discarded
   restat <file> <name:mtime,..> <names>-> <file'> LOAD(file')    ninja -t restat [names]; a stat of -1 fails
   hash <cmd-hex>                       -> (C++ only)                                                   *)
open Buildlogmodel

let rec pos_of_int n : positive =
  if n = 1 then XH else if n land 1 = 0 then XO (pos_of_int (n lsr 1)) else XI (pos_of_int (n lsr 1))
let n_of_int n : n = if n = 0 then N0 else Npos (pos_of_int n)
let rec int_of_pos = function XH -> 1 | XO p -> 2 * int_of_pos p | XI p -> 2 * int_of_pos p + 1
let int_of_n = function N0 -> 0 | Npos p -> int_of_pos p
let rec nat_of_int n = if n <= 0 then O else S (nat_of_int (n - 1))

(* 64-bit values (OCaml ints have 63 bits): int64, read as unsigned where needed *)
let rec pos_of_u64 (x : int64) : positive =
  if x = 1L then XH else
    let r = pos_of_u64 (Int64.shift_right_logical x 1) in
    if Int64.logand x 1L = 0L then XO r else XI r
let n_of_u64 x : n = if x = 0L then N0 else Npos (pos_of_u64 x)
let rec u64_of_pos = function
  | XH -> 1L
  | XO p -> Int64.shift_left (u64_of_pos p) 1
  | XI p -> Int64.logor (Int64.shift_left (u64_of_pos p) 1) 1L
let u64_of_n = function N0 -> 0L | Npos p -> u64_of_pos p
let z_of_i64 x : z =
  if x = 0L then Z0 else if Int64.compare x 0L > 0 then Zpos (pos_of_u64 x) else Zneg (pos_of_u64 (Int64.neg x))
let i64_of_z = function Z0 -> 0L | Zpos p -> u64_of_pos p | Zneg p -> Int64.neg (u64_of_pos p)

let hexval c = match c with
  | '0'..'9' -> Char.code c - 48 | 'a'..'f' -> Char.code c - 87 | 'A'..'F' -> Char.code c - 55
  | _ -> failwith "bad hex"
let byte_tab = Array.init 256 n_of_int
let bytes_of_hex (s : string) : n list =
  let s = if s = "-" then "" else s in
  let l = String.length s / 2 in
  let r = ref [] in
  for i = l - 1 downto 0 do r := byte_tab.(hexval s.[2*i] * 16 + hexval s.[2*i+1]) :: !r done;
  !r
let hex_of_bytes (b : n list) : string =
  if b = [] then "-" else begin
    let buf = Buffer.create 1024 in
    List.iter (fun x -> Buffer.add_string buf (Printf.sprintf "%02x" (int_of_n x))) b;
    Buffer.contents buf
  end

let split_ws s = List.filter (fun x -> x <> "") (String.split_on_char ' ' s)
let split_list s = if s = "-" then [] else String.split_on_char ',' s

let entry_of_token (t : string) : entry =
  match String.split_on_char ':' t with
  | nm :: s :: e :: m :: h :: _ ->
    { e_out = bytes_of_hex nm; e_start = z_of_i64 (Int64.of_string s); e_end = z_of_i64 (Int64.of_string e);
      e_mtime = z_of_i64 (Int64.of_string m); e_hash = n_of_u64 (Int64.of_string ("0x" ^ h)) }
  | _ -> failwith ("bad entry " ^ t)
let entries_of s = List.map entry_of_token (split_list s)

let show_entry (e : entry) : string =
  Printf.sprintf "%s:%Ld:%Ld:%Ld:%Lx" (hex_of_bytes e.e_out) (i64_of_z e.e_start) (i64_of_z e.e_end)
    (i64_of_z e.e_mtime) (u64_of_n e.e_hash)

let show_load (r : load_res) : string =
  match r with
  | LDiscard (old, warn) -> Printf.sprintf "discard %s warn=%d" (if old then "old" else "new") (if warn then 1 else 0)
  | LFuel -> "fuel"
  | LOk (es, rc) ->
    let shown = List.sort compare (List.map show_entry es) in
    String.concat " " ((if rc then "ok recompact=1" else "ok recompact=0") :: shown)

let with_reload (f : n list) : string = hex_of_bytes f ^ " " ^ show_load (load_log f)

let live_of (dead : string) : n list -> bool =
  let d = List.map bytes_of_hex (split_list dead) in
  fun name -> not (List.mem name d)

let case (l : string) : string =
  match split_ws l with
  | ["load"; f] -> show_load (load_log (bytes_of_hex f))
  | ["loadbuf"; b; f] -> show_load (load_log_buf (nat_of_int (int_of_string b)) (bytes_of_hex f))
  | ["append"; f; es] -> with_reload (record_append (bytes_of_hex f) (entries_of es))
  | ["session"; f; dead; es] -> with_reload (session (live_of dead) (bytes_of_hex f) (entries_of es))
  | ["recompact"; f; dead] ->
    let file = bytes_of_hex f in
    (match load_log file with
     | LOk (ents, _) -> with_reload (recompact (live_of dead) ents)
     | LDiscard (_, _) -> with_reload []              (* LOAD_NOT_FOUND: log unlinked, -t recompact does nothing *)
     | LFuel -> "fuel")
  | ["restat"; f; stats; subset] ->
    let file = bytes_of_hex f in
    let st = List.map (fun t -> match String.split_on_char ':' t with
        | [nm; m] -> (bytes_of_hex nm, Int64.of_string m) | _ -> failwith "bad stat") (split_list stats) in
    let sub = List.map bytes_of_hex (split_list subset) in
    (* DiskInterface::Stat of the harness: listed mtime, 0 = missing file *)
    let stat name = match List.assoc_opt name st with Some m -> m | None -> 0L in
    let pick name = if sub = [] || List.mem name sub then Some (z_of_i64 (stat name)) else None in
    (match load_log file with
     | LDiscard (_, _) -> with_reload []              (* LOAD_NOT_FOUND: log unlinked, nothing to restat *)
     | LFuel -> "fuel"
     | LOk (ents, _) ->
       (* a Stat error (-1) on a selected output aborts before the log is replaced *)
       if List.exists (fun e -> match pick e.e_out with Some m -> i64_of_z m = (-1L) | None -> false) ents
       then "restat-failed " ^ with_reload file
       else with_reload (restat_file pick ents))
  | _ -> "?"

let () =
  try while true do
    let l = input_line stdin in
    print_string (case l); print_char '\n'
  done with End_of_file -> ()
