(* Driver of the extracted manifest-reader model (coq/Manifest, property C12).
   Usage: manifest_run model|spec|facts [include-fuel]
   stdin : one scenario per line, the input format of `impl_run manifest`
           <root-name-hex> <n> <name1-hex> <content1-hex> ...   ("-" = empty)
   stdout: one line per scenario in the format documented in harness/run_manifest.cc;
           `model` = eval_manifest (the model of the code), `spec` = spec_manifest (the reference
           evaluator written from doc/manual.asciidoc).  Include fuel 201 unless given (the code's own limit of 200 nested
           files stops first, so the fuel is never what ends the model's recursion).
   Helpers copied from extract/model_run.ml, printer from coq/Manifest/driver_snippet.ml. *)
open Manifestmodel

let rec pos_of_int n : positive =
  if n = 1 then XH else if n land 1 = 0 then XO (pos_of_int (n lsr 1)) else XI (pos_of_int (n lsr 1))
let n_of_int n : n = if n = 0 then N0 else Npos (pos_of_int n)
let rec int_of_pos = function XH -> 1 | XO p -> 2 * int_of_pos p | XI p -> 2 * int_of_pos p + 1
let int_of_n = function N0 -> 0 | Npos p -> int_of_pos p
let rec nat_of_int n = if n <= 0 then O else S (nat_of_int (n - 1))
let rec int_of_nat = function O -> 0 | S n -> 1 + int_of_nat n
let z_of_int n : z = if n = 0 then Z0 else if n > 0 then Zpos (pos_of_int n) else Zneg (pos_of_int (-n))
let int_of_z = function Z0 -> 0 | Zpos p -> int_of_pos p | Zneg p -> - (int_of_pos p)

let hexval c = match c with
  | '0'..'9' -> Char.code c - 48 | 'a'..'f' -> Char.code c - 87 | 'A'..'F' -> Char.code c - 55
  | _ -> failwith "bad hex"
let bytes_of_hex (s : string) : n list =
  let s = if s = "-" then "" else s in
  let l = String.length s / 2 in
  List.init l (fun i -> n_of_int (hexval s.[2*i] * 16 + hexval s.[2*i+1]))
let hex_of_bytes (b : n list) : string =
  if b = [] then "-" else
  String.concat "" (List.map (fun x -> Printf.sprintf "%02x" (int_of_n x)) b)

let each_line f =
  try while true do
    let l = input_line stdin in
    print_string (f l); print_char '\n'
  done with End_of_file -> ()

let split_ws s = List.filter (fun x -> x <> "") (String.split_on_char ' ' s)

let tok_name = function
  | T_ERROR -> "error" | T_BUILD -> "build" | T_COLON -> "colon" | T_DEFAULT -> "default"
  | T_EQUALS -> "equals" | T_IDENT -> "ident" | T_INCLUDE -> "include" | T_INDENT -> "indent"
  | T_NEWLINE -> "newline" | T_PIPE -> "pipe" | T_PIPE2 -> "pipe2" | T_PIPEAT -> "pipeat"
  | T_POOL -> "pool" | T_RULE -> "rule" | T_SUBNINJA -> "subninja" | T_TEOF -> "eof"

let perr_name = function
  | E_lexing -> "lexing" | E_tabs -> "tabs"
  | E_unexpected t -> "unexpected:" ^ tok_name t
  | E_expected (w, g) -> "expected:" ^ tok_name w ^ ":" ^ tok_name g
  | E_expected_pool_name -> "expected_pool_name" | E_dup_pool -> "dup_pool"
  | E_bad_depth -> "bad_depth" | E_unexpected_var -> "unexpected_var"
  | E_expected_depth -> "expected_depth" | E_expected_rule_name -> "expected_rule_name"
  | E_dup_rule -> "dup_rule" | E_rspfile -> "rspfile" | E_expected_command -> "expected_command"
  | E_expected_var_name -> "expected_var_name" | E_expected_target -> "expected_target"
  | E_empty_path -> "empty_path" | E_unknown_target -> "unknown_target"
  | E_expected_path -> "expected_path" | E_expected_rule_ref -> "expected_rule_ref"
  | E_unknown_rule -> "unknown_rule" | E_unknown_pool -> "unknown_pool"
  | E_multiple_rules -> "multiple_rules" | E_output_twice -> "output_twice"
  | E_dyndep_not_input -> "dyndep_not_input" | E_bad_escape -> "bad_escape"
  | E_unexpected_eof -> "unexpected_eof" | E_newline_version -> "newline_version"
  | E_loading -> "loading" | E_include_depth -> "include_depth" | E_fatal_cycle -> "cycle" | E_fatal_version -> "version"
  | E_include_fuel -> "include_fuel" | E_overrun -> "overrun" | E_loop_fuel -> "loop_fuel"
  | E_lookup_fuel -> "lookup_fuel"

let manifest_file_map (w : string list) : (n list -> n list option) =
  let rec pairs = function
    | a :: b :: r -> (bytes_of_hex a, bytes_of_hex b) :: pairs r
    | _ -> [] in
  let tbl = pairs w in
  (* later entries of the same name win, like std::map::operator[]= in the harness *)
  fun name -> List.fold_left (fun acc (k, v) -> if k = name then Some v else acc) None tbl

let manifest_paths (l : n list list) : string =
  String.concat "" (string_of_int (List.length l) :: List.map (fun p -> " " ^ hex_of_bytes p) l)

let manifest_line_with evalf (include_fuel : int) (l : string) : string =
  match split_ws l with
  | root :: _n :: rest ->
    (match evalf (manifest_file_map rest) (nat_of_int include_fuel) (bytes_of_hex root) with
     | Err (_, _, E_fatal_cycle) -> "FATAL cycle"
     | Err (_, _, E_fatal_version) -> "FATAL version"
     | Err (_, _, (E_include_fuel | E_overrun | E_loop_fuel | E_lookup_fuel as c)) ->
       "MODEL " ^ perr_name c
     | Err (f, line, c) ->
       Printf.sprintf "ERR %s %d %s" (hex_of_bytes f) (int_of_nat line) (perr_name c)
     | Ok g ->
       let b = Buffer.create 256 in
       Buffer.add_string b (Printf.sprintf "OK P %d" (List.length g.g_pools));
       List.iter (fun (nm, d) ->
           Buffer.add_string b (Printf.sprintf " %s %d" (hex_of_bytes nm) (int_of_z d))) g.g_pools;
       Buffer.add_string b (" D " ^ manifest_paths g.g_defaults);
       Buffer.add_string b (Printf.sprintf " E %d" (List.length g.g_edges));
       List.iter (fun e ->
           Buffer.add_string b (" R " ^ hex_of_bytes e.d_rule);
           Buffer.add_string b (Printf.sprintf " O %s %d" (manifest_paths e.d_outs)
                                  (int_of_nat e.d_implicit_outs));
           Buffer.add_string b (Printf.sprintf " I %s %d %d" (manifest_paths e.d_ins)
                                  (int_of_nat e.d_implicit_deps) (int_of_nat e.d_order_only_deps));
           Buffer.add_string b (" V " ^ manifest_paths e.d_validations);
           Buffer.add_string b (Printf.sprintf " Q %s %d" (hex_of_bytes e.d_pool)
                                  (int_of_z e.d_pool_depth));
           Buffer.add_string b (" Y " ^ hex_of_bytes e.d_dyndep_node);
           Buffer.add_string b " B";
           List.iter (fun v -> Buffer.add_string b (" " ^ hex_of_bytes v)) e.d_bindings)
         g.g_edges;
       Buffer.contents b)
  | _ -> "BADLINE"

(* component "manifest": the model of the code; component "manifest_spec": the reference
   evaluator written from the manual (same line format) *)
let manifest_line = manifest_line_with eval_manifest
let manifest_spec_line = manifest_line_with spec_manifest

(* component "facts": structural facts about a scenario for the classifiers of tools/props/c12.py.
   The files are parsed with the reference's own syntactic pass (parse_file) and walked in
   execution order with the reference's immutable environments (paths evaluated with
   lookup_frames/eval_es/canon); semantic errors are ignored, the walk stops at the first file
   that does not parse or does not exist.  One line per scenario, records separated by " ; ":
     N <scope> <parent>                         subninja opened scope <scope> (root scope = 0)
     E <scope> <file>                           the statements of <file> start (in scope <scope>)
     C <scope> <file> <line>                    the statement at <file>:<line> contains a "$^" escape
     L <scope> <file> <line> <name> <value>     file-level binding
     R <scope> <file> <line> <name> <nb> {<key> <nrefs> <ref>*}*   rule with its bindings (declaration
                                                order) and the variables each right-hand side mentions
     B <scope> <file> <line> <rule> K <n> <key>* O <n> <p>* IO .. I .. IM .. OO .. V ..
                                                build statement: block keys, evaluated canonical paths
     X <file> <line>                            walk stopped (file missing / not parsing / depth) *)
let facts_line (include_fuel : int) (l : string) : string =
  match split_ws l with
  | root :: _n :: rest ->
    let fm = manifest_file_map rest in
    let b = Buffer.create 1024 in
    let nscope = ref 0 in
    let nl = n_of_int 10 in
    let add s = Buffer.add_string b s in
    let plist tag look l =
      add (Printf.sprintf " %s %d" tag (List.length l));
      List.iter (fun es -> let p = eval_es look es in
                  add (" " ^ hex_of_bytes (if p = [] then [] else canon p))) l in
    let exception Stop in
    let rec walk depth parent pline file (env : senv) (sc : int) : senv =
      if depth <= 0 then (add (Printf.sprintf " ; X %s %d" (hex_of_bytes parent) pline); raise Stop) else
      match fm file with
      | None -> add (Printf.sprintf " ; X %s %d" (hex_of_bytes parent) pline); raise Stop
      | Some contents ->
        (match parse_file file contents with
         | P_err (f, ln, _) -> add (Printf.sprintf " ; X %s %d" (hex_of_bytes f) (int_of_nat ln)); raise Stop
         | P_ok stmts ->
           add (Printf.sprintf " ; E %d %s" sc (hex_of_bytes file));
           List.fold_left (fun env st ->
               let look = lookup_frames (senv_frames env) in
               let caret es = List.exists (function ET_raw t -> List.mem nl t | ET_special _ -> false) es in
               let cb bl = List.exists (fun (_, es) -> caret es) bl in
               let (ln, has_caret) = match st with
                 | S_let (l, _, v) -> (l, caret v)
                 | S_rule (l, _, bl) | S_pool (l, _, bl) -> (l, cb bl)
                 | S_build (l, a, b, _, c, d, e, f, bl) -> (l, List.exists caret (a @ b @ c @ d @ e @ f) || cb bl)
                 | S_default (l, ts) -> (l, List.exists caret ts)
                 | S_include (l, _, p) -> (l, caret p) in
               if has_caret then add (Printf.sprintf " ; C %d %s %d" sc (hex_of_bytes file) (int_of_nat ln));
               match st with
               | S_let (line, name, v) ->
                 let value = eval_es look v in
                 add (Printf.sprintf " ; L %d %s %d %s %s" sc (hex_of_bytes file) (int_of_nat line)
                        (hex_of_bytes name) (hex_of_bytes value));
                 senv_bind env name value
               | S_rule (line, name, bl) ->
                 add (Printf.sprintf " ; R %d %s %d %s %d" sc (hex_of_bytes file) (int_of_nat line)
                        (hex_of_bytes name) (List.length bl));
                 List.iter (fun (k, es) ->
                     let refs = List.filter_map (function ET_special v -> Some v | ET_raw _ -> None) es in
                     add (Printf.sprintf " %s %d" (hex_of_bytes k) (List.length refs));
                     List.iter (fun r -> add (" " ^ hex_of_bytes r)) refs) bl;
                 env
               | S_pool _ | S_default _ -> env
               | S_build (line, outs, iouts, rule, ins, imps, oos, vals, bl) ->
                 let file_fr = senv_frames env in
                 let block = eval_block file_fr bl [] in
                 let plook = lookup_frames (block :: file_fr) in
                 add (Printf.sprintf " ; B %d %s %d %s K %d" sc (hex_of_bytes file) (int_of_nat line)
                        (hex_of_bytes rule) (List.length bl));
                 List.iter (fun (k, _) -> add (" " ^ hex_of_bytes k)) bl;
                 plist "O" plook outs; plist "IO" plook iouts; plist "I" plook ins;
                 plist "IM" plook imps; plist "OO" plook oos; plist "V" plook vals;
                 env
               | S_include (line, new_scope, p) ->
                 let path = eval_es look p in
                 if new_scope then begin
                   incr nscope;
                   let child = !nscope in
                   add (Printf.sprintf " ; N %d %d" child sc);
                   ignore (walk (depth - 1) file (int_of_nat line) path
                             ({ f_vars = []; f_rules = [] } :: env) child);
                   env
                 end else walk (depth - 1) file (int_of_nat line) path env sc)
             env stmts) in
    (try ignore (walk include_fuel [] 0 (bytes_of_hex root) [ { f_vars = []; f_rules = [] } ] 0)
     with Stop -> ());
    "F" ^ Buffer.contents b
  | _ -> "BADLINE"

let () =
  let fuel = if Array.length Sys.argv > 2 then int_of_string Sys.argv.(2) else 201 in
  match (if Array.length Sys.argv > 1 then Sys.argv.(1) else "") with
  | "model" | "manifest" -> each_line (manifest_line fuel)
  | "spec" | "manifest_spec" -> each_line (manifest_spec_line fuel)
  | "facts" -> each_line (facts_line fuel)
  | _ -> prerr_endline "usage: manifest_run model|spec|facts [include-fuel]"; exit 2
