(* Driver of the extracted dyndep model (coq/Dyndep/DyndepDefs.v).  Usage: dyndep_run <component>
   One case per line on stdin, one result line per case on stdout.

   load    <file_restat> <f> <content> <nedges> {<edge>}*
             <file_restat> = n | t | f      "restat" bound at file level (absent / non-empty / empty)
             <f>           = hex name of the dyndep file
             <content>     = hex content ("-" empty) | "!" file missing | "~" do not load
             <edge>        = <outs> <n_implicit_outs> <ins> <n_implicit> <n_order_only> <dyndep> <scope> <rule>
                             outs/ins comma separated hex ("-" none); dyndep hex or "~";
                             scope = n (no scope of its own) | s (scope, no restat) | t | f ;
                             rule  = n | t | f   (the rule's own restat binding)
           -> PRE <graph> POST OK <graph> | POST ERR <class> | POST NONE
              (same format as `impl_run dyndep`, see harness/run_dyndep.cc)
   inline  same input -> INL <graph>   inline_dyndep g stmts  (stmts = parse of the content against g)
                         | INL ERR <class>  when the content does not parse
   parse   <content>  -> OK {<stmt>}* | ERR <class>          (parse_dyndep: syntax only)
             <stmt> = <out>/<imp_outs>/<imp_ins>/<0|1>        (lists comma separated hex, "-" none)
   print   {<stmt>}*  -> <hex of print_dyndep> <wf 0|1> <parse_dyndep (print) = Ok stmts ? 1 : 0> *)
open Dyndepmodel

let rec pos_of_int n : positive =
  if n = 1 then XH else if n land 1 = 0 then XO (pos_of_int (n lsr 1)) else XI (pos_of_int (n lsr 1))
let n_of_int n : n = if n = 0 then N0 else Npos (pos_of_int n)
let rec int_of_pos = function XH -> 1 | XO p -> 2 * int_of_pos p | XI p -> 2 * int_of_pos p + 1
let int_of_n = function N0 -> 0 | Npos p -> int_of_pos p
let rec nat_of_int n = if n <= 0 then O else S (nat_of_int (n - 1))
let rec int_of_nat = function O -> 0 | S n -> 1 + int_of_nat n

let hexval c = match c with
  | '0'..'9' -> Char.code c - 48 | 'a'..'f' -> Char.code c - 87 | 'A'..'F' -> Char.code c - 55
  | _ -> failwith "bad hex"
let bytes_of_hex (s : string) : n list =
  let s = if s = "-" then "" else s in
  let l = String.length s / 2 in
  List.init l (fun i -> n_of_int (hexval s.[2*i] * 16 + hexval s.[2*i+1]))
let hex_of_bytes (b : n list) : string =
  if b = [] then "-" else
  String.concat "" (List.map (fun x -> Printf.sprintf "%02x" (int_of_n x)) b)
let string_of_bytes (b : n list) : string =
  String.init (List.length b) (fun i -> Char.chr (int_of_n (List.nth b i) land 255))

let split_ws s = List.filter (fun x -> x <> "") (String.split_on_char ' ' s)
let names s = if s = "-" || s = "" then [] else List.map bytes_of_hex (String.split_on_char ',' s)
let show_names l = if l = [] then "-" else String.concat "," (List.map hex_of_bytes l)

let tok_class = function
  | T_ERROR -> "error" | T_BUILD -> "build" | T_COLON -> "colon" | T_DEFAULT -> "default"
  | T_EQUALS -> "equals" | T_IDENT -> "ident" | T_INCLUDE -> "include" | T_INDENT -> "indent"
  | T_NEWLINE -> "newline" | T_PIPE -> "pipe" | T_PIPE2 -> "pipe2" | T_PIPEAT -> "pipeat"
  | T_POOL -> "pool" | T_RULE -> "rule" | T_SUBNINJA -> "subninja" | T_TEOF -> "eof"

let err_class = function
  | E_loading -> "loading"
  | E_version_expected_build | E_version_expected_eof | E_version_expected_name -> "expected_version"
  | E_unexpected t -> "unexpected:" ^ tok_class t
  | E_lex_token tab -> if tab then "tabs" else "lexing"
  | E_unsupported_version -> "unsupported_version"
  | E_expected_var_name -> "expected_var_name"
  | E_expected (w, g) -> "expected:" ^ tok_class w ^ ":" ^ tok_class g
  | E_expected_path -> "expected_path"
  | E_empty_path -> "empty_path"
  | E_no_build_stmt -> "no_build_stmt"
  | E_multiple_stmts -> "multiple_stmts"
  | E_explicit_outs -> "explicit_outs"
  | E_expected_dyndep -> "expected_dyndep"
  | E_explicit_ins -> "explicit_ins"
  | E_order_only -> "order_only"
  | E_binding_not_restat -> "binding_not_restat"
  | E_bad_escape -> "bad_escape"
  | E_unexpected_eof -> "unexpected_eof"
  | E_lexing -> "lexing"
  | E_newline_version -> "newline_version"
  | E_not_mentioned -> "not_mentioned"
  | E_not_bound -> "not_bound"
  | E_multiple_rules -> "multiple_rules"
  | E_overrun -> "MODEL_overrun"
  | E_fuel -> "MODEL_fuel"

let tri = function "n" -> None | "t" -> Some true | "f" -> Some false | _ -> failwith "tri"

let rec take_edges k w acc =
  if k = 0 then (List.rev acc, w) else
  match w with
  | outs :: nio :: ins :: nimp :: noo :: dd :: sc :: rl :: rest ->
    let e = { e_outs = names outs; e_nimp_out = nat_of_int (int_of_string nio);
              e_ins = names ins; e_nimp = nat_of_int (int_of_string nimp);
              e_noo = nat_of_int (int_of_string noo);
              e_dyndep = (if dd = "~" then None else Some (bytes_of_hex dd));
              e_scope = (match sc with "n" -> NoScope | "s" -> Scope None | x -> Scope (tri x));
              e_rule_restat = tri rl } in
    take_edges (k - 1) rest (e :: acc)
  | _ -> failwith "edge"

let dump (g : graph) : string =
  let b = Buffer.create 256 in
  Buffer.add_string b ("G " ^ string_of_int (List.length g.g_edges));
  let module SM = Map.Make (String) in
  let nodes = ref SM.empty in
  List.iter (fun e ->
      Buffer.add_string b (Printf.sprintf " | %s %d %s %d %d R%s S%s D%s"
        (show_names e.e_outs) (int_of_nat e.e_nimp_out) (show_names e.e_ins)
        (int_of_nat e.e_nimp) (int_of_nat e.e_noo)
        (if edge_restat g e then "1" else "0")
        (match e.e_scope with NoScope -> "0" | Scope _ -> "1")
        (match e.e_dyndep with None -> "~" | Some d -> hex_of_bytes d));
      List.iter (fun n -> nodes := SM.add (string_of_bytes n) n !nodes) (e.e_outs @ e.e_ins))
    g.g_edges;
  Buffer.add_string b " #";
  SM.iter (fun _ n ->
      let p = match producer g n with None -> "~" | Some i -> string_of_int (int_of_nat i) in
      let oe = List.sort compare (List.map int_of_nat (out_edges g n)) in
      let oes = if oe = [] then "-" else String.concat "." (List.map string_of_int oe) in
      Buffer.add_string b (" " ^ hex_of_bytes n ^ ":" ^ p ^ ":" ^ oes)) !nodes;
  Buffer.contents b

let parse_case l =
  match split_ws l with
  | fr :: f :: content :: ne :: rest ->
    let (edges, _) = take_edges (int_of_string ne) rest [] in
    ({ g_edges = edges; g_file_restat = tri fr }, bytes_of_hex f, content)
  | _ -> failwith "case"

let show_stmt st =
  Printf.sprintf "%s/%s/%s/%d" (hex_of_bytes st.dd_out) (show_names st.dd_imp_outs)
    (show_names st.dd_imp_ins) (if st.dd_restat then 1 else 0)
let read_stmt s =
  match String.split_on_char '/' s with
  | [o; os; is; r] -> { dd_out = bytes_of_hex o; dd_imp_outs = names os; dd_imp_ins = names is;
                        dd_restat = (r = "1") }
  | _ -> failwith "stmt"

let each_line f =
  try while true do
    let l = input_line stdin in
    print_string (f l); print_char '\n'
  done with End_of_file -> ()

let () =
  match Sys.argv.(1) with
  | "load" -> each_line (fun l ->
      let (g, f, content) = parse_case l in
      let pre = "PRE " ^ dump g in
      if content = "~" then pre ^ " POST NONE" else
      let c = if content = "!" then None else Some (bytes_of_hex content) in
      (match dyndep_load g f c with
       | Ok g' -> pre ^ " POST OK " ^ dump g'
       | Err e -> pre ^ " POST ERR " ^ err_class e))
  | "inline" -> each_line (fun l ->
      let (g, _, content) = parse_case l in
      (match parse_gen (graph_chk g) (bytes_of_hex content) with
       | Ok stmts -> "INL " ^ dump (inline_dyndep g stmts)
       | Err e -> "INL ERR " ^ err_class e))
  | "parse" -> each_line (fun l ->
      match parse_dyndep (bytes_of_hex (String.trim l)) with
      | Ok stmts -> String.concat " " ("OK" :: List.map show_stmt stmts)
      | Err e -> "ERR " ^ err_class e)
  | "print" -> each_line (fun l ->
      let stmts = List.map read_stmt (split_ws l) in
      let txt = print_dyndep stmts in
      let wf = List.for_all wf_stmt stmts in
      let rt = (match parse_dyndep txt with Ok s -> s = stmts | Err _ -> false) in
      Printf.sprintf "%s %d %d" (hex_of_bytes txt) (if wf then 1 else 0) (if rt then 1 else 0))
  | c -> prerr_endline ("unknown component " ^ c); exit 2
