(* Driver of the extracted dependency-scan model WITH scan-time dyndep loads (coq/Engine/ScanDynDefs.v);
   scan_run.ml plus the dyndep tables:  Y=<edge:ddnode,..> bindings   O=<ddnode:e+e..,..> out_edges of the dyndep nodes
   X=<ddnode:b | ddnode:p:edge/outs/ins/r;edge/outs/ins/r.. ,..> file content (absent = missing, b = parse error, p:- = no entries)
   I=1 : run the dyndep-free [scan] on [inline di g] instead of [scan_dyn] *)
(* Driver for the extracted Gallina models: reads one case per line on stdin, prints one
   canonical result line per case.  Usage: model_run <component> *)
open Scandynmodel

let rec pos_of_int n : positive =
  if n = 1 then XH else if n land 1 = 0 then XO (pos_of_int (n lsr 1)) else XI (pos_of_int (n lsr 1))
let n_of_int n : n = if n = 0 then N0 else Npos (pos_of_int n)
let rec int_of_pos = function XH -> 1 | XO p -> 2 * int_of_pos p | XI p -> 2 * int_of_pos p + 1
let int_of_n = function N0 -> 0 | Npos p -> int_of_pos p
let rec nat_of_int n = if n <= 0 then O else S (nat_of_int (n - 1))
let rec int_of_nat = function O -> 0 | S n -> 1 + int_of_nat n
let z_of_int n : z = if n = 0 then Z0 else if n > 0 then Zpos (pos_of_int n) else Zneg (pos_of_int (-n))
let int_of_z = function Z0 -> 0 | Zpos p -> int_of_pos p | Zneg p -> - (int_of_pos p)

let hexval c = match c with
  | '0'..'9' -> Char.code c - 48 | 'a'..'f' -> Char.code c - 87 | 'A'..'F' -> Char.code c - 55
  | _ -> failwith "bad hex"
let bytes_of_hex (s : string) : n list =
  let s = if s = "-" then "" else s in
  let l = String.length s / 2 in
  List.init l (fun i -> n_of_int (hexval s.[2*i] * 16 + hexval s.[2*i+1]))
let hex_of_bytes (b : n list) : string =
  if b = [] then "-" else
  String.concat "" (List.map (fun x -> Printf.sprintf "%02x" (int_of_n x)) b)

let each_line f =
  try while true do
    let l = input_line stdin in
    print_string (f l); print_char '\n'
  done with End_of_file -> ()

let split_ws s = List.filter (fun x -> x <> "") (String.split_on_char ' ' s)


(* ---- scan ---- *)
let n_of_hex (s : string) : n =          (* 64 bits: OCaml ints have 63 *)
  let bits = List.concat_map (fun c -> let v = hexval c in [v land 8 <> 0; v land 4 <> 0; v land 2 <> 0; v land 1 <> 0])
      (List.init (String.length s) (String.get s)) in
  List.fold_left (fun acc b -> match acc, b with
      | N0, false -> N0 | N0, true -> Npos XH
      | Npos p, false -> Npos (XO p) | Npos p, true -> Npos (XI p)) N0 bits
let ids sep s = if s = "-" || s = "" then [] else List.map int_of_string (String.split_on_char sep s)
let nids sep s = List.map nat_of_int (ids sep s)
let field kv k = try List.assoc k kv with Not_found -> "-"
let items s = if s = "-" || s = "" then [] else String.split_on_char ',' s
let scan_line (l : string) : string =
  let kv = List.map (fun t -> match String.index_opt t '=' with
      | Some i -> (String.sub t 0 i, String.sub t (i + 1) (String.length t - i - 1))
      | None -> (t, "")) (split_ws l) in
  let nnodes = int_of_string (field kv "N") in
  let edges = Array.of_list (List.map (fun e ->
      match String.split_on_char '/' e with
      | [ins; nimp; noo; outs; vals; fl; deps; hash] ->
        { ei_ins = nids '+' ins; ei_nimp = nat_of_int (int_of_string nimp); ei_noo = nat_of_int (int_of_string noo);
          ei_outs = nids '+' outs; ei_vals = nids '+' vals;
          ei_phony = fl.[0] = '1'; ei_restat = fl.[1] = '1'; ei_generator = fl.[2] = '1';
          ei_deps = (match deps with "0" -> DepsNone | "1" -> DepsDepfile | _ -> DepsLog);
          ei_hash = n_of_hex hash }
      | _ -> failwith "bad edge") (if field kv "E" = "-" then [] else String.split_on_char ';' (field kv "E"))) in
  let ne = Array.length edges in
  let dummy = { ei_ins = []; ei_nimp = O; ei_noo = O; ei_outs = []; ei_vals = []; ei_phony = false;
                ei_restat = false; ei_generator = false; ei_deps = DepsNone; ei_hash = N0 } in
  let producer = Hashtbl.create 64 in
  Array.iteri (fun i e -> List.iter (fun o -> let o = int_of_nat o in
                                      if not (Hashtbl.mem producer o) then Hashtbl.add producer o i) e.ei_outs) edges;
  let byl = Hashtbl.create 16 in
  List.iter (fun n -> Hashtbl.replace byl n ()) (ids ',' (field kv "L"));
  let g = { g_nedges = nat_of_int ne;
            g_edge = (fun e -> let i = int_of_nat e in if i < ne then edges.(i) else dummy);
            g_producer = (fun n -> match Hashtbl.find_opt producer (int_of_nat n) with
                | Some e -> Some (nat_of_int e) | None -> None);
            g_byloader = (fun n -> Hashtbl.mem byl (int_of_nat n)) } in
  let mt = Hashtbl.create 64 and bl = Hashtbl.create 64 and dl = Hashtbl.create 16 and df = Hashtbl.create 16 in
  List.iter (fun it -> match String.split_on_char ':' it with
      | [n; m] -> Hashtbl.replace mt (int_of_string n) (z_of_int (int_of_string m)) | _ -> failwith "bad M") (items (field kv "M"));
  List.iter (fun it -> match String.split_on_char ':' it with
      | [n; h; m] -> Hashtbl.replace bl (int_of_string n) (n_of_hex h, z_of_int (int_of_string m)) | _ -> failwith "bad B") (items (field kv "B"));
  List.iter (fun it -> match String.split_on_char ':' it with
      | [n; m; ins] -> Hashtbl.replace dl (int_of_string n) (z_of_int (int_of_string m), nids '+' ins) | _ -> failwith "bad D") (items (field kv "D"));
  List.iter (fun it -> match String.split_on_char ':' it with
      | [e; "e"] -> Hashtbl.replace df (int_of_string e) DfEmpty
      | [e; "u"] -> Hashtbl.replace df (int_of_string e) DfUnparsable
      | [e; "p"; outs; ins] -> Hashtbl.replace df (int_of_string e) (DfParsed (nids '+' outs, nids '+' ins))
      | _ -> failwith "bad F") (items (field kv "F"));
  let w = { w_mtime = (fun n -> match Hashtbl.find_opt mt (int_of_nat n) with Some m -> m | None -> Z0);
            w_blog = (fun n -> Hashtbl.find_opt bl (int_of_nat n));
            w_dlog = (fun n -> Hashtbl.find_opt dl (int_of_nat n));
            w_depfile = (fun e -> match Hashtbl.find_opt df (int_of_nat e) with Some d -> d | None -> DfMissing) } in
  let yb = Hashtbl.create 16 and oe = Hashtbl.create 16 and xf = Hashtbl.create 16 in
  List.iter (fun it -> match String.split_on_char ':' it with
      | [e; d] -> Hashtbl.replace yb (int_of_string e) (nat_of_int (int_of_string d)) | _ -> failwith "bad Y") (items (field kv "Y"));
  List.iter (fun it -> match String.split_on_char ':' it with
      | [d; es] -> Hashtbl.replace oe (int_of_string d) (nids '+' es) | _ -> failwith "bad O") (items (field kv "O"));
  List.iter (fun it -> match String.split_on_char ':' it with
      | [d; "b"] -> Hashtbl.replace xf (int_of_string d) DdBad
      | [d; "p"; ents] ->
        let l = if ents = "-" || ents = "" then [] else String.split_on_char ';' ents in
        Hashtbl.replace xf (int_of_string d) (DdParsed (List.map (fun en ->
            match String.split_on_char '/' en with
            | [e; outs; ins; r] -> { de_edge = nat_of_int (int_of_string e); de_outs = nids '+' outs; de_ins = nids '+' ins; de_restat = r = "1" }
            | _ -> failwith "bad X entry") l))
      | _ -> failwith "bad X") (items (field kv "X"));
  let di = { di_dyndep = (fun e -> Hashtbl.find_opt yb (int_of_nat e));
             di_outedges = (fun n -> match Hashtbl.find_opt oe (int_of_nat n) with Some l -> l | None -> []);
             di_file = (fun n -> match Hashtbl.find_opt xf (int_of_nat n) with Some x -> x | None -> DdMissing) } in
  let b x = if x then "1" else "0" in
  let js sep l = if l = [] then "-" else String.concat sep l in
  let si n = string_of_int (int_of_nat n) in
  let ok (g : graph) (s : sstate) (p : plan) (pend : nat -> bool) =
    let ns = List.init nnodes (fun i ->
        let x = s.st_node (nat_of_int i) in
        Printf.sprintf "%d:%s:%d:%d" i (b x.ns_dirty) (int_of_z x.ns_mtime)
          (match x.ns_exists with ExUnknown -> 0 | ExMissing -> 1 | ExExists -> 2)) in
    let es = List.init ne (fun i ->
        let x = s.st_edge (nat_of_int i) in
        let ei = g.g_edge (nat_of_int i) in
        Printf.sprintf "%d:%d:%s:%s:%s:%d:%s:%s:%s:%s" i
          (match x.es_mark with VisitNone -> 0 | VisitInStack -> 1 | VisitDone -> 2)
          (b x.es_ready) (b x.es_deps_loaded) (b x.es_deps_missing) (int_of_nat x.es_nimp)
          (js "+" (List.map si x.es_ins))
          (match p.p_want (nat_of_int i) with None -> "-" | Some WantNothing -> "n"
                                            | Some WantToStart -> "s" | Some WantToFinish -> "f")
          (js "+" (List.map si ei.ei_outs)) (b ei.ei_restat)) in
    let pd = List.filter_map (fun i -> if pend (nat_of_int i) then Some (string_of_int i) else None) (List.init nnodes (fun i -> i)) in
    Printf.sprintf "ok nodes=%s edges=%s wanted=%d commands=%d pending=%s" (js "," ns) (js "," es)
      (int_of_nat p.p_wanted) (int_of_nat p.p_commands) (js "," pd) in
  let cyc p = "cycle " ^ js "," (List.map si p) in
  let mis n d = "missing " ^ si n ^ " " ^ (match d with Some d -> si d | None -> "-") in
  if field kv "I" = "1" then
    let g' = inline di g in
    match scan g' w (nids ',' (field kv "T")) with
    | ScanCycle p -> cyc p
    | ScanMissing (n, d) -> mis n d
    | ScanLoadErr e -> "loaderr " ^ si e
    | ScanOutOfFuel -> "outoffuel"
    | ScanOk (s, p) -> ok g' s p (fun _ -> false)
  else
  match scan_dyn di g w (nids ',' (field kv "T")) with
  | SdCycle p -> cyc p
  | SdMissing (n, d) -> mis n d
  | SdLoadErr e -> "loaderr " ^ si e
  | SdOutOfFuel -> "outoffuel"
  | SdDyn (DeLoad d) -> "dynerr load " ^ si d
  | SdDyn (DeNotMentioned (e, d)) -> "dynerr notmentioned " ^ si e ^ " " ^ si d
  | SdDyn (DeExtra (d, e)) -> "dynerr extra " ^ si d ^ " " ^ si e
  | SdDyn (DeMultiple n) -> "dynerr multiple " ^ si n
  | SdOk (d, p) -> ok d.d_g d.d_s p d.d_pending

let () = match Sys.argv.(1) with "scan" | "scandyn" -> each_line scan_line | c -> prerr_endline ("unknown component " ^ c); exit 2
