(* Driver of the extracted deps-log model (coq/Log/DepsLogDefs.v, property C09 and the deps-log
   part of C13).  One case per stdin line, one result line per case; the same protocol as
   harness/run_depslog.cc.  Run it with an unlimited stack (ulimit -s unlimited): the model works
   on unary naturals / non-tail-recursive list functions and records may have 512 KiB.

   byte strings : lower-case hex, "-" = empty
   FILE         : file content in hex; "-" = no file, "empty" = an existing empty file (the same
                  thing for the model)
   lists        : comma separated, "-" = empty list (path lists: elements in hex)
   op           : <out-hex>:<mtime>:<in-hex>+<in-hex>...   ("-" for no inputs), mtime signed decimal int64
   LOAD         : badheader
                | unsafe <code>                 the C++ has undefined behaviour / aborts (DUnsafe code)
                | ok trunc=<n|-> recompact=<0|1> paths=<hex,hex,..> deps=<outid:mtime:id+id;...>
                  paths in id order ("-" = the empty path, nothing after "=" = no paths); deps = the
                  LATEST accepted record per out id, ascending out id ("-" for no dep ids)

   load <FILE>                          -> LOAD                        (load_deps: every UB class)
   loadx86 <FILE>                       -> LOAD                        (load_deps_x86: without the misaligned-load class)
   session <FILE> <dead-paths> <op>...  -> <file'> LOAD(file')  |  unsafe <code>  |  unsafe c<code> (Recompact)
        Load; OpenForWrite (Recompact when the load asked for it; live = not in dead-paths); RecordDeps...; Close
   recompact <FILE> <dead-paths>        -> <file'|nofile> LOAD(file')  |  unsafe ...       ninja -t recompact
   sessionx86 / recompactx86            -> the same with the x86 reader (no misaligned-load class)
   view <FILE> <out-paths>              -> badheader | unsafe <code> | <v> <v> ...   GetDeps of each path after Load,
        v = none | <mtime>:<path-hex>+<path-hex>.. ("-" no deps, "?" dangling id)
   spec <out-paths> <op>...             -> <v> <v> ...                 abstract_ops: the latest RecordDeps per output
   safe <FILE>                          -> <safe_file true> <safe_file false>  as 0/1
   encpath <id> <path-hex>              -> record bytes (enc_path_record)
   encdeps <out-id> <mtime> <id,id..>   -> record bytes (enc_deps_record)
   wf <op>                              -> 0|1 (wf_op)                                              *)
open Depslogmodel

let rec pos_of_int n : positive =
  if n = 1 then XH else if n land 1 = 0 then XO (pos_of_int (n lsr 1)) else XI (pos_of_int (n lsr 1))
let n_of_int n : n = if n = 0 then N0 else Npos (pos_of_int n)
let rec int_of_pos = function XH -> 1 | XO p -> 2 * int_of_pos p | XI p -> 2 * int_of_pos p + 1
let int_of_n = function N0 -> 0 | Npos p -> int_of_pos p
let int_of_nat (x : nat) : int =
  let rec go acc = function O -> acc | S n -> go (acc + 1) n in go 0 x

(* 64-bit values (OCaml ints have 63 bits): int64 *)
let rec pos_of_u64 (x : int64) : positive =
  if x = 1L then XH else
    let r = pos_of_u64 (Int64.shift_right_logical x 1) in
    if Int64.logand x 1L = 0L then XO r else XI r
let rec u64_of_pos = function
  | XH -> 1L
  | XO p -> Int64.shift_left (u64_of_pos p) 1
  | XI p -> Int64.logor (Int64.shift_left (u64_of_pos p) 1) 1L
let z_of_i64 x : z =
  if x = 0L then Z0 else if Int64.compare x 0L > 0 then Zpos (pos_of_u64 x) else Zneg (pos_of_u64 (Int64.neg x))
let i64_of_z = function Z0 -> 0L | Zpos p -> u64_of_pos p | Zneg p -> Int64.neg (u64_of_pos p)

let hexval c = match c with
  | '0'..'9' -> Char.code c - 48 | 'a'..'f' -> Char.code c - 87 | 'A'..'F' -> Char.code c - 55
  | _ -> failwith "bad hex"
let byte_tab = Array.init 256 n_of_int
let bytes_of_hex (s : string) : n list =
  let s = if s = "-" then "" else s in
  let l = String.length s / 2 in
  let r = ref [] in
  for i = l - 1 downto 0 do r := byte_tab.(hexval s.[2*i] * 16 + hexval s.[2*i+1]) :: !r done;
  !r
let hexdig = "0123456789abcdef"
let hex_of_bytes (b : n list) : string =
  if b = [] then "-" else begin
    let buf = Buffer.create 1024 in
    List.iter (fun x -> let v = int_of_n x in
                Buffer.add_char buf hexdig.[v lsr 4]; Buffer.add_char buf hexdig.[v land 15]) b;
    Buffer.contents buf
  end

let split_ws s = List.filter (fun x -> x <> "") (String.split_on_char ' ' s)
let split_list s = if s = "-" || s = "" then [] else String.split_on_char ',' s
let file_of s = if s = "-" || s = "empty" then [] else bytes_of_hex s
let paths_of s = List.map bytes_of_hex (split_list s)

let op_of (s : string) : dop =
  match String.split_on_char ':' s with
  | [o; m; ins] ->
    let ins = if ins = "-" || ins = "" then [] else List.map bytes_of_hex (String.split_on_char '+' ins) in
    RecordDeps (bytes_of_hex o, z_of_i64 (Int64.of_string m), ins)
  | _ -> failwith ("bad op " ^ s)

let live_of (dead : n list list) : n list -> bool = fun p -> not (List.mem p dead)

let show_load (r : dload) : string =
  match r with
  | DBadHeader -> "badheader"
  | DUnsafe w -> "unsafe " ^ string_of_int (int_of_nat w)
  | DFuel -> "fuel"
  | DOk (s, tr, nr) ->
    let seen = Hashtbl.create 64 in
    let latest = List.filter (fun (o, _) ->
        let k = int_of_n o in
        if Hashtbl.mem seen k then false else (Hashtbl.add seen k (); true)) s.d_deps in
    let latest = List.sort (fun (a, _) (b, _) -> compare (int_of_n a) (int_of_n b)) latest in
    let dep (o, (m, ins)) =
      Printf.sprintf "%d:%Ld:%s" (int_of_n o) (i64_of_z m)
        (if ins = [] then "-" else String.concat "+" (List.map (fun i -> string_of_int (int_of_n i)) ins)) in
    Printf.sprintf "ok trunc=%s recompact=%d paths=%s deps=%s"
      (match tr with None -> "-" | Some k -> string_of_int (int_of_nat k))
      (if nr then 1 else 0)
      (String.concat "," (List.map hex_of_bytes s.d_paths))
      (String.concat ";" (List.map dep latest))

let show_view (v : (z * n list option list) option) : string =
  match v with
  | None -> "none"
  | Some (m, ps) ->
    Printf.sprintf "%Ld:%s" (i64_of_z m)
      (if ps = [] then "-" else
         String.concat "+" (List.map (function None -> "?" | Some p -> hex_of_bytes p) ps))

let show_file f = if f = [] then "nofile" else hex_of_bytes f

let do_case (l : string) : string =
  match split_ws l with
  | ["load"; f] -> show_load (load_deps (file_of f))
  | ["loadx86"; f] -> show_load (load_deps_x86 (file_of f))
  | ("session" | "sessionx86" as c) :: f :: dead :: ops ->
    let strict = (c = "session") in
    let file = file_of f and live = live_of (paths_of dead) and ops = List.map op_of ops in
    (match load_deps_gen strict file with
     | DUnsafe w -> "unsafe " ^ string_of_int (int_of_nat w)
     | DOk (s, _, true) when (match recompact_r live s with CUnsafe _ -> true | _ -> false) ->
       (match recompact_r live s with CUnsafe w -> "unsafe c" ^ string_of_int (int_of_nat w) | _ -> "?")
     | _ ->
       let f2 = session_gen strict live file ops in
       show_file f2 ^ " " ^ show_load (load_deps_gen strict f2))
  | [("recompact" | "recompactx86" as c); f; dead] ->
    let strict = (c = "recompact") in
    let file = file_of f and live = live_of (paths_of dead) in
    (match load_deps_gen strict file with
     | DUnsafe w -> "unsafe " ^ string_of_int (int_of_nat w)
     | DOk (s, _, _) when (match recompact_r live s with CUnsafe _ -> true | _ -> false) ->
       (match recompact_r live s with CUnsafe w -> "unsafe c" ^ string_of_int (int_of_nat w) | _ -> "?")
     | r ->
       (* recompact_file, for either alignment variant *)
       let f2 = if strict then recompact_file live file else
           (match r with
            | DOk (s, tr, _) ->
              (match recompact_r live s with
               | COk (_, f) -> f
               | _ -> (match tr with Some k -> firstn k file | None -> file))
            | DBadHeader -> []
            | _ -> file) in
       if f2 = [] then "nofile nofile" else show_file f2 ^ " " ^ show_load (load_deps_gen strict f2))
  | ["view"; f; outs] ->
    (match load_deps (file_of f) with
     | DBadHeader -> "badheader"
     | DUnsafe w -> "unsafe " ^ string_of_int (int_of_nat w)
     | DFuel -> "fuel"
     | DOk (s, _, _) -> String.concat " " (List.map (fun o -> show_view (view s o)) (paths_of outs)))
  | "spec" :: outs :: ops ->
    let ops = List.map op_of ops in
    String.concat " " (List.map (fun o -> show_view (spec_view (abstract_ops ops o))) (paths_of outs))
  | ["safe"; f] ->
    let file = file_of f in
    (if safe_file true file then "1" else "0") ^ " " ^ (if safe_file false file then "1" else "0")
  | ["encpath"; id; p] -> hex_of_bytes (enc_path_record (n_of_int (int_of_string id)) (bytes_of_hex p))
  | ["encdeps"; o; m; ids] ->
    hex_of_bytes (enc_deps_record (n_of_int (int_of_string o)) (z_of_i64 (Int64.of_string m))
                    (List.map (fun i -> n_of_int (int_of_string i)) (split_list ids)))
  | ["wf"; op] -> if wf_op (op_of op) then "1" else "0"
  | _ -> "badcase"

let () =
  try while true do
    let l = input_line stdin in
    print_string (try do_case l with Failure m -> "error " ^ m); print_char '\n'
  done with End_of_file -> ()
