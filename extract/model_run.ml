(* Driver for the extracted Gallina models: reads one case per line on stdin, prints one
   canonical result line per case.  Usage: model_run <component> *)
open Model

let rec pos_of_int n : positive =
  if n = 1 then XH else if n land 1 = 0 then XO (pos_of_int (n lsr 1)) else XI (pos_of_int (n lsr 1))
let n_of_int n : n = if n = 0 then N0 else Npos (pos_of_int n)
let rec int_of_pos = function XH -> 1 | XO p -> 2 * int_of_pos p | XI p -> 2 * int_of_pos p + 1
let int_of_n = function N0 -> 0 | Npos p -> int_of_pos p
let rec nat_of_int n = if n <= 0 then O else S (nat_of_int (n - 1))
let rec int_of_nat = function O -> 0 | S n -> 1 + int_of_nat n
let z_of_int n : z = if n = 0 then Z0 else if n > 0 then Zpos (pos_of_int n) else Zneg (pos_of_int (-n))
let int_of_z = function Z0 -> 0 | Zpos p -> int_of_pos p | Zneg p -> - (int_of_pos p)

let hexval c = match c with
  | '0'..'9' -> Char.code c - 48 | 'a'..'f' -> Char.code c - 87 | 'A'..'F' -> Char.code c - 55
  | _ -> failwith "bad hex"
let bytes_of_hex (s : string) : n list =
  let s = if s = "-" then "" else s in
  let l = String.length s / 2 in
  List.init l (fun i -> n_of_int (hexval s.[2*i] * 16 + hexval s.[2*i+1]))
let hex_of_bytes (b : n list) : string =
  if b = [] then "-" else
  String.concat "" (List.map (fun x -> Printf.sprintf "%02x" (int_of_n x)) b)

let each_line f =
  try while true do
    let l = input_line stdin in
    print_string (f l); print_char '\n'
  done with End_of_file -> ()

let split_ws s = List.filter (fun x -> x <> "") (String.split_on_char ' ' s)

let () =
  match Sys.argv.(1) with
  | "canon" -> each_line (fun l -> hex_of_bytes (canon (bytes_of_hex l)))
  | "esc" -> each_line (fun l -> hex_of_bytes (shell_escape (bytes_of_hex l)))
  | "pathlist" -> each_line (fun l ->
      match split_ws l with
      | [] -> "-"
      | v :: names ->
        let sep = n_of_int (if v = "in_newline" then 10 else 32) in
        hex_of_bytes (make_path_list sep (List.map bytes_of_hex names)))
  | "shwords" -> each_line (fun l ->
      match sh_words (bytes_of_hex l) with
      | None -> "none"
      | Some ws -> "some " ^ String.concat " " (List.map hex_of_bytes ws))
  | "json" -> each_line (fun l -> hex_of_bytes (json_encode (bytes_of_hex l)))
  | "jsondec" -> each_line (fun l -> match json_decode (bytes_of_hex l) with None -> "none" | Some b -> "some " ^ hex_of_bytes b)
  | "utf8" -> each_line (fun l -> if utf8_valid (bytes_of_hex l) then "1" else "0")
  | "depfile" -> each_line (fun l ->
      let lst xs = if xs = [] then "-" else String.concat "," (List.map hex_of_bytes xs) in
      match parse_depfile (bytes_of_hex l) with
      | DOk (o, i) -> "OK " ^ lst o ^ " " ^ lst i
      | DErr ErrNoColon -> "ERR nocolon"
      | DErr ErrInputsHaveInputs -> "ERR inputs"
      | DOutOfFuel -> "ERR outoffuel")
  | "depfile_idx" -> each_line (fun l -> let (_, n) = parse_depfile_idx (bytes_of_hex l) in string_of_int (int_of_nat n))
  | "depfile_wf" -> each_line (fun l ->   (* <0|1 esc_colon> <name-hex> *)
      match split_ws l with [c; n] -> if wf_gen (c = "1") (bytes_of_hex n) then "1" else "0" | _ -> "?")
  | "depfile_render" -> each_line (fun l ->
      (* <esc_colon 0|1> <layout: letters O C then modifiers r(crlf) t(trail)> rule;rule  with rule = t,t:d,d *)
      match split_ws l with
      | c :: lay :: rules ->
        let base = if lay.[0] = 'C' then ContPerName else OneLine in
        let lay' = ref base in
        String.iteri (fun i ch -> if i > 0 then (if ch = 'r' then lay' := Crlf !lay' else if ch = 't' then lay' := TrailBlank !lay')) lay;
        let names s = if s = "-" || s = "" then [] else List.map bytes_of_hex (String.split_on_char ',' s) in
        let rule r = match String.split_on_char ':' r with [t; d] -> (names t, names d) | _ -> failwith "rule" in
        hex_of_bytes (render_rules_gen (c = "1") !lay' (List.map rule rules))
      | _ -> "?")
  | "canon_spec" -> each_line (fun l -> hex_of_bytes (canon_spec (bytes_of_hex l)))
  | c -> prerr_endline ("unknown component " ^ c); exit 2
